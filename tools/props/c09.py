"""C09 - a sub-graph behaves the same inlined or nested, at any depth."""
import engine_common as ec
import engine_plugin as ep
import c09shape as shp

ID = "C09"
LEAN_MODULES = ['HgVerif.Props.C09', 'HgVerif.Props.C09Flow', 'HgVerif.Model.Engine', 'HgVerif.Model.Extracted'] + list(shp.LEAN_MODULES)
THEOREMS = ['HgVerif.Engine.nested_push_clamped', 'HgVerif.Engine.child_not_before_parent', 'HgVerif.Engine.root_schedule_direct', 'HgVerif.Sched.child_wakeups_kept', 'HgVerif.Sched.push_wakes_parent',
            'HgVerif.NestFlow.push_fold_is_Nest_push', 'HgVerif.NestFlow.nested_eval_is_Nest_eval', 'HgVerif.NestFlow.nest_cycle', 'HgVerif.NestFlow.star_cycle',
            'HgVerif.NestFlow.nested_cycle_eq_inlined', 'HgVerif.NestFlow.star_run', 'HgVerif.NestFlow.nested_run_eq_inlined', 'HgVerif.NestFlow.nested_sim_inlined_flow',
            'HgVerif.NestFlow.nested_depth_irrelevant_flow', 'HgVerif.NestFlow.order_nest1', 'HgVerif.NestFlow.nested1_run_eq_inlined'] + list(shp.THEOREMS)
CXX_TARGETS = ['hgv_engine'] + list(shp.CXX_TARGETS)
USES_EXTRACT = True
RULE = 'each generated sub-graph definition (stateful nodes, self-scheduling scripts, internal sources, passive/unchecked inputs) is wired twice in one parent, nested and inlined, with sinks on both outputs that must record equal streams; non-trivial = >=2 cycles with user code; distinct by program text' + ' ' + shp.RULE
TRUSTED = ['forwarding output / ParentInput alias modelled as direct bindings to the leaf producer'] + list(shp.TRUSTED)
ASSUMPTIONS = ['all ports TS[int]; REF-shaped boundaries are part of C13'] + list(shp.ASSUMPTIONS)
TECHNIQUE = 'Lean 4 proof of the nested scheduling invariants (clamp, child never ahead of parent) and of nested = inlined for flat dataflow sub-graphs at every depth of a chain (lock-step simulation of the child cycle with the child stretch of the inlined scan, induction over the nesting tree) + differential correspondence + nested-vs-inlined reference monitor'
LEVEL_TEXT = ("Kernel-checked: an out-of-band schedule on an idle child is clamped to the parent's current time and reaches the parent node no later than that time; a child is never evaluated ahead of its parent. NESTED = INLINED for flat dataflow sub-graphs (Props/C09Flow.lean): for every flat dataflow F with arbitrary node functions (frame condition, self-requests in the future), every nesting tree over F of any depth (each graph run by the generic scan of graph.cpp, the nested node = child cycle + propagate_nested_parent_schedule, boundary writes through nested_schedule_node_impl with its clamp, child-output writes delivered to the outer consumers) and every topological rank of the inlined flow, from corresponding idle states after start: one cycle leaves every node in the same state with the same user-code runs, the same writers and corresponding schedule slots / next time (nested_cycle_eq_inlined), and whole simulation runs have the same cycle times, the same final state of every node and the same ok flag (nested_run_eq_inlined = nested_sim_inlined_flow); two nestings of one dataflow agree (nested_depth_irrelevant_flow). The executable model of nested start / evaluate / pull-propagate / push path is compared trace-for-trace with the runtime, and for every generated definition the nested and the inlined wiring must produce identical sink streams (monitor)."
              " Structured results and implicit captures (Props/C09Shape.lean, Props/C09Capture.lean, stream nestshape): for the forwarding-tree binder as coded, every leaf of a structured result is bound after start, the outer delta of a cycle equals the body's delta and the outer value the body's value at every depth (nested_delta_eq_inlined_delta, nested_depth_irrelevant), nothing ticks outside without a body tick; the outer-capture table maps two references to one slot iff they are the same port and binds each captured body input to exactly that outer port through any number of levels (capture_slots_injective_on_ports, captured_binding_through_levels); the known finding C09-composed and the seeded short-circuit / node-keyed table are kept as kernel-checked counter-witnesses."
              ' Child interning of boundary sources (Props/C09BoundaryKey.lean): two body nodes of a compiled child wiring are merged iff they have the same definition, scalars and sources INCLUDING the projection path of a declared or captured boundary argument (merged_iff_same_def_scalars_sources), and every request is served by a node with exactly its own inputs; the path-less key variant provably merges twins on two elements of one parameter.')
LEVEL_NOTE = 'Trusted: Lean kernel; model tied by correspondence. The run-level theorem covers chains of nested flat dataflows from corresponding states AFTER start (start-time sampling is where the known finding F2 lives; Corr fails at time 0 there and nothing is claimed); not covered by proof, only by the nested-vs-inlined monitor on generated programs: several nested nodes in one graph, map_/switch_/try_except children, failing nodes, structured boundaries beyond the forwarding-binder theorems, the push-source prefix.'


def streams(rng, tier, seed):
    n = 150 if tier == "quick" else 4000
    progs = [ec.gen_nested(rng, both=True) for _ in range(n)]
    return [ec.engine_stream("engine-nested", progs)] + shp.streams(rng, tier, seed)


_mon = ep.monitor_for(ID)


def monitor(stream, case, out):
    return shp.monitor(stream, case, out) if stream.startswith("nestshape-") else _mon(stream, case, out)


def features(stream, case, out):
    return shp.features(stream, case, out) if stream.startswith("nestshape-") else ep.features(stream, case, out)


def alarm_filter(stream, case, impl_out, model_out):
    if stream.startswith("nestshape-"):
        f = getattr(shp, "alarm_filter", None)
        return f(stream, case, impl_out, model_out) if f else (True, [])
    return ep.alarm_filter(stream, case, impl_out, model_out)


def nontrivial(stream, case, out):
    return shp.nontrivial(stream, case, out) if stream.startswith("nestshape-") else ep.nontrivial(stream, case, out)


def valid_case(stream, case, impl_out, model_out):
    if stream.startswith("nestshape-"):
        f = getattr(shp, "valid_case", None)
        return f(stream, case, impl_out, model_out) if f else True
    return ep.valid_case(stream, case, impl_out, model_out)
