"""C09 - a sub-graph behaves the same inlined or nested, at any depth."""
import engine_common as ec
import engine_plugin as ep

ID = "C09"
LEAN_MODULES = ['HgVerif.Props.C09', 'HgVerif.Model.Engine', 'HgVerif.Model.Extracted']
THEOREMS = ['HgVerif.Engine.nested_push_clamped', 'HgVerif.Engine.child_not_before_parent', 'HgVerif.Engine.root_schedule_direct', 'HgVerif.Sched.child_wakeups_kept', 'HgVerif.Sched.push_wakes_parent']
CXX_TARGETS = ['hgv_engine']
USES_EXTRACT = True
RULE = 'each generated sub-graph definition (stateful nodes, self-scheduling scripts, internal sources, passive/unchecked inputs) is wired twice in one parent, nested and inlined, with sinks on both outputs that must record equal streams; non-trivial = >=2 cycles with user code; distinct by program text'
TRUSTED = ['forwarding output / ParentInput alias modelled as direct bindings to the leaf producer']
ASSUMPTIONS = ['all ports TS[int]; REF-shaped boundaries are part of C13']
TECHNIQUE = 'Lean 4 proof of the nested scheduling invariants (clamp, child never ahead of parent) + differential correspondence + nested-vs-inlined reference monitor'
LEVEL_TEXT = "Kernel-checked: an out-of-band schedule on an idle child is clamped to the parent's current time and reaches the parent node no later than that time; a child is never evaluated ahead of its parent. The executable model of nested start / evaluate / pull-propagate / push path is compared trace-for-trace with the runtime, and for every generated definition the nested and the inlined wiring must produce identical sink streams (monitor)."
LEVEL_NOTE = 'Trusted: Lean kernel; model tied by correspondence. The full simulation theorem nested_sim_inlined is NOT proved; its statement is kept in Props/C09.lean and the equality is enforced by the monitor on generated programs (partial).'


def streams(rng, tier, seed):
    n = 150 if tier == "quick" else 4000
    progs = [ec.gen_nested(rng, both=True) for _ in range(n)]
    return [ec.engine_stream("engine-nested", progs)]


monitor = ep.monitor_for(ID)
features = ep.features
alarm_filter = ep.alarm_filter
nontrivial = ep.nontrivial

valid_case = ep.valid_case
