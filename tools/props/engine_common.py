"""Shared by the engine-level properties (C01 C02 C03 C04 C08 C09 C14 C15): program generator for
harness/drv_engine.cpp, trace parser, and the reference monitor `den_check`.

The monitor is a *denotational* reading of the program (no slots, no ranks, no caches): it follows
the observed cycle sequence and, for every cycle, recomputes from the dataflow alone which nodes'
user code must run, with which input values/flags, which sinks tick, which errors tick and at which
time the next cycle must happen.  Deviations are classified by the property they belong to.
"""
import os, re
from vlib import Case, Stream, BUILD, model_cmd

ENGINE = os.path.join(BUILD, "hgv_engine")

# ---------------------------------------------------------------------------- program text

class Stmt:
    def __init__(self, lbl, kind, args, native=False):
        # `ngate` is the gate node built as a NATIVE node (readiness decided by node.cpp's generic gate):
        # same semantics, so everything downstream sees kind "gate"; only the program text differs
        self.native = native or kind == "ngate"
        self.sos = kind == "sscript"         # script node whose type declares schedule_on_start (same semantics otherwise)
        self.lbl, self.kind, self.args = lbl, ("gate" if kind == "ngate" else "script" if kind == "sscript" else kind), list(args)

    def line(self):
        return "node %d %s %s" % (self.lbl, "ngate" if self.native and self.kind == "gate" else
                                  "sscript" if getattr(self, "sos", False) and self.kind == "script" else self.kind,
                                  " ".join(str(a) for a in self.args))

    def port_args(self):
        k = self.kind
        if k in ("add", "gate"):
            return self.args[:2]
        if k == "gate3":
            return self.args[:3]
        if k in ("acc", "pass", "sink", "probe", "errts", "errtsv"):
            return self.args[:1]
        if k == "addk":
            return self.args[1:3]
        if k == "sinkk":
            return self.args[1:2]
        if k == "nscript":
            return self.args[1:3]
        if k == "script":
            return self.args[1:2]
        if k == "thrower":
            return self.args[1:2]
        if k in ("nested", "tryx", "inline"):
            return self.args[1:]
        if k == "fbbind":
            return self.args[1:2]
        if k in ("tryout", "tryerr"):
            return self.args[:1]
        return []


def strip(a):
    a = str(a)
    return a[1:] if a.startswith("~") else a


def kahn_order(stmts):
    """The rank pass's order (FIFO Kahn, insertion-order tie-break) applied to a statement list,
    so that statement order == rank order in the real wiring."""
    by = {str(s.lbl): s for s in stmts}
    indeg = {str(s.lbl): 0 for s in stmts}
    cons = {str(s.lbl): [] for s in stmts}
    for s in stmts:
        seen = set()
        for a in s.port_args():
            k = strip(a)
            if k in by and k not in seen:
                seen.add(k)
                indeg[str(s.lbl)] += 1
                cons[k].append(str(s.lbl))
    ready = [str(s.lbl) for s in stmts if indeg[str(s.lbl)] == 0]
    out = []
    while ready:
        x = ready.pop(0)
        out.append(by[x])
        for c in cons[x]:
            indeg[c] -= 1
            if indeg[c] == 0:
                ready.append(c)
    return out if len(out) == len(stmts) else list(stmts)


def topo_shuffle(rng, stmts):
    """a random statement order that respects port availability (any linear extension)"""
    by = {str(s.lbl): s for s in stmts}
    deps = {str(s.lbl): {strip(a) for a in s.port_args() if strip(a) in by} for s in stmts}
    # fbbind must follow its fbsrc statement as well
    fsrc = {str(s.args[0]): str(s.lbl) for s in stmts if s.kind == "fbsrc"}
    for s in stmts:
        if s.kind == "fbbind":
            deps[str(s.lbl)].add(fsrc[str(s.args[0])])
    out, done = [], set()
    left = [str(s.lbl) for s in stmts]
    while left:
        ready = [x for x in left if deps[x] <= done]
        x = rng.choice(ready)
        left.remove(x); done.add(x); out.append(by[x])
    return out


class Prog:
    def __init__(self):
        self.start, self.end, self.cleanup = 1, 40, True
        self.ticks, self.scripts, self.faults, self.subs = {}, {}, {}, {}
        self.root = []

    def lines(self, idx):
        L = ["case %d" % idx, "cfg %d %d%s" % (self.start, self.end, "" if self.cleanup else " cleanup=0")]
        for k, t in self.ticks.items():
            L.append("ticks %d %s" % (k, " ".join("%d:%d" % tv for tv in t)))
        for k, sc in self.scripts.items():
            L.append("script %d %s" % (k, " ; ".join(" ".join(ops) if ops else "-" for ops in sc)))
        for k, f in self.faults.items():
            L.append("faults %d %s" % (k, " ".join(f)))
        for sid, (ar, body, out) in self.subs.items():
            L.append("sub %d %d" % (sid, ar))
            L += [s.line() for s in body]
            L.append("endsub %s" % out)
        L += [s.line() for s in self.root]
        for a, b in getattr(self, "pairs", []):
            L.append("#pair %s %s" % (a, b))
        L.append("run")
        return L


def parse_prog(lines):
    p = Prog()
    cur = None
    for ln in lines:
        w = ln.split()
        if not w:
            continue
        if w[0] == "cfg":
            p.start, p.end = int(w[1]), int(w[2])
            p.cleanup = "cleanup=0" not in w[3:]
        elif w[0] == "ticks":
            p.ticks[int(w[1])] = [tuple(int(x) for x in t.split(":")) for t in w[2:]]
        elif w[0] == "script":
            groups, g = [], []
            for t in w[2:]:
                if t == ";":
                    groups.append(g); g = []
                else:
                    g.append(t)
            groups.append(g)
            p.scripts[int(w[1])] = [[o for o in g if o != "-"] for g in groups]
        elif w[0] == "faults":
            p.faults[int(w[1])] = w[2:]
        elif w[0] == "sub":
            cur = int(w[1]); p.subs[cur] = [int(w[2]), [], "-"]
        elif w[0] == "endsub":
            p.subs[cur][2] = w[1]; cur = None
        elif w[0] == "#pair":
            p.pairs = getattr(p, "pairs", []) + [(w[1], w[2])]
        elif w[0] == "node":
            s = Stmt(int(w[1]), w[2], w[3:])
            (p.subs[cur][1] if cur is not None else p.root).append(s)
    return p


# ---------------------------------------------------------------------------- flat elaboration

class FNode:
    def __init__(self, label, kind, ins, params, region=None, plabel=None):
        self.label, self.kind, self.ins, self.params, self.region = label, kind, ins, params, region
        self.plabel = plabel if plabel is not None else label      # what the trace prints


def elaborate(p):
    """Inline everything.  Returns (nodes in evaluation order, regions)
    ins: list of (source label, passive, unchecked, port) with port in main|err|bundle."""
    nodes, regions = [], {}
    interned = {}

    def go(stmts, env, path, region, off=0, boundary_ok=False):
        fbs = {}
        for s in stmts:
            key = str(s.lbl + off)
            lab = path + key

            def ref(a, unchecked=False, port=None):
                a = str(a)
                passive = a.startswith("~")
                k = a[1:] if passive else a
                if not k.startswith("$") and off:
                    k = str(int(k) + off)
                src = env[k]
                return (src[0], passive, unchecked, port or src[1], boundary_ok and k.startswith("$"))
            k = s.kind
            if k == "const":
                nodes.append(FNode(lab, k, [], {"v": int(s.args[0])}, region)); env[key] = (lab, "main")
            elif k == "src":
                nodes.append(FNode(lab, k, [], {"id": int(s.args[0])}, region)); env[key] = (lab, "main")
            elif k in ("add",):
                nodes.append(FNode(lab, k, [ref(s.args[0]), ref(s.args[1])], {}, region)); env[key] = (lab, "main")
            elif k == "addk":
                ins = [ref(s.args[1]), ref(s.args[2])]
                ikey = ("add", str(s.args[0]), tuple((r[0], r[1]) for r in ins), path)
                if ikey in interned:
                    env[key] = (interned[ikey], "main")     # same definition, scalars and inputs: one shared node
                else:
                    interned[ikey] = lab
                    nodes.append(FNode(lab, "add", ins, {}, region, plabel=path + str(s.args[0]))); env[key] = (lab, "main")
            elif k == "sinkk":
                nodes.append(FNode(lab, "sink", [ref(s.args[1])], {}, region, plabel=path + str(s.args[0])))
            elif k in ("acc", "pass"):
                nodes.append(FNode(lab, k, [ref(s.args[0])], {}, region)); env[key] = (lab, "main")
            elif k == "gate":
                f = s.args[2]
                nodes.append(FNode(lab, k, [ref(s.args[0], f[0] == "U"), ref(s.args[1], f[1] == "U")], {}, region))
                env[key] = (lab, "main")
            elif k == "gate3":       # three inputs; flags = 3 validity chars + 3 activity chars (P = passive by SIGNATURE)
                f = s.args[3]
                ins = []
                for i in range(3):
                    r = ref(s.args[i], f[i] == "U")
                    ins.append((r[0], r[1] or f[3 + i] == "P", r[2], r[3], r[4]))
                nodes.append(FNode(lab, "gate", ins, {}, region))
                env[key] = (lab, "main")
            elif k == "nscript":     # native script node: two inputs, both required valid
                nodes.append(FNode(lab, "script", [ref(s.args[1]), ref(s.args[2])], {"id": int(s.args[0]), "sos": False}, region))
                env[key] = (lab, "main")
            elif k == "script":
                ins = [ref(s.args[1], True)] if len(s.args) >= 2 else []
                nodes.append(FNode(lab, k, ins, {"id": int(s.args[0]), "sos": getattr(s, "sos", False)}, region)); env[key] = (lab, "main")
            elif k == "sink":
                nodes.append(FNode(lab, k, [ref(s.args[0])], {}, region))
            elif k == "thrower":
                nodes.append(FNode(lab, k, [ref(s.args[1])], {"id": int(s.args[0]), "lbl": s.lbl + off}, region))
                env[key] = (lab, "main")
            elif k == "probe":
                r = ref(s.args[0], True)
                nodes.append(FNode(lab, k, [(r[0], True, True, r[3], r[4])], {}, region))
            elif k in ("errts", "errtsv"):
                r = ref(s.args[0])
                has_ins = False
                for n in nodes:
                    if n.label == r[0]:
                        n.params["captures"] = True
                        has_ins = bool(n.ins)
                prm = {}
                if k == "errtsv":    # explicit ErrorCaptureOptions(depth, capture_values): v = the back trace carries input values
                    prm["v"] = 1 if (int(s.args[1]) != 0 and int(s.args[2]) != 0 and has_ins) else 0
                nodes.append(FNode(lab, "errmsg", [(r[0], False, False, "err", False)], prm, region)); env[key] = (lab, "main")
            elif k in ("nested", "tryx", "inline"):
                ar, body, out = p.subs[int(s.args[0])]
                def argkey(a):
                    kk = strip(a)
                    return kk if (not off or kk.startswith("$")) else str(int(kk) + off)
                cenv = {"$%d" % i: env[argkey(s.args[1 + i])] for i in range(ar)}
                if k == "inline":
                    sub_off = 1000 * (s.lbl + off)
                    e2 = dict(cenv)
                    go(body, e2, path, region, sub_off, False)
                    if out != "-":
                        ok = out if out.startswith("$") else str(int(out) + sub_off)
                        env[key] = e2[ok]
                    for kk, vv in e2.items():
                        if not kk.startswith("$"):
                            env[kk] = vv
                else:
                    # the nested node itself: evaluated (engine level) whenever an argument ticks or
                    # the child has work; transparent for the dataflow
                    argsrc = [cenv["$%d" % i] for i in range(ar)]
                    reg = None
                    if k == "tryx":
                        reg = lab
                        regions[lab] = {"nodes": [], "out": None, "outer": region}
                    nodes.append(FNode(lab, "nestedhead", [(a[0], False, True, a[1], False) for a in argsrc], {"try": k == "tryx"}, region))
                    e2 = dict(cenv)
                    before = len(nodes)
                    go(body, e2, lab + "/", reg if reg else region, 0, True)
                    if reg:
                        regions[lab]["nodes"] = [n.label for n in nodes[before:]]
                        regions[lab]["out"] = e2[out] if out != "-" else None
                        env["try:" + key] = (lab, "bundle")
                        nodes.append(FNode(lab + "#end", "nestedtail", [], {"head": lab, "try": True}, region))
                    else:
                        if out != "-":
                            env[key] = e2[out]
                        nodes.append(FNode(lab + "#end", "nestedtail", [], {"head": lab, "try": False}, region))
            elif k in ("tryout", "tryerr"):
                t = env["try:" + str(int(s.args[0]) + off)]
                nodes.append(FNode(lab, k, [(t[0], False, True, "bundle", False)], {}, region)); env[key] = (lab, "main")
            elif k == "fbsrc":
                init = int(s.args[1]) if len(s.args) >= 2 else None
                nodes.append(FNode(path + "#fbsrc%s" % s.args[0], "fbsrc", [], {"init": init, "fid": int(s.args[0])}, region))
                env[key] = (path + "#fbsrc%s" % s.args[0], "main"); fbs[int(s.args[0])] = path + "#fbsrc%s" % s.args[0]
            elif k == "fbbind":
                nodes.append(FNode(path + "#fbsink%s" % s.args[0], "fbsink", [ref(s.args[1])], {"src": fbs[int(s.args[0])]}, region))
    go(p.root, {}, "", None)
    return nodes, regions


# ---------------------------------------------------------------------------- trace parsing

def parse_trace(line):
    return [e.strip() for e in line.split("|")]


class Trace:
    def __init__(self, events):
        self.events = events
        self.start_events, self.cycles, self.tail = [], [], []
        cur, depth, phase = None, 0, "start"
        for e in events:
            w = e.split()
            if not w:
                continue
            if w[0] == "ge+" and w[1].startswith("@"):
                cur = {"t": int(w[1][1:]), "ev": [], "next": None}
                self.cycles.append(cur); phase = "cycle"
                continue
            if w[0] == "ge=" and w[1].startswith("@"):
                if cur is not None:
                    cur["next"] = w[2].split("=")[1]
                phase = "between"
                cur = None
                continue
            if phase == "start":
                self.start_events.append(e)
            elif phase == "cycle":
                cur["ev"].append(e)
            else:
                self.tail.append(e)

    def result(self):
        for e in self.events:
            if e.startswith("run-ok") or e.startswith("run-err") or e.startswith("build-err"):
                return e
        return "?"


# ---------------------------------------------------------------------------- the reference monitor

USER_TAGS = ("E ", "T ", "X ", "P ")
TAGN = {"": 0, "a": 1, "b": 2, "c": 3}


def parse_op(t):
    op, rest = t[0], t[1:]
    num, _, tag = rest.partition(":")
    return op, (int(num) if num not in ("", "-") and (num.lstrip("-").isdigit()) else 0), tag


class Den:
    def __init__(self, p, sampled_start_quirk=False):
        self.p = p
        self.quirk = sampled_start_quirk
        self.quirk_hits = 0
        self.nodes, self.regions = elaborate(p)
        self.by = {n.label: n for n in self.nodes}
        self.val, self.lmt, self.err, self.errlmt = {}, {}, {}, {}
        self.st = {n.label: {"tot": 0, "k": 0, "pend": set(), "slack": set(), "idx": 0, "calls": {"s": 0, "e": 0, "x": 0},
                              "fb": None, "started": False} for n in self.nodes}
        self.kicked = set()      # labels woken for the running cycle by a `k` script op
        self.abandoned = False   # F6: a scheduler node was due in a child cycle that an exception ended
        self.dev = []       # (class, message)
        self.stats = {"o1_slack": 0, "cycles": 0, "user_runs": 0, "errors": 0}

    # ---- input views
    def ivalid(self, r):
        s, port = r[0], r[3]
        if port == "err":
            return s in self.err
        if port == "bundle":
            return s in self.val or s in self.err
        return s in self.val

    def ilmt(self, r):
        s, port = r[0], r[3]
        if port == "err":
            return self.errlmt.get(s, 0)
        if port == "bundle":
            return max(self.lmt.get(s, 0), self.errlmt.get(s, 0))
        return self.lmt.get(s, 0)

    def imod(self, r, t):
        return self.ivalid(r) and self.ilmt(r) == t

    def ival(self, r):
        return self.val.get(r[0], 0)

    def desc(self, r, t):
        return "%d%d,%s" % (self.ivalid(r), self.imod(r, t), self.ival(r) if self.ivalid(r) else "-")

    def qstr(self, st, now):
        pend = st["pend"]
        mn = min((e[0] for e in pend), default=0)
        return "q=%d,%d,%d" % (mn, 1 if pend else 0, 1 if pend and mn == now else 0)

    def run_ops(self, n, ops, now, started):
        st = self.st[n.label]
        emit = None
        self.thrown = False
        for tok in ops:
            op, num, tag = parse_op(tok)
            if op in ("s", "S"):
                w = now + num if op == "s" else num
                if (w <= now) if started else (w < now):
                    continue
                if tag:
                    old = {e for e in st["pend"] if e[1] == tag}
                    st["slack"] |= {e[0] for e in old}
                    st["pend"] -= old
                st["pend"].add((w, tag))
            elif op == "u":
                old = {e for e in st["pend"] if e[1] == tag}
                st["slack"] |= {e[0] for e in old}
                st["pend"] -= old
            elif op == "U":
                if st["pend"]:
                    e = min(st["pend"], key=lambda e: (e[0], e[1]))
                    st["pend"].discard(e); st["slack"].add(e[0])
            elif op == "p":
                old = {e for e in st["pend"] if e[1] == tag}
                st["slack"] |= {e[0] for e in old}
                st["pend"] -= old
            elif op == "r":
                st["slack"] |= {e[0] for e in st["pend"]}
                st["pend"] = set()
            elif op == "o":
                emit = num
            elif op == "k":
                # graph.schedule_node(<node `num` of the same graph>, now): a node still ahead of the scan runs in this
                # cycle, a node the scan has passed is not evaluated again (and no plain node is ever due later for it)
                self.kicked.add(n.label[:n.label.rfind("/") + 1] + str(num))
            elif op == "x":
                self.thrown = True      # the ops before it took effect; the rest is not executed
                break
        return emit

    # ---- start
    def start(self):
        """returns expected user-visible start logs (multiset)"""
        logs = []
        t = self.p.start
        for n in self.nodes:
            st = self.st[n.label]
            if n.kind == "script":
                sc = self.p.scripts.get(n.params["id"], [])
                self.run_ops(n, sc[0] if sc else [], t, False)
                st["k"] = 1
                st["sos"] = bool(n.params.get("sos"))      # schedule_on_start: owed an evaluation in the start cycle
                logs.append("B %s %d %s" % (n.label, t, self.qstr(st, t)))
            elif n.kind == "thrower":
                st["calls"]["s"] += 1
                logs.append("s %s %d" % (n.label, t))
                if "s%d" % st["calls"]["s"] in self.p.faults.get(n.params["id"], []):
                    return logs, "boom-start-%d" % n.params["lbl"]
            elif n.kind == "fbsrc" and n.params["init"] is not None:
                st["fb"] = (t, n.params["init"])
            st["started"] = True
        return logs, None

    # ---- next cycle time
    def wake_times(self, after):
        """mandatory and optional (O1 slack) wake-up times strictly after `after` (or == start)"""
        must, may = set(), set()
        for n in self.nodes:
            st = self.st[n.label]
            if n.kind == "const" and after < self.p.start:
                must.add(self.p.start)
            elif n.kind == "src":
                tk = self.p.ticks.get(n.params["id"], [])
                i = st["idx"]
                if i < len(tk):
                    must.add(max(tk[i][0], self.p.start))
            elif n.kind == "script":
                if st.get("sos") and after < self.p.start:
                    must.add(self.p.start)
                for e in st["pend"]:
                    must.add(e[0])
                for s in st["slack"]:
                    may.add(s)
            elif n.kind == "probe":
                nxt = max(after + 1, self.p.start)
                if nxt < self.p.end:
                    must.add(nxt)
            elif n.kind == "fbsrc" and st["fb"] is not None:
                must.add(st["fb"][0])
            if self.quirk and after < self.p.start and n.ins and all(r[2] for r in n.ins) and any(r[4] and not r[1] for r in n.ins):
                must.add(self.p.start)
        lo = after
        return {x for x in must if x > lo or (x == self.p.start and after < self.p.start)}, {x for x in may if x > lo}

    # ---- one cycle
    def cycle(self, t):
        """returns (expected user logs as list, engine-evaluated labels set, failure msg or None)"""
        logs, engine = [], []
        ticked = set()        # (label, port)
        failed_regions = set()
        fail = None

        def write(lab, v):
            self.val[lab] = v; self.lmt[lab] = t; ticked.add((lab, "main"))

        def write_err(lab, msg):
            self.err[lab] = msg; self.errlmt[lab] = t; ticked.add((lab, "err"))

        def src_ticked(r):
            s, port = r[0], r[3]
            if port == "bundle":
                return (s, "main") in ticked or (s, "err") in ticked
            return (s, port) in ticked

        skip_until = None
        self.kicked = set()
        for n in self.nodes:
            st = self.st[n.label]
            if fail:
                break
            # a failed try region: the remaining inner nodes are not evaluated this cycle
            if n.region is not None and n.region in failed_regions:
                if n.kind == "script":
                    hit = any((not r[1]) and src_ticked(r) for r in n.ins) or any(e[0] == t for e in st["pend"])
                    if hit and st["pend"]:
                        # F6: the node was due in the cycle the exception ended; its evaluation is abandoned
                        # with the cycle and, with it, the bookkeeping of its own timer (consume the due
                        # event, re-arm the later ones)
                        self.abandoned = True
                continue
            k = n.kind
            in_tick = any((not r[1]) and src_ticked(r) for r in n.ins)
            self_wake = False
            quirk_wake = False
            if self.quirk and t == self.p.start and not st.get("sampled") and n.ins and all(r[2] for r in n.ins) \
                    and any(r[4] and not r[1] for r in n.ins):
                # F2 (known finding): nested child start schedules consumers with an explicit empty
                # validity gate even though the boundary source is unset
                st["sampled"] = True
                quirk_wake = True
                self.quirk_hits += 1
            if k == "const":
                self_wake = t == self.p.start and st["k"] == 0
            elif k == "src":
                tk = self.p.ticks.get(n.params["id"], [])
                self_wake = st["idx"] < len(tk) and max(tk[st["idx"]][0], self.p.start) == t
            elif k == "script":
                self_wake = any(e[0] == t for e in st["pend"]) or (t in st["slack"] and (n.label, t) in self.observed) \
                    or bool(st.get("sos") and t == self.p.start)
                if t >= self.p.start:
                    st["sos"] = False
            elif k == "probe":
                self_wake = True
            elif k == "fbsrc":
                self_wake = st["fb"] is not None and st["fb"][0] == t
            self_wake = self_wake or quirk_wake or (n.label in self.kicked)
            if k == "nestedhead":
                continue
            if k == "nestedtail":
                head = n.params["head"]
                if n.params["try"]:
                    reg = self.regions[head]
                    if head in failed_regions:
                        pass
                    elif reg["out"] is not None and (reg["out"][0], "main") in ticked:
                        # the `out` field forwards the child's output
                        self.val[head] = self.val[reg["out"][0]]; self.lmt[head] = t; ticked.add((head, "main"))
                continue
            if not (in_tick or self_wake):
                continue
            engine.append(n.label)
            ready = all(r[2] or self.ivalid(r) for r in n.ins)
            if n.ins and not ready:
                # engine-level evaluation without user code; a scheduler node still consumes its event
                if k == "script":
                    st["pend"] = {e for e in st["pend"] if e[0] > t}
                continue
            self.stats["user_runs"] += 1
            a = n.ins[0] if n.ins else None
            b = n.ins[1] if len(n.ins) > 1 else None
            err = None
            if k == "const":
                st["k"] = 1; write(n.label, n.params["v"])
            elif k == "src":
                tk = self.p.ticks.get(n.params["id"], [])
                i = st["idx"]
                while i < len(tk) and tk[i][0] <= t:
                    if tk[i][0] == t:
                        write(n.label, tk[i][1])
                    i += 1
                st["idx"] = i
            elif k == "add":
                logs.append("E %s %d a=%s b=%s" % (n.plabel, t, self.desc(a, t), self.desc(b, t)))
                write(n.label, self.ival(a) + self.ival(b))
            elif k == "acc":
                logs.append("E %s %d a=%s" % (n.label, t, self.desc(a, t)))
                st["tot"] += self.ival(a); write(n.label, st["tot"])
            elif k == "pass":
                logs.append("E %s %d a=%s" % (n.label, t, self.desc(a, t)))
                write(n.label, self.ival(a))
            elif k == "gate":
                logs.append("E %s %d" % (n.label, t) + "".join(" %s=%s" % (nm, self.desc(r, t)) for nm, r in zip("abcd", n.ins)))
                write(n.label, sum(self.ival(r) if self.ivalid(r) else 0 for r in n.ins))
            elif k == "script":
                sc = self.p.scripts.get(n.params["id"], [])
                before = self.qstr(st, t)
                was_due = any(e[0] == t for e in st["pend"])
                if t in st["slack"] and not was_due:
                    self.stats["o1_slack"] += 1
                st["slack"] = {s for s in st["slack"] if s > t}
                kk = st["k"]
                emit = self.run_ops(n, sc[kk] if kk < len(sc) else [], t, True)
                st["k"] = kk + 1
                after = self.qstr(st, t)
                tail = (" a=%s b=%s" % (self.desc(a, t), self.desc(b, t))) if (a and b) else (" a=%s" % self.desc(a, t) if a else "")
                # advance (after user code, also after a captured failure): consume due events when
                # the node was scheduled-now at entry; pending later events stay armed
                if was_due:
                    st["pend"] = {e for e in st["pend"] if e[0] > t}
                if self.thrown:
                    logs.append("E %s %d k=%d %s THROW" % (n.label, t, kk, before))
                    err = "boom-eval-script"
                else:
                    if emit is not None:
                        write(n.label, emit)
                    logs.append("E %s %d k=%d %s %s%s" % (n.label, t, kk, before, after, tail))
            elif k == "sink":
                logs.append("T %s %d %d" % (n.plabel, t, self.ival(a)))
            elif k == "thrower":
                logs.append("E %s %d a=%s" % (n.label, t, self.desc(a, t)))
                st["calls"]["e"] += 1
                if "e%d" % st["calls"]["e"] in self.p.faults.get(n.params["id"], []):
                    err = "boom-eval-%d" % n.params["lbl"]
                else:
                    write(n.label, self.ival(a) + 1000)
            elif k == "probe":
                logs.append("P %s %d a=%s lmt=%d" % (n.label, t, self.desc(a, t), self.ilmt(a)))
            elif k == "tryout":
                src = (a[0], a[1], a[2], "main", False)
                if self.ivalid(src) and self.imod(src, t):
                    write(n.label, self.ival(src))
            elif k == "tryerr":
                src = (a[0], a[1], a[2], "err", False)
                if self.ivalid(src) and self.imod(src, t):
                    logs.append("X %s %d %s" % (n.label, t, self.err[a[0]])); write(n.label, 1)
            elif k == "errmsg":
                sfx = " v=%d" % n.params["v"] if "v" in n.params else ""
                logs.append("X %s %d %s%s" % (n.label, t, self.err[a[0]], sfx)); write(n.label, 1)
            elif k == "fbsrc":
                v = st["fb"][1]; st["fb"] = None; write(n.label, v)
            elif k == "fbsink":
                if self.imod(a, t):
                    self.st[n.params["src"]]["fb"] = (t + 1, self.ival(a))
            if err:
                self.stats["errors"] += 1
                if n.params.get("captures"):
                    write_err(n.label, err)
                elif n.region is not None:
                    # innermost try region absorbs it; the error ticks on the region's exception field
                    reg = n.region
                    failed_regions.add(reg)
                    # nested (non-try) regions inside are transparent: `region` is always a try label
                    write_err(reg, err)
                    # the `out` forward of the failing cycle: values written before the failure still forward
                    out = self.regions[reg]["out"]
                    if out is not None and (out[0], "main") in ticked:
                        self.val[reg] = self.val[out[0]]; self.lmt[reg] = t; ticked.add((reg, "main"))
                else:
                    fail = err
        self.stats["cycles"] += 1
        return logs, engine, fail


def den_check(p, trace_line, quirk=False):
    """Follow the trace; return list of (class, message).  Classes: times, userrun, order, lifecycle,
    error, result."""
    tr = Trace(parse_trace(trace_line))
    d = Den(p, quirk)
    d.force_slack = {}
    # O1 slack: a cancelled/replaced request may leave the graph slot armed; whether the node is
    # then evaluated once at that time is not constrained by the property, so the monitor follows
    # the implementation there (and only there), counting the occurrences
    d.observed = set()
    for c in tr.cycles:
        for e in c["ev"]:
            w = e.split()
            if w[0] == "E":
                d.observed.add((w[1], c["t"]))
    dev = []
    res = tr.result()
    if res.startswith("build-err"):
        return [("gen", "program rejected at build: " + res)], d
    # ---- start
    exp_start, sfail = d.start()
    got_start = sorted(e for e in tr.start_events if e[:2] in ("B ", "s "))
    if sfail is None and sorted(exp_start) != got_start:
        dev.append(("lifecycle", "start hooks: expected %s got %s" % (sorted(exp_start), got_start)))
    if sfail is not None:
        if res != "run-err node-failed(%s)" % sfail:
            dev.append(("lifecycle", "failed start must reach the caller naming the node: expected %s got %s" % (sfail, res)))
        if tr.cycles:
            dev.append(("lifecycle", "cycles ran after a failed start"))
        return dev, d
    # ---- cycles
    last = p.start - 1
    fail = None
    for ci, c in enumerate(tr.cycles):
        must, may = d.wake_times(last)
        must = {x for x in must if x < p.end}
        may = {x for x in may if x < p.end}
        t = c["t"]
        exp = min(must) if must else None
        if exp is None or t != exp:
            if t in may and (exp is None or t < exp):
                # O1 slack: a cancelled request whose graph slot stayed armed wakes the node once
                for n in d.nodes:
                    if n.kind == "script" and t in d.st[n.label]["slack"]:
                        d.force_slack.setdefault(n.label, set()).add(t)
            else:
                tag = "[F6 abandoned-rearm] " if d.abandoned else ""
                dev.append(("times", tag + "cycle %d at time %d but the earliest pending wake-up is %s (pending %s)"
                            % (ci, t, exp, sorted(must)[:6])))
                return dev, d
        if t <= last and ci > 0:
            dev.append(("times", "evaluation time did not strictly increase: %d after %d" % (t, last)))
        if t < p.start or t >= p.end:
            dev.append(("times", "cycle at %d outside [start=%d, end=%d)" % (t, p.start, p.end)))
        logs, engine, fail = d.cycle(t)
        # ---- C01: order of engine-level evaluations (decided on the trace alone, before the comparison of user-code runs)
        seen = []
        plabels = [n.plabel for n in d.nodes]
        shared = {l for l in plabels if plabels.count(l) > 1}     # distinct nodes that print one label
        for e in c["ev"]:
            w = e.split()
            if w[0] == "ne+":
                if w[1] in seen and w[1] not in shared:
                    dev.append(("order", "node %s evaluated twice in cycle %d" % (w[1], t)))
                seen.append(w[1])
        pos = {l: i for i, l in enumerate(seen)}
        for n in d.nodes:
            if n.label in pos and n.plabel == n.label:
                for r in n.ins:
                    if r[0] in pos and pos[r[0]] > pos[n.label] and n.kind not in ("nestedhead", "nestedtail"):
                        dev.append(("order", "node %s evaluated before its producer %s in cycle %d" % (n.label, r[0], t)))
        got = sorted(e for e in c["ev"] if e[:2] in USER_TAGS)
        if sorted(logs) != got:
            el, gl = sorted(logs), got
            miss = [x for x in el if x not in gl]
            extra = [x for x in gl if x not in el]
            cls = "userrun"
            if any(x.startswith("X ") for x in miss + extra):
                cls = "error"
            tag = "[F6 abandoned-rearm] " if d.abandoned else ""
            dev.append((cls, tag + "cycle at %d: user-code runs differ from the dataflow reading: missing %s unexpected %s"
                        % (t, miss[:4], extra[:4])))
            return dev, d
        last = t
        if fail:
            if res != "run-err node-failed(%s)" % fail:
                dev.append(("lifecycle", "evaluate failure must reach the caller: expected %s got %s" % (fail, res)))
            if ci != len(tr.cycles) - 1:
                dev.append(("lifecycle", "cycles continued after an uncaptured failure"))
            return dev, d
    # ---- the run must not stop early
    must, _ = d.wake_times(last)
    must = {x for x in must if x < p.end}
    if must and not fail:
        tag = "[F6 abandoned-rearm] " if d.abandoned else ""
        dev.append(("times", tag + "run ended after time %d although a wake-up at %d (< end %d) was pending" % (last, min(must), p.end)))
    return dev, d


# ---------------------------------------------------------------------------- lifecycle monitor (C14)

def lifecycle_check(p, trace_line):
    """start order / reverse stop / exactly once / nothing outside lifetime, from the observer log."""
    ev = parse_trace(trace_line)
    dev = []
    started, stopped, order = {}, {}, []
    alive = set()
    for e in ev:
        w = e.split()
        if not w:
            continue
        if w[0] == "ns=":
            started[w[1]] = started.get(w[1], 0) + 1
            order.append(w[1]); alive.add(w[1])
        elif w[0] == "nx+":
            stopped[w[1]] = stopped.get(w[1], 0) + 1
            alive.discard(w[1])
        elif w[0] == "ne+":
            if w[1] not in alive:
                dev.append(("lifecycle", "node %s evaluated outside its started lifetime" % w[1]))
    # every started node is stopped exactly once, by "released" at the latest
    for n, c in started.items():
        if c != 1:
            dev.append(("lifecycle", "node %s start completed %d times" % (n, c)))
        if stopped.get(n, 0) != 1:
            dev.append(("lifecycle", "node %s started once but stopped %d times" % (n, stopped.get(n, 0))))
    for n, c in stopped.items():
        if n not in started:
            # a node whose start FAILED is not stopped; a node never started must not be stopped
            dev.append(("lifecycle", "node %s stopped without a completed start" % n))
    # reverse order per graph (labels share a path prefix per graph instance)
    def gkey(l):
        return l.rsplit("/", 1)[0] if "/" in l else ""
    stops = [e.split()[1] for e in ev if e.startswith("nx+ ")]
    for g in set(gkey(l) for l in order):
        s_order = [l for l in order if gkey(l) == g]
        x_order = [l for l in stops if gkey(l) == g and l in started]
        if x_order != list(reversed(s_order)):
            dev.append(("lifecycle", "graph '%s': stop order %s is not the reverse of start order %s" % (g, x_order, s_order)))
    # with cleanup_on_error (or a normal return) everything is stopped by the return of run()
    if p.cleanup or "run-ok" in ev:
        idx = next((i for i, e in enumerate(ev) if e.startswith("run-ok") or e.startswith("run-err")), len(ev))
        late = [e for e in ev[idx:] if e.startswith("nx+ ")]
        if late:
            dev.append(("lifecycle", "nodes stopped only after run() returned: %s" % late[:3]))
    return dev


# ---------------------------------------------------------------------------- generator

def gen_ticks(rng, start, n, span):
    ts = sorted(rng.sample(range(start, start + span), min(n, span)))
    return [(t, rng.randint(-5, 20)) for t in ts]


def gen_script(rng, with_start=True):
    tags = ["", ":a", ":b"]
    def ops():
        o = []
        for _ in range(rng.choice([0, 1, 1, 2, 3])):
            r = rng.random()
            if r < 0.45:
                o.append("s%d%s" % (rng.choice([0, 1, 1, 2, 3, 5]), rng.choice(tags)))
            elif r < 0.55:
                o.append("S%d%s" % (rng.randint(1, 25), rng.choice(tags)))
            elif r < 0.65:
                o.append("u%s" % rng.choice(tags[1:]))
            elif r < 0.72:
                o.append("U")
            elif r < 0.78:
                o.append("p%s" % rng.choice(tags[1:]))
            elif r < 0.81:
                o.append("r")
            else:
                o.append("o%d" % rng.randint(0, 9))
        return o
    sc = [ops() for _ in range(rng.randint(2, 7))]
    if with_start and not any(t[0] in "sS" for t in sc[0]):
        sc[0].append("s%d" % rng.choice([0, 1, 2]))
    return sc


def gen_body(rng, p, lbl0, avail, n, kinds, srcs_ok=True):
    """append n random statements using ports from `avail`; returns (stmts, produced labels)"""
    out, made = [], []
    lbl = lbl0
    for _ in range(n):
        k = rng.choice(kinds)
        pool = avail + made
        if k == "src" and srcs_ok:
            sid = 100 + lbl
            p.ticks[sid] = gen_ticks(rng, p.start, rng.randint(1, 6), 14)
            out.append(Stmt(lbl, "src", [sid])); made.append(str(lbl))
        elif k == "const":
            out.append(Stmt(lbl, "const", [rng.randint(0, 9)])); made.append(str(lbl))
        elif k == "script":
            sid = 100 + lbl
            p.scripts[sid] = gen_script(rng)
            if pool and rng.random() < 0.4:
                out.append(Stmt(lbl, "script", [sid, rng.choice(pool)]))
            else:
                # 40%: the node type also declares schedule_on_start (booked after the start hook)
                out.append(Stmt(lbl, "sscript" if rng.random() < 0.4 else "script", [sid]))
            made.append(str(lbl))
        elif not pool:
            continue
        elif k == "add":
            out.append(Stmt(lbl, "add", [rng.choice(pool), rng.choice(pool)])); made.append(str(lbl))
        elif k == "acc":
            out.append(Stmt(lbl, "acc", [rng.choice(pool)])); made.append(str(lbl))
        elif k == "pass":
            out.append(Stmt(lbl, "pass", [rng.choice(pool)])); made.append(str(lbl))
        elif k == "gate":
            a, b = rng.choice(pool), rng.choice(pool)
            pa = "~" if rng.random() < 0.3 else ""
            pb = "~" if rng.random() < 0.3 and not pa else ""
            out.append(Stmt(lbl, rng.choice(["gate", "ngate"]), [pa + a, pb + b, rng.choice(["VV", "VU", "UV", "UU"])])); made.append(str(lbl))
        lbl += 1
    return out, made, lbl


def add_sinks(rng, stmts, made, lbl, every=True):
    for m in made:
        if every or rng.random() < 0.6:
            stmts.append(Stmt(lbl, "sink", [m])); lbl += 1
    return lbl


def gen_flat(rng, sched=False):
    p = Prog()
    p.start = rng.choice([1, 1, 2, 5])
    p.end = p.start + rng.choice([8, 15, 30])
    kinds = ["src", "src", "add", "add", "acc", "pass", "gate", "gate", "const"]
    if sched:
        kinds += ["script", "script", "script"]
    body, made, lbl = gen_body(rng, p, 1, [], rng.randint(3, 11), kinds)
    lbl = add_sinks(rng, body, made, lbl)
    p.root = kahn_order(body)
    return p


def gen_sub(rng, p, sid, arity, with_script, chain=False, thrower=None):
    params = ["$%d" % i for i in range(arity)]
    kinds = ["add", "acc", "pass", "gate"] + (["script", "src"] if with_script else [])
    if chain:
        body, prev, lbl = [], params[0] if params else None, 10 * sid
        n = rng.randint(1, 4)
        tpos = rng.randint(0, n - 1) if thrower is not None else -1
        for i in range(n):
            if i == tpos:
                body.append(Stmt(lbl, "thrower", [thrower, prev]))
            else:
                body.append(Stmt(lbl, rng.choice(["pass", "acc"]), [prev]))
            prev = str(lbl); lbl += 1
        p.subs[sid] = [arity, body, prev]
        return
    body, made, lbl = gen_body(rng, p, 10 * sid, params, rng.randint(1, 5), kinds)
    if not made:
        body = [Stmt(10 * sid, "pass", [params[0]])] if params else [Stmt(10 * sid, "const", [3])]
        made = [str(10 * sid)]
    p.subs[sid] = [arity, kahn_order(body), rng.choice(made)]


def gen_nested(rng, both=True, depth=1):
    """the same sub-graph definition wired inlined and nested (C09)"""
    p = Prog()
    p.end = p.start + rng.choice([10, 20])
    body, made, lbl = gen_body(rng, p, 1, [], rng.randint(1, 4), ["src", "src", "add", "acc", "const"])
    if not made:
        p.ticks[900] = gen_ticks(rng, p.start, 3, 8)
        body.append(Stmt(lbl, "src", [900])); made.append(str(lbl)); lbl += 1
    arity = rng.choice([1, 1, 2])
    gen_sub(rng, p, 1, arity, with_script=rng.random() < 0.6)
    args = [rng.choice(made) for _ in range(arity)]
    body.append(Stmt(lbl, "nested", [1] + args)); n1 = lbl; lbl += 1
    body.append(Stmt(lbl, "sink", [n1])); lbl += 1
    if both:
        # the same definition inlined: expanded here into plain statements (labels shifted)
        off = 1000 * lbl
        ar, sbody, sout = p.subs[1]
        def sh(a):
            a = str(a)
            pas = a.startswith("~")
            k = a[1:] if pas else a
            k = args[int(k[1:])] if k.startswith("$") else str(int(k) + off)
            return ("~" if pas else "") + k
        for s_ in sbody:
            a2 = list(s_.args)
            if s_.kind in ("add", "gate"):
                a2[0], a2[1] = sh(a2[0]), sh(a2[1])
            elif s_.kind in ("acc", "pass", "sink"):
                a2[0] = sh(a2[0])
            elif s_.kind in ("script", "thrower") and len(a2) >= 2:
                a2[1] = sh(a2[1])
            if s_.kind == "script":
                # an inlined script needs its own script/tick table entry (own state)
                p.scripts[int(a2[0]) + off] = [list(g) for g in p.scripts[int(a2[0])]]
                a2[0] = int(a2[0]) + off
            if s_.kind == "src":
                p.ticks[int(a2[0]) + off] = list(p.ticks[int(a2[0])])
                a2[0] = int(a2[0]) + off
            body.append(Stmt(s_.lbl + off, "sscript" if getattr(s_, "sos", False) else s_.kind, a2, getattr(s_, "native", False)))
        n2 = sh(sout)
        lbl += 1
        body.append(Stmt(lbl, "sink", [n2])); lbl += 1
        p.pairs = [(str(n1 + 1), str(lbl - 1))]      # sinks that must record identical streams
    p.root = kahn_order(body)
    return p


def kahn_order_keep(stmts):
    # programs with nested/inline statements keep statement order for those (they expand to
    # several nodes); dependencies only point backwards, which the real rank pass preserves for
    # chains built in order.  Plain node statements are still Kahn-ordered among themselves.
    return stmts


def gen_try(rng, capture_kind):
    p = Prog()
    p.end = p.start + 20
    p.ticks[901] = gen_ticks(rng, p.start, rng.randint(3, 7), 12)
    body = [Stmt(1, "src", [901])]
    nth = sorted(rng.sample(range(1, 7), rng.randint(1, 3)))
    p.faults[77] = ["e%d" % k for k in nth]
    lbl = 2
    if capture_kind == "try":
        gen_sub(rng, p, 1, 1, False, chain=True, thrower=77)
        body.append(Stmt(lbl, "tryx", [1, 1])); t = lbl; lbl += 1
        body.append(Stmt(lbl, "tryout", [t])); o = lbl; lbl += 1
        body.append(Stmt(lbl, "tryerr", [t])); lbl += 1
        body.append(Stmt(lbl, "sink", [o])); lbl += 1
    else:
        body.append(Stmt(lbl, "thrower", [77, 1])); t = lbl; lbl += 1
        if rng.random() < 0.6:      # explicit capture options: depth 0-2, with / without captured values
            body.append(Stmt(lbl, "errtsv", [t, rng.choice([0, 1, 1, 2]), rng.choice([0, 1])])); lbl += 1
        else:
            body.append(Stmt(lbl, "errts", [t])); lbl += 1
        body.append(Stmt(lbl, "sink", [t])); lbl += 1
    # an independent branch that must not be disturbed
    body.append(Stmt(lbl, "acc", [1])); a = lbl; lbl += 1
    body.append(Stmt(lbl, "sink", [a])); lbl += 1
    p.root = kahn_order(body)
    return p


def gen_try_sched(rng):
    """a try_except-wrapped sub-graph in which a thrower and an independent self-scheduling node are
    siblings: wake-ups pending in the sibling when the thrower's exception ends the child's cycle
    must survive (separate inputs); with a shared input the sibling can be due in the failing cycle"""
    p = Prog()
    p.end = p.start + rng.choice([16, 22])
    p.ticks[901] = gen_ticks(rng, p.start, rng.randint(3, 7), 12)
    p.ticks[903] = gen_ticks(rng, p.start, rng.randint(1, 3), 12)
    if p.ticks[903][0][0] != p.start:       # valid from the first cycle on (keeps the known finding F2 out of this stream)
        p.ticks[903].insert(0, (p.start, 1))
    if p.ticks[901][0][0] != p.start:
        p.ticks[901].insert(0, (p.start, 2))
    p.faults[77] = ["e%d" % k for k in sorted(rng.sample(range(1, 6), rng.randint(1, 3)))]
    sc = gen_script(rng)
    while len(sc) < 4:
        sc.append(["s%d" % rng.choice([2, 3, 5])])
    if not any(t[0] == "s" and t[1:2] not in ("0", "") for ops in sc[:2] for t in ops):
        sc[1].append("s%d" % rng.choice([2, 3, 4]))
    p.scripts[902] = sc
    shape = rng.choice(["sep", "sep", "sep", "noin", "shared"])
    sub = [Stmt(10, "thrower", [77, "$0"]),
           Stmt(11, "script", [902] + ({"sep": ["$1"], "noin": [], "shared": ["$0"]}[shape]))]
    if rng.random() < 0.5:
        sub.reverse()
    sub.append(Stmt(12, "add", [10, 11]))
    if rng.random() < 0.4:
        sub.append(Stmt(13, "acc", [12])); out = "13"
    else:
        out = "12"
    p.subs[1] = [2, sub, out]
    body = [Stmt(1, "src", [901]), Stmt(7, "src", [903]), Stmt(2, "tryx", [1, 1, 7]),
            Stmt(3, "tryout", [2]), Stmt(4, "tryerr", [2]), Stmt(5, "sink", [3]),
            Stmt(8, "acc", [1]), Stmt(9, "sink", [8])]
    p.root = kahn_order(body)
    return p


def gen_try_indep(rng):
    """a try_except-wrapped sub-graph with TWO independent branches: the result `out` is computed from $1 by nodes that
    do not depend on the thrower (which reads $0) - mostly ranked before it, so `out` ticks in the very cycle the
    thrower fails - and a downstream node outside samples `out` when an unrelated input ticks (also after a failing
    cycle): a captured failure must neither eat the independent result of the failing cycle nor make it unreadable"""
    p = Prog()
    p.end = p.start + rng.choice([16, 22])
    for k in (901, 903):
        p.ticks[k] = gen_ticks(rng, p.start, rng.randint(3, 8), 12)
        if p.ticks[k][0][0] != p.start:       # valid from the first cycle on (keeps the known finding F2 out of this stream)
            p.ticks[k].insert(0, (p.start, rng.randint(1, 5)))
    p.ticks[905] = gen_ticks(rng, p.start, rng.randint(2, 7), 14)
    p.faults[77] = ["e%d" % k for k in sorted(rng.sample(range(1, 7), rng.randint(1, 3)))]
    chain, prev, lbl = [], "$1", 20
    for _ in range(rng.randint(1, 3)):
        chain.append(Stmt(lbl, rng.choice(["pass", "acc", "acc"]), [prev])); prev = str(lbl); lbl += 1
    out = prev
    # mostly the thrower sits deeper than every node of the independent branch, so the rank pass (Kahn, FIFO) puts it
    # last and the whole independent branch has run when it throws; otherwise the nodes ranked AFTER the failing node
    # belong to the failing unit of that cycle (ASSUMPTIONS of C15; the reference reads it that way)
    thr, tin, tl = [], "$0", 30
    for _ in range(len(chain) + rng.randint(0, 1) if rng.random() < 0.75 else rng.randint(0, len(chain))):
        thr.append(Stmt(tl, "pass", [tin])); tin = str(tl); tl += 1
    thr.append(Stmt(10, "thrower", [77, tin]))
    if rng.random() < 0.4:
        thr.append(Stmt(11, "sink", [10]))
    sub = kahn_order(chain + thr if rng.random() < 0.5 else thr + chain)
    p.subs[1] = [2, sub, out]
    body = [Stmt(1, "src", [901]), Stmt(7, "src", [903]), Stmt(2, "tryx", [1, 1, 7]),
            Stmt(3, "tryout", [2]), Stmt(4, "tryerr", [2]), Stmt(5, "sink", [3]),
            Stmt(6, "src", [905]), Stmt(12, "sink", [8])]
    r = rng.random()        # the sampler: woken by the unrelated input (and mostly not by `out`), needs `out` valid or not
    if r < 0.3:
        body.append(Stmt(8, "add", [6, 3]))
    elif r < 0.75:
        body.append(Stmt(8, "gate", [6, "~3", "VV"]))
    else:
        body.append(Stmt(8, "gate", [6, rng.choice(["3", "~3"]), "VU"]))
    p.root = kahn_order(body)
    return p


def gen_sigpassive(rng):
    """three-input nodes whose SIGNATURE declares one input passive, with and without wiring-time passive(...) markers on
    the OTHER inputs (the two activity mechanisms on one node): user code must run exactly when one of the inputs that are
    active under BOTH (signature-active and not marked) ticks - a tick of the signature-passive input alone never runs it,
    also after a marker took another input out"""
    p = Prog()
    p.end = p.start + rng.choice([14, 20])
    for k in (901, 902, 903):
        p.ticks[k] = gen_ticks(rng, p.start, rng.randint(2, 8), 14)
    if rng.random() < 0.6:       # all valid from the first cycle: what decides is the activity alone
        for k in (901, 902, 903):
            if p.ticks[k][0][0] != p.start:
                p.ticks[k].insert(0, (p.start, rng.randint(1, 9)))
    body = [Stmt(1, "src", [901]), Stmt(2, "src", [902]), Stmt(3, "src", [903])]
    lbl = 4
    for _ in range(rng.randint(1, 2)):
        act = rng.choice(["PAA", "APA", "AAP", "APA", "AAA"])
        free = [i for i in range(3) if act[i] == "A"]
        marked = set()
        r = rng.random()
        if r < 0.6 and len(free) >= 2:
            marked.add(rng.choice(free))                      # a marker on ANOTHER input than the signature-passive one
        elif r < 0.7 and act != "AAA":
            marked.add(act.index("P"))                        # a marker on the very input the signature declares passive
        srcs = [1, 2, 3]
        rng.shuffle(srcs)
        args = [("~" if i in marked else "") + str(srcs[i]) for i in range(3)]
        body.append(Stmt(lbl, "gate3", args + [rng.choice(["VVV", "VVV", "UUU", "VUV"]) + act])); g = lbl; lbl += 1
        body.append(Stmt(lbl, "sink", [g])); lbl += 1
    p.root = kahn_order(body)
    return p


def gen_kick(rng):
    """a scheduler node that, from inside its evaluation, wakes OTHER nodes of its graph for the current time
    (graph.schedule_node): a plain node ranked after it runs in this very cycle, a node the scan has already passed is
    not evaluated again - every node at most once per cycle, producers first (C01)"""
    p = Prog()
    p.end = p.start + rng.choice([12, 18])
    p.ticks[901] = gen_ticks(rng, p.start, rng.randint(2, 6), 12)
    if p.ticks[901][0][0] != p.start:
        p.ticks[901].insert(0, (p.start, rng.randint(1, 9)))
    # plain nodes before and after the kicker (in rank order: 1 src, 2 acc, 3 pass | 4 kicker | 5 acc, 6 pass, sinks)
    body = [Stmt(1, "src", [901]), Stmt(2, "acc", [1]), Stmt(3, "pass", [2])]
    sc = gen_script(rng)
    while len(sc) < 5:
        sc.append(["s%d" % rng.choice([1, 2, 3])])
    behind, ahead = [2, 3], [5, 6]
    for ops in sc[1:]:
        for _ in range(rng.choice([0, 1, 1, 2])):
            ops.append("k%d" % rng.choice(behind + ahead + ahead))
    if not any(t[0] == "s" for t in sc[0]):
        sc[0].append("s%d" % rng.choice([0, 1, 2]))
    p.scripts[902] = sc
    body.append(Stmt(4, "script", [902, 3] if rng.random() < 0.6 else [902]))
    body += [Stmt(5, "acc", [4 if rng.random() < 0.5 else 3]), Stmt(6, "pass", [5]),
             Stmt(7, "sink", [6]), Stmt(8, "sink", [3])]
    p.root = kahn_order(body)
    return p


def gen_nscript(rng):
    """a NATIVE scheduler node with two required-valid inputs (the second mostly passive and late): wake-ups booked
    in the start hook or earlier evaluations must survive evaluations in which the readiness gate holds the node
    back (the scheduler bookkeeping after the gate does not depend on user code having run)"""
    p = Prog()
    p.end = p.start + rng.choice([14, 20])
    p.ticks[901] = gen_ticks(rng, p.start, rng.randint(2, 6), 12)
    late = rng.randint(2, 8)
    p.ticks[903] = [(p.start + late, rng.randint(1, 9))] + ([(p.start + late + rng.randint(1, 5), rng.randint(1, 9))] if rng.random() < 0.4 else [])
    sc = gen_script(rng, with_start=True)
    if rng.random() < 0.7:      # a wake-up booked at start that falls due after the late input has arrived
        sc[0] = ["S%d" % (p.start + late + rng.randint(1, 4))] + [o for o in sc[0] if not o.startswith("o")]
    p.scripts[902] = sc
    b = ("~7" if rng.random() < 0.7 else "7")
    body = [Stmt(1, "src", [901]), Stmt(7, "src", [903]), Stmt(2, "nscript", [902, 1, b]),
            Stmt(4, "sink", [2]), Stmt(5, "acc", [1]), Stmt(6, "sink", [5])]
    p.root = kahn_order(body)
    return p


def gen_sched_capture(rng):
    """a node that owns a NodeScheduler, is also driven by an input, throws in some of its evaluations
    (with scheduler events pending / firing) and has error capture on: later wake-ups must survive"""
    p = Prog()
    p.end = p.start + rng.choice([14, 20])
    p.ticks[901] = gen_ticks(rng, p.start, rng.randint(2, 6), 12)
    sc = gen_script(rng)
    while len(sc) < 5:
        sc.append(["s%d" % rng.choice([1, 2, 3])])
    for k in rng.sample(range(1, len(sc)), rng.randint(1, 2)):
        pos = rng.randint(0, len(sc[k]))
        sc[k] = sc[k][:pos] + ["x"] + sc[k][pos:]
    p.scripts[902] = sc
    body = [Stmt(1, "src", [901])]
    if rng.random() < 0.7:
        body.append(Stmt(2, "script", [902, 1]))
    else:
        body.append(Stmt(2, "script", [902]))
    cap = Stmt(3, "errtsv", [2, rng.choice([0, 1, 1, 2]), rng.choice([0, 1])]) if rng.random() < 0.5 else Stmt(3, "errts", [2])
    body += [cap, Stmt(4, "sink", [2]), Stmt(5, "acc", [1]), Stmt(6, "sink", [5])]
    p.root = kahn_order(body)
    return p


def gen_fault(rng):
    """uncaptured faults at every phase (C14)"""
    p = gen_flat(rng)
    # insert 1-2 throwers fed by existing ports
    ports = [str(s.lbl) for s in p.root if s.kind not in ("sink",)]
    lbl = max([s.lbl for s in p.root] + [0]) + 1
    body = list(p.root)
    for i in range(rng.randint(1, 2)):
        if not ports:
            break
        fid = 70 + i
        body.append(Stmt(lbl, "thrower", [fid, rng.choice(ports)])); lbl += 1
        body.append(Stmt(lbl, "sink", [lbl - 1])); lbl += 1
        ph = rng.choice(["s", "e", "e", "x", "none"])
        if ph != "none":
            p.faults[fid] = ["%s%d" % (ph, 1 if ph in "sx" else rng.randint(1, 3))]
            if rng.random() < 0.3:
                p.faults[fid].append("x1")
    p.cleanup = rng.random() < 0.7
    p.root = kahn_order(body)
    return p


def gen_probe(rng):
    """flat graph + probes that wake every step and log a passive input's flags (C04)"""
    p = gen_flat(rng)
    p.end = p.start + rng.choice([6, 9, 12])
    ports = [str(s.lbl) for s in p.root if s.kind != "sink"]
    lbl = max([s.lbl for s in p.root] + [0]) + 1
    body = list(p.root)
    for m in rng.sample(ports, min(len(ports), rng.randint(1, 3))):
        body.append(Stmt(lbl, "probe", [m])); lbl += 1
    p.root = kahn_order(body)
    return p


def gen_feedback(rng):
    """1-2 feedback loops (self loop through add/acc, with and without initial value)"""
    p = Prog()
    p.end = p.start + rng.choice([8, 12, 16])
    p.ticks[901] = gen_ticks(rng, p.start, rng.randint(1, 5), 8)
    body = [Stmt(1, "src", [901])]
    lbl = 2
    for fid in range(rng.randint(1, 2)):
        init = [rng.randint(0, 5)] if rng.random() < 0.6 else []
        body.append(Stmt(lbl, "fbsrc", [fid] + init)); f = lbl; lbl += 1
        k = rng.choice(["add", "gate", "gatep"])
        if k == "add":
            body.append(Stmt(lbl, "add", [1, f]))
        elif k == "gate":
            body.append(Stmt(lbl, "gate", [1, f, "VU"]))
        else:   # reader passive on the feedback: the loop must become quiescent
            body.append(Stmt(lbl, "gate", [1, "~%d" % f, "VU"]))
        c = lbl; lbl += 1
        body.append(Stmt(lbl, "fbbind", [fid, c])); lbl += 1
        body.append(Stmt(lbl, "sink", [c])); lbl += 1
        body.append(Stmt(lbl, "sink", [f])); lbl += 1
    p.root = kahn_order(body)
    return p


def engine_stream(name, progs):
    cases = [Case(p.lines(i), {"prog": p}) for i, p in enumerate(progs)]
    return Stream(name, [ENGINE], model_cmd("Engine"), cases, timeout=900)


def trace_of(out):
    return out[-1] if out else ""


# ---------------------------------------------------------------------------- C06: order / sharing

def split_segments(lines):
    """a C06 case holds several programs separated by `reset`; returns [(lines, run_line_index)]"""
    segs, cur, start = [], [], 1
    for i, l in enumerate(lines[1:], 1):
        if l == "reset":
            segs.append(cur); cur = []
        else:
            cur.append((i, l))
    segs.append(cur)
    return segs


def gen_sharing(rng):
    """a dataflow with duplicated sub-expressions (same definition, same/different scalar, same/different
    inputs, argument order swapped) and duplicated sinks; returned as a canonical statement list"""
    p = Prog()
    p.end = p.start + rng.choice([8, 12])
    body, made, lbl = gen_body(rng, p, 1, [], rng.randint(2, 4), ["src", "src", "const"])
    if len(made) < 2:
        p.ticks[950] = gen_ticks(rng, p.start, 3, 8); body.append(Stmt(lbl, "src", [950])); made.append(str(lbl)); lbl += 1
        p.ticks[951] = gen_ticks(rng, p.start, 3, 8); body.append(Stmt(lbl, "src", [951])); made.append(str(lbl)); lbl += 1
    exprs = []
    for _ in range(rng.randint(2, 6)):
        pool = made + [str(e) for e in exprs]
        if exprs and rng.random() < 0.45:
            # duplicate an existing expression: same scalar+inputs (shareable), other scalar, or swapped inputs
            pick = rng.choice(exprs)
            src = next(s for s in body if s.lbl == pick)
            mode = rng.choice(["same", "same", "scalar", "swap", "passive", "passive"])
            k, a, b = src.args
            if mode == "scalar":
                k = int(k) + 1
            elif mode == "swap":
                a, b = b, a
            elif mode == "passive":
                # f(a, b) vs f(a, passive(b)): same definition, scalar and sources, different activation
                flip = lambda x: str(x)[1:] if str(x).startswith("~") else "~" + str(x)
                if rng.random() < 0.7: b = flip(b)
                else: a = flip(a)
                if str(a).startswith("~") and str(b).startswith("~"):
                    a = str(a)[1:]      # wiring rejects a node with every input passive
            body.append(Stmt(lbl, "addk", [k, a, b]))
        else:
            body.append(Stmt(lbl, "addk", [500 + 2 * lbl, rng.choice(pool), rng.choice(pool)]))
        exprs.append(lbl); lbl += 1
    for e in exprs:
        body.append(Stmt(lbl, "sink", [e])); lbl += 1
    # duplicated sinks must stay distinct (side effects happen twice)
    for _ in range(rng.randint(0, 2)):
        e = rng.choice(exprs)
        body.append(Stmt(lbl, "sinkk", [700 + e, e])); lbl += 1
        body.append(Stmt(lbl, "sinkk", [700 + e, e])); lbl += 1
    p.root = body
    return p


def expected_node_count(p):
    nodes, _ = elaborate(p)
    return len([n for n in nodes if n.kind not in ("nestedhead", "nestedtail")])
