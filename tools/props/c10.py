"""C10 - map_ runs one isolated instance per key and mirrors the key set."""
import os
from vlib import Case, Stream, BUILD, model_cmd

ID = "C10"
LEAN_MODULES = ["HgVerif.Props.C10", "HgVerif.Props.C10Ref", "HgVerif.Model.Tie2", "HgVerif.Model.Extracted"]
USES_EXTRACT = True
THEOREMS = ["HgVerif.Tie.tie_mapDrainDue", "HgVerif.Tie.tie_mapChildDue", "HgVerif.Tie.tie_mapChildFuture",
    
    "HgVerif.MapNode.map_no_lost_child_wakeup",
    "HgVerif.MapNode.map_due_child_is_candidate",
    "HgVerif.MapNode.map_wakeup_honoured",
    "HgVerif.MapNode.map_keys_mirror",
    "HgVerif.MapNode.map_per_key",
    "HgVerif.MapNode.map_per_key_ticks",
    "HgVerif.MapNode.map_non_interference",
    "HgVerif.MapNode.map_fresh_after_readd",
    "HgVerif.MapNode.map_error_keyed",
    "HgVerif.MapNodeRef.map_output_keys_track_validity",
    "HgVerif.MapNodeRef.map_output_keys_track_validity_run",
    "HgVerif.MapNodeRef.invalidation_is_keyed_removal",
    "HgVerif.MapNodeRef.revalidation_is_keyed_add",
    "HgVerif.MapNodeRef.valid_update_is_keyed_modify",
    "HgVerif.MapNodeRef.ref_cycle_key_local",
    "HgVerif.MapNodeRef.ref_cycle_frame",
    "HgVerif.MapNodeRef.output_keys_track_validity_full_refuted",
]
CXX_TARGETS = ["hgv_map"]
RULE = ("key/element histories replayed into a REAL graph replay(TSD<int,TS<int>>) [+ second multiplexed TSD | broadcast TS] "
        "-> map_(f) -> record, f from: stateless +1, running sum, value+1000*key, self-scheduling echo (k=1,2,3 steps or a "
        "value-dependent delay that can move a pending wake-up earlier; tagged NodeScheduler event), emits-only-even (child output sometimes invalid), throws-on-negative with "
        "exception_time_series, broadcast add, two multiplexed dictionaries with differing key sets, nested map_(acc); with "
        "and without a key argument. A case is non-trivial when it has >= 3 keys live at once, a removal, and a re-add of a "
        "removed key or an update of a live key; distinct by sha1 of the case body. Streams mapref*: the mapped function's "
        "OUTPUT is a reference-routed terminal (the map element forwards to it): if_(v even, v).true, if_(flag[k], a[k]).true "
        "over two multiplexed dictionaries, if_(z, a[k]).true with one broadcast TS<Bool>, switch_(v mod 3) - per-key "
        "valid->invalid->valid sequences, several keys flipping in one cycle, flips together with key adds / removes / "
        "re-adds, differing key sets; non-trivial there: >= 2 keys live at once, a valid->invalid and an invalid->valid "
        "transition. mapref-silent holds the histories in which a child output loses its validity in a cycle in which its "
        "element does not tick (condition-only tick, value key leaving): finding C10-B")
TRUSTED = ["TSD/TSS slot stores, replay/record nodes, forwarding outputs and the union/keys_ nodes feeding __keys__ are taken "
           "as given (C04/C05/C13/C20)",
           "the child graph of one key is abstracted as an arbitrary Mealy machine with a cached next-scheduled time (C01-C03, "
           "C09 are about what happens inside it)",
           "reference-routed child outputs: what if_ / switch_ / the REF dereference inside the child do (C12/C13) is "
           "abstracted as a list of element operations per evaluation (bind v | clear) plus the source ticks that reach "
           "the element through its current route; the model driver composes MapNode.cycle (which children exist / run) "
           "with MapNodeRef.refCycle (the owned output dictionary)"]
ASSUMPTIONS = ["the key-set and element sources do not re-point (no switch_/REF upstream of map_ in the harness graph); the "
               "two entry banks and reconcile_compatible_key_source are not modelled",
               "children never pause (no mesh_ inside a mapped function): resume_position_plus_one stays 0",
               "the engine evaluates the map node at every time its slot in the parent schedule names (C02)",
               "memory lifetime under slot reuse (ASan) is not expressible in the model: partial",
               "reference-routed outputs (Props/C10Ref): times increase, an entry created in a cycle is not one removed in "
               "the same cycle (FreshAdds), and - for the positive theorems only - Loud: an evaluation that only empties "
               "the reference of a published key happens in a cycle in which that key's element ticked through the route "
               "(without Loud the statement is refuted: finding C10-B)"]
TECHNIQUE = ("Lean 4 proof: an inductive invariant over every reachable state of the map-node transition system (entries, lazy "
             "child-schedule heap, pulled_when coalescing, candidate set, parent re-arm) for arbitrary child behaviours, and a "
             "refinement of every slot to an independent per-key machine; differential correspondence against a real map_ graph "
             "with an independent per-key reference monitor; for reference-routed outputs a per-slot refinement of the owned "
             "dictionary's delta bookkeeping (refCycle_slot) and slot invariants")
LEVEL_TEXT = ("Kernel-checked for ARBITRARY child behaviours (Mealy machines with their own wake-up time, that may fail) and all "
              "histories of key-set changes, element ticks, out-of-band notifications and slot reuse: every started child with a "
              "pending wake-up owns a valid heap entry not later than it and the map node is armed not later than the heap "
              "minimum (map_no_lost_child_wakeup), hence a due child is always evaluated in its cycle (map_wakeup_honoured); "
              "started entries are exactly the live key slots and the output keys exactly those whose child output is valid "
              "(map_keys_mirror); every slot's entry evolves as the child run alone on its own projection of the history, from "
              "init at every (re-)add (map_per_key, map_fresh_after_readd), so two histories that agree on one key give the same "
              "stream for it whatever the other keys do (map_non_interference); a captured failure writes the error under the "
              "failing key only (map_error_keyed). The executable model (same definitions) is compared line by line with the "
              "real runtime and each implementation trace is judged by a plain-Python per-key reference."
              ' Reference-routed child outputs (Props/C10Ref.lean, streams mapref*; the owned output dictionary with finalize_mapped_child_output as coded): under the explicit hypothesis Loud the published keys are exactly the live keys whose child output is valid after every history, an invalidation is a keyed removal, a re-validation a keyed add, a valid update a keyed modification, and a key without own events is untouched; without Loud the statement is refuted (output_keys_track_validity_full_refuted = known finding C10-B).')
LEVEL_NOTE = ("Partial: source re-pointing, pause/resume and the TSD output's own tick bookkeeping are outside the model (the "
              "latter is observed through the recorded deltas). What happens INSIDE a child graph after a captured failure is "
              "the child's behaviour: the stream 'map-failing-child-wakeup' runs a thrower ranked before a self-scheduling node in "
              "one child; its reference demands that a wake-up pending in the failing child survives the captured failure "
              "(it does not when the self-scheduling node is due in the failing cycle: known finding F6, reported as [C10-A]); "
              "C10_FINDINGS=lenient makes the reference drop it the way try_except around the same function does. "
              "Reference-routed child outputs (Props/C10Ref.lean, model MapNodeRef = TSDSlotStorage delta bookkeeping + "
              "finalize_mapped_child_output): the published keys are exactly the live keys whose child output is valid, a "
              "valid->invalid transition is a removal of that key only, invalid->valid an add - PROVIDED the element ticked "
              "in the cycle of the invalidation (hypothesis Loud). Without it the full statement is refuted in the model "
              "(output_keys_track_validity_full_refuted) and on the runtime: when only the routing condition ticks, "
              "finalize_mapped_child_output returns early and the removal is never published (finding C10-B, stream "
              "mapref-silent, candidate fix fixes/c10_ref_invalidate.patch). Memory safety under slot reuse is not covered.")

UNARY = ["inc", "acc", "addkey", "echo1", "echo2", "echo3", "echov", "even", "neg"]
# default (strict): the reference keeps a wake-up that is pending in a child across a captured failure of that
# child (known finding F6, tagged [C10-A]); C10_FINDINGS=lenient: the reference does what try_except around the
# same function does (drops it)
STRICT = os.environ.get("C10_FINDINGS", "strict") == "strict"
KEY_POOL = list(range(1, 41))


# ------------------------------------------------------------------ generator

def _val(rng, fn):
    if fn in ("neg", "negecho", "eguard"):
        return rng.choice([rng.randint(0, 50), rng.randint(1, 9), rng.randint(-9, -1), rng.randint(0, 50), 0])
    if fn == "even":
        return rng.choice([rng.randint(-20, 20), 2 * rng.randint(0, 9), 2 * rng.randint(0, 9) + 1])
    return rng.choice([rng.randint(-99, 99), rng.randint(0, 9), 0, rng.randint(-999, 999)])


class _Hist:
    """One dictionary history with churn; keys come from a small pool so removed keys come back."""

    def __init__(self, rng, fn, pool, setw="set", delw="del"):
        self.rng, self.fn, self.pool = rng, fn, pool
        self.live = {}
        self.gone = []
        self.setw, self.delw = setw, delw

    def add(self, n, busy):
        ops = []
        for _ in range(n):
            cands = [k for k in self.pool if k not in self.live and k not in busy]
            if not cands:
                break
            back = [k for k in self.gone if k in cands]
            k = self.rng.choice(back) if back and self.rng.random() < 0.5 else self.rng.choice(cands)
            busy.add(k)
            v = _val(self.rng, self.fn)
            self.live[k] = v
            ops.append("%s %d %d" % (self.setw, k, v))
        return ops

    def upd(self, n, busy):
        ops = []
        for _ in range(n):
            cands = [k for k in self.live if k not in busy]
            if not cands:
                break
            k = self.rng.choice(cands)
            busy.add(k)
            v = self.live[k] if self.rng.random() < 0.1 else _val(self.rng, self.fn)
            self.live[k] = v
            ops.append("%s %d %d" % (self.setw, k, v))
        return ops

    def rem(self, n, busy):
        ops = []
        for _ in range(n):
            cands = [k for k in self.live if k not in busy]
            if not cands:
                break
            order = list(self.live)
            how = self.rng.random()
            c2 = [k for k in order if k in cands]
            k = c2[-1] if how < 0.3 else c2[0] if how < 0.5 else self.rng.choice(c2)
            busy.add(k)
            del self.live[k]
            self.gone.append(k)
            ops.append("%s %d" % (self.delw, k))
        return ops


def _cycles_for(rng, fn, tier, h, h2=None):
    """list of cycles (each a list of op strings)"""
    out = []
    scenario = rng.choice(["walk", "walk", "churn", "growshrink", "burst", "boundary"])
    maxn = min(rng.choice([3, 5, 9, 17] if tier == "quick" else [5, 9, 17, 33]), len(h.pool) - 1)
    ncyc = rng.randint(6, 14) if tier == "quick" else rng.randint(8, 30)

    def zop():
        if fn != "addb":
            return []
        return ["z %d" % rng.randint(-50, 50)] if rng.random() < 0.3 else []

    def second(busy2):
        if h2 is None:
            return []
        r = rng.random()
        ops = []
        if r < 0.45:
            ops += h2.add(rng.choice([1, 1, 2]), busy2)
        if r > 0.3 and r < 0.75:
            ops += h2.upd(rng.choice([1, 1, 2]), busy2)
        if r > 0.65:
            ops += h2.rem(rng.choice([1, 1, 2]), busy2)
        return ops

    def emit(ops):
        busy2 = set()
        ops = ops + second(busy2) + zop()
        rng.shuffle(ops)
        out.append(ops)

    first = rng.random()
    if fn == "addb" and first < 0.5:
        out.append(["z %d" % rng.randint(-50, 50)])
    if first < 0.12:
        emit(["tick"] if rng.random() < 0.6 else [])
    else:
        emit(h.add(rng.choice([1, 1, 2, 3, maxn]), set()))
    if scenario == "growshrink":
        for _ in range(rng.choice([1, 2])):
            guard = 0
            while len(h.live) < maxn and guard < 60:
                guard += 1
                busy = set()
                ops = h.add(rng.choice([1, 1, 2, 4]), busy)
                if rng.random() < 0.4:
                    ops += h.upd(1, busy)
                emit(ops)
            while h.live and guard < 120:
                guard += 1
                busy = set()
                ops = h.rem(rng.choice([1, 1, 2, 3, len(h.live)]), busy)
                if rng.random() < 0.3:
                    ops += h.upd(1, busy)
                emit(ops)
            if rng.random() < 0.5:
                emit([])
        emit(h.add(rng.choice([1, 2, 3]), set()))
    elif scenario == "burst":
        for _ in range(rng.randint(2, 4)):
            emit(h.add(rng.randint(2, maxn), set()))
            emit(h.upd(rng.randint(1, 3), set()))
            emit(h.rem(rng.randint(1, max(1, len(h.live))), set()))
    elif scenario == "boundary":
        b = min(rng.choice([4, 8, 16] if tier == "quick" else [4, 8, 16, 32]), len(h.pool) - 1)
        guard = 0
        while len(h.live) < b and guard < 60:
            guard += 1
            emit(h.add(min(b - len(h.live), rng.choice([1, 2, 8])), set()))
        for _ in range(rng.randint(3, 7)):
            busy = set()
            r = rng.random()
            if r < 0.35:
                ops = h.add(1, busy)
            elif r < 0.7:
                ops = h.rem(1, busy)
            else:
                ops = h.rem(1, busy) + h.add(1, busy)       # remove one, add another: slot reuse next cycle
            if rng.random() < 0.4:
                ops += h.upd(1, busy)
            emit(ops)
    elif scenario == "churn":
        # the same few keys removed and re-added over and over (fresh state each time)
        for _ in range(ncyc):
            busy = set()
            ops = []
            if h.live and rng.random() < 0.5:
                ops += h.rem(rng.choice([1, 1, 2]), busy)
            if rng.random() < 0.7:
                ops += h.add(rng.choice([1, 1, 2]), busy)
            if rng.random() < 0.6:
                ops += h.upd(rng.choice([1, 2]), busy)
            emit(ops)
    else:
        for _ in range(ncyc):
            r = rng.random()
            busy = set()
            ops = []
            if r < 0.06:
                pass
            elif r < 0.08:
                ops = ["tick"]
            elif r < 0.10:
                ops = ["%s %d" % (h.delw, rng.choice([9991, 9992]))]      # a key that was never live
            else:
                room = maxn - len(h.live)
                na = rng.choice([0, 1, 1, 2, 5]) if room > 0 else 0
                nr = rng.choice([0, 0, 1, 1, 2, 4])
                nu = rng.choice([0, 1, 1, 2, 3])
                ops += h.rem(nr, busy)
                ops += h.upd(nu, busy)
                ops += h.add(min(na, max(room, 0)), busy)
            emit(ops)
    if fn.startswith("echo") or fn in ("negecho", "eguard"):
        for _ in range(rng.choice([1, 2, 4])):
            out.append([])
    return out


def _nest_cycles(rng, tier):
    """outer keys from a small pool, inner keys 1..4"""
    outer = {}
    out = []
    ncyc = rng.randint(5, 12)
    for c in range(ncyc):
        ops = []
        busy = set()
        r = rng.random()
        live = list(outer)
        if live and r < 0.3:
            k = rng.choice(live)
            busy.add(k)
            del outer[k]
            ops.append("del %d" % k)
        if r > 0.15 or not outer:
            for _ in range(rng.choice([1, 1, 2])):
                cands = [k for k in range(1, 7) if k not in outer and k not in busy]
                if not cands:
                    break
                k = rng.choice(cands)
                busy.add(k)
                outer[k] = {}
                for j in rng.sample(range(1, 5), rng.randint(1, 3)):
                    v = rng.randint(-20, 20)
                    outer[k][j] = v
                    ops.append("nset %d %d %d" % (k, j, v))
        for k in list(outer):
            if k in busy or rng.random() < 0.5:
                continue
            inner = outer[k]
            busyj = set()
            for _ in range(rng.choice([1, 1, 2])):
                q = rng.random()
                cj = [j for j in inner if j not in busyj]
                if q < 0.3 and len(cj) > 1:
                    j = rng.choice(cj)
                    busyj.add(j)
                    del inner[j]
                    ops.append("ndel %d %d" % (k, j))
                else:
                    cands = [j for j in range(1, 5) if j not in busyj]
                    if not cands:
                        continue
                    j = rng.choice(cands)
                    busyj.add(j)
                    inner[j] = rng.randint(-20, 20)
                    ops.append("nset %d %d %d" % (k, j, inner[j]))
        out.append(ops)
    return out


def gen_case(rng, idx, tier, fn=None):
    fn = fn or rng.choice(["inc", "acc", "acc", "addkey", "echo1", "echo2", "echo3", "echov", "echov", "even", "neg", "neg", "eguard", "addb", "pair", "pair", "nest"])
    key = 1 if fn == "addkey" else int(rng.random() < 0.65)
    err = 0
    if fn in ("neg", "negecho", "eguard"):
        err = 1 if rng.random() < 0.93 else 0
    elif fn != "nest" and rng.random() < 0.1:
        err = 1
    pool = rng.sample(KEY_POOL, rng.choice([4, 6, 10, 20, 20, 36]))
    lines = ["case %d" % idx, "cfg %s %d %d" % (fn, key, err)]
    if fn == "nest":
        cycles = _nest_cycles(rng, tier)
    else:
        h = _Hist(rng, fn, pool)
        h2 = _Hist(rng, fn, pool, "bset", "bdel") if fn == "pair" else None
        cycles = _cycles_for(rng, fn, tier, h, h2)
    for ops in cycles:
        lines.append(" ".join(["c"] + ops))
    lines.append("run")
    return Case(lines)



# ------------------------------------------------------------------ generator: reference-routed child outputs

REF_FNS = ("evenref", "flagref", "bflagref", "swref")


def gen_ref_case(rng, idx, tier, fn=None, silent=False):
    """A history for a mapped function whose OUTPUT is a reference-routed terminal.

    silent=False: whenever a key's output loses its validity, the key's own element ticks in that cycle (through
    the still non-empty route): the runtime publishes the removal.  silent=True: some invalidations happen with a
    condition-only tick (or by the value key leaving while the flag stays): finding C10-B."""
    fn = fn or rng.choice(["evenref", "evenref", "flagref", "flagref", "flagref", "bflagref", "bflagref", "swref"])
    if silent and fn in ("evenref", "swref"):
        fn = rng.choice(["flagref", "flagref", "bflagref"])
    key = int(rng.random() < 0.7)
    err = int(rng.random() < 0.08)
    npool = rng.choice([2, 3, 3, 4, 6]) if fn != "bflagref" else rng.choice([2, 3, 3, 4])
    pool = rng.sample(KEY_POOL, npool)
    a, f, cond = {}, {}, {}
    z = [None]
    lines = ["case %d" % idx, "cfg %s %d %d" % (fn, key, err)]
    ncyc = rng.randint(7, 14) if tier == "quick" else rng.randint(8, 24)
    mode = rng.choice(["mixed", "mixed", "flipflop", "allflip", "churn"])

    def live():
        return set(a) | (set(f) if fn == "flagref" else set())

    def routed(k):
        if k not in a:
            return False
        if fn == "evenref":
            return a[k] % 2 == 0
        if fn == "flagref":
            return cond.get(k) == 1
        if fn == "bflagref":
            return z[0] == 1
        return False

    def val_for(k, want_valid=None):
        if fn == "evenref":
            if want_valid is None:
                want_valid = rng.random() < 0.5
            v = 2 * rng.randint(-5, 40)
            return v if want_valid else v + 1
        if fn == "swref":
            return rng.choice([rng.randint(0, 30), 3 * rng.randint(0, 9), 3 * rng.randint(0, 9) + 2, rng.randint(-9, 30)])
        return rng.randint(0, 99)

    for c in range(ncyc):
        sa, da, sf, df = {}, set(), {}, set()
        zop = None
        lv = sorted(live())
        rt0 = {k: routed(k) for k in lv}
        # ---- key adds -------------------------------------------------------------------------------
        free = [k for k in pool if k not in lv]
        nadd = 0
        if not lv or c == 0:
            nadd = rng.choice([1, 2, 2, 3])
        elif mode == "churn":
            nadd = rng.choice([0, 1, 1, 2])
        elif rng.random() < 0.25:
            nadd = rng.choice([1, 1, 2])
        for k in rng.sample(free, min(nadd, len(free))):
            if fn == "flagref":
                how = rng.random()
                if how < 0.65:
                    sa[k] = val_for(k)
                    sf[k] = int(rng.random() < 0.6)
                elif how < 0.85:
                    sa[k] = val_for(k)
                else:
                    sf[k] = int(rng.random() < 0.6)
            else:
                sa[k] = val_for(k)
        # ---- per-key actions on live keys ---------------------------------------------------------
        if mode == "allflip" and rng.random() < 0.5:
            touch = list(lv)
        else:
            touch = rng.sample(lv, min(len(lv), rng.choice([0, 1, 1, 2, 2, 3])))
        for k in touch:
            r = rng.random()
            if fn in ("evenref", "swref"):
                if r < (0.3 if mode == "churn" else 0.12):
                    da.add(k)
                elif fn == "evenref":
                    flip = rng.random() < (0.85 if mode in ("flipflop", "allflip") else 0.5)
                    sa[k] = val_for(k, (not rt0[k]) if flip else rt0[k])
                else:
                    sa[k] = val_for(k)
            elif fn == "flagref":
                if r < (0.25 if mode == "churn" else 0.1):           # the key leaves every dictionary
                    if k in a:
                        da.add(k)
                    if k in f:
                        df.add(k)
                elif r < 0.55:                                        # flag flips, with or without a value tick
                    cur = cond.get(k, 0) if k in f else rng.randint(0, 1) ^ 1
                    sf[k] = 1 - cur if k in f else rng.randint(0, 1)
                    if k in a and rng.random() < 0.6:
                        sa[k] = val_for(k)
                elif r < 0.8:
                    sa[k] = val_for(k)                                # value tick (or the key enters `a`)
                    if rng.random() < 0.2 and k in f:
                        sf[k] = cond.get(k, 0)                       # the flag ticks with an unchanged value
                elif r < 0.9:
                    if k in f and k in a:
                        df.add(k)                                     # the flag entry leaves, the value stays
                    elif k in f:
                        sa[k] = val_for(k)
                    else:
                        sf[k] = rng.randint(0, 1)
                else:
                    if k in a and k in f:
                        da.add(k)                                     # the value leaves, the flag entry stays
                    elif k in a:
                        sf[k] = rng.randint(0, 1)
                    else:
                        sa[k] = val_for(k)
            else:   # bflagref
                if r < (0.3 if mode == "churn" else 0.12):
                    da.add(k)
                else:
                    sa[k] = val_for(k)
        if fn == "bflagref":
            pz = 0.55 if mode in ("flipflop", "allflip") else 0.3
            if z[0] is None:
                if rng.random() < 0.6:
                    zop = int(rng.random() < 0.7)
            elif rng.random() < pz:
                zop = 1 - z[0] if rng.random() < 0.85 else z[0]
        # ---- loudness: every invalidation of a key that stays live comes with a tick of its own element -------
        nsilent = 0
        for k in lv:
            if not rt0[k]:
                continue
            stays = (k in a and k not in da) or (fn == "flagref" and ((k in f and k not in df) or k in sf))
            if not stays:
                continue
            if fn == "evenref":
                continue           # the condition IS the element
            if fn == "flagref":
                lost = (k in da) or (sf.get(k, 1) == 0)
            elif fn == "bflagref":
                lost = zop == 0
            else:
                lost = False
            if not lost or k in sa:
                continue
            if silent and rng.random() < 0.75:
                nsilent += 1
                continue
            if k in da:
                if fn == "flagref" and k in f and k not in sf:
                    df.add(k)          # leave entirely instead
                else:
                    da.discard(k)
                    sa[k] = val_for(k)
            else:
                sa[k] = val_for(k)
        # ---- emit ------------------------------------------------------------------------------------
        ops = []
        for k, v in sa.items():
            ops.append("set %d %d" % (k, v))
        for k in da:
            ops.append("del %d" % k)
        for k, v in sf.items():
            ops.append("bset %d %d" % (k, v))
        for k in df:
            if k not in sf:
                ops.append("bdel %d" % k)
        if zop is not None:
            ops.append("z %d" % zop)
        if rng.random() < 0.04:
            ops = []
        rng.shuffle(ops)
        lines.append(" ".join(["c"] + ops))
        if not ops:
            continue
        # ---- the generator's own book-keeping ---------------------------------------------------------------
        for k in da:
            a.pop(k, None)
        a.update(sa)
        for k in df:
            if k not in sf:
                f.pop(k, None)
        f.update(sf)
        if zop is not None:
            z[0] = zop
        for k, v in sf.items():
            cond[k] = v
        for k in list(cond):
            if k not in live():
                del cond[k]
    lines.append("run")
    return Case(lines)


def exhaustive_small(tier):
    """every add/remove/update history of length <= L over 3 keys, one op per cycle (thorough)"""
    cases = []
    if tier == "quick":
        return cases
    import itertools
    idx = 900000
    for fn, key in (("acc", 1), ("echo2", 1), ("even", 0)):
        for L in range(1, 6):
            for seq in itertools.product(range(6), repeat=L):
                live, lines, ok = set(), [], True
                for s in seq:
                    k, is_del = s % 3 + 1, s >= 3
                    if is_del and k not in live:
                        ok = False
                        break
                    if is_del:
                        live.discard(k)
                        lines.append("c del %d" % k)
                    else:
                        live.add(k)
                        lines.append("c set %d %d" % (k, 2 * k + len(lines)))
                if ok:
                    idx += 1
                    cases.append(Case(["case %d" % idx, "cfg %s %d 0" % (fn, key)] + lines + ["c", "c", "run"]))
    return cases


def streams(rng, tier, seed):
    n = 700 if tier == "quick" else 15000
    cases = [gen_case(rng, i, tier) for i in range(n)] + exhaustive_small(tier)
    cdir = os.path.join(os.path.dirname(BUILD), "corpus", "C10")
    corpus = []
    if os.path.isdir(cdir):
        for f in sorted(os.listdir(cdir)):
            if not os.path.isfile(os.path.join(cdir, f)):
                continue        # corpus/C10/ref, corpus/C10/ref-silent belong to the mapref streams
            corpus.append(Case([l.rstrip("\n") for l in open(os.path.join(cdir, f)) if l.strip()]))
    out = [Stream("map", [os.path.join(BUILD, "hgv_map")], model_cmd("C10"), corpus + cases, timeout=3000)]
    if os.environ.get("C10_FINDINGS", "on") != "off":
        nf = 60 if tier == "quick" else 600
        out.append(Stream("map-failing-child-wakeup", [os.path.join(BUILD, "hgv_map")], model_cmd("C10"),
                          [gen_case(rng, 500000 + i, tier, "negecho") for i in range(nf)], timeout=3000))
    # reference-routed child outputs: own random stream so the histories of the streams above do not move
    import random
    rr = random.Random(seed * 7919 + 70)
    nr = 320 if tier == "quick" else 8000
    rcorpus = []
    rdir = os.path.join(os.path.dirname(BUILD), "corpus", "C10", "ref")
    if os.path.isdir(rdir):
        for f in sorted(os.listdir(rdir)):
            rcorpus.append(Case([l.rstrip("\n") for l in open(os.path.join(rdir, f)) if l.strip()]))
    out.append(Stream("mapref", [os.path.join(BUILD, "hgv_map")], model_cmd("C10"),
                      rcorpus + [gen_ref_case(rr, 700000 + i, tier) for i in range(nr)] + exhaustive_ref(tier), timeout=3000))
    # C10_FINDINGS=off drops both finding streams; C10_SILENT=off only the C10-B one (e.g. to check a tree that
    # carries fixes/c10_ref_invalidate.patch, which the model - a copy of the unpatched code - does not follow)
    if os.environ.get("C10_FINDINGS", "on") != "off" and os.environ.get("C10_SILENT", "on") != "off":
        ns = 80 if tier == "quick" else 1500
        scorpus = []
        sdir = os.path.join(os.path.dirname(BUILD), "corpus", "C10", "ref-silent")
        if os.path.isdir(sdir):
            for f in sorted(os.listdir(sdir)):
                scorpus.append(Case([l.rstrip("\n") for l in open(os.path.join(sdir, f)) if l.strip()]))
        out.append(Stream("mapref-silent", [os.path.join(BUILD, "hgv_map")], model_cmd("C10"),
                          scorpus + [gen_ref_case(rr, 800000 + i, tier, silent=True) for i in range(ns)], timeout=3000))
    return out


def exhaustive_ref(tier):
    """evenref: every history of length <= L over 2 keys with ops {set even, set odd, del} per cycle (one op per
    cycle), quick: L <= 3, thorough: L <= 5"""
    import itertools
    cases = []
    idx = 950000
    top = 3 if tier == "quick" else 5
    for L in range(1, top + 1):
        for seq in itertools.product(range(6), repeat=L):
            live, lines, ok = set(), [], True
            for n, s_ in enumerate(seq):
                k, what = s_ % 2 + 1, s_ // 2
                if what == 2:
                    if k not in live:
                        ok = False
                        break
                    live.discard(k)
                    lines.append("c del %d" % k)
                else:
                    live.add(k)
                    lines.append("c set %d %d" % (k, 2 * (n + k) + (1 if what == 1 else 0)))
            if ok:
                idx += 1
                cases.append(Case(["case %d" % idx, "cfg evenref 1 0"] + lines + ["c", "run"]))
    return cases


# ------------------------------------------------------------------ the reference (plain Python, one instance per live key)

class _Ref:
    """Mapped function run alone on one key: on_tick(inputs) / on_wake() -> (output|None, error|None)."""

    def __init__(self, fn, key, cycle):
        self.fn, self.key = fn, key
        self.total = 0
        self.echo = 0
        self.wake = None          # cycle index of the pending self-scheduled evaluation
        self.g = None
        self.e = None
        self.inner = {}
        self.k = int(fn[4:]) if fn.startswith("echo") and fn != "echov" else 2
        # reference-routed outputs: the function run alone has a VALID output exactly while its reference is non-empty
        self.cond = None          # the routing condition as the function last saw it
        self.routed = False       # the reference is non-empty (and points at a present source)
        self.rvalid = False
        self.rval = None

    def ref_cycle(self, i):
        """One cycle of a reference-routed function run alone on this key.  Returns (tick, loud):
        tick - the (valid) output ticks in this cycle; loud - a tick of the key's own element reached the output
        through the reference as it was BEFORE this cycle (what makes the runtime look at the element again)."""
        fn = self.fn
        a, at = i["a"], i["aTick"]
        was_valid, was_routed = self.rvalid, self.routed
        if fn == "swref":
            tick = False
            if at and a is not None:
                r = a % 3
                if r != 2:
                    self.rvalid, self.rval, tick = True, (a if r == 0 else a + 1000), True
            return tick, False
        if fn == "evenref":
            if at and a is not None:
                self.routed = a % 2 == 0
        else:
            cin = i["b"] if fn == "flagref" else i["z"]
            if cin is not None:
                self.cond = cin != 0
            self.routed = bool(self.cond) and a is not None
        self.rvalid = self.routed
        self.rval = a if self.rvalid else None
        tick = self.rvalid and (at or not was_valid)
        return tick, bool(was_routed and at)

    def on_cycle(self, cyc, i):
        """i: dict(a, aTick, b, bTick, z, zTick, nsets, ndels).  Returns (out, err)."""
        fn = self.fn
        a, at = i["a"], i["aTick"]
        if fn == "inc":
            return (a + 1, None) if at and a is not None else (None, None)
        if fn == "acc":
            if at and a is not None:
                self.total += a
                return self.total, None
            return None, None
        if fn == "addkey":
            return (a + 1000 * self.key, None) if at and a is not None else (None, None)
        if fn.startswith("echo"):
            if at and a is not None:
                self.echo = a + 100
                self.wake = cyc + (1 + a % 3 if fn == "echov" else self.k)
                return a, None
            if self.wake == cyc:
                self.wake = None
                return self.echo, None
            return None, None
        if fn == "even":
            return (a, None) if at and a is not None and a % 2 == 0 else (None, None)
        if fn == "neg":
            if at and a is not None:
                if a < 0:
                    return None, a
                self.total += a
                return self.total, None
            return None, None
        if fn == "negecho":
            # the guard fails: nothing of this cycle is visible.  STRICT: an echo that is already pending stays
            # pending; default: it is dropped, as it is when the same function runs alone under try_except
            if at and a is not None:
                if a < 0:
                    if not STRICT:
                        self.wake = None
                    return None, a
                self.g = a
                self.e = a
                self.echo = a + 100
                self.wake = cyc + 2
                return self.g + 1000000 * self.e, None
            if self.wake == cyc:
                self.wake = None
                self.e = self.echo
                return (self.g or 0) + 1000000 * self.e, None
            return None, None
        if fn == "eguard":
            # the echo node is ranked BEFORE the guard and does not depend on it: its tick and the wake-up it arms in
            # the failing cycle are those of the fault-free run; the sum node (after the guard) misses the failing cycle
            if at and a is not None:
                self.e = a
                self.echo = a + 100
                self.wake = cyc + 2
                if a < 0:
                    return None, a
                self.g = a
                return self.g + 1000000 * self.e, None
            if self.wake == cyc:
                self.wake = None
                self.e = self.echo
                return (self.g or 0) + 1000000 * self.e, None
            return None, None
        if fn == "addb":
            z = i["z"]
            if (at or i["zTick"]) and a is not None and z is not None:
                return a + z, None
            return None, None
        if fn == "pair":
            b = i["b"]
            if (at or i["bTick"]) and a is not None and b is not None:
                return a + 1000 * b, None
            return None, None
        if fn == "nest":
            rem = [j for j in i["ndels"] if j in self.inner]
            for j in rem:
                del self.inner[j]
            mod = {}
            for j, v in i["nsets"]:
                self.inner[j] = self.inner.get(j, 0) + v
                mod[j] = self.inner[j]
            if not rem and not mod:
                return None, None
            return ("d", dict(self.inner), sorted(rem), mod), None
        return None, None


def _fmt_ov(v):
    if isinstance(v, tuple):
        return "[" + ",".join("%d:%d" % (j, v[1][j]) for j in sorted(v[1])) + "]"
    return str(v)


def _fmt_ov_delta(v):
    if isinstance(v, tuple):
        return "[" + ",".join(["-%d" % j for j in v[2]] + ["%d:%d" % (j, v[3][j]) for j in sorted(v[3])]) + "]"
    return str(v)


def _fields(line):
    d = {}
    for w in line.split():
        if "=" in w:
            k, v = w.split("=", 1)
            d[k] = v
    return d


def _split_top(s):
    """split 'a=[1:2,3:4],b=5' at top-level commas"""
    out, depth, cur = [], 0, ""
    for ch in s:
        if ch == "[":
            depth += 1
        elif ch == "]":
            depth -= 1
        if ch == "," and depth == 0:
            out.append(cur)
            cur = ""
        else:
            cur += ch
    if cur:
        out.append(cur)
    return out


def _parse_dict(text):
    """'{-1,2=5}' -> (removed [1], {2: '5'});  '-'/'_' -> None"""
    if text in ("-", "_", None):
        return None
    body = text[1:-1]
    rem, mod = [], {}
    for it in _split_top(body):
        if it.startswith("-"):
            rem.append(int(it[1:]))
        else:
            k, v = it.split("=", 1)
            mod[int(k)] = v
    return rem, mod


def _parse_events(text):
    stops, starts, unk_stop, unk_start = [], [], 0, 0
    if text != "-":
        for it in text.split(","):
            if it == "+?":
                unk_start += 1
            elif it == "-?":
                unk_stop += 1
            elif it.startswith("+"):
                starts.append(int(it[1:]))
            else:
                stops.append(int(it[1:]))
    return sorted(stops), sorted(starts), unk_stop, unk_start


def _spec(case, out):
    """Per-key reference run over the input history, judged against the implementation's lines."""
    bad, feats = [], set()
    fn, key, err = "inc", 0, 0
    a, b, z = {}, {}, None
    na = {}
    a_valid = b_valid = False
    refs = {}          # live key -> _Ref
    outd = {}          # expected valid output elements (formatted)
    errd = {}
    cyc = 0
    maxlive, saw_rem, saw_readd, saw_upd = 0, False, False, False
    saw_inval = saw_reval = False
    stale = set()      # reference-routed outputs that went invalid silently (finding C10-B): still published
    ever = set()
    dead = False
    out = list(out) + ["<missing>"] * (len(case.lines) - len(out))
    for ln, o in zip(case.lines, out):
        w = ln.split()
        if not w:
            continue
        if w[0] == "case":
            continue
        if w[0] == "cfg" and len(w) == 4:
            fn, key, err = w[1], int(w[2]), int(w[3])
            feats.update(["fn:" + fn, "key-arg:%d" % key, "err-capture:%d" % err])
            continue
        if w[0] == "run":
            if dead:
                continue
            if o.startswith("err:") or o.startswith("<") or o == "bad-op":
                bad.append("[C10-driver] the run failed or stopped: driver reported %s for %r" % (o, ln))
                continue
            f = _fields(o)
            stops, starts, us, _ = _parse_events(f.get("ev", "-"))
            if key and stops != sorted(refs):
                bad.append("at shutdown the stopped children are %s, the live keys are %s" % (stops, sorted(refs)))
            if not key and us != len(refs):
                bad.append("at shutdown %d children stop, %d keys are live" % (us, len(refs)))
            continue
        if w[0] != "c":
            continue
        if dead:
            if o != "err:exception":
                bad.append("after an uncaptured child exception the run must have ended; got %r" % o)
            continue
        # ---- parse the ops of this cycle -----------------------------------------------------
        i = 1
        sets_a, dels_a, sets_b, dels_b, nsets, ndels, ztick, atick, btick = {}, [], {}, [], [], [], False, False, False
        while i < len(w):
            t = w[i]
            if t == "set":
                sets_a[int(w[i + 1])] = int(w[i + 2]); atick = True; i += 3
            elif t == "del":
                dels_a.append(int(w[i + 1])); atick = True; i += 2
            elif t == "bset":
                sets_b[int(w[i + 1])] = int(w[i + 2]); btick = True; i += 3
            elif t == "bdel":
                dels_b.append(int(w[i + 1])); btick = True; i += 2
            elif t == "z":
                z = int(w[i + 1]); ztick = True; i += 2
            elif t == "tick":
                atick = True; i += 1
            elif t == "nset":
                nsets.append((int(w[i + 1]), int(w[i + 2]), int(w[i + 3]))); atick = True; i += 4
            elif t == "ndel":
                ndels.append((int(w[i + 1]), int(w[i + 2]))); atick = True; i += 3
            else:
                i += 1
        if set(sets_a) & set(dels_a) or set(sets_b) & set(dels_b):
            feats.add("ambiguous-delta(not judged)")
            break
        two, nested, bcast = fn in ("pair", "flagref"), fn == "nest", fn in ("addb", "bflagref")
        isref = fn in REF_FNS
        if not two:
            sets_b, dels_b, btick = {}, [], False
        if not bcast:
            ztick = False
        # ---- the dictionaries ------------------------------------------------------------------
        keys_a0 = set(na) if nested else set(a)
        keys_b0 = set(b)
        for k in dels_a:
            a.pop(k, None)
            na.pop(k, None)
        a.update(sets_a)
        for (k, j) in ndels:
            if k in na:
                na[k].pop(j, None)
        for (k, j, v) in nsets:
            na.setdefault(k, {})[j] = v
        for k in dels_b:
            b.pop(k, None)
        b.update(sets_b)
        a_valid = a_valid or atick
        b_valid = b_valid or btick
        keys_a1 = set(na) if nested else set(a)
        live1 = keys_a1 | (set(b) if two else set())
        live0 = set(refs)
        removed = sorted(live0 - live1)
        added = sorted(live1 - live0)
        # ---- expectations -------------------------------------------------------------------------
        exp_rem, exp_mod, exp_erem, exp_emod = [], {}, [], {}
        for k in removed:
            if k in outd:
                exp_rem.append(k)
                del outd[k]
            if k in errd:
                exp_erem.append(k)
                del errd[k]
            del refs[k]
            saw_rem = True
        for k in added:
            refs[k] = _Ref(fn, k, cyc)
            if k in ever:
                saw_readd = True
            ever.add(k)
        touched_a = set(sets_a) | (set(dels_a) & keys_a0) | {k for (k, _, _) in nsets} | {k for (k, _) in ndels}
        touched_b = set(sets_b) | (set(dels_b) & keys_b0)
        exp_run = set()
        failed_uncaptured = False
        # reference-routed outputs: strict expectation (exp_rem / exp_mod: what every key gives when run alone) and
        # the expectation WITH finding C10-B (exp_rem_b): an output that loses its validity in a cycle in which the
        # key's element does not tick is not reported removed; the removal surfaces when the key itself leaves
        exp_rem_b = None
        if isref:
            exp_rem_b = [k for k in exp_rem] + [k for k in removed if k in stale]
            for k in removed:
                stale.discard(k)
            member = ((keys_a1 ^ keys_a0) | (set(b) ^ keys_b0 if two else set())) & set(refs)
            req_run = set(added) | (set(sets_b) & set(refs) if two else set()) | (set(refs) if ztick else set()) | member
            if fn in ("evenref", "swref"):
                req_run |= set(sets_a)
            nflip = 0
            for k in sorted(refs):
                r = refs[k]
                was = r.rvalid
                inp = {"a": a.get(k), "aTick": k in sets_a, "b": b.get(k) if two else None, "bTick": k in sets_b,
                       "z": z if bcast else None, "zTick": ztick}
                tick, loud = r.ref_cycle(inp)
                if k in sets_a and k not in added:
                    saw_upd = True
                if r.rvalid:
                    if tick:
                        exp_mod[k] = str(r.rval)
                    outd[k] = str(r.rval)
                    if not was:
                        feats.add("ref:invalid->valid" + ("(condition-only tick)" if k not in sets_a else ""))
                        saw_reval = True
                        nflip += 1
                    elif tick:
                        feats.add("ref:valid->valid")
                    stale.discard(k)
                elif was:
                    outd.pop(k, None)
                    exp_rem.append(k)
                    nflip += 1
                    saw_inval = True
                    if loud:
                        exp_rem_b.append(k)
                        feats.add("ref:valid->invalid")
                    else:
                        stale.add(k)
                        feats.add("ref:valid->invalid SILENT (element does not tick)")
                elif k in sets_a or k in sets_b or ztick:
                    feats.add("ref:invalid->invalid")
            if nflip > 1:
                feats.add("ref:several-keys-flip-in-one-cycle")
            if nflip and (added or removed):
                feats.add("ref:flip+key-add/remove-same-cycle")
            if stale:
                feats.add("ref:stale-published-key")
        for k in ([] if isref else sorted(refs)):
            r = refs[k]
            inp = {"a": a.get(k), "aTick": k in sets_a or (nested and (any(x[0] == k for x in nsets) or any(x[0] == k for x in ndels))),
                   "b": b.get(k) if two else None, "bTick": k in sets_b,
                   "z": z if bcast else None, "zTick": ztick,
                   "nsets": [(j, v) for (kk, j, v) in nsets if kk == k], "ndels": [j for (kk, j) in ndels if kk == k]}
            due = r.wake == cyc
            ran = k in added or k in touched_a or k in touched_b or ztick or due
            if not ran:
                continue
            exp_run.add(k)
            if k in sets_a and k not in added:
                saw_upd = True
            if due:
                feats.add("child-wake-up" + ("+tick-same-cycle" if inp["aTick"] else "") + ("+other-key-ticks" if (touched_a | touched_b) - {k} else "-alone"))
            o_, e_ = r.on_cycle(cyc, inp)
            if e_ is not None:
                if err:
                    exp_emod[k] = str(e_)
                    errd[k] = str(e_)
                    feats.add("captured-failure")
                else:
                    failed_uncaptured = True
            if o_ is not None:
                exp_mod[k] = _fmt_ov_delta(o_)
                outd[k] = _fmt_ov(o_)
        maxlive = max(maxlive, len(refs))
        if len(added) > 1:
            feats.add("multi-add-cycle")
        if len(removed) > 1:
            feats.add("multi-remove-cycle")
        if added and removed:
            feats.add("add+remove-same-cycle")
        for bnd in (4, 8, 16, 32):
            if len(live0) <= bnd < len(refs):
                feats.add("grow-over-%d" % bnd)
        if two and keys_a1 != set(b):
            feats.add("differing-key-sets")
        if two and ((keys_a0 - keys_a1) & set(refs) or (keys_b0 - set(b)) & set(refs)):
            feats.add("key-leaves-one-dict-only")
        if any(k not in outd for k in refs):
            feats.add("live-key-with-invalid-child-output")
        feats.add("n:%s" % (len(refs) if len(refs) <= 2 else "3-4" if len(refs) <= 4 else "5-8" if len(refs) <= 8 else "9-16" if len(refs) <= 16 else ">16"))
        cyc += 1
        # ---- judge the implementation's line ------------------------------------------------------
        if failed_uncaptured:
            dead = True
            feats.add("uncaptured-failure-ends-run")
            if o != "err:exception":
                bad.append("cycle %d: a child failed without error capture, the run must end with the exception; got %r" % (cyc - 1, o))
            continue
        if o.startswith("err:") or o.startswith("<") or o in ("bad-op", "idle"):
            bad.append("[C10-driver] the run failed or stopped: cycle %d driver reported %s" % (cyc - 1, o))
            continue
        f = _fields(o)
        tag = "[C10-A]" if fn == "negecho" else ""
        got = _parse_dict(f.get("rec"))
        grem, gmod = (sorted(got[0]), got[1]) if got else ([], {})
        if grem != sorted(exp_rem) or gmod != exp_mod:
            if isref and gmod == exp_mod and grem == sorted(exp_rem_b):
                # exactly the published-key book-keeping of finding C10-B (nothing else differs)
                dtag = "[C10-B]"
                feats.add("C10-B")
            else:
                dtag = tag or "[C10-delta]"
            bad.append("%s the recorded delta differs from what the keys give when run alone: cycle %d recorded %s, reference removed=%s modified=%s" %
                       (dtag, cyc - 1, f.get("rec"), sorted(exp_rem), dict(sorted(exp_mod.items()))))
        gval = _parse_dict(f.get("val"))
        if gval is not None:
            valid = {k: v for k, v in gval[1].items() if v != "_"}
            if set(gval[1]) != set(refs):
                bad.append("[C10-keys] the output key set does not mirror the live keys: cycle %d holds elements for %s, live keys %s" % (cyc - 1, sorted(gval[1]), sorted(refs)))
            elif valid != outd:
                bad.append("%s the output value differs from the per-key reference: cycle %d value %s, reference %s" % (tag or "[C10-value]", cyc - 1, dict(sorted(valid.items())), dict(sorted(outd.items()))))
        elif refs or outd:
            bad.append("[C10-keys] the output is not valid although keys are live: cycle %d keys %s" % (cyc - 1, sorted(refs)))
        stops, starts, us, ust = _parse_events(f.get("ev", "-"))
        if key:
            if stops != removed or starts != added or us or ust:
                bad.append("[C10-lifecycle] child start/stop events do not follow the key set: cycle %d events %s, key set removed %s added %s" % (cyc - 1, f.get("ev"), removed, added))
        elif us != len(removed) or ust != len(added):
            bad.append("[C10-lifecycle] child start/stop counts do not follow the key set: cycle %d stopped %d started %d, key set removed %d added %d" % (cyc - 1, us, ust, len(removed), len(added)))
        runs = f.get("run", "-")
        if key:
            toks = [] if runs == "-" else runs.split(",")
            unk = [x for x in toks if not x.lstrip("-").isdigit()]
            if unk:
                # a child graph ran whose key tag the harness could not read (never tagged: its first evaluation,
                # which records the key, did not happen although the child exists)
                bad.append("[C10-isolation] a child was evaluated whose own first evaluation never happened (no key tag): "
                           "cycle %d run=%s" % (cyc - 1, runs))
            grun = {int(x) for x in toks if x.lstrip("-").isdigit()}
            if isref:
                # the element is a REFERENCE input of the routing child: its ticks pass through without an evaluation
                allowed = req_run | (set(sets_a) & set(refs))
                if not (req_run <= grun <= allowed):
                    bad.append("[C10-isolation] the children evaluated are not keys with own input events: cycle %d evaluated %s, "
                               "required %s, allowed %s" % (cyc - 1, sorted(grun), sorted(req_run), sorted(allowed)))
            elif grun != exp_run:
                extra, missing = sorted(grun - exp_run), sorted(exp_run - grun)
                bad.append("%s the children evaluated are not the keys with own input ticks / due wake-ups: cycle %d evaluated %s, expected %s (extra %s, missing %s)" %
                           (tag or "[C10-isolation]", cyc - 1, sorted(grun), sorted(exp_run), extra, missing))
        else:
            n = 0 if runs == "-" else len(runs.split(","))
            if isref:
                if not (len(req_run) <= n <= len(req_run | (set(sets_a) & set(refs)))):
                    bad.append("[C10-isolation] the number of children evaluated does not fit the keys with own input events: "
                               "cycle %d evaluated %d, required %d" % (cyc - 1, n, len(req_run)))
            elif n != len(exp_run):
                bad.append("%s the number of children evaluated is not the number of keys with own input ticks / due wake-ups: cycle %d evaluated %d, expected %d" % (tag or "[C10-isolation]", cyc - 1, n, len(exp_run)))
        if f.get("act") != str(len(refs)):
            bad.append("[C10-lifecycle] started children differ from live keys: cycle %d started %s, live %d" % (cyc - 1, f.get("act"), len(refs)))
        if err:
            ge = _parse_dict(f.get("erec"))
            gerem, gemod = (sorted(ge[0]), ge[1]) if ge else ([], {})
            if gerem != sorted(exp_erem) or gemod != exp_emod:
                bad.append("[C10-error] the recorded error delta is not keyed by the failing keys: cycle %d recorded %s, failing keys %s, removed %s" % (cyc - 1, f.get("erec"), exp_emod, sorted(exp_erem)))
            gev = _parse_dict(f.get("eval"))
            if (gev[1] if gev else {}) != errd:
                bad.append("[C10-error] the error dictionary differs from the per-key reference: cycle %d value %s, expected %s" % (cyc - 1, f.get("eval"), errd))
    if fn in REF_FNS:
        if maxlive >= 2 and ((saw_inval and saw_reval) or (fn == "swref" and saw_upd and saw_rem)):
            feats.add("nontrivial")
    elif maxlive >= 3 and saw_rem and (saw_readd or saw_upd):
        feats.add("nontrivial")
    if saw_readd:
        feats.add("re-add-of-removed-key")
    return bad, feats


def monitor(stream, case, out):
    global STRICT
    bad = _spec(case, out)[0]
    if any(m.startswith("[C10-A]") for m in bad) and STRICT:
        # [C10-A] is finding F6 and nothing else: the implementation must then do exactly what the LENIENT reference
        # does (the pending echo of a child whose guard throws while the echo node is due is dropped, everything else
        # as alone).  A trace that the lenient reference does not explain either is a different violation.
        STRICT = False
        try:
            lenient = _spec(case, out)[0]
        finally:
            STRICT = True
        if lenient:
            bad = [m.replace("[C10-A]", "[C10-delta] (not explained by finding F6 either)") for m in bad]
    if any(m.startswith("[C10-B]") for m in bad):
        # a message of finding C10-B must never hide an unexplained one of the same case
        other = [m for m in bad if not m.startswith("[C10-B]")]
        return (other or bad)[:3]
    return bad[:3]


def features(stream, case, out):
    return sorted(x for x in _spec(case, out)[1] if x != "nontrivial")


def nontrivial(stream, case, out):
    return "nontrivial" in _spec(case, out)[1]


OBSERVABLE = ("rec", "val", "ev", "run", "act", "erec", "eval")


def alarm_filter(stream, case, impl_out, model_out):
    """Observable: recorded deltas, output value, lifecycle / evaluation events, started-child count, error
    deltas and values, error classes.  `cg` (constructed child graphs, i.e. when the key-set source physically
    erases a removed slot) is model-internal."""
    notes, alarm = [], False
    if len(impl_out) != len(model_out):
        return True, ["line counts differ"]
    for i, (x, y) in enumerate(zip(impl_out, model_out)):
        if x == y:
            continue
        fx, fy = _fields(x), _fields(y)
        if not fx or not fy or x.split("=")[0] != y.split("=")[0]:
            alarm = True
            notes.append("line %d: %r vs %r" % (i, x, y))
            continue
        diff = [k for k in set(fx) | set(fy) if fx.get(k) != fy.get(k)]
        if any(k in OBSERVABLE for k in diff):
            alarm = True
        notes.append("line %d: %s" % (i, ",".join(sorted(diff))))
    return alarm, notes


# ------------------------------------------------------------------ map_ over a DYNAMIC list (tsl_map_node.cpp)
# Plug-in tools/props/c10tsl.py, streams `tslmap*` (harness/drv_tslmap.cpp = hgv_tslmap, lean/Drivers/TslMap.lean,
# Model/TslMap.lean, Props/C10Tsl.lean), merged by stream-name prefix; everything above is unchanged, `gen_case`,
# `monitor`, `features`, `nontrivial`, `alarm_filter` keep their behaviour for every other stream (tools/props/c15.py
# imports them).
import c10tsl as _ct

LEAN_MODULES = LEAN_MODULES + _ct.LEAN_MODULES
THEOREMS = THEOREMS + _ct.THEOREMS
CXX_TARGETS = CXX_TARGETS + _ct.CXX_TARGETS
RULE = RULE + ". " + _ct.RULE
TRUSTED = TRUSTED + _ct.TRUSTED
ASSUMPTIONS = ASSUMPTIONS + _ct.ASSUMPTIONS
LEVEL_TEXT = LEVEL_TEXT + " " + _ct.LEVEL_TEXT
LEVEL_NOTE = LEVEL_NOTE + " " + _ct.LEVEL_NOTE

_streams_tsd, _monitor_tsd, _features_tsd, _nontrivial_tsd, _alarm_filter_tsd = streams, monitor, features, nontrivial, alarm_filter


def _is_tsl(stream):
    return stream.startswith("tslmap")


def streams(rng, tier, seed):
    return _streams_tsd(rng, tier, seed) + _ct.streams(rng, tier, seed)


def monitor(stream, case, out):
    return _ct.monitor(stream, case, out) if _is_tsl(stream) else _monitor_tsd(stream, case, out)


def features(stream, case, out):
    return _ct.features(stream, case, out) if _is_tsl(stream) else _features_tsd(stream, case, out)


def nontrivial(stream, case, out):
    return _ct.nontrivial(stream, case, out) if _is_tsl(stream) else _nontrivial_tsd(stream, case, out)


def alarm_filter(stream, case, impl_out, model_out):
    if _is_tsl(stream):
        return _ct.alarm_filter(stream, case, impl_out, model_out)
    return _alarm_filter_tsd(stream, case, impl_out, model_out)


def valid_case(stream, case, impl_out, model_out):
    if _is_tsl(stream):
        return _ct.valid_case(stream, case, impl_out, model_out)
    return True
