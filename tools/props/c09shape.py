"""C09 (structured-boundary stream) - a sub-graph whose RESULT / ARGUMENTS are structured (TSB of 2-4 fields, fixed TSL of
2-4, TSB containing a TSL, TSL of TSBs; bundle / list arguments) records the same outer delta and value inlined or nested,
at depth 1..4 and inside a wrapper graph.

Meant to be merged into tools/props/c09.py the way c07.py merges c07gs.py / c08.py merges c08shape.py:
    streams += ns.streams(...); monitor/features/nontrivial/valid_case/alarm_filter dispatch on stream.startswith("nestshape-");
    LEAN_MODULES += ns.LEAN_MODULES; THEOREMS += ns.THEOREMS; CXX_TARGETS += ns.CXX_TARGETS; RULE/TRUSTED/ASSUMPTIONS appended.

Protocol (harness/drv_nestshape.cpp, lean/Drivers/C09Shape.lean):
    case <n> / def <res> <args> <style> <timer> <rule per leaf>.. / c <v|-> per input channel (one line per consecutive
    smallest step from MIN_ST) / run <mode>   (mode: inl n1 n2 n3 n4 nw; every run line answers the whole trace
    "ok cyc=<root cycle times> | <t> d={leaf=value,..} v={..} g={leaves modified but unset} | ..")

args cf cr cl cs cn xf sc: the body's inputs are CAPTURED outer ports (stream nestshape-capture; Lean: Model/Capture.lean).
args <form><code>, form tl tb il ib t2, code i e m k: TWINS on the elements of one structured parameter (stream
nestshape-twins; Lean: Model/BoundaryKey.lean).  args rs: a REF-producing terminal as plain result (Model/NestRef.lean).
mode s<d>@<k>: the definition is started late, inside a switch_ branch selected at cycle k, inlined (d=0) or nested_ at depth d.
args P<tree>@<views>: ONE structured parameter whose outer argument is assembled to any depth from separate sources
(tree := s | l[..] | b[..] structural TSL / TSB | L[..] | B[..] one peered writer), the body consumes 1-3 views (w = whole,
i.j.k = tsl_element / field projections; a scalar leaf or an inner structure consumed whole); stream nestshape-path;
Lean: Model/BoundaryPath.lean, Props/C09Path.lean.

The monitor tags the known discrepancy of COMPOSED results (stdlib::to_tsb / to_tsl in the body) with the stable prefix
[C09-composed]; such bodies only occur in the stream nestshape-composed."""
import itertools
import os
import re
from vlib import Case, Stream, BUILD, model_cmd

ID = "C09S"
LEAN_MODULES = ["HgVerif.Props.C09Shape", "HgVerif.Props.C09Capture", "HgVerif.Props.C09BoundaryKey", "HgVerif.Props.C09Findings",
                "HgVerif.Props.C09Path"]
THEOREMS = [
    "HgVerif.NestShape.forwarded_delta_eq_body_delta",
    "HgVerif.NestShape.nested_delta_eq_inlined_delta",
    "HgVerif.NestShape.no_tick_without_body_tick",
    "HgVerif.NestShape.forwarded_value_eq_body_value",
    "HgVerif.NestShape.all_leaves_bound_after_start",
    "HgVerif.NestShape.nested_depth_succ",
    "HgVerif.NestShape.nested_depth_irrelevant",
    "HgVerif.NestShape.ghost_iff",
    "HgVerif.NestShape.short_circuit_leaves_unbound",
    "HgVerif.NestShape.composed_result_reticks_unticked_leaf",
    "HgVerif.Capture.capture_slots_injective_on_ports",
    "HgVerif.Capture.captured_binding_eq_outer_port",
    "HgVerif.Capture.captured_binding_through_levels",
    "HgVerif.Capture.indexFor_frozen_stable",
    "HgVerif.Capture.node_keyed_table_aliases_ports",
    "HgVerif.BoundaryKey.sourceKeyFor_injective",
    "HgVerif.BoundaryKey.keyOf_eq_iff",
    "HgVerif.BoundaryKey.instance_eq_iff_key_eq",
    "HgVerif.BoundaryKey.merged_iff_same_def_scalars_sources",
    "HgVerif.BoundaryKey.served_by_own_inputs",
    "HgVerif.BoundaryKey.no_declared_path_merges_twins",
    "HgVerif.NestRef.ref_terminal_retarget_one_evaluation_late",
    "HgVerif.BoundaryPath.boundary_path_resolves_to_inlined_source",
    "HgVerif.BoundaryPath.boundary_paths_injective",
    "HgVerif.BoundaryPath.boundaryRefs_shape",
    "HgVerif.BoundaryPath.bind_boundaryShape_eq_source",
    "HgVerif.BoundaryPath.nested_input_eq_inlined_source",
    "HgVerif.BoundaryPath.nested_depth_reads_inlined_sources",
    "HgVerif.BoundaryPath.nested_depth_irrelevant_inputs",
    "HgVerif.BoundaryPath.nested_body_value_eq_inlined",
    "HgVerif.BoundaryPath.nested_structured_argument_delta_eq_inlined",
    "HgVerif.BoundaryPath.nested_structured_argument_depth_irrelevant",
    "HgVerif.BoundaryPath.moved_prefix_aliases_and_misbinds",
    "HgVerif.BoundaryPath.moved_prefix_same_on_flat",
]
CXX_TARGETS = ["hgv_nestshape"]
RULE = ("nestshape streams: one sub-graph definition with a STRUCTURED result (TS | TSB of 2-4 scalar fields | fixed TSL of "
        "2-4 | TSB{a,l:TSL2} | TSL<TSB{f0,f1},2>) and 1-3 scalar / a bundle / a list / bundle+scalar arguments, whose body "
        "ticks different leaves in different cycles (all leaves at once, tail leaves only on odd inputs, one leaf once at "
        "the first evaluation, a leaf per argument, stateful counters / accumulators, leaves driven by an internal timer "
        "armed in start() or at the first evaluation, never-ticking leaves), attached as a node-owned result, behind a "
        "sink, as a projection of a larger node output, or as a pass-through of the first argument; run from the same case "
        "lines inlined and nested at depth 1, 2 (always), 3, 4 and inside a wrapper graph (sampled); histories of 3-12 "
        "consecutive smallest steps (dense, with gaps, first argument arriving late so that the body's gate is closed at "
        "first, single ticks); a recorder on the OUTER result logs per cycle the delta and the full value; the monitor "
        "requires every nested run to equal the inlined run cycle by cycle.  Bodies whose result is COMPOSED "
        "(to_tsb/to_tsl) are kept in the separate stream nestshape-composed (known finding [C09-composed]).  thorough adds "
        "every 3-cycle history of a three-argument TSB{f0,f1,f2} body.  Stream nestshape-capture: the same bodies with "
        "CAPTURED outer ports instead of (sc: in addition to) declared arguments - two fields of one outer TSB-producing "
        "node in either order (cf, cr), two elements of one outer TSL node (cl), the same field twice (cs, control), one "
        "field each of two nodes (cn, control), two fields through context::scope/get (xf), result styles node / sink / "
        "proj / captured pass-through - the two captured ports carry different values and tick patterns.  Stream "
        "nestshape-twins: the body applies the SAME node type with equal scalars (ident, or a self-scheduling echo) to two "
        "elements of ONE structured parameter - a peered TSL / TSB output (tl, tb) or a structural {a,b} initializer (il, ib) "
        "- and the rule body reads the twin outputs; controls: twins on two separate scalar parameters (t2), different node "
        "types (m) or different scalars (k) per element; the elements carry different values and tick times.  Stream "
        "nestshape-findings holds the three deviations of the current code, each tagged: a REF-producing terminal exposed "
        "as a plain result ([C09-ref-terminal]), a pass-through of a structural {a,b} argument ([C09-struct-pass]) and "
        "definitions started LATE inside a switch_ branch, nested (s1@k, s2@k) against inlined in the branch (s0@k) "
        "([C09-late-start]).  Stream nestshape-path: ONE structured parameter whose outer argument is ASSEMBLED from "
        "separate scalar writers (and peered structured writers) to depth 1-3 - to_tsl / to_tsb of to_tsl / to_tsb .., "
        "widths 1-3, lists of lists, bundles of lists, lists of bundles, a depth-3 tree with width-1 levels, random "
        "sub-structures replaced by ONE peered writer - and a body that consumes 1-3 views of it: random scalar leaves "
        "projected with tsl_element / field (mostly NOT the first child of their inner structure), an inner l[ss] / b[ss] / "
        "l[sss] structure consumed whole by the body node, the whole parameter, or an inner structure plus a scalar; every "
        "scalar source has its own value range and ticks in its own cycles (solo ticks of every consumed source), so a "
        "child endpoint that is left unbound or bound to another source changes the result; run inlined and nested_ at "
        "depth 1, 2 (always) and 3 (sampled).  A case is non-trivial when the inlined run "
        "ticked in >=2 cycles; distinct by case text")
TRUSTED = ["structured parameters (stream nestshape-path): the endpoint of a structural outer argument is modelled by its source "
           "tree (non-peered positions have no output; a peered position is a link to that output); which history column a "
           "body channel reads is computed by HgVerif.BoundaryPath.bodyInput in lean/Drivers/C09Shape.lean (correspondence)",
           "late start (modes s<d>@<k>): that a switch_ branch binds its boundary inputs SAMPLED while a nested_ node binds "
           "them plain and only schedules the consumers is part of the body interpreter of lean/Drivers/C09Shape.lean "
           "(correspondence), not of a theorem",
           "the recorder reads modified()/valid()/value() per LEAF of the outer result (an Unchecked input); what "
           "delta_value()/the dense recorder would capture was cross-checked by hand (HGV_NESTSHAPE_DV=1) only",
           "the body vocabulary interpreter (rules, gate on the first argument, timer) of lean/Drivers/C09Shape.lean is part of "
           "the correspondence, not of the theorems, which quantify over arbitrary per-leaf writes",
           "a structured shape is modelled by its leaves in depth-first order (interior nodes of the forwarding tree are "
           "navigation only)"]
ASSUMPTIONS = ["the nested graph is started with its parent at the start of the run (no late start under switch_/map_: a "
               "leaf that is already valid when a level >= 2 first evaluates would be re-reported by the re-point)",
               "one write per leaf and evaluation; values are Int",
               "the body is gated by its first argument (a body with an explicitly empty validity gate is finding F2)"]

NS = [os.path.join(BUILD, "hgv_nestshape")]
PAIRS = ["ts:s1", "ts:ab", "b2:s2", "b2:ab", "b2:bs", "b3:s3", "b3:s1", "b4:s2", "b4:al", "l2:s1", "l2:al",
         "l3:s2", "l3:bs", "l4:s1", "l4:s3", "bl:s2", "bl:ab", "lb:s2", "lb:al"]
BASE_PAIRS = list(PAIRS)
CAP_KINDS = ["cf", "cr", "cl", "cs", "cn", "xf"]
CAP_PAIRS = [r + ":" + k for r in ("ts", "b2", "l3") for k in CAP_KINDS] + ["b3:sc"]
PAIRS = PAIRS + CAP_PAIRS
TWIN_FORMS = ["tl", "tb", "il", "ib", "t2"]          # one peered TSL / TSB output, a structural {a,b} initializer, two scalars
TWIN_CODES = ["i", "e", "m", "k"]                    # ident+ident, echo+echo, ident+echo (control), echo(2)+echo(3) (control)
TWIN_PAIRS = ["l3:" + f + c for f in TWIN_FORMS for c in TWIN_CODES] + \
             ["l2:tli", "l2:tle", "l2:ili", "l2:ile", "b2:tbi", "b2:tbe", "b2:ibi", "b2:ibe"]
PAIRS = PAIRS + TWIN_PAIRS + ["ts:rs"]
SW_PAIRS = ["ts:s1", "b2:s2", "l3:s2", "b3:s3"]      # definitions that can be started late inside a switch_ branch
SW_MODE = re.compile(r"^s([0-2])@([0-9]+)$")
LEAVES = {"ts": 1, "b2": 2, "b3": 3, "b4": 4, "l2": 2, "l3": 3, "l4": 4, "bl": 3, "lb": 4}
CHANS = {"rs": 3, "s1": 1, "s2": 2, "s3": 3, "ab": 2, "al": 2, "bs": 3, "cf": 2, "cr": 2, "cl": 2, "cs": 1, "cn": 2, "xf": 2, "sc": 3}


for _f in ["tl", "tb", "il", "ib", "t2"]:
    for _c in "iemk":
        CHANS[_f + _c] = 2


def is_twin(args):
    return len(args) == 3


def is_capture(args):
    return args in CAP_KINDS or args == "sc"


# ----------------------------------------------------------------------------- P<tree>@<views>: one structured parameter
PATH_SIGS = ["l[sss]", "b[ss]", "l[l[ss]l[ss]]", "b[l[ss]s]", "b[sl[ss]]", "l[b[ss]b[ss]b[ss]]", "b[l[sss]b[ss]s]",
             "l[l[l[ss]l[ss]]l[l[ss]l[ss]]]", "b[l[b[ss]b[ss]]sl[sss]]", "b[b[l[sss]]l[l[s]l[s]]]"]


def is_path(args):
    return args.startswith("P")


def pt_parse(text, i=0, in_peered=False):
    """tree := s | l[..] | b[..] | L[..] | B[..] -> (node, next index); node = dict(kind, peered, kids, leaves, sig)"""
    if i >= len(text):
        raise ValueError("tree")
    c = text[i]
    if c == "s":
        return dict(kind="s", peered=True, kids=[], leaves=1, sig="s"), i + 1
    lc = c.lower()
    if lc not in "lb" or (in_peered and c != lc) or text[i + 1:i + 2] != "[":
        raise ValueError("tree")
    peered = in_peered or c != lc
    i += 2
    kids = []
    while i < len(text) and text[i] != "]":
        k, i = pt_parse(text, i, peered)
        kids.append(k)
    if i >= len(text) or not kids or len(kids) > 3:
        raise ValueError("tree")
    return dict(kind=lc, peered=peered, kids=kids, leaves=sum(k["leaves"] for k in kids),
                sig=lc + "[" + "".join(k["sig"] for k in kids) + "]"), i + 1


def pt_at(node, path):
    for k in path:
        if k >= len(node["kids"]):
            return None
        node = node["kids"][k]
    return node


def pt_text(node):
    if node["kind"] == "s":
        return "s"
    c = node["kind"].upper() if node["peered"] and not node.get("under_peered") else node["kind"]
    return c + "[" + "".join(pt_text(k) for k in node["kids"]) + "]"


def views_ok(views, sigs):
    if not sigs or len(sigs) > 3:
        return False
    if all(x == "s" for x in sigs):
        return True
    if len(sigs) == 1:
        return sigs[0] in ("l[ss]", "b[ss]", "l[sss]") or views[0] == []
    if len(sigs) == 2:
        return (sigs[0] in ("l[ss]", "b[ss]") and sigs[1] == "s") or (sigs[0] == "s" and sigs[1] in ("l[ss]", "b[ss]"))
    return False


_PATH_CACHE = {}


def path_parse(args):
    """-> dict(tree, views=[[int]], subs=[node], chans, bch) or None"""
    if args in _PATH_CACHE:
        return _PATH_CACHE[args]
    res = None
    try:
        if is_path(args) and "@" in args:
            t, v = args[1:].split("@", 1)
            tree, n = pt_parse(t)
            if n == len(t) and tree["sig"] in PATH_SIGS:
                views = []
                for x in v.split(","):
                    if x == "w":
                        views.append([])
                    elif re.match(r"^[0-2](\.[0-2])*$", x):
                        views.append([int(y) for y in x.split(".")])
                    else:
                        raise ValueError("view")
                subs = [pt_at(tree, q) for q in views]
                if all(z is not None for z in subs) and views_ok(views, [z["sig"] for z in subs]):
                    res = dict(tree=tree, views=views, subs=subs, chans=tree["leaves"], bch=sum(z["leaves"] for z in subs))
    except (ValueError, IndexError):
        res = None
    _PATH_CACHE[args] = res
    return res


def chans_of(args):
    if is_path(args):
        pp = path_parse(args)
        return pp["chans"] if pp else 0
    return CHANS.get(args, 0)


def body_chans(args):
    if is_path(args):
        pp = path_parse(args)
        return pp["bch"] if pp else 0
    return 2 if args == "cs" else CHANS[args]
MODES = ["inl", "n1", "n2", "n3", "n4", "nw"]
FLAT = ("b2", "b3", "b4", "l2", "l3", "l4")


def pass_ok(res, args):
    if is_twin(args):
        return res != "l3" and args[:2] != "t2"
    return (res == "ts" and (args[0] == "s" or args in CAP_KINDS)) or (res == "b2" and args in ("ab", "bs")) or (res == "l2" and args == "al")


# ----------------------------------------------------------------------------- parsing

def parse_case(case):
    """-> dict(res, args, style, timer, rules, hist=[[v|None]], runs=[(line_index, mode)]) or None"""
    L = case.lines
    if len(L) < 4:
        return None
    w = L[1].split()
    if len(w) < 6 or w[0] != "def":
        return None
    if is_path(w[2]):
        if w[1] != "l3" or w[3] != "node" or path_parse(w[2]) is None:
            return None
    elif (w[1] + ":" + w[2]) not in PAIRS:
        return None
    res, args, style, timer = w[1], w[2], w[3], w[4]
    if style not in ("node", "sink", "proj", "pass", "comp") or len(w) != 5 + LEAVES[res]:
        return None
    hist, runs = [], []
    for i, ln in enumerate(L[2:], start=2):
        t = ln.split()
        if not t:
            return None
        if t[0] == "c" and not runs:
            if len(t) != 1 + chans_of(args):
                return None
            row = []
            for x in t[1:]:
                if x == "-":
                    row.append(None)
                else:
                    try:
                        row.append(int(x))
                    except ValueError:
                        return None
            hist.append(row)
        elif t[0] == "run" and len(t) == 2 and (t[1] in MODES or SW_MODE.match(t[1])):
            runs.append((i, t[1]))
        else:
            return None
    if not hist or not runs:
        return None
    return dict(res=res, args=args, style=style, timer=timer, rules=w[5:], hist=hist, runs=runs)


def parse_braces(text):
    if not (text.startswith("{") and text.endswith("}")):
        raise ValueError(text)
    body = text[1:-1]
    out = {}
    if body:
        for tok in body.split(","):
            if "=" in tok:
                a, b = tok.split("=")
                out[int(a)] = int(b)
            else:
                out[int(tok)] = None
    return out


def parse_run(line):
    """'ok cyc=.. | t d= v= g=' -> (cycles [int], {t: (d, v, g)})"""
    if not line.startswith("ok cyc="):
        raise ValueError(line[:60])
    parts = line.split(" | ")
    cyc = [int(x) for x in parts[0][len("ok cyc="):].split(",") if x]
    ent = {}
    for p in parts[1:]:
        f = p.split(" ")
        if len(f) < 4 or not (f[1].startswith("d=") and f[2].startswith("v=") and f[3].startswith("g=")):
            raise ValueError(p[:60])
        ent[int(f[0])] = (parse_braces(f[1][2:]), parse_braces(f[2][2:]), sorted(parse_braces(f[3][2:])))
    return cyc, ent


def fmt(d):
    return "{" + ",".join("%d=%d" % (k, d[k]) for k in sorted(d)) + "}"


# ----------------------------------------------------------------------------- the property on ONE implementation trace

def check_trace(stream, case, out):
    """-> (violations, composed-finding messages, features)"""
    bad, comp, feats = [], [], set()
    p = parse_case(case)
    if p is None:
        return bad, comp, feats
    feats.update(["res=" + p["res"], "args=" + ("P(one-structured-parameter)" if is_path(p["args"]) else p["args"]), "style=" + p["style"],
                  "timer=" + ("none" if p["timer"] == "t0" else "at-first-eval" if p["timer"][0] == "e" else "in-start")])
    if is_capture(p["args"]):
        feats.add("capture:" + {"cf": "two-fields-of-one-TSB-node", "cr": "two-fields-of-one-TSB-node(reverse-order)",
                                "cl": "two-elements-of-one-TSL-node", "cs": "same-field-twice(control)",
                                "cn": "fields-of-two-nodes(control)", "xf": "two-fields-via-context-scope",
                                "sc": "declared-argument+two-captured-fields"}[p["args"]])
        cols = [c for c in range(CHANS[p["args"]]) if p["args"] != "sc" or c >= 1]
        if len(cols) >= 2 and any(row[cols[0]] != row[cols[1]] for row in p["hist"]):
            feats.add("capture:the-two-ports-carry-different-streams")
    if is_path(p["args"]):
        feats.update(path_features(p))
    for r in p["rules"]:
        feats.add("rule:" + {"A": "any-input", "K": "one-argument", "O": "odd-values-only", "F": "once-at-first-eval",
                             "T": "internal-timer", "N": "never"}.get(r[0], "?") + "/" +
                  {"x": "input-value", "n": "counter(stateful)", "a": "accumulator(stateful)", "k": "constant"}.get(r[2 if r[0] in "KO" else 1], "?"))
    if len(out) != len(case.lines):
        return ["[lines] %d output lines for %d input lines" % (len(out), len(case.lines))], comp, feats
    runs = {}
    for li, mode in p["runs"]:
        res = out[li]
        if not res.startswith("ok"):
            bad.append("[run] run %s failed: %s" % (mode, res[:60]))
            continue
        try:
            runs[mode] = parse_run(res)
        except Exception as e:
            bad.append("[lines] unreadable run line (%s): %s" % (mode, str(e)[:60]))

    def ref_of(mode):
        m = SW_MODE.match(mode)
        return ("s0@" + m.group(2)) if m else "inl"

    base = "inl" if "inl" in runs else next((m for m in runs if m.startswith("s0@")), None)
    if base is None:
        return bad, comp, feats
    icyc, ient = runs[base]
    ticks = [t for t in sorted(ient) if ient[t][0]]
    if len(ticks) >= 2:
        feats.add("inlined-ticked>=2")
    nl = LEAVES[p["res"]]
    if is_twin(p["args"]):
        feats.add("twins:" + {"tl": "elements-of-one-peered-TSL", "tb": "fields-of-one-peered-TSB", "il": "elements-of-a-{a,b}-initializer(TSL)",
                              "ib": "fields-of-a-{a,b}-initializer(TSB)", "t2": "two-separate-scalar-parameters(control)"}[p["args"][:2]])
        feats.add("twin:" + {"i": "ident+ident", "e": "echo+echo(self-scheduling)", "m": "ident+echo(different-node-types,control)",
                             "k": "echo(2)+echo(3)(different-scalars,control)"}[p["args"][2]])
        if any(row[0] != row[1] for row in p["hist"]):
            feats.add("twins:the-two-elements-carry-different-streams")
    if p["args"] == "rs":
        feats.add("ref-terminal-as-plain-result")
        if sum(1 for row in p["hist"] if row[0] is not None) >= 2:
            feats.add("ref-terminal:retargets")
    # coverage of the hard cases: leaves that tick early / once / late
    if ticks:
        first = ticks[0]
        if len(ient[first][0]) == nl and nl >= 2:
            feats.add("all-leaves-tick-in-first-ticking-cycle")
        if nl >= 3 and any(q >= 2 for q in ient[first][0]):
            feats.add("leaf>=2-ticks-in-first-ticking-cycle")
        for q in range(nl):
            tq = [t for t in ticks if q in ient[t][0]]
            if len(tq) == 1 and tq[0] == first and len(ticks) >= 2:
                feats.add("a-leaf-ticks-only-in-the-first-ticking-cycle")
            if not tq:
                feats.add("a-leaf-never-ticks")
        if any(len(ient[t][0]) < nl for t in ticks) and nl >= 2:
            feats.add("partial-delta(strict-subset-of-leaves)")
    if icyc and ticks and icyc[0] < ticks[0]:
        feats.add("engine-cycle-before-first-tick(gate-closed-or-no-leaf)")
    if any(all(x is None for x in row) for row in p["hist"]):
        feats.add("idle-step(gap)")
    if base == "inl" and any(t not in [1 + k for k, row in enumerate(p["hist"]) if any(x is not None for x in row)] for t in icyc):
        feats.add("timer-only-cycle")
    for mode, (cyc, ent) in runs.items():
        ref = ref_of(mode)
        if mode == ref:
            continue
        if ref not in runs:
            continue
        rcyc, rent = runs[ref]
        sw = SW_MODE.match(mode)
        feats.add("mode=" + (("late-start-in-switch-branch,depth-%s" % sw.group(1)) if sw else mode))
        if sw:
            k = int(sw.group(2))
            feats.add("late-start:first-cycle" if k == 1 else "late-start:after-the-first-cycle")
            if any(x is not None for row in p["hist"][:k - 1] for x in row):
                feats.add("late-start:an-argument-is-valid-before-the-start")
        if any(e[2] for e in ent.values()):
            feats.add("ghost-tick(modified-but-unset-leaf,depth>=2)")
        diffs = []          # (t, tag, message)
        if cyc != rcyc:
            diffs.append((0, "cycles", "[C09-cycles] the engine cycles of the nested run (%s) differ from the reference run (%s): nested %s, reference %s"
                          % (mode, ref, cyc, rcyc)))
        for t in sorted(set(rent) | set(ent)):
            di, vi, _ = rent.get(t, ({}, None, []))
            dn, vn, _ = ent.get(t, ({}, None, []))
            if not di and not dn:
                continue            # an evaluation of the recorder without a valued tick (see TRUSTED / ghost_iff)
            if di == dn and (vi == vn or not di or not dn):
                continue
            lost = sorted(q for q in di if q not in dn)
            extra = sorted(q for q in dn if q not in di)
            if lost:
                diffs.append((t, "lost", "[C09-lost] nested (%s) vs %s: leaf/leaves %s ticked in the reference wiring at t=%d but not in the nested one: "
                              "reference d=%s nested d=%s" % (mode, ref, lost, t, fmt(di), fmt(dn))))
            elif extra:
                cur = vn or {}
                same_rest = all(dn[q] == di[q] for q in di)
                if p["style"] == "comp" and same_rest and all(cur.get(q) == dn[q] for q in extra) and (vi is None or vi == vn):
                    diffs.append((t, "composed", "[C09-composed] composed result (to_tsb/to_tsl): the nested wiring (%s) re-reports leaf/leaves %s that did not tick "
                                  "at t=%d: inlined d=%s nested d=%s" % (mode, extra, t, fmt(di), fmt(dn))))
                else:
                    diffs.append((t, "extra", "[C09-extra] nested (%s) vs %s: leaf/leaves %s ticked in the nested wiring at t=%d but not in the reference one: "
                                  "reference d=%s nested d=%s" % (mode, ref, extra, t, fmt(di), fmt(dn))))
            elif di != dn:
                diffs.append((t, "value", "[C09-value] nested (%s) vs %s: the deltas at t=%d differ in values: reference d=%s nested d=%s"
                              % (mode, ref, t, fmt(di), fmt(dn))))
            else:
                diffs.append((t, "value", "[C09-value] nested (%s) vs %s: the full values at t=%d differ: reference v=%s nested v=%s"
                              % (mode, ref, t, fmt(vi or {}), fmt(vn or {}))))
        if not diffs:
            continue
        first_t, _, first_msg = diffs[0]
        detail = first_msg.split("] ", 1)[1]
        # findings on the CURRENT code, each with its own stable tag (reported only when the whole run fits the finding)
        if p["args"] == "rs" and all(tag != "cycles" for _, tag, _ in diffs):
            comp.append("[C09-ref-terminal] a REF-producing terminal exposed as a plain result follows a retarget one nested evaluation late: " + detail)
        elif p["style"] == "pass" and is_twin(p["args"]) and p["args"][0] == "i" and not any(e[0] for e in ent.values()) \
                and all(tag == "lost" for _, tag, _ in diffs):
            comp.append("[C09-struct-pass] a sub-graph that returns its structural {a,b} argument unchanged produces no output when nested: " + detail)
        elif sw and int(sw.group(2)) >= 2 and any(x is not None for row in p["hist"][:int(sw.group(2)) - 1] for x in row) \
                and all(tag != "cycles" for _, tag, _ in diffs):
            # only when an argument was already valid at the late start (otherwise nested must equal the reference); the
            # first visible difference can be later than the start cycle (stateful leaves: the sampled values were counted)
            comp.append("[C09-late-start] a nested_ node started late (switch_ branch) does not present the already valid boundary inputs as "
                        "modified to its child consumers (the branch-level wiring does): " + detail)
        elif all(tag == "composed" for _, tag, _ in diffs):
            comp.extend(m for _, _, m in diffs)
        else:
            bad.extend(m for _, tag, m in diffs if tag != "composed")
    return bad, comp, feats


def path_features(p):
    """coverage of the structured-parameter kind: shape of the assembled argument and what the body consumes"""
    pp = path_parse(p["args"])
    f = set()
    tree = pp["tree"]

    def depth(n):
        return 0 if n["kind"] == "s" else 1 + max(depth(k) for k in n["kids"])

    def asm_depth(n):          # levels of STRUCTURAL assembly (a peered writer is a leaf of the boundary shape)
        return 0 if n["kind"] == "s" or n["peered"] else 1 + max(asm_depth(k) for k in n["kids"])

    def walk(n):
        yield n
        for k in n["kids"]:
            yield from walk(k)
    nodes = list(walk(tree))
    f.add("path:schema-depth=%d" % depth(tree))
    f.add("path:assembled-depth=%d" % asm_depth(tree))
    for n in nodes:
        if n["kind"] != "s":
            f.add("path:width=%d" % len(n["kids"]))
    kinds = {n["kind"] for n in nodes if n["kind"] != "s"}
    if kinds == {"l", "b"}:
        f.add("path:mixed-list-and-bundle")
    if any(n["kind"] != "s" and n["peered"] for n in nodes if n is not tree) and not tree["peered"]:
        f.add("path:a-sub-structure-is-one-peered-writer")
    if tree["peered"]:
        f.add("path:whole-argument-is-one-peered-writer(control)")
    for q, sub in zip(pp["views"], pp["subs"]):
        f.add("path:view=" + ("whole-parameter" if not q else "scalar-leaf" if sub["kind"] == "s" else "inner-structure-consumed-whole"))
        # positions the body reads that are NOT reached through first children only, below the top level of a
        # structurally assembled part: the binding path there is {arg} + a prefix + an index >= 1
        leaves = []

        def lp(n, pre):
            if n["kind"] == "s":
                leaves.append(pre)
            for i, k in enumerate(n["kids"]):
                lp(k, pre + [i])
        lp(sub, list(q))
        for path in leaves:
            # the boundary leaf that covers this scalar: the first peered node on the way down
            n, cut = tree, 0
            while cut < len(path) and not n["peered"]:
                n = n["kids"][path[cut]]
                cut += 1
            bpath = path[:cut]
            if len(bpath) >= 2 and bpath[-1] >= 1:
                f.add("path:reads-a-non-first-child-below-the-top-level")
            if len(bpath) >= 3 and bpath[-1] >= 1:
                f.add("path:reads-a-non-first-child-three-levels-down")
            if len(bpath) >= 2 and bpath[0] >= 1:
                f.add("path:reads-below-a-non-first-top-level-child")
            if cut < len(path):
                f.add("path:projects-into-a-peered-sub-structure")
    cols = list(zip(*p["hist"]))
    if len({tuple(x is not None for x in c) for c in cols}) >= 2:
        f.add("path:sources-tick-in-different-cycles")
    if any(sum(1 for x in row if x is not None) == 1 for row in p["hist"]):
        f.add("path:a-cycle-with-a-single-ticking-source")
    return f


def monitor(stream, case, out):
    bad, comp, _ = check_trace(stream, case, out)
    # a known-finding tag is only reported alone: a case that ALSO shows another violation is reported as that violation
    return bad[:3] if bad else comp[:2]


def features(stream, case, out):
    return sorted(check_trace(stream, case, out)[2])


def nontrivial(stream, case, out):
    return "inlined-ticked>=2" in check_trace(stream, case, out)[2]


def valid_case(stream, case, impl_out, model_out):
    p = parse_case(case)
    if p is None or any("bad-op" in l for l in impl_out):
        return False
    modes = [m for _, m in p["runs"]]
    if (p["style"] == "comp") != (stream == "nestshape-composed"):
        return False
    if stream == "nestshape-capture" and not is_capture(p["args"]):
        return False
    if is_path(p["args"]) != (stream == "nestshape-path"):
        return False
    finding = p["args"] == "rs" or (is_twin(p["args"]) and p["style"] == "pass") or any(SW_MODE.match(m) for m in modes)
    if finding != (stream == "nestshape-findings"):
        return False
    if stream == "nestshape-twins" and not is_twin(p["args"]):
        return False
    sw = [SW_MODE.match(m) for m in modes if SW_MODE.match(m)]
    if sw:
        # every late-start run needs its reference (the body inlined in the branch, same start cycle)
        ks = {m.group(2) for m in sw}
        return all(("s0@" + k) in modes and any(m.group(2) == k and m.group(1) != "0" for m in sw) for k in ks) and \
            (p["res"] + ":" + p["args"]) in SW_PAIRS and p["style"] in ("node", "sink", "proj") and p["timer"][0] != "s"
    return "inl" in modes and len(set(modes)) >= 2


def alarm_filter(stream, case, impl_out, model_out):
    return True, []          # the comparison is exact


# ----------------------------------------------------------------------------- generator

def gen_rules(rng, nl, ch, pattern, has_timer):
    def val():
        r = rng.random()
        if r < 0.45:
            return "x%d" % rng.randrange(ch)
        if r < 0.65:
            return "n"
        if r < 0.8:
            return "a"
        return "k%d" % rng.choice([0, 1, 7, 10, 100, -3])
    rules = []
    once = rng.randrange(nl)
    tleaf = rng.randrange(nl)
    for i in range(nl):
        if pattern == "all":
            trig = "A"
        elif pattern == "tail-odd":
            trig = "A" if i == 0 else "O%d" % rng.randrange(ch)
        elif pattern == "once":
            trig = "F" if i == once else rng.choice(["A", "K%d" % rng.randrange(ch)])
        elif pattern == "per-arg":
            trig = "K%d" % (i % ch)
        elif pattern == "last-once":
            trig = "F" if i == nl - 1 else "A"
        elif pattern == "timer":
            trig = "T" if i == tleaf else rng.choice(["A", "K%d" % rng.randrange(ch), "T"])
        elif pattern == "sparse":
            trig = rng.choice(["N", "F", "O%d" % rng.randrange(ch), "K%d" % rng.randrange(ch)])
        else:
            trig = rng.choice(["A", "A", "K%d" % rng.randrange(ch), "O%d" % rng.randrange(ch), "F", "N"] + (["T"] if has_timer else []))
        rules.append(trig + val())
    return rules


def gen_hist(rng, ch, args):
    n = rng.choice([3, 4, 4, 5, 5, 6, 6, 7, 8, 9, 10, 12])
    kind = rng.choice(["dense", "dense", "gaps", "gaps", "late0", "single", "mixed", "mixed"])
    gate_ch = 1 if args[0] == "s" else 2          # channels of the first argument (the body's gate)
    hist = []
    late = rng.randrange(1, max(2, n - 1))
    for k in range(n):
        row = []
        for j in range(ch):
            if kind == "dense":
                p = 0.85
            elif kind == "gaps":
                p = 0.45
            elif kind == "late0":
                p = (0.0 if k < late else 0.7) if j < gate_ch else 0.6
            elif kind == "single":
                p = 0.15
            else:
                p = 0.8 if (k // 2) % 2 == 0 else 0.25
            if k == 0 and kind in ("dense", "mixed") and j == 0:
                p = 1.0
            row.append(rng.randrange(-4, 10) if rng.random() < p else None)
        hist.append(row)
    if all(row[j] is None for row in hist for j in range(gate_ch)):
        hist[rng.randrange(n)][0] = rng.randrange(1, 9)
    return hist


def case_lines(idx, res, args, style, timer, rules, hist, modes):
    L = ["case %d" % idx, "def %s %s %s %s %s" % (res, args, style, timer, " ".join(rules))]
    for row in hist:
        L.append("c " + " ".join("-" if x is None else str(x) for x in row))
    for m in modes:
        L.append("run " + m)
    return L


def gen_case(rng, idx, composed=False):
    if composed:
        pair = rng.choice([p for p in BASE_PAIRS if p[:2] in FLAT])
    else:
        pair = rng.choice([p for p in BASE_PAIRS for _ in range(3 if LEAVES[p[:2]] >= 3 else 2 if pass_ok(*p.split(":")) else 1)])
    res, args = pair.split(":")
    nl, ch = LEAVES[res], CHANS[args]
    if composed:
        style = "comp"
    else:
        styles = ["node"] * 11 + ["sink"] * 3 + ["proj"] * 4 + (["pass"] * 12 if pass_ok(res, args) else [])
        style = rng.choice(styles)
    pattern = rng.choice(["all", "all", "tail-odd", "tail-odd", "once", "once", "last-once", "per-arg", "per-arg", "timer", "timer",
                          "sparse", "random", "random"])
    if pattern == "timer":
        timer = rng.choice(["e%d" % rng.randrange(1, 4), "s%d,%d" % (rng.randrange(0, 4), rng.randrange(1, 4))])
    elif rng.random() < 0.1:
        timer = rng.choice(["e2", "s1,2", "s0,3"])
    else:
        timer = "t0"
    rules = gen_rules(rng, nl, ch, pattern, timer != "t0")
    hist = gen_hist(rng, ch, args)
    modes = ["inl", "n1", "n2"]
    if not composed:
        r = rng.random()
        if r < 0.2:
            modes.append("n3")
        elif r < 0.3:
            modes.append("n4")
        elif r < 0.55:
            modes.append("nw")
    return Case(case_lines(idx, res, args, style, timer, rules, hist, modes), {"pattern": pattern})


def gen_capture_case(rng, idx):
    """a body whose inputs are captured outer ports; the two captured columns carry disjoint value ranges and tick in
    different cycles, and most leaves follow ONE of them, so that a mis-bound child input shows"""
    kind = rng.choice(["cf"] * 3 + ["cr"] * 3 + ["cl"] * 2 + ["xf"] * 3 + ["sc"] * 2 + ["cs", "cn"])
    res = "b3" if kind == "sc" else rng.choice(["ts", "b2", "b2", "l3", "l3"])
    nl, ch, bch = LEAVES[res], CHANS[kind], body_chans(kind)
    styles = ["node"] * 6 + ["sink"] * 2 + ["proj"] * 2 + (["pass"] * 3 if pass_ok(res, kind) else [])
    style = rng.choice(styles)
    timer = rng.choice(["t0"] * 8 + ["e2", "s1,2"])
    rules = []
    for i in range(nl):
        r = rng.random()
        j = i % bch if rng.random() < 0.7 else rng.randrange(bch)
        if r < 0.55:
            rules.append("K%dx%d" % (j, j))
        elif r < 0.7:
            rules.append("Ax%d" % j)
        elif r < 0.8:
            rules.append("O%dn" % j)
        elif r < 0.9:
            rules.append("Aa")
        else:
            rules.append(rng.choice(["Fx%d" % j, "Tn" if timer != "t0" else "K%dn" % j, "Nk0"]))
    n = rng.choice([3, 4, 5, 6, 7, 8])
    hist = []
    for k in range(n):
        row = []
        for c in range(ch):
            p = [0.75, 0.45, 0.6][c % 3]
            row.append((100 * c + rng.randrange(1, 60)) if rng.random() < p else None)
        hist.append(row)
    if all(row[0] is None for row in hist):
        hist[0][0] = 7
    if ch >= 2 and all(row[1] is None for row in hist):
        hist[min(1, n - 1)][1] = 107
    modes = ["inl", "n1", "n2"] + (["nw"] if rng.random() < 0.25 else []) + (["n3"] if rng.random() < 0.1 else [])
    return Case(case_lines(idx, res, kind, style, timer, rules, hist, modes), {"pattern": "capture"})


def gen_twin_case(rng, idx):
    """twins on two elements of one structured parameter; the elements carry disjoint values and different tick times"""
    form = rng.choice(["tl"] * 3 + ["tb"] * 3 + ["il"] * 3 + ["ib"] * 3 + ["t2"] * 2)
    code = rng.choice(["i"] * 3 + ["e"] * 3 + ["m", "k"])
    style = rng.choice(["node"] * 6 + ["sink"] * 2 + ["proj"] * 2)
    timer = rng.choice(["t0"] * 9 + ["e2"])
    rules = []
    for i in range(3):
        r = rng.random()
        j = i % 2 if rng.random() < 0.75 else rng.randrange(2)
        if r < 0.6:
            rules.append("K%dx%d" % (j, j))
        elif r < 0.75:
            rules.append("Ax%d" % j)
        elif r < 0.85:
            rules.append("Aa")
        elif r < 0.93:
            rules.append("K%dn" % j)
        else:
            rules.append(rng.choice(["Fx%d" % j, "Tn" if timer != "t0" else "An", "Nk0"]))
    n = rng.choice([4, 5, 6, 7, 8, 9])
    hist = [[(100 * c + rng.randrange(1, 60)) if rng.random() < [0.55, 0.4][c] else None for c in range(2)] for _ in range(n)]
    if all(row[0] is None for row in hist):
        hist[0][0] = 3
    if all(row[1] is None for row in hist):
        hist[min(1, n - 1)][1] = 105
    modes = ["inl", "n1", "n2"] + (["n3"] if rng.random() < 0.12 else [])
    return Case(case_lines(idx, "l3", form + code, style, timer, rules, hist, modes), {"pattern": "twins"})


def _pt_nodes(n, pre=()):
    yield n, list(pre)
    for i, k in enumerate(n["kids"]):
        yield from _pt_nodes(k, pre + (i,))


def _pt_render(n, under=False):
    if n["kind"] == "s":
        return "s"
    c = n["kind"].upper() if (n["peered"] and not under) else n["kind"]
    return c + "[" + "".join(_pt_render(k, under or n["peered"]) for k in n["kids"]) + "]"


def gen_path_case(rng, idx):
    """one structured parameter assembled to depth 1-3 from separate sources; the body reads random leaves (mostly not
    first children) / inner structures / the whole parameter; every source has its own value range and solo ticks"""
    sig = rng.choice(PATH_SIGS[:2] + PATH_SIGS[2:5] * 4 + PATH_SIGS[5:7] * 3 + PATH_SIGS[7:] * 4)
    tree, _ = pt_parse(sig)
    # which sub-structures are ONE peered writer
    r = rng.random()
    if r < 0.04:
        tree["peered"] = True
    elif r < 0.40:
        inner = [n for n, q in _pt_nodes(tree) if q and n["kind"] != "s"]
        for n in inner:
            if rng.random() < 0.3:
                n["peered"] = True
    text = _pt_render(tree)
    tree, _ = pt_parse(text)          # normalised (everything under a peered node is peered)
    nodes = list(_pt_nodes(tree))
    leaves = [q for n, q in nodes if n["kind"] == "s"]
    deep_late = [q for q in leaves if len(q) >= 2 and q[-1] >= 1]
    smalls = [q for n, q in nodes if q and n["sig"] in ("l[ss]", "b[ss]")]
    inner = [q for n, q in nodes if q and n["sig"] in ("l[ss]", "b[ss]", "l[sss]")]

    def leaf():
        return rng.choice(deep_late) if deep_late and rng.random() < 0.7 else rng.choice(leaves)
    r = rng.random()
    if r < 0.45 or (not inner and r < 0.85):
        k = rng.choice([1, 2, 2, 3, 3])
        views = [leaf() for _ in range(k)]
    elif r < 0.60 and inner:
        views = [rng.choice(inner)]
    elif r < 0.80 and smalls:
        st = rng.choice(smalls)
        views = [st, leaf()] if rng.random() < 0.5 else [leaf(), st]
    else:
        views = [[]]
    vtext = ",".join("w" if not q else ".".join(str(x) for x in q) for q in views)
    args = "P%s@%s" % (text, vtext)
    pp = path_parse(args)
    assert pp is not None, args
    ch, bch = pp["chans"], pp["bch"]
    # body channel -> history column
    cols = []
    for q, sub in zip(pp["views"], pp["subs"]):
        base = sum(n["leaves"] for n, qq in nodes if n["kind"] == "s" and qq < q)
        cols += list(range(base, base + sub["leaves"]))
    timer = rng.choice(["t0"] * 9 + ["e2", "s1,2"])
    # rules: mostly "leaf i follows body channel j" (tick and value), preferring channels off the first-child spine
    late = [j for j in range(bch) if j >= 1]
    rules = []
    for i in range(3):
        j = rng.choice(late) if late and rng.random() < 0.6 else rng.randrange(bch)
        r = rng.random()
        if r < 0.5:
            rules.append("K%dx%d" % (j, j))
        elif r < 0.65:
            rules.append("Ax%d" % j)
        elif r < 0.8:
            rules.append("Aa")
        elif r < 0.9:
            rules.append("K%dn" % j)
        else:
            rules.append(rng.choice(["O%dx%d" % (j, j), "Tn" if timer != "t0" else "An", "Fx%d" % j, "Nk0"]))
    if bch >= 4 and not any(x == "Aa" for x in rules):
        rules[rng.randrange(3)] = "Aa"            # many channels, three leaves: the accumulator sees every channel
    n = rng.choice([4, 5, 6, 7, 8, 9])
    kind = rng.choice(["solo", "solo", "sparse", "dense", "late-gate"])
    hist = []
    gate_cols = cols[:pp["subs"][0]["leaves"]]
    late_k = rng.randrange(1, max(2, n - 2))
    for k in range(n):
        row = []
        for c in range(ch):
            pr = {"solo": 0.0, "sparse": 0.3, "dense": 0.7, "late-gate": 0.4}[kind]
            if kind == "late-gate" and c in gate_cols and k < late_k:
                pr = 0.0
            row.append((100 * c + rng.randrange(1, 90)) if rng.random() < pr else None)
        hist.append(row)
    if kind == "solo":
        # cycle 0: everything (or the gate only) is set; then one source per cycle, consumed sources first
        for c in (range(ch) if rng.random() < 0.6 else gate_cols):
            hist[0][c] = 100 * c + rng.randrange(1, 90)
        order = list(dict.fromkeys(cols))
        rng.shuffle(order)
        rest = [c for c in range(ch) if c not in order]
        rng.shuffle(rest)
        for k, c in zip(range(1, n), order + rest):
            hist[k][c] = 100 * c + rng.randrange(1, 90)
    else:
        # every consumed source ticks at least once, and once alone
        for c in dict.fromkeys(cols):
            if all(row[c] is None for row in hist):
                hist[rng.randrange(n)][c] = 100 * c + rng.randrange(1, 90)
        k = rng.randrange(n)
        c = rng.choice(cols)
        hist[k] = [None] * ch
        hist[k][c] = 100 * c + rng.randrange(1, 90)
    if all(hist[k][c] is None for k in range(n) for c in gate_cols):
        hist[0][gate_cols[0]] = 100 * gate_cols[0] + 7
    modes = ["inl", "n1", "n2"] + (["n3"] if rng.random() < 0.3 else [])
    return Case(case_lines(idx, "l3", args, "node", timer, rules, hist, modes), {"pattern": "path"})


def gen_finding_case(rng, idx):
    """the three known deviations of the current code (each with controls that must stay clean)"""
    kind = rng.choice(["ref"] * 3 + ["pass"] * 2 + ["late"] * 5)
    if kind == "ref":
        n = rng.choice([4, 5, 6, 8])
        hist = []
        for k in range(n):
            pick = rng.choice([0, 1]) if (k == 0 or rng.random() < 0.35) else None
            hist.append([pick, (10 + k) if rng.random() < 0.5 or k == 0 else None, (200 + k) if rng.random() < 0.5 or k == 0 else None])
        return Case(case_lines(idx, "ts", "rs", "node", "t0", ["Nk0"], hist, ["inl", "n1", "n2"]), {"pattern": "ref"})
    if kind == "pass":
        res, args = rng.choice([("l2", "ili"), ("l2", "ile"), ("b2", "ibi"), ("l2", "tli"), ("b2", "tbi"), ("b2", "tbe")])
        n = rng.choice([3, 4, 5])
        hist = [[(100 * c + rng.randrange(1, 60)) if rng.random() < 0.55 else None for c in range(2)] for _ in range(n)]
        hist[0][0] = 1
        return Case(case_lines(idx, res, args, "pass", "t0", ["Nk0", "Nk0"], hist, ["inl", "n1", "n2"]), {"pattern": "pass"})
    pair = rng.choice(SW_PAIRS)
    res, args = pair.split(":")
    nl, ch = LEAVES[res], CHANS[args]
    timer = rng.choice(["t0"] * 4 + ["e2"])
    pattern = rng.choice(["all", "per-arg", "per-arg", "once", "random", "tail-odd"])
    rules = gen_rules(rng, nl, ch, pattern, timer != "t0")
    n = rng.choice([4, 5, 6, 7, 8])
    hist = [[rng.randrange(-4, 10) if rng.random() < 0.5 else None for _ in range(ch)] for _ in range(n)]
    hist[0][0] = rng.randrange(1, 9) if rng.random() < 0.8 else hist[0][0]
    ks = sorted(set([rng.randrange(2, n + 1)] + ([1] if rng.random() < 0.25 else []) + ([rng.randrange(1, n + 1)] if rng.random() < 0.3 else [])))
    modes = []
    for k in ks:
        modes += ["s0@%d" % k, "s1@%d" % k, "s2@%d" % k]
    style = rng.choice(["node"] * 4 + ["sink", "proj"])
    return Case(case_lines(idx, res, args, style, timer, rules, hist, modes), {"pattern": "late"})


def exhaustive_small(start_idx):
    """every 3-cycle history (per cycle any subset of the three arguments ticks) of the TSB{f0,f1,f2} body whose field i
    follows argument i, and of the body whose third field ticks once at the first evaluation"""
    cases, idx = [], start_idx
    subsets = list(itertools.product([False, True], repeat=3))
    for rules in (["K0x0", "K1x1", "K2x2"], ["Ax0", "K1n", "Fk7"]):
        for hist in itertools.product(subsets, repeat=3):
            if not any(row[0] for row in hist):
                continue
            c = 0
            rows = []
            for row in hist:
                r = []
                for tick in row:
                    c += 1
                    r.append(c if tick else None)
                rows.append(r)
            cases.append(Case(case_lines(idx, "b3", "s3", "node", "t0", rules, rows + [[None, None, None]], ["inl", "n1", "n2"])))
            idx += 1
    return cases


def _corpus(prefix, exclude=()):
    cdir = os.path.join(os.path.dirname(os.path.dirname(os.path.dirname(os.path.abspath(__file__)))), "corpus", "C09")
    out = []
    if os.path.isdir(cdir):
        for f in sorted(os.listdir(cdir)):
            if f.startswith(prefix) and not any(f.startswith(x) for x in exclude):
                out.append(Case([l.rstrip("\n") for l in open(os.path.join(cdir, f)) if l.strip()]))
    return out


def streams(rng, tier, seed):
    n = 450 if tier == "quick" else 12000
    nc = 60 if tier == "quick" else 1500
    cases = [gen_case(rng, i) for i in range(n)]
    if tier != "quick":
        cases += exhaustive_small(n)
    comp = [gen_case(rng, 50000 + i, composed=True) for i in range(nc)]
    ncap = 150 if tier == "quick" else 4000
    capt = [gen_capture_case(rng, 70000 + i) for i in range(ncap)]
    ntw = 150 if tier == "quick" else 4000
    twins = [gen_twin_case(rng, 80000 + i) for i in range(ntw)]
    nfi = 60 if tier == "quick" else 1500
    find = [gen_finding_case(rng, 90000 + i) for i in range(nfi)]
    npa = 160 if tier == "quick" else 5000
    paths = [gen_path_case(rng, 95000 + i) for i in range(npa)]
    special = ("nestshape_composed_", "nestshape_capture_", "nestshape_twins_", "nestshape_findings_", "nestshape_path_")
    return [Stream("nestshape-main", NS, model_cmd("C09Shape"), _corpus("nestshape_", special) + cases, timeout=1800),
            Stream("nestshape-composed", NS, model_cmd("C09Shape"), _corpus("nestshape_composed_") + comp, timeout=1800),
            Stream("nestshape-capture", NS, model_cmd("C09Shape"), _corpus("nestshape_capture_") + capt, timeout=1800),
            Stream("nestshape-twins", NS, model_cmd("C09Shape"), _corpus("nestshape_twins_") + twins, timeout=1800),
            Stream("nestshape-findings", NS, model_cmd("C09Shape"), _corpus("nestshape_findings_") + find, timeout=1800),
            Stream("nestshape-path", NS, model_cmd("C09Shape"), _corpus("nestshape_path_") + paths, timeout=1800)]
