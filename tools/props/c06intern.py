"""C06 (direct half) - the interning key of Wiring::add_node, exercised through the real wiring API.

Streams `intern-*` feed textual wiring programs to harness/drv_intern.cpp (hgv_intern) and to the model driver
lean/Drivers/Intern.lean (HgVerif.InternKey.stepS = HgVerif.Intern.addNode over the key built from the definition, the scalar,
the RESOLVED schema record and the resolved producers).  Every declaration prints WHICH node it denotes and the type of the
port it returned; `run` builds the graph, runs it once and prints what every recorder sink saw.  The monitor decides, from the
program text alone, which declarations must not share a node, which type each port has and which stream each consumer records.
Generic definitions: quote (output type variable bound ONLY by the requested output type, typed and by-name call surface),
echo (type follows the input), a generic recorder sink.
Merged into tools/props/c06.py the way tools/props/c01.py merges c01rank.py (dispatch on the stream name).
"""
import os
from vlib import Case, Stream, BUILD, VERIF, model_cmd

ID = "C06I"
LEAN_MODULES = ["HgVerif.Props.C06Key", "HgVerif.Props.C06KeyOrder", "HgVerif.Props.C06KeySchema", "HgVerif.Model.InternKey",
                "HgVerif.Driver.Proto"]
THEOREMS = ["HgVerif.Intern.pair_same_iff", "HgVerif.Intern.wireAll_same_iff", "HgVerif.Intern.wireAll_perm_same_iff",
            "HgVerif.Intern.wireAll_ctx_same_iff", "HgVerif.Intern.wireAll_count",
            "HgVerif.InternKey.wireL_same_iff_tree", "HgVerif.InternKey.wireL_declared_iff",
            "HgVerif.InternKey.semL_order_irrelevant", "HgVerif.InternKey.wireL_order_irrelevant",
            "HgVerif.InternKey.wireL_declares",
            "HgVerif.InternKey.keyS_pair_same_iff", "HgVerif.InternKey.wireS_same_iff_tree", "HgVerif.InternKey.stree_eq_iff",
            "HgVerif.InternKey.semS_equations", "HgVerif.InternKey.semS_order_irrelevant",
            "HgVerif.InternKey.wireS_order_irrelevant", "HgVerif.InternKey.wireS_declares",
            "HgVerif.InternKey.wireP_same_iff_tree", "HgVerif.InternKey.stepP_merges", "HgVerif.InternKey.stepS_same_iff",
            "HgVerif.InternKey.noOutput_merges", "HgVerif.InternKey.exQ_noOutput_merged", "HgVerif.InternKey.exQ_trees_differ"]
CXX_TARGETS = ["hgv_intern"]
RULE = ("intern streams: wiring programs of 3-12 declarations over 1-3 sources (TS<Int>, TSL<TS<Int>,2>, TSB{a,b}, a source "
        "with an error output) wired through the real wire<X>/wire<X, Out>/wire_operator/Port/passive/error_output API; "
        "definitions: concrete f1 g1 f2 g2 t1, sinks k0 k1 k2, and the generic quote (output type variable bound only by the "
        "requested output type TS<Int>/TS<Float>/TS<Bool>; typed call and by-name call), echo (type follows the input) and "
        "a generic recorder sink; declarations are fresh, exact duplicates, or near-duplicates that differ from an earlier "
        "one in exactly one key dimension (definition, scalar, REQUESTED OUTPUT TYPE, call surface [may share], "
        "producer, output sub-path, output kind, passive marker, rank-dependency flag, input order, structural vs whole "
        "input), plus duplicated sinks; each case wires the SAME declarations in 2-3 admissible statement orders; a "
        "systematic stream enumerates every (base declaration, single-dimension change) pair in both orders; stream "
        "intern-restype: 2-5 applications of quote to one (often duplicated = shared) input expression differing only in "
        "the requested type, with same-type duplicates and echo controls, one recorder per application, in the written, "
        "the reversed and a random order. Programs without rank-free inputs are also RUN once (every source ticks once): "
        "each recorder must show what its own declaration computes alone, identically in every order. "
        "Non-trivial = >=2 orders and a shared or a near-duplicate pair; distinct by program text")
TRUSTED = ["scalar equality in the key uses Value::equals/hash: exercised for Int scalars and for an Int / a Float scalar of equal value (gs)",
           "resolved WiringNodeSchema: the model's schema record (Drivers/Intern.lean schemaOf) is written from the definitions' "
           "signatures; the correspondence ties its OUTPUT component (quote, echo) and its INPUT component (echo, recorder) "
           "to the code through the node identities and port types; error_output / recordable_state / scalar / state "
           "schemas never vary independently of the definition in these streams"]
ASSUMPTIONS = ["sources of the intern streams are peered or one-level structural; boundary / delayed sources are not exercised"]

USES_EXTRACT = False
TECHNIQUE = ("Lean 4 proof that two labels of an admissible wiring program denote one node iff their expression trees "
             "(definition, scalars, resolved schema record, inputs) are "
             "equal, for every statement order (keys are built from the producers' node ids at wiring time), + node-count "
             "theorem + necessity of the schema components (a key that forgets one merges declarations that differ) "
             "+ differential correspondence of the real Wiring::add_node against that model, declaration by "
             "declaration, + text-level monitor (identity, port type, node count, edges, recorded streams)")
LEVEL_TEXT = ("Kernel-checked for every definition/attribute/schema type and every admissible program: same node <=> same "
              "definition, scalars, resolved schema (input, OUTPUT, error_output, recordable_state, scalar, state: "
              "keyS_pair_same_iff, stree_eq_iff) and, input by input, same recorded attributes and same producer tree "
              "(wireS_same_iff_tree / wireL_same_iff_tree); the partition is the same for every admissible statement order "
              "(wireS_order_irrelevant); nodes created = sinks + distinct keys (wireAll_count). A key that records only a "
              "projection of the schema identifies exactly the trees equal after the projection (wireP_same_iff_tree): "
              "it merges two applications of one definition with equal scalars and inputs whose schemas the projection "
              "cannot tell apart, which the coded key keeps distinct (stepP_merges, stepS_same_iff); for the key without "
              "the output schema: noOutput_merges and the evaluated witness exQ_noOutput_merged (quote(x)->TS[int] and "
              "quote(x)->TS[float] one node, one node fewer, in both statement orders).")
LEVEL_NOTE = ("Trusted: Lean kernel; the concrete key of Drivers/Intern.lean (definition, scalar, resolved schema record, per input: "
              "producer node, slot, structural child index, sub-path, output kind, passive marker, rank flag) tied to InstanceKey / "
              "WiringNodeSchema / InputKey / SourceKey by running the real wiring API on generated programs.")

IMPL = [os.path.join(BUILD, "hgv_intern")]
# definition -> (arity, wanted input): "ts" a TS<Int> port, "tsl" the TSL (whole or structural), "any" a TS<Int>/TS<Float>/TS<Bool>
# port (generic input).  q:<t> / qn:<t>: ONE generic definition quote(In<TS<Int>>, Out<TsVar<"O">>) called through the typed
# surface wire<Quote, TS<T>> / by name with a requested output schema; <t> = i | f | b is the requested output type, the only
# thing that binds "O".  ec: echo(In<TsVar<"S">>, Out<TsVar<"S">>), the output type follows the input.  r: recorder sink.
REQ = "ifb"
VALUE_DEFS = {"f1": (1, "ts"), "g1": (1, "ts"), "f2": (2, "ts"), "g2": (2, "ts"), "t1": (1, "tsl"), "ec": (1, "any")}
VALUE_DEFS.update({"%s:%s" % (c, t): (1, "ts") for c in ("q", "qn") for t in REQ})
# gs:<t>: gs(In<TS<Int>>, Scalar<"k", ScalarVar<"T">>, Out<TS<Int>>) with the scalar passed as Int{k} (i) / Float{k} (f): generic in
# its SCALAR only - the resolved scalar schema and the scalar value's type differ, nothing else
VALUE_DEFS.update({"gs:i": (1, "ts"), "gs:f": (1, "ts")})
SINK_DEFS = {"k0": (0, "ts"), "k1": (1, "ts"), "k2": (2, "ts"), "r": (1, "any")}
SRC_TYPES = {"s": "ts", "p": "tsl", "b": "tsb", "e": "tse"}
REQ_TYPE = {"i": "ts", "f": "tf", "b": "tb"}          # label types: ts / tse TS<Int>, tf TS<Float>, tb TS<Bool>
TYPE_CODE = {"ts": "i", "tse": "i", "tf": "f", "tb": "b", "tsl": "l", "tsb": "s"}
SCALAR_TS = ("ts", "tse", "tf", "tb")


def family(d):
    """the node DEFINITION of a def token: q:<t> and qn:<t> are one definition, gs:i and gs:f another"""
    return "q" if d.startswith(("q:", "qn:")) else "gs" if d.startswith("gs:") else d


def requested(d):
    return d.split(":")[1] if d.startswith(("q:", "qn:")) else None


def surface(d):
    return d.split(":")[0] if d.startswith(("q:", "qn:")) else None


def canon(d):
    """q:<t> and qn:<t> are the same declaration (definition, requested type): they MAY share a node"""
    return "q:" + requested(d) if requested(d) else d


def generic(d):
    return ":" in d or d in ("ec", "r")


# ----------------------------------------------------------------------------- program text
# declaration: dict(op, lbl, d, k, ins)   ins: [(passive, free, body)]
# body: ("e", elem) | ("s", elem, elem)   elem: (label, suffix)  suffix in "", ".0", ".1", "!"

def elem_s(e):
    return e[0] + e[1]


def in_s(i):
    p, f, body = i
    b = elem_s(body[1]) if body[0] == "e" else "[%s,%s]" % (elem_s(body[1]), elem_s(body[2]))
    return ("~" if p else "") + ("^" if f else "") + b


def decl_s(d):
    if d["op"] == "src":
        return "src %s %s %d" % (d["lbl"], d["d"], d["k"])
    return "%s %s %s %d %s" % (d["op"], d["lbl"], d["d"], d["k"], " ".join(in_s(i) for i in d["ins"]))


def parse_elem(t):
    if t.endswith("!"):
        return (t[:-1], "!")
    if len(t) >= 3 and t[-2] == "." and t[-1] in "01":
        return (t[:-2], t[-2:])
    return (t, "")


def parse_in(t):
    p = t.startswith("~")
    t = t[1:] if p else t
    f = t.startswith("^")
    t = t[1:] if f else t
    if len(t) >= 2 and t[0] == "[" and t[-1] == "]":
        parts = t[1:-1].split(",")
        if len(parts) != 2:
            return None
        return (p, f, ("s", parse_elem(parts[0]), parse_elem(parts[1])))
    return (p, f, ("e", parse_elem(t)))


def parse_decl(line):
    w = line.split()
    if len(w) == 4 and w[0] == "src" and w[2] in SRC_TYPES and w[3].isdigit():
        return dict(op="src", lbl=w[1], d=w[2], k=int(w[3]), ins=[])
    if len(w) >= 4 and w[0] in ("node", "sink") and w[3].isdigit():
        defs = VALUE_DEFS if w[0] == "node" else SINK_DEFS
        if w[2] not in defs or len(w) != 4 + defs[w[2]][0]:
            return None
        ins = [parse_in(t) for t in w[4:]]
        if any(i is None for i in ins):
            return None
        return dict(op=w[0], lbl=w[1], d=w[2], k=int(w[3]), ins=ins)
    return None


def segments(case, out):
    """-> [ [(decl, output line)], finish output or None ] per statement order"""
    segs, cur, fin = [], [], None
    for i, ln in enumerate(case.lines):
        o = out[i] if i < len(out) else "<none>"
        w = ln.split()
        if not w:
            continue
        if w[0] in ("case", "reset"):
            if cur or fin is not None:
                segs.append((cur, fin))
            cur, fin = [], None
        elif w[0] in ("finish", "run"):
            if fin is None:
                fin = o
        else:
            d = parse_decl(ln)
            if d is not None:
                cur.append((d, o))
    if cur or fin is not None:
        segs.append((cur, fin))
    return segs


# ----------------------------------------------------------------------------- the property on one trace

def all_passive(d):
    return bool(d["ins"]) and all(i[0] for i in d["ins"])


def trees_of(decls):
    """Expression tree of every declaration (nested tuples): WHAT the declaration computes, independent of labels
    and of statement order.  Declarations rejected by the wiring API (all inputs passive) declare nothing."""
    tree = {}

    def elem_t(e):
        return (tree[e[0]], e[1])

    for d in decls:
        if d["op"] == "src":
            tree[d["lbl"]] = ("src", d["d"], d["k"])
            continue
        if all_passive(d):
            continue
        try:
            ins = tuple((p, f) + ((elem_t(b[1]),) if b[0] == "e" else ("[", elem_t(b[1]), elem_t(b[2]))) for p, f, b in d["ins"])
        except KeyError:
            continue
        tree[d["lbl"]] = (d["op"], canon(d["d"]), d["k"], ins)
    return tree


def types_of(decls):
    """label -> type of the port the declaration denotes, from the program text: a source by its kind, q:<t>/qn:<t> the
    REQUESTED type, ec the type of its input, every other value definition TS<Int>"""
    ty = {}
    for d in decls:
        if d["op"] == "src":
            ty[d["lbl"]] = SRC_TYPES[d["d"]]
        elif d["op"] == "node" and not all_passive(d):
            if requested(d["d"]):
                ty[d["lbl"]] = REQ_TYPE[requested(d["d"])]
            elif d["d"] == "ec":
                e = d["ins"][0][2][1]
                t = ty.get(e[0], "ts")
                ty[d["lbl"]] = "ts" if (e[1] or t == "tse") else t
            else:
                ty[d["lbl"]] = "ts"
    return ty


def tree_value(t, memo=None):
    """what a declaration produces ALONE in the one simulation cycle of `run` (None: never ticks): every source ticks its
    scalar once at start (the e source never ticks), a node evaluates iff all its inputs are valid (a structural TSL: one
    child is), f1/g1/f2/g2 = sum of inputs + k, t1 = k, quote -> i: 3a+k+1, -> f: a+k+0.5 (as ('h', a+k)), -> b: a+k odd"""
    memo = {} if memo is None else memo
    if t in memo:
        return memo[t]
    if t[0] == "src":
        v = None if t[1] == "e" else t[2]
    else:
        _, d, k, ins = t

        def ev(e):
            return None if e[1] == "!" else tree_value(e[0], memo)
        args, ok = [], True
        for i in ins:
            vs = [ev(e) for e in i[2:] if e != "["]
            ok = ok and any(x is not None for x in vs)
            args.append(vs[0])
        if not ok:
            v = None
        elif d in ("f1", "g1", "f2", "g2"):
            v = sum(args) + k
        elif d == "t1":
            v = k
        elif d in ("gs:i", "gs:f"):
            v = args[0] + k + (1000 if d == "gs:f" else 0)
        elif d in ("ec", "r"):
            v = args[0]
        elif d == "q:i":
            v = 3 * args[0] + k + 1
        elif d == "q:f":
            v = ("h", args[0] + k)
        elif d == "q:b":
            v = ("b", (args[0] + k) % 2 == 1)
        else:
            v = None
    memo[t] = v
    return v


def value_s(v):
    if v is None:
        return ""
    if isinstance(v, tuple):
        return "%d.5" % v[1] if v[0] == "h" else ("true" if v[1] else "false")
    return str(v)


def why_different(a, b, da, db):
    """names the first key dimension in which two declarations differ (diagnostic text only)"""
    if da["op"] == "src" or db["op"] == "src":
        return "source kind/scalar" if (da["op"], da["d"], da["k"]) != (db["op"], db["d"], db["k"]) else "?"
    if family(da["d"]) != family(db["d"]):
        return "definition"
    if family(da["d"]) == "gs" and da["d"] != db["d"]:
        return "TYPE OF THE SCALAR (k : int / k : float: the resolved scalar schema of one generic definition)"
    if canon(da["d"]) != canon(db["d"]):
        return "REQUESTED OUTPUT TYPE (-> %s / -> %s: the resolved output schema of one generic definition)" % (
            requested(da["d"]), requested(db["d"]))
    if da["k"] != db["k"]:
        return "scalar"
    for s, (x, y) in enumerate(zip(a[3], b[3])):
        if x[0] != y[0]:
            return "passive marker of input %d" % s
        if x[1] != y[1]:
            return "rank-dependency flag of input %d" % s
        if len(x) != len(y):
            return "structural vs whole input %d" % s
        for ex, ey in zip(x[2:], y[2:]):
            if ex == ey or ex == "[":
                continue
            if ex[1] != ey[1]:
                return "output sub-path / output kind of input %d (%r vs %r)" % (s, ex[1], ey[1])
            return "producer of input %d" % s
    return "?"


def expected_edges(decls, tree):
    """multiset of canonical edges of the built graph: one copy per distinct value tree, one per sink"""
    done, es = set(), []
    for d in decls:
        t = tree.get(d["lbl"])
        if t is None or d["op"] == "src":
            continue
        if d["op"] == "node":
            if t in done:
                continue
            done.add(t)
        for slot, (p, f, b) in enumerate(d["ins"]):
            elems = [b[1]] if b[0] == "e" else [b[1], b[2]]
            for j, e in enumerate(elems):
                tp = ".%d" % slot + (".%d" % j if b[0] == "s" else "")
                es.append(repr((tree[e[0]], e[1].replace(".", "@"), t, tp)))
    return sorted(es)


def parse_finish(line, tree):
    """-> (node count, sorted canonical edges) or None"""
    if not line.startswith("nodes="):
        return None
    try:
        n, e = line.split(" rec=")[0].split(" ", 1)
        count = int(n[len("nodes="):])
        es = []
        for t in [x for x in e[len("edges="):].split(",") if x]:
            src, dst = t.split(">")
            kind = ""
            if src.endswith("!"):
                src, kind = src[:-1], "!"
            sp = src.split("@")
            dp = dst.split(".")
            es.append(repr((tree[sp[0]], "".join("@" + x for x in sp[1:]) + kind, tree[dp[0]], "".join("." + x for x in dp[1:]))))
        return count, sorted(es)
    except Exception:
        return None


def check_trace(case, out):
    bad = []
    if any(("bad-op" in l) or l.startswith("<") for l in out):
        return bad
    views = []
    for (items, fin) in segments(case, out):
        decls = [d for d, _ in items]
        if any(all_passive(d) and o != "err" for d, o in items):
            return bad                        # acceptance of an all-passive node is not this property's business
        tree = trees_of(decls)
        types = types_of(decls)
        vals = []
        for d, o in items:
            if d["lbl"] not in tree:
                continue                      # rejected by the wiring API: declares nothing
            if o == "err":
                continue                      # the implementation rejected it: nothing to compare
            if d["op"] == "sink":
                if o != "sink":
                    bad.append("[sink] sink %s returned %r" % (d["lbl"], o[:30]))
                continue
            node, _, stamp = o.partition(":")
            vals.append((d, node))
            # the port a declaration returns has the type the declaration says (for quote: the REQUESTED type)
            want = TYPE_CODE[types[d["lbl"]]]
            if stamp != want:
                bad.append("[type] declaration %s (%s) denotes a %s port but the wiring returned a port of type %r (node %s)"
                           % (d["lbl"], decl_s(d), want, stamp, node))
        for i in range(len(vals)):
            for j in range(i + 1, len(vals)):
                (da, oa), (db, ob) = vals[i], vals[j]
                ta, tb = tree[da["lbl"]], tree[db["lbl"]]
                # equal declarations MAY share one instance (the property does not require it): a split is
                # a difference from the model (reported by the correspondence), never a violation by itself
                if ta != tb and oa == ob:
                    bad.append("[merge] declarations %s and %s differ in the %s but were interned into ONE node %s"
                               % (da["lbl"], db["lbl"], why_different(ta, tb, da, db), oa))
        classes = {}
        for d, o in vals:
            classes.setdefault(o, set()).add(d["lbl"])
        part = frozenset(frozenset(v) for v in classes.values())
        nsinks = sum(1 for d, o in items if d["op"] == "sink" and d["lbl"] in tree and o == "sink")
        view = [part, None, None, None]
        if fin is not None:
            got = parse_finish(fin, tree)
            if got is None:
                bad.append("[build] finish / run of a well-formed wiring returned %r (the dataflow is well typed: every "
                           "declaration wires alone)" % fin[:60])
            else:
                if " rec=" in fin:
                    # each consumer's recorded stream is what its OWN declaration produces alone
                    recs = dict(x.split(":", 1) for x in fin.split(" rec=", 1)[1].split(";") if ":" in x)
                    memo = {}
                    for d, o in items:
                        if d["op"] == "sink" and d["d"] == "r" and d["lbl"] in tree and o == "sink":
                            want = value_s(tree_value(tree[d["lbl"]], memo))
                            if recs.get(d["lbl"]) != want:
                                bad.append("[stream] recorder %s (%s) recorded [%s] but its declaration produces [%s]"
                                           % (d["lbl"], decl_s(d), recs.get(d["lbl"], "<missing>"), want))
                    view[3] = sorted(recs.items())
                ntrees = len({tree[d["lbl"]] for d, _ in vals})
                if got[0] < ntrees + nsinks or got[0] > len(vals) + nsinks:
                    bad.append("[count] built graph has %d nodes but the dataflow has %d distinct value nodes (%d declarations) + %d sinks"
                               % (got[0], ntrees, len(vals), nsinks))
                exp = expected_edges([d for d, o in items if o != "err"], tree)
                if set(got[1]) != set(exp):
                    bad.append("[edges] edges of the built graph differ from the declared dataflow (%d vs %d edges)"
                               % (len(got[1]), len(exp)))
                view[1], view[2] = got[0], got[1]
        views.append(view)
    for i, v in enumerate(views[1:], 1):
        if v[2] is not None and views[0][2] is not None and set(v[2]) != set(views[0][2]):
            bad.append("[order] statement order %d builds a different dataflow than order 0" % i)
        if v[3] is not None and views[0][3] is not None and v[3] != views[0][3]:
            bad.append("[order] statement order %d records different streams than order 0: %s vs %s"
                       % (i, ";".join("%s:%s" % x for x in v[3]), ";".join("%s:%s" % x for x in views[0][3])))
    return bad


def monitor(stream, case, out):
    return check_trace(case, out)[:3]


# ----------------------------------------------------------------------------- coverage

def one_dimension(a, b):
    """a, b: declarations of the same op.  -> name of the single key dimension they differ in, 'equal', or None"""
    if a["op"] != b["op"]:
        return None
    if a["op"] == "src":
        if (a["d"], a["k"]) == (b["d"], b["k"]):
            return "equal"
        return "src-kind" if a["k"] == b["k"] else "src-scalar" if a["d"] == b["d"] else None
    diffs = []
    if family(a["d"]) != family(b["d"]):
        diffs.append("definition")
    elif family(a["d"]) == "gs" and a["d"] != b["d"]:
        diffs.append("scalar-type")
    elif requested(a["d"]) != requested(b["d"]):
        diffs.append("requested-type")        # through whichever surfaces: the declarations differ in the resolved type only
    elif a["d"] != b["d"]:
        diffs.append("call-surface")          # the same declaration through the other surface: MAY share
    if a["k"] != b["k"]:
        diffs.append("scalar")
    if len(a["ins"]) != len(b["ins"]):
        return None
    if a["ins"] != b["ins"] and sorted(map(repr, a["ins"])) == sorted(map(repr, b["ins"])):
        diffs.append("input-order")
    else:
        for x, y in zip(a["ins"], b["ins"]):
            if x[0] != y[0]:
                diffs.append("passive")
            if x[1] != y[1]:
                diffs.append("rank-flag")
            bx, by = x[2], y[2]
            if bx == by:
                continue
            if bx[0] != by[0]:
                diffs.append("structural-vs-whole")
            elif bx[0] == "s" and (bx[1], bx[2]) == (by[2], by[1]):
                diffs.append("child-order")
            else:
                for ex, ey in zip(bx[1:], by[1:]):
                    if ex[0] != ey[0]:
                        diffs.append("producer")
                    if ex[1] != ey[1]:
                        diffs.append("output-kind" if "!" in (ex[1], ey[1]) else "sub-path")
    if not diffs:
        return "equal"
    return diffs[0] if len(diffs) == 1 else None


def features(stream, case, out):
    f = set()
    segs = segments(case, out)
    f.add("orders:%d" % len(segs))
    if not segs:
        return sorted(f)
    items, fin = segs[0]
    decls = [d for d, _ in items]
    n = len(decls)
    f.add("decls:%s" % (n if n <= 4 else "5-8" if n <= 8 else "9-12" if n <= 12 else ">12"))
    tree = trees_of(decls)
    types = types_of(decls)
    if any(ln.split() == ["run"] for ln in case.lines):
        f.add("run")
        if fin and " rec=" in fin and fin.split(" rec=", 1)[1]:
            f.add("run:recorded-streams")
    for d in decls:
        if d["op"] == "src":
            f.add("src:" + d["d"])
        else:
            f.add("def:" + d["d"])
            if d["d"] in ("ec", "r") and d["ins"][0][2][0] == "e":
                f.add("%s-input:%s" % (d["d"], TYPE_CODE.get(types.get(d["ins"][0][2][1][0], "ts"), "?")
                                       if not d["ins"][0][2][1][1] else "i"))
            if all_passive(d):
                f.add("rejected-all-passive")
            for p, fr, b in d["ins"]:
                if p:
                    f.add("passive-input")
                if fr:
                    f.add("rank-free-input")
                if b[0] == "s":
                    f.add("structural-input")
                for e in b[1:]:
                    if e[1] == "!":
                        f.add("error-output-input")
                    elif e[1]:
                        f.add("sub-path-input")
    for i in range(n):
        for j in range(i + 1, n):
            a, b = decls[i], decls[j]
            dim = one_dimension(a, b)
            if dim == "call-surface":
                f.add("same-declaration-through-the-other-surface")
            elif dim != "equal" and a["op"] == b["op"] == "node" and a["lbl"] in tree and tree.get(a["lbl"]) == tree.get(b["lbl"]):
                f.add("shared-through-equal-producers")
            elif dim == "equal":
                f.add("duplicate-sink" if a["op"] == "sink" else "exact-duplicate" if a["op"] == "node" else "duplicate-source")
                if a["op"] == "node" and requested(a["d"]):
                    f.add("exact-duplicate:same-requested-type")
            elif dim:
                f.add("near-dup:" + dim)
                if dim == "requested-type":
                    # which surfaces, which of the two is wired first in order 0, shared input sub-expression
                    f.add("requested-type:%s-then-%s" % (surface(a["d"]), surface(b["d"])))
                    f.add("requested-type:%s-first" % requested(a["d"]))
                    if any(e[0] in tree and tree[e[0]][0] == "node" for _, _, bd in a["ins"] for e in bd[1:]):
                        f.add("requested-type:over-a-shared-sub-expression")
    if any(o == "err" for _, o in items):
        f.add("impl-rejected-declaration")
    nums = [o for d, o in items if d["op"] != "sink" and o.startswith("n")]
    if len(set(nums)) < len(nums):
        f.add("some-node-shared")
    return sorted(f)


def nontrivial(stream, case, out):
    segs = segments(case, out)
    if len(segs) < 2:
        return False
    decls = [d for d, _ in segs[0][0]]
    return any(one_dimension(a, b) for i, a in enumerate(decls) for b in decls[i + 1:])


def alarm_filter(stream, case, impl_out, model_out):
    return True, []          # the model predicts every line exactly


def valid_case(stream, case, impl_out, model_out):
    for o in (impl_out, model_out):
        if o is not None and any(("bad-op" in l) or l.startswith("<") for l in o):
            return False
    return True


# ----------------------------------------------------------------------------- generator

def ts_elems(env, any_ts=False):
    """TS<Int> elements; any_ts: also the TS<Float> / TS<Bool> ports (generic inputs)"""
    es = []
    for l, ty in env.items():
        if ty == "ts":
            es.append((l, ""))
        elif ty == "tse":
            es += [(l, ""), (l, "!")]
        elif ty in ("tf", "tb"):
            if any_ts:
                es.append((l, ""))
        else:
            es += [(l, ".0"), (l, ".1")]
    return es


def refs(d):
    return {e[0] for _, _, b in d["ins"] for e in b[1:]}


class Gen:
    def __init__(self, rng):
        self.rng, self.decls, self.env, self.n = rng, [], {}, 0

    def label(self, prefix):
        self.n += 1
        return "%s%d" % (prefix, self.n)

    def add(self, d):
        self.decls.append(d)
        if d["op"] == "src":
            self.env[d["lbl"]] = SRC_TYPES[d["d"]]
        elif d["op"] == "node" and not all_passive(d):
            self.env[d["lbl"]] = types_of(self.decls)[d["lbl"]]

    def source(self, kind=None, k=None):
        rng = self.rng
        kind = kind or rng.choice("sssppbbee")
        self.add(dict(op="src", lbl=self.label("s"), d=kind, k=rng.choice([0, 0, 1]) if k is None else k, ins=[]))

    def rand_elem(self, any_ts=False):
        es = ts_elems(self.env, any_ts)
        if any_ts and self.rng.random() < 0.6:
            es = [e for e in es if self.env[e[0]] in ("tf", "tb")] or es
        # prefer recent producers so that chains / diamonds appear
        return self.rng.choice(es[-6:] if self.rng.random() < 0.5 else es)

    def rand_input(self, want):
        rng = self.rng
        if want == "any":
            return (rng.random() < 0.10, False, ("e", self.rand_elem(True)))
        free = rng.random() < 0.10
        whole = [l for l, ty in self.env.items() if ty == "tsl"]
        if want == "tsl" and whole and rng.random() < 0.5:
            return (rng.random() < 0.0, free, ("e", (rng.choice(whole), "")))
        if want == "tsl":
            return (False, free, ("s", self.rand_elem(), self.rand_elem()))
        return (rng.random() < 0.15, free, ("e", self.rand_elem()))

    def fix_passive(self, ins):
        """an all-passive node is rejected by the API: keep it only rarely"""
        if ins and all(i[0] for i in ins) and self.rng.random() >= 0.04:
            k = self.rng.randrange(len(ins))
            ins[k] = (False,) + ins[k][1:]
        return ins

    def fresh(self, sink, d=None):
        rng = self.rng
        defs = SINK_DEFS if sink else VALUE_DEFS
        if d is None:
            # the six q tokens are one definition: do not let them crowd out the concrete ones
            d = rng.choice(["k0", "k1", "k1", "k2", "r", "r", "r"] if sink else
                           ["f1", "f1", "g1", "f2", "f2", "g2", "t1", "ec", "ec", "q", "q", "q", "gs:i", "gs:f"])
            if d == "q":
                d = "%s:%s" % (rng.choice(["q", "qn"]), rng.choice(REQ))
        ar, want = defs[d]
        ins = self.fix_passive([self.rand_input(want) for _ in range(ar)])
        if generic(d):
            ins = [(p, False, b) for p, _, b in ins]          # no explicit-WiringInputRef form for generic definitions
        self.add(dict(op="sink" if sink else "node", lbl=self.label("k" if sink else "v"), d=d, k=rng.choice([0, 0, 1]), ins=ins))

    def mutations(self, d):
        """every single-dimension change applicable to d -> list of (dimension, new declaration fields)"""
        out = []
        if d["op"] == "src":
            out.append(("src-scalar", dict(d, k=d["k"] + 1)))
            out += [("src-kind", dict(d, d=k)) for k in "spbe" if k != d["d"]]
            return out
        defs = SINK_DEFS if d["op"] == "sink" else VALUE_DEFS
        gen = generic(d["d"])
        all_int = all(self.env.get(e[0]) not in ("tf", "tb") for _, _, b in d["ins"] for e in b[1:])
        for other, sig in sorted(defs.items()):
            if family(other) == family(d["d"]) or gen and any(f for _, f, _ in d["ins"]):
                continue
            if sig == defs[d["d"]] or (all_int and {sig[1], defs[d["d"]][1]} == {"ts", "any"} and sig[0] == defs[d["d"]][0]):
                if requested(other) and requested(other) != (requested(d["d"]) or "i"):
                    continue                     # one change at a time: another definition, the same port type
                if generic(other) and any(f for _, f, _ in d["ins"]):
                    continue
                out.append(("definition", dict(d, d=other)))
        if family(d["d"]) == "gs":
            out.append(("scalar-type", dict(d, d="gs:f" if d["d"] == "gs:i" else "gs:i")))
        if requested(d["d"]):
            # THE dimension of the resolved output schema: the same definition, inputs and scalar, another requested type
            out += [("requested-type", dict(d, d="%s:%s" % (surface(d["d"]), t))) for t in REQ if t != requested(d["d"])]
            out.append(("call-surface", dict(d, d="%s:%s" % ("qn" if surface(d["d"]) == "q" else "q", requested(d["d"])))))
        out.append(("scalar", dict(d, k=d["k"] + 1)))
        if len(d["ins"]) == 2 and d["ins"][0] != d["ins"][1]:
            out.append(("input-order", dict(d, ins=[d["ins"][1], d["ins"][0]])))
        for s, (p, f, b) in enumerate(d["ins"]):
            def put(ni, s=s):
                return dict(d, ins=d["ins"][:s] + [ni] + d["ins"][s + 1:])
            if b[0] == "e":
                out.append(("passive", put((not p, f, b))))
            if not gen:
                out.append(("rank-flag", put((p, not f, b))))
            if b[0] == "s" and b[1] != b[2]:
                out.append(("child-order", put((p, f, ("s", b[2], b[1])))))
            if b[0] == "e" and self.env.get(b[1][0]) == "tsl" and b[1][1] == "" and not p:
                out.append(("structural-vs-whole", put((p, f, ("s", (b[1][0], ".0"), (b[1][0], ".1"))))))
            if b[0] == "s" and b[1][0] == b[2][0] and (b[1][1], b[2][1]) == (".0", ".1") and self.env.get(b[1][0]) == "tsl":
                out.append(("structural-vs-whole", put((p, f, ("e", (b[1][0], ""))))))
            for c in range(1, len(b)):
                lbl, suf = b[c]

                def pute(ne, c=c, b=b, p=p, f=f, put=put):
                    return put((p, f, b[:c] + (ne,) + b[c + 1:]))
                if suf in (".0", ".1"):
                    out.append(("sub-path", pute((lbl, ".1" if suf == ".0" else ".0"))))
                if self.env.get(lbl) == "tse":
                    out.append(("output-kind", pute((lbl, "" if suf == "!" else "!"))))
                if suf == "!":
                    ok = {"tse"}
                elif suf:
                    ok = {"tsl", "tsb"}
                elif b[0] == "e" and defs[d["d"]][1] == "tsl":
                    ok = {"tsl"}
                elif defs[d["d"]][1] == "any":
                    ok = {"ts", "tse", "tf", "tb"}      # a producer of another type: the resolved type follows the input
                else:
                    ok = {"ts", "tse"}
                for other, oty in self.env.items():
                    if other != lbl and oty in ok:
                        out.append(("producer", pute((other, suf))))
        return out

    def near_dup(self):
        rng = self.rng
        base = rng.choice(self.decls)
        ms = self.mutations(base)
        if not ms:
            return False
        dims = sorted({m[0] for m in ms})
        dim = rng.choice(dims)
        new = dict(rng.choice([m for m in ms if m[0] == dim])[1])
        new["ins"] = self.fix_passive(list(new["ins"]))
        new["lbl"] = self.label({"src": "s", "node": "v", "sink": "k"}[new["op"]])
        self.add(new)
        return True

    def exact_dup(self, sink):
        cands = [d for d in self.decls if d["op"] == ("sink" if sink else "node")] or [d for d in self.decls if d["op"] == "src"]
        base = self.rng.choice(cands)
        self.add(dict(base, lbl=self.label({"src": "s", "node": "v", "sink": "k"}[base["op"]])))


def gen_program(rng, g=None):
    g = g or Gen(rng)
    nsrc = rng.choice([1, 2, 2, 3, 3])
    for i in range(nsrc):
        if i and rng.random() < 0.3:
            base = rng.choice([d for d in g.decls if d["op"] == "src"])
            g.source(base["d"], base["k"])           # a second source declaration of the same class
        else:
            g.source()
    target = rng.randint(max(3, nsrc + 1), 12)
    while len(g.decls) < target:
        r = rng.random()
        have_nodes = any(d["op"] == "node" for d in g.decls)
        if r < 0.28 or not have_nodes:
            g.fresh(False)
        elif r < 0.70:
            if not g.near_dup():
                g.fresh(False)
        elif r < 0.80:
            g.exact_dup(False)
        elif r < 0.92 or not any(d["op"] == "sink" for d in g.decls):
            g.fresh(True)
        else:
            g.exact_dup(True)
    return g.decls


def topo_shuffle(rng, decls):
    """a random admissible statement order: every label is declared before it is used"""
    left, done, order = list(decls), set(), []
    defined = {d["lbl"] for d in decls if d["op"] != "sink"}
    while left:
        ready = [d for d in left if (refs(d) & defined) <= done]
        d = rng.choice(ready)
        left.remove(d)
        done.add(d["lbl"])
        order.append(d)
    return order


def topo_reverse(decls):
    """the admissible order that reverses the relative order of independent statements (the latest ready one first)"""
    left, done, order = list(decls), set(), []
    defined = {d["lbl"] for d in decls if d["op"] != "sink"}
    while left:
        d = [d for d in left if (refs(d) & defined) <= done][-1]
        left.remove(d)
        done.add(d["lbl"])
        order.append(d)
    return order


def case_of(idx, orders, term="finish"):
    if any(f for d in orders[0] for _, f, _ in d["ins"]):
        term = "finish"       # a consumer behind a rank-free edge may be ranked before its producer: build only
    L = ["case %d" % idx]
    for j, o in enumerate(orders):
        L += (["reset"] if j else []) + [decl_s(d) for d in o] + [term]
    return Case(L)


def add_recorders(rng, g, n):
    """r sinks on up to n value ports (generic ones first): the consumers whose streams `run` reports"""
    cands = [(l, "") for l, ty in g.env.items() if ty in SCALAR_TS]
    pref = [c for c in cands if g.env[c[0]] in ("tf", "tb")] + [c for c in cands if any(
        d["lbl"] == c[0] and generic(d["d"]) for d in g.decls if d["op"] == "node")]
    for _ in range(n):
        pool = pref if pref and rng.random() < 0.7 else cands
        if not pool:
            return
        e = rng.choice(pool)
        g.add(dict(op="sink", lbl=g.label("r"), d="r", k=0, ins=[(False, False, ("e", e))]))


def gen_case(rng, idx):
    g = Gen(rng)
    decls = gen_program(rng, g)
    run = rng.random() < 0.6
    if run:
        add_recorders(rng, g, rng.randint(1, 4))
    k = rng.choice([2, 3, 3])
    orders = [decls] + [topo_shuffle(rng, decls) for _ in range(k - 1)]
    if rng.random() < 0.3:
        orders[0] = topo_shuffle(rng, decls)
    return case_of(idx, orders, "run" if run else "finish")


def gen_restype(rng, idx):
    """programs around the RESOLVED OUTPUT TYPE: 2-5 applications of the generic quote to ONE input expression (possibly a
    duplicated, hence shared, sub-expression) that differ only in the requested output type, through both call surfaces,
    duplicates with the same requested type (the may-share control), echo nodes whose type follows their input (control),
    one recorder per application (directly or behind an echo / a concrete consumer); wired in the given order, in the
    order that reverses independent statements, and in a random admissible order; run."""
    g = Gen(rng)
    g.source(rng.choice("ssspb"))
    if rng.random() < 0.4:
        g.source(rng.choice("sspbe"))
    ins = ts_elems(g.env)
    base = rng.choice(ins)
    alts = [base]
    if rng.random() < 0.6:
        # the input is a sub-expression declared twice (shared): the quotes hang off either label
        k = rng.choice([0, 1])
        for _ in range(2):
            g.add(dict(op="node", lbl=g.label("m"), d="f1", k=k, ins=[(False, False, ("e", base))]))
        alts = [(g.decls[-2]["lbl"], ""), (g.decls[-1]["lbl"], "")]
    n = rng.randint(2, 5)
    types = [rng.choice(REQ) for _ in range(n)]
    if len(set(types)) == 1:
        types[rng.randrange(n)] = rng.choice([t for t in REQ if t != types[0]])
    if n >= 3 and rng.random() < 0.7:
        types[rng.randrange(n)] = types[rng.randrange(n)]                      # very likely a same-type duplicate
    k = rng.choice([0, 0, 1])
    passive_in = rng.random() < 0.1
    qs = []
    for t in types:
        surf = rng.choice(["q", "qn"])
        kk = k if rng.random() < 0.85 else k + 1
        e = rng.choice(alts) if rng.random() < 0.9 else rng.choice(ins)
        g.add(dict(op="node", lbl=g.label("q"), d="%s:%s" % (surf, t), k=kk, ins=[(False, False, ("e", e))]))
        qs.append(g.decls[-1])
    for q in qs:
        port = (q["lbl"], "")
        r = rng.random()
        if r < 0.35:
            g.add(dict(op="node", lbl=g.label("e"), d="ec", k=0, ins=[(False, False, ("e", port))]))
            port = (g.decls[-1]["lbl"], "")
        elif r < 0.5 and requested(q["d"]) == "i":
            g.add(dict(op="node", lbl=g.label("c"), d=rng.choice(["f1", "g1"]), k=rng.choice([0, 1]), ins=[(False, False, ("e", port))]))
            port = (g.decls[-1]["lbl"], "")
        elif r < 0.6 and requested(q["d"]) == "i":
            other = rng.choice(ins)
            g.add(dict(op="node", lbl=g.label("c"), d="f2", k=0, ins=[(False, False, ("e", port)), (passive_in, False, ("e", other))]))
            port = (g.decls[-1]["lbl"], "")
        g.add(dict(op="sink", lbl=g.label("r"), d="r", k=0, ins=[(False, False, ("e", port))]))
    if rng.random() < 0.5:
        g.add(dict(op="node", lbl=g.label("e"), d="ec", k=0, ins=[(False, False, ("e", rng.choice(ts_elems(g.env, True))))]))
        g.add(dict(op="sink", lbl=g.label("r"), d="r", k=0, ins=[(False, False, ("e", (g.decls[-1]["lbl"], "")))]))
    for _ in range(rng.randint(0, 2)):
        if not g.near_dup():
            break
    decls = g.decls
    return case_of(idx, [decls, topo_reverse(decls), topo_shuffle(rng, decls)], "run")


def systematic(idx0):
    """every (base declaration, applicable single-dimension change): base and variant, an exact duplicate of the base,
    one consumer of each, in the orders base-first and variant-first"""
    import random
    g = Gen(random.Random(0))
    srcs = [dict(op="src", lbl="a", d="s", k=0, ins=[]), dict(op="src", lbl="a2", d="s", k=0, ins=[]),
            dict(op="src", lbl="c", d="s", k=1, ins=[]), dict(op="src", lbl="p", d="p", k=0, ins=[]),
            dict(op="src", lbl="q", d="p", k=1, ins=[]), dict(op="src", lbl="b", d="b", k=0, ins=[]),
            dict(op="src", lbl="e", d="e", k=0, ins=[]), dict(op="src", lbl="e2", d="e", k=1, ins=[])]
    for s in srcs:
        g.add(s)
    mid = dict(op="node", lbl="m", d="f1", k=0, ins=[(False, False, ("e", ("c", "")))])
    g.add(mid)
    # producers of the other port types (for the generic input of ec / r)
    mids = [mid, dict(op="node", lbl="qf", d="q:f", k=0, ins=[(False, False, ("e", ("a", "")))]),
            dict(op="node", lbl="qb", d="qn:b", k=1, ins=[(False, False, ("e", ("a", "")))])]
    for m in mids[1:]:
        g.add(m)

    def I(lbl, suf="", p=False, f=False):
        return (p, f, ("e", (lbl, suf)))
    bases = []
    # the generic definitions: every requested type through both surfaces over a source, a shared sub-expression, a
    # sub-path, a never-ticking port; echo / recorder over every port type
    for el in [("a", ""), ("m", ""), ("p", ".1"), ("e", "!")]:
        for t in REQ:
            bases.append(dict(op="node", d="q:" + t, k=0, ins=[I(*el)]))
            bases.append(dict(op="node", d="qn:" + t, k=1, ins=[I(*el)]))
    for el in [("a", ""), ("m", ""), ("p", ".0")]:
        bases.append(dict(op="node", d="gs:i", k=1, ins=[I(*el)]))
        bases.append(dict(op="node", d="gs:f", k=1, ins=[I(*el, p=False)]))
    for el in [("a", ""), ("qf", ""), ("qb", ""), ("b", ".0")]:
        bases.append(dict(op="node", d="ec", k=0, ins=[I(*el)]))
        bases.append(dict(op="sink", d="r", k=0, ins=[I(*el)]))
    for el in [("a", ""), ("m", ""), ("p", ".0"), ("b", ".1"), ("e", ""), ("e", "!")]:
        bases.append(dict(op="node", d="f1", k=0, ins=[I(*el)]))
        bases.append(dict(op="sink", d="k1", k=0, ins=[I(*el)]))
    bases.append(dict(op="node", d="f1", k=0, ins=[I("a", f=True)]))
    for x, y in [(("a", ""), ("c", "")), (("p", ".0"), ("p", ".1")), (("b", ".0"), ("e", "!")), (("m", ""), ("a", ""))]:
        bases.append(dict(op="node", d="f2", k=0, ins=[I(*x), I(*y)]))
        bases.append(dict(op="node", d="g2", k=1, ins=[I(*x), I(*y, p=True)]))
        bases.append(dict(op="node", d="f2", k=0, ins=[I(*x, f=True), I(*y)]))
        bases.append(dict(op="sink", d="k2", k=0, ins=[I(*x, p=True), I(*y)]))
    bases.append(dict(op="node", d="t1", k=0, ins=[(False, False, ("e", ("p", "")))]))
    bases.append(dict(op="node", d="t1", k=0, ins=[(False, False, ("s", ("p", ".0"), ("p", ".1")))]))
    bases.append(dict(op="node", d="t1", k=0, ins=[(False, True, ("s", ("a", ""), ("b", ".0")))]))
    bases.append(dict(op="node", d="t1", k=1, ins=[(False, False, ("s", ("e", "!"), ("e", "")))]))
    cases, idx = [], idx0
    for s in srcs[:1] + srcs[3:4] + srcs[6:7]:
        bases.append(s)
    for base in bases:
        for dim, var in g.mutations(base):
            if all_passive(var):
                continue
            x = dict(base, lbl="x")
            y = dict(var, lbl="y")
            x2 = dict(base, lbl="x2")
            body = [x, y, x2]
            need = set().union(*[refs(d) for d in body])
            for m in mids:
                if m["lbl"] in need:
                    need |= refs(m)
            pre = [s for s in srcs if s["lbl"] in need] + [m for m in mids if m["lbl"] in need]
            tys = types_of(pre + body)

            def C(l):
                # a consumer of the port: a concrete node for a TS<Int> port, an echo otherwise
                return "g1" if tys.get(l) in ("ts", "tse") else "ec"
            if base["op"] == "node":
                body += [dict(op="node", lbl="cx", d=C("x"), k=0, ins=[I("x")]), dict(op="node", lbl="cy", d=C("y"), k=0, ins=[I("y")]),
                         dict(op="sink", lbl="kx", d="r", k=0, ins=[I("cx")]), dict(op="sink", lbl="ky", d="r", k=0, ins=[I("cy")]),
                         dict(op="sink", lbl="rx", d="r", k=0, ins=[I("x2")])]
            elif base["op"] == "src" and SRC_TYPES[base["d"]] in ("ts", "tse") and SRC_TYPES[var["d"]] in ("ts", "tse"):
                body += [dict(op="node", lbl="cx", d="g1", k=0, ins=[I("x")]), dict(op="node", lbl="cy", d="g1", k=0, ins=[I("y")])]
            o1 = pre + body
            o2 = pre[::-1] if not any(m["lbl"] in need for m in mids) else pre
            o2 = o2 + [y, x2, x] + ([body[4], body[3]] + body[5:][::-1] if len(body) > 3 else [])
            cases.append(case_of(idx, [o1, o2], "run"))
            idx += 1
    return cases


def corpus_cases():
    cdir = os.path.join(VERIF, "corpus", "C06")
    out = []
    if os.path.isdir(cdir):
        for f in sorted(os.listdir(cdir)):
            if f.startswith("intern_"):
                out.append(Case([l.rstrip("\n") for l in open(os.path.join(cdir, f)) if l.strip()]))
    return out


def streams(rng, tier, seed):
    n = 450 if tier == "quick" else 12000
    rand = [gen_case(rng, i) for i in range(n)]
    nr = 300 if tier == "quick" else 8000
    res = [gen_restype(rng, 200000 + i) for i in range(nr)]
    return [Stream("intern-pairs", IMPL, model_cmd("Intern"), corpus_cases() + systematic(100000)),
            Stream("intern-orders", IMPL, model_cmd("Intern"), rand),
            Stream("intern-restype", IMPL, model_cmd("Intern"), res)]
