"""C06 (direct half) - the interning key of Wiring::add_node, exercised through the real wiring API.

Streams `intern-*` feed textual wiring programs to harness/drv_intern.cpp (hgv_intern) and to the model driver
lean/Drivers/Intern.lean (HgVerif.InternKey.step = HgVerif.Intern.addNode over the key built from the resolved producers).  Every declaration prints WHICH node it
denotes; the monitor decides, from the program text alone, which declarations must and must not share a node.
Merged into tools/props/c06.py the way tools/props/c01.py merges c01rank.py (dispatch on the stream name).
"""
import os
from vlib import Case, Stream, BUILD, VERIF, model_cmd

ID = "C06I"
LEAN_MODULES = ["HgVerif.Props.C06Key", "HgVerif.Props.C06KeyOrder", "HgVerif.Model.InternKey", "HgVerif.Driver.Proto"]
THEOREMS = ["HgVerif.Intern.pair_same_iff", "HgVerif.Intern.wireAll_same_iff", "HgVerif.Intern.wireAll_perm_same_iff",
            "HgVerif.Intern.wireAll_ctx_same_iff", "HgVerif.Intern.wireAll_count",
            "HgVerif.InternKey.wireL_same_iff_tree", "HgVerif.InternKey.wireL_declared_iff",
            "HgVerif.InternKey.semL_order_irrelevant", "HgVerif.InternKey.wireL_order_irrelevant",
            "HgVerif.InternKey.wireL_declares"]
CXX_TARGETS = ["hgv_intern"]
RULE = ("intern streams: wiring programs of 3-12 declarations over 1-3 sources (TS<Int>, TSL<TS<Int>,2>, TSB{a,b}, a source "
        "with an error output) wired through the real wire<X>/Port/passive/error_output API; declarations are fresh, exact "
        "duplicates, or near-duplicates that differ from an earlier one in exactly one key dimension (definition, scalar, "
        "producer, output sub-path, output kind, passive marker, rank-dependency flag, input order, structural vs whole "
        "input), plus duplicated sinks; each case wires the SAME declarations in 2-3 admissible statement orders; a "
        "systematic stream enumerates every (base declaration, single-dimension change) pair in both orders. "
        "Non-trivial = >=2 orders and a shared or a near-duplicate pair; distinct by program text")
TRUSTED = ["scalar equality in the key uses Value::equals/hash: exercised for Int scalars only",
           "resolved WiringNodeSchema: every node of the intern streams is concrete, so the schema is a function of the "
           "definition (generic nodes are covered by the engine stream only through distinct scalars)"]
ASSUMPTIONS = ["sources of the intern streams are peered or one-level structural; boundary / delayed sources are not exercised"]

USES_EXTRACT = False
TECHNIQUE = ("Lean 4 proof that two labels of an admissible wiring program denote one node iff their expression trees are "
             "equal, for every statement order (keys are built from the producers' node ids at wiring time), + node-count "
             "theorem + differential correspondence of the real Wiring::add_node against that model, declaration by "
             "declaration, + text-level monitor")
LEVEL_TEXT = ("Kernel-checked for every definition/attribute type and every admissible program: same node <=> same "
              "definition, scalars and, input by input, same recorded attributes and same producer tree "
              "(wireL_same_iff_tree); the partition is the same for every admissible statement order "
              "(wireL_order_irrelevant); nodes created = sinks + distinct keys (wireAll_count).")
LEVEL_NOTE = ("Trusted: Lean kernel; the concrete key of Drivers/Intern.lean (definition, scalar, per input: producer node, "
              "slot, structural child index, sub-path, output kind, passive marker, rank flag) tied to InstanceKey / "
              "InputKey / SourceKey by running the real wiring API on generated programs.")

IMPL = [os.path.join(BUILD, "hgv_intern")]
VALUE_DEFS = {"f1": (1, "ts"), "g1": (1, "ts"), "f2": (2, "ts"), "g2": (2, "ts"), "t1": (1, "tsl")}
SINK_DEFS = {"k0": (0, "ts"), "k1": (1, "ts"), "k2": (2, "ts")}
SRC_TYPES = {"s": "ts", "p": "tsl", "b": "tsb", "e": "tse"}


# ----------------------------------------------------------------------------- program text
# declaration: dict(op, lbl, d, k, ins)   ins: [(passive, free, body)]
# body: ("e", elem) | ("s", elem, elem)   elem: (label, suffix)  suffix in "", ".0", ".1", "!"

def elem_s(e):
    return e[0] + e[1]


def in_s(i):
    p, f, body = i
    b = elem_s(body[1]) if body[0] == "e" else "[%s,%s]" % (elem_s(body[1]), elem_s(body[2]))
    return ("~" if p else "") + ("^" if f else "") + b


def decl_s(d):
    if d["op"] == "src":
        return "src %s %s %d" % (d["lbl"], d["d"], d["k"])
    return "%s %s %s %d %s" % (d["op"], d["lbl"], d["d"], d["k"], " ".join(in_s(i) for i in d["ins"]))


def parse_elem(t):
    if t.endswith("!"):
        return (t[:-1], "!")
    if len(t) >= 3 and t[-2] == "." and t[-1] in "01":
        return (t[:-2], t[-2:])
    return (t, "")


def parse_in(t):
    p = t.startswith("~")
    t = t[1:] if p else t
    f = t.startswith("^")
    t = t[1:] if f else t
    if len(t) >= 2 and t[0] == "[" and t[-1] == "]":
        parts = t[1:-1].split(",")
        if len(parts) != 2:
            return None
        return (p, f, ("s", parse_elem(parts[0]), parse_elem(parts[1])))
    return (p, f, ("e", parse_elem(t)))


def parse_decl(line):
    w = line.split()
    if len(w) == 4 and w[0] == "src" and w[2] in SRC_TYPES and w[3].isdigit():
        return dict(op="src", lbl=w[1], d=w[2], k=int(w[3]), ins=[])
    if len(w) >= 4 and w[0] in ("node", "sink") and w[3].isdigit():
        defs = VALUE_DEFS if w[0] == "node" else SINK_DEFS
        if w[2] not in defs or len(w) != 4 + defs[w[2]][0]:
            return None
        ins = [parse_in(t) for t in w[4:]]
        if any(i is None for i in ins):
            return None
        return dict(op=w[0], lbl=w[1], d=w[2], k=int(w[3]), ins=ins)
    return None


def segments(case, out):
    """-> [ [(decl, output line)], finish output or None ] per statement order"""
    segs, cur, fin = [], [], None
    for i, ln in enumerate(case.lines):
        o = out[i] if i < len(out) else "<none>"
        w = ln.split()
        if not w:
            continue
        if w[0] in ("case", "reset"):
            if cur or fin is not None:
                segs.append((cur, fin))
            cur, fin = [], None
        elif w[0] == "finish":
            if fin is None:
                fin = o
        else:
            d = parse_decl(ln)
            if d is not None:
                cur.append((d, o))
    if cur or fin is not None:
        segs.append((cur, fin))
    return segs


# ----------------------------------------------------------------------------- the property on one trace

def all_passive(d):
    return bool(d["ins"]) and all(i[0] for i in d["ins"])


def trees_of(decls):
    """Expression tree of every declaration (nested tuples): WHAT the declaration computes, independent of labels
    and of statement order.  Declarations rejected by the wiring API (all inputs passive) declare nothing."""
    tree = {}

    def elem_t(e):
        return (tree[e[0]], e[1])

    for d in decls:
        if d["op"] == "src":
            tree[d["lbl"]] = ("src", d["d"], d["k"])
            continue
        if all_passive(d):
            continue
        try:
            ins = tuple((p, f) + ((elem_t(b[1]),) if b[0] == "e" else ("[", elem_t(b[1]), elem_t(b[2]))) for p, f, b in d["ins"])
        except KeyError:
            continue
        tree[d["lbl"]] = (d["op"], d["d"], d["k"], ins)
    return tree


def why_different(a, b, da, db):
    """names the first key dimension in which two declarations differ (diagnostic text only)"""
    if da["op"] == "src" or db["op"] == "src":
        return "source kind/scalar" if (da["op"], da["d"], da["k"]) != (db["op"], db["d"], db["k"]) else "?"
    if da["d"] != db["d"]:
        return "definition"
    if da["k"] != db["k"]:
        return "scalar"
    for s, (x, y) in enumerate(zip(a[3], b[3])):
        if x[0] != y[0]:
            return "passive marker of input %d" % s
        if x[1] != y[1]:
            return "rank-dependency flag of input %d" % s
        if len(x) != len(y):
            return "structural vs whole input %d" % s
        for ex, ey in zip(x[2:], y[2:]):
            if ex == ey or ex == "[":
                continue
            if ex[1] != ey[1]:
                return "output sub-path / output kind of input %d (%r vs %r)" % (s, ex[1], ey[1])
            return "producer of input %d" % s
    return "?"


def expected_edges(decls, tree):
    """multiset of canonical edges of the built graph: one copy per distinct value tree, one per sink"""
    done, es = set(), []
    for d in decls:
        t = tree.get(d["lbl"])
        if t is None or d["op"] == "src":
            continue
        if d["op"] == "node":
            if t in done:
                continue
            done.add(t)
        for slot, (p, f, b) in enumerate(d["ins"]):
            elems = [b[1]] if b[0] == "e" else [b[1], b[2]]
            for j, e in enumerate(elems):
                tp = ".%d" % slot + (".%d" % j if b[0] == "s" else "")
                es.append(repr((tree[e[0]], e[1].replace(".", "@"), t, tp)))
    return sorted(es)


def parse_finish(line, tree):
    """-> (node count, sorted canonical edges) or None"""
    if not line.startswith("nodes="):
        return None
    try:
        n, e = line.split(" ", 1)
        count = int(n[len("nodes="):])
        es = []
        for t in [x for x in e[len("edges="):].split(",") if x]:
            src, dst = t.split(">")
            kind = ""
            if src.endswith("!"):
                src, kind = src[:-1], "!"
            sp = src.split("@")
            dp = dst.split(".")
            es.append(repr((tree[sp[0]], "".join("@" + x for x in sp[1:]) + kind, tree[dp[0]], "".join("." + x for x in dp[1:]))))
        return count, sorted(es)
    except Exception:
        return None


def check_trace(case, out):
    bad = []
    if any(("bad-op" in l) or l.startswith("<") for l in out):
        return bad
    views = []
    for (items, fin) in segments(case, out):
        decls = [d for d, _ in items]
        if any(all_passive(d) and o != "err" for d, o in items):
            return bad                        # acceptance of an all-passive node is not this property's business
        tree = trees_of(decls)
        vals = []
        for d, o in items:
            if d["lbl"] not in tree:
                continue                      # rejected by the wiring API: declares nothing
            if o == "err":
                continue                      # the implementation rejected it: nothing to compare
            if d["op"] == "sink":
                if o != "sink":
                    bad.append("[sink] sink %s returned %r" % (d["lbl"], o[:30]))
                continue
            vals.append((d, o))
        for i in range(len(vals)):
            for j in range(i + 1, len(vals)):
                (da, oa), (db, ob) = vals[i], vals[j]
                ta, tb = tree[da["lbl"]], tree[db["lbl"]]
                # equal declarations MAY share one instance (the property does not require it): a split is
                # a difference from the model (reported by the correspondence), never a violation by itself
                if ta != tb and oa == ob:
                    bad.append("[merge] declarations %s and %s differ in the %s but were interned into ONE node %s"
                               % (da["lbl"], db["lbl"], why_different(ta, tb, da, db), oa))
        classes = {}
        for d, o in vals:
            classes.setdefault(o, set()).add(d["lbl"])
        part = frozenset(frozenset(v) for v in classes.values())
        nsinks = sum(1 for d, o in items if d["op"] == "sink" and d["lbl"] in tree and o == "sink")
        view = [part, None, None]
        if fin is not None:
            got = parse_finish(fin, tree)
            if got is None:
                bad.append("[build] finish of a well-formed wiring returned %r" % fin[:60])
            else:
                ntrees = len({tree[d["lbl"]] for d, _ in vals})
                if got[0] < ntrees + nsinks or got[0] > len(vals) + nsinks:
                    bad.append("[count] built graph has %d nodes but the dataflow has %d distinct value nodes (%d declarations) + %d sinks"
                               % (got[0], ntrees, len(vals), nsinks))
                exp = expected_edges([d for d, o in items if o != "err"], tree)
                if set(got[1]) != set(exp):
                    bad.append("[edges] edges of the built graph differ from the declared dataflow (%d vs %d edges)"
                               % (len(got[1]), len(exp)))
                view[1], view[2] = got[0], got[1]
        views.append(view)
    for i, v in enumerate(views[1:], 1):
        if v[2] is not None and views[0][2] is not None and set(v[2]) != set(views[0][2]):
            bad.append("[order] statement order %d builds a different dataflow than order 0" % i)
    return bad


def monitor(stream, case, out):
    return check_trace(case, out)[:3]


# ----------------------------------------------------------------------------- coverage

def one_dimension(a, b):
    """a, b: declarations of the same op.  -> name of the single key dimension they differ in, 'equal', or None"""
    if a["op"] != b["op"]:
        return None
    if a["op"] == "src":
        if (a["d"], a["k"]) == (b["d"], b["k"]):
            return "equal"
        return "src-kind" if a["k"] == b["k"] else "src-scalar" if a["d"] == b["d"] else None
    diffs = []
    if a["d"] != b["d"]:
        diffs.append("definition")
    if a["k"] != b["k"]:
        diffs.append("scalar")
    if len(a["ins"]) != len(b["ins"]):
        return None
    if a["ins"] != b["ins"] and sorted(map(repr, a["ins"])) == sorted(map(repr, b["ins"])):
        diffs.append("input-order")
    else:
        for x, y in zip(a["ins"], b["ins"]):
            if x[0] != y[0]:
                diffs.append("passive")
            if x[1] != y[1]:
                diffs.append("rank-flag")
            bx, by = x[2], y[2]
            if bx == by:
                continue
            if bx[0] != by[0]:
                diffs.append("structural-vs-whole")
            elif bx[0] == "s" and (bx[1], bx[2]) == (by[2], by[1]):
                diffs.append("child-order")
            else:
                for ex, ey in zip(bx[1:], by[1:]):
                    if ex[0] != ey[0]:
                        diffs.append("producer")
                    if ex[1] != ey[1]:
                        diffs.append("output-kind" if "!" in (ex[1], ey[1]) else "sub-path")
    if not diffs:
        return "equal"
    return diffs[0] if len(diffs) == 1 else None


def features(stream, case, out):
    f = set()
    segs = segments(case, out)
    f.add("orders:%d" % len(segs))
    if not segs:
        return sorted(f)
    items, fin = segs[0]
    decls = [d for d, _ in items]
    n = len(decls)
    f.add("decls:%s" % (n if n <= 4 else "5-8" if n <= 8 else "9-12" if n <= 12 else ">12"))
    tree = trees_of(decls)
    for d in decls:
        if d["op"] == "src":
            f.add("src:" + d["d"])
        else:
            f.add("def:" + d["d"])
            if all_passive(d):
                f.add("rejected-all-passive")
            for p, fr, b in d["ins"]:
                if p:
                    f.add("passive-input")
                if fr:
                    f.add("rank-free-input")
                if b[0] == "s":
                    f.add("structural-input")
                for e in b[1:]:
                    if e[1] == "!":
                        f.add("error-output-input")
                    elif e[1]:
                        f.add("sub-path-input")
    for i in range(n):
        for j in range(i + 1, n):
            a, b = decls[i], decls[j]
            dim = one_dimension(a, b)
            if dim != "equal" and a["op"] == b["op"] == "node" and a["lbl"] in tree and tree.get(a["lbl"]) == tree.get(b["lbl"]):
                f.add("shared-through-equal-producers")
            elif dim == "equal":
                f.add("duplicate-sink" if a["op"] == "sink" else "exact-duplicate" if a["op"] == "node" else "duplicate-source")
            elif dim:
                f.add("near-dup:" + dim)
    if any(o == "err" for _, o in items):
        f.add("impl-rejected-declaration")
    nums = [o for d, o in items if d["op"] != "sink" and o.startswith("n")]
    if len(set(nums)) < len(nums):
        f.add("some-node-shared")
    return sorted(f)


def nontrivial(stream, case, out):
    segs = segments(case, out)
    if len(segs) < 2:
        return False
    decls = [d for d, _ in segs[0][0]]
    return any(one_dimension(a, b) for i, a in enumerate(decls) for b in decls[i + 1:])


def alarm_filter(stream, case, impl_out, model_out):
    return True, []          # the model predicts every line exactly


def valid_case(stream, case, impl_out, model_out):
    for o in (impl_out, model_out):
        if o is not None and any(("bad-op" in l) or l.startswith("<") for l in o):
            return False
    return True


# ----------------------------------------------------------------------------- generator

def ts_elems(env):
    es = []
    for l, ty in env.items():
        if ty == "ts":
            es.append((l, ""))
        elif ty == "tse":
            es += [(l, ""), (l, "!")]
        else:
            es += [(l, ".0"), (l, ".1")]
    return es


def refs(d):
    return {e[0] for _, _, b in d["ins"] for e in b[1:]}


class Gen:
    def __init__(self, rng):
        self.rng, self.decls, self.env, self.n = rng, [], {}, 0

    def label(self, prefix):
        self.n += 1
        return "%s%d" % (prefix, self.n)

    def add(self, d):
        self.decls.append(d)
        if d["op"] == "src":
            self.env[d["lbl"]] = SRC_TYPES[d["d"]]
        elif d["op"] == "node" and not all_passive(d):
            self.env[d["lbl"]] = "ts"

    def source(self, kind=None, k=None):
        rng = self.rng
        kind = kind or rng.choice("sssppbbee")
        self.add(dict(op="src", lbl=self.label("s"), d=kind, k=rng.choice([0, 0, 1]) if k is None else k, ins=[]))

    def rand_elem(self):
        es = ts_elems(self.env)
        # prefer recent producers so that chains / diamonds appear
        return self.rng.choice(es[-6:] if self.rng.random() < 0.5 else es)

    def rand_input(self, want):
        rng = self.rng
        free = rng.random() < 0.10
        whole = [l for l, ty in self.env.items() if ty == "tsl"]
        if want == "tsl" and whole and rng.random() < 0.5:
            return (rng.random() < 0.0, free, ("e", (rng.choice(whole), "")))
        if want == "tsl":
            return (False, free, ("s", self.rand_elem(), self.rand_elem()))
        return (rng.random() < 0.15, free, ("e", self.rand_elem()))

    def fix_passive(self, ins):
        """an all-passive node is rejected by the API: keep it only rarely"""
        if ins and all(i[0] for i in ins) and self.rng.random() >= 0.04:
            k = self.rng.randrange(len(ins))
            ins[k] = (False,) + ins[k][1:]
        return ins

    def fresh(self, sink):
        rng = self.rng
        defs = SINK_DEFS if sink else VALUE_DEFS
        d = rng.choice(sorted(defs))
        ar, want = defs[d]
        ins = self.fix_passive([self.rand_input(want) for _ in range(ar)])
        self.add(dict(op="sink" if sink else "node", lbl=self.label("k" if sink else "v"), d=d, k=rng.choice([0, 0, 1]), ins=ins))

    def mutations(self, d):
        """every single-dimension change applicable to d -> list of (dimension, new declaration fields)"""
        out = []
        if d["op"] == "src":
            out.append(("src-scalar", dict(d, k=d["k"] + 1)))
            out += [("src-kind", dict(d, d=k)) for k in "spbe" if k != d["d"]]
            return out
        defs = SINK_DEFS if d["op"] == "sink" else VALUE_DEFS
        for other, sig in sorted(defs.items()):
            if other != d["d"] and sig == defs[d["d"]]:
                out.append(("definition", dict(d, d=other)))
        out.append(("scalar", dict(d, k=d["k"] + 1)))
        if len(d["ins"]) == 2 and d["ins"][0] != d["ins"][1]:
            out.append(("input-order", dict(d, ins=[d["ins"][1], d["ins"][0]])))
        for s, (p, f, b) in enumerate(d["ins"]):
            def put(ni, s=s):
                return dict(d, ins=d["ins"][:s] + [ni] + d["ins"][s + 1:])
            if b[0] == "e":
                out.append(("passive", put((not p, f, b))))
            out.append(("rank-flag", put((p, not f, b))))
            if b[0] == "s" and b[1] != b[2]:
                out.append(("child-order", put((p, f, ("s", b[2], b[1])))))
            if b[0] == "e" and self.env.get(b[1][0]) == "tsl" and b[1][1] == "" and not p:
                out.append(("structural-vs-whole", put((p, f, ("s", (b[1][0], ".0"), (b[1][0], ".1"))))))
            if b[0] == "s" and b[1][0] == b[2][0] and (b[1][1], b[2][1]) == (".0", ".1") and self.env.get(b[1][0]) == "tsl":
                out.append(("structural-vs-whole", put((p, f, ("e", (b[1][0], ""))))))
            for c in range(1, len(b)):
                lbl, suf = b[c]

                def pute(ne, c=c, b=b, p=p, f=f, put=put):
                    return put((p, f, b[:c] + (ne,) + b[c + 1:]))
                if suf in (".0", ".1"):
                    out.append(("sub-path", pute((lbl, ".1" if suf == ".0" else ".0"))))
                if self.env.get(lbl) == "tse":
                    out.append(("output-kind", pute((lbl, "" if suf == "!" else "!"))))
                if suf == "!":
                    ok = {"tse"}
                elif suf:
                    ok = {"tsl", "tsb"}
                elif b[0] == "e" and defs[d["d"]][1] == "tsl":
                    ok = {"tsl"}
                else:
                    ok = {"ts", "tse"}
                for other, oty in self.env.items():
                    if other != lbl and oty in ok:
                        out.append(("producer", pute((other, suf))))
        return out

    def near_dup(self):
        rng = self.rng
        base = rng.choice(self.decls)
        ms = self.mutations(base)
        if not ms:
            return False
        dims = sorted({m[0] for m in ms})
        dim = rng.choice(dims)
        new = dict(rng.choice([m for m in ms if m[0] == dim])[1])
        new["ins"] = self.fix_passive(list(new["ins"]))
        new["lbl"] = self.label({"src": "s", "node": "v", "sink": "k"}[new["op"]])
        self.add(new)
        return True

    def exact_dup(self, sink):
        cands = [d for d in self.decls if d["op"] == ("sink" if sink else "node")] or [d for d in self.decls if d["op"] == "src"]
        base = self.rng.choice(cands)
        self.add(dict(base, lbl=self.label({"src": "s", "node": "v", "sink": "k"}[base["op"]])))


def gen_program(rng):
    g = Gen(rng)
    nsrc = rng.choice([1, 2, 2, 3, 3])
    for i in range(nsrc):
        if i and rng.random() < 0.3:
            base = rng.choice([d for d in g.decls if d["op"] == "src"])
            g.source(base["d"], base["k"])           # a second source declaration of the same class
        else:
            g.source()
    target = rng.randint(max(3, nsrc + 1), 12)
    while len(g.decls) < target:
        r = rng.random()
        have_nodes = any(d["op"] == "node" for d in g.decls)
        if r < 0.28 or not have_nodes:
            g.fresh(False)
        elif r < 0.70:
            if not g.near_dup():
                g.fresh(False)
        elif r < 0.80:
            g.exact_dup(False)
        elif r < 0.92 or not any(d["op"] == "sink" for d in g.decls):
            g.fresh(True)
        else:
            g.exact_dup(True)
    return g.decls


def topo_shuffle(rng, decls):
    """a random admissible statement order: every label is declared before it is used"""
    left, done, order = list(decls), set(), []
    defined = {d["lbl"] for d in decls if d["op"] != "sink"}
    while left:
        ready = [d for d in left if (refs(d) & defined) <= done]
        d = rng.choice(ready)
        left.remove(d)
        done.add(d["lbl"])
        order.append(d)
    return order


def case_of(idx, orders):
    L = ["case %d" % idx]
    for j, o in enumerate(orders):
        L += (["reset"] if j else []) + [decl_s(d) for d in o] + ["finish"]
    return Case(L)


def gen_case(rng, idx):
    decls = gen_program(rng)
    k = rng.choice([2, 3, 3])
    orders = [decls] + [topo_shuffle(rng, decls) for _ in range(k - 1)]
    if rng.random() < 0.3:
        orders[0] = topo_shuffle(rng, decls)
    return case_of(idx, orders)


def systematic(idx0):
    """every (base declaration, applicable single-dimension change): base and variant, an exact duplicate of the base,
    one consumer of each, in the orders base-first and variant-first"""
    import random
    g = Gen(random.Random(0))
    srcs = [dict(op="src", lbl="a", d="s", k=0, ins=[]), dict(op="src", lbl="a2", d="s", k=0, ins=[]),
            dict(op="src", lbl="c", d="s", k=1, ins=[]), dict(op="src", lbl="p", d="p", k=0, ins=[]),
            dict(op="src", lbl="q", d="p", k=1, ins=[]), dict(op="src", lbl="b", d="b", k=0, ins=[]),
            dict(op="src", lbl="e", d="e", k=0, ins=[]), dict(op="src", lbl="e2", d="e", k=1, ins=[])]
    for s in srcs:
        g.add(s)
    mid = dict(op="node", lbl="m", d="f1", k=0, ins=[(False, False, ("e", ("c", "")))])
    g.add(mid)

    def I(lbl, suf="", p=False, f=False):
        return (p, f, ("e", (lbl, suf)))
    bases = []
    for el in [("a", ""), ("m", ""), ("p", ".0"), ("b", ".1"), ("e", ""), ("e", "!")]:
        bases.append(dict(op="node", d="f1", k=0, ins=[I(*el)]))
        bases.append(dict(op="sink", d="k1", k=0, ins=[I(*el)]))
    bases.append(dict(op="node", d="f1", k=0, ins=[I("a", f=True)]))
    for x, y in [(("a", ""), ("c", "")), (("p", ".0"), ("p", ".1")), (("b", ".0"), ("e", "!")), (("m", ""), ("a", ""))]:
        bases.append(dict(op="node", d="f2", k=0, ins=[I(*x), I(*y)]))
        bases.append(dict(op="node", d="g2", k=1, ins=[I(*x), I(*y, p=True)]))
        bases.append(dict(op="node", d="f2", k=0, ins=[I(*x, f=True), I(*y)]))
        bases.append(dict(op="sink", d="k2", k=0, ins=[I(*x, p=True), I(*y)]))
    bases.append(dict(op="node", d="t1", k=0, ins=[(False, False, ("e", ("p", "")))]))
    bases.append(dict(op="node", d="t1", k=0, ins=[(False, False, ("s", ("p", ".0"), ("p", ".1")))]))
    bases.append(dict(op="node", d="t1", k=0, ins=[(False, True, ("s", ("a", ""), ("b", ".0")))]))
    bases.append(dict(op="node", d="t1", k=1, ins=[(False, False, ("s", ("e", "!"), ("e", "")))]))
    cases, idx = [], idx0
    for s in srcs[:1] + srcs[3:4] + srcs[6:7]:
        bases.append(s)
    for base in bases:
        for dim, var in g.mutations(base):
            if all_passive(var):
                continue
            x = dict(base, lbl="x")
            y = dict(var, lbl="y")
            x2 = dict(base, lbl="x2")
            body = [x, y, x2]
            if base["op"] == "node":
                body += [dict(op="node", lbl="cx", d="g1", k=0, ins=[I("x")]), dict(op="node", lbl="cy", d="g1", k=0, ins=[I("y")]),
                         dict(op="sink", lbl="kx", d="k1", k=0, ins=[I("cx")]), dict(op="sink", lbl="ky", d="k1", k=0, ins=[I("cy")])]
            elif base["op"] == "src" and SRC_TYPES[base["d"]] in ("ts", "tse") and SRC_TYPES[var["d"]] in ("ts", "tse"):
                body += [dict(op="node", lbl="cx", d="g1", k=0, ins=[I("x")]), dict(op="node", lbl="cy", d="g1", k=0, ins=[I("y")])]
            need = set().union(*[refs(d) for d in body])
            if "m" in need:
                need.add("c")
            pre = [s for s in srcs if s["lbl"] in need] + ([mid] if "m" in need else [])
            o1 = pre + body
            o2 = pre[::-1] if "m" not in need else pre
            o2 = o2 + [y, x2, x] + ([body[4], body[3]] + body[5:][::-1] if len(body) > 3 else [])
            cases.append(case_of(idx, [o1, o2]))
            idx += 1
    return cases


def corpus_cases():
    cdir = os.path.join(VERIF, "corpus", "C06")
    out = []
    if os.path.isdir(cdir):
        for f in sorted(os.listdir(cdir)):
            if f.startswith("intern_"):
                out.append(Case([l.rstrip("\n") for l in open(os.path.join(cdir, f)) if l.strip()]))
    return out


def streams(rng, tier, seed):
    n = 450 if tier == "quick" else 12000
    rand = [gen_case(rng, i) for i in range(n)]
    return [Stream("intern-pairs", IMPL, model_cmd("Intern"), corpus_cases() + systematic(100000)),
            Stream("intern-orders", IMPL, model_cmd("Intern"), rand)]
