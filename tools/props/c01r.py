"""Shim so that `./check C01R` finds the static-half plug-in (tools/props/c01rank.py); delete once merged into c01.py."""
from props.c01rank import *  # noqa: F401,F403
