"""C16 - push queue: accepted values are delivered once, in order, within capacity."""
import itertools, os, re, subprocess
from vlib import Case, Stream, BUILD, model_cmd

ID = "C16"
LEAN_MODULES = ["HgVerif.Props.C16", "HgVerif.Model.Tie2", "HgVerif.Model.Extracted"]
USES_EXTRACT = True
THEOREMS = ["HgVerif.Tie.tie_pqFull",
    
    "HgVerif.PushQueue.inv_reach",
    "HgVerif.PushQueue.delivered_prefix_of_accepted", "HgVerif.PushQueue.per_producer_order",
    "HgVerif.PushQueue.delivered_once", "HgVerif.PushQueue.pending_le_capacity",
    "HgVerif.PushQueue.try_send_refused_iff_full_or_stopped", "HgVerif.PushQueue.refusal_sound",
    "HgVerif.PushQueue.nothing_accepted_after_stop", "HgVerif.PushQueue.send_after_stop_refused",
    "HgVerif.PushQueue.no_lost_wakeup",
    "HgVerif.PushQueue.blocking_fails_only_if_stopped", "HgVerif.PushQueue.blocked_sender_released",
    "HgVerif.PushQueue.progress", "HgVerif.PushQueue.eventually_delivered",
    "HgVerif.PushQueue.conflating_delivers_latest",
]
CXX_TARGETS = ["hgv_push"]
RULE = ("schedules of whole operations (start, try_send / send_blocking from producers 1-3, evaluation cycles, "
        "request_stop, graph stop) against a real push source of capacity 0 (unbounded), 1, 2 or 3 with policy queue, "
        "burst or conflating; sends run on their own threads, a send_blocking at capacity stays parked until a cycle "
        "or the stop releases it (at most one parked sender at a time); thorough adds every order of 2 producers x 2 "
        "messages x 4 cycles for capacities 0,1,2; a second, monitor-only stream runs 2-6 REAL producer threads against the "
        "real run loop (no hooks, OS-chosen interleavings). A case is non-trivial when values of >= 2 producers were delivered, "
        "or a sender parked, or a send was refused at capacity; distinct by sha1 of the case text")
TRUSTED = [
    "C++ memory model, std::mutex / condition_variable semantics, thread scheduling: the harness executes the "
    "mutex-protected sections one after the other in schedule order (no source hooks); interleavings INSIDE one "
    "try_send / one push-node evaluation (admission|mark, pop|re-arm) are covered by the proof and by the monitor-only "
    "real-thread stream, and are exhibited deterministically only when the optional points of "
    "hooks/push_points_optional.patch are compiled in (the plug-in probes for them and then adds the stream push-points)",
    "data races and lifetime of the sender control block (active_calls / wait_for_quiescence / detach) are not "
    "modelled beyond the closing flag; TSan not run",
    "Value payloads are ints; schema validation (validate()) and the Value/TSOutput layers are trusted",
]
ASSUMPTIONS = [
    "eventually_delivered: weak fairness of every thread's steps, no stop request and no graph stop later, and the "
    "evaluation thread keeps starting cycles while the flag is set (C17 rt_no_missed_signal / rt_at_exact_T)",
    "strictly increasing cycle times are the run loop's (C17 rt_times_strict); here time only needs to increase per cycle",
    "one push source node; restart after stop is not supported by design (graph.cpp) and not modelled",
]
TECHNIQUE = ("Lean 4 proof (inductive invariants over all interleavings of a labelled transition system whose atomic "
             "steps are the mutex-protected sections; weak-fairness liveness by a ranking argument) with differential "
             "correspondence of the same step function, composed per operation, against the real push source")
LEVEL_TEXT = ("Kernel-checked invariants over ALL interleavings, any number of producers and messages, any capacity: "
              "delivered values (flattened) are a prefix of the accepted ones (hence per-producer order), at most one "
              "delivery per cycle with strictly increasing times, pending <= capacity, try_send is refused iff the "
              "source is closed/stop-requested/not accepting or the bounded queue is full, a blocking send fails only "
              "for the first three reasons, nothing is accepted once the policy stopped, and no lost wake-up "
              "(non-empty queue => flag set or a producer between admission and mark or the consumer between reset and "
              "re-arm, or stop requested); under weak fairness every accepted value is delivered.")
LEVEL_NOTE = ("Proof of the protocol logic; PARTIAL for the runtime remainder: the C++ memory model, condition-variable "
              "behaviour and real thread scheduling are trusted. The step function of the model is tied to "
              "push_source_node.cpp / executor.cpp / graph.cpp by composing it per operation and comparing with the real "
              "code on generated and exhaustively enumerated schedules.")


# ---------------------------------------------------------------- generator

def gen_case(rng, idx, policy=None, cap=None, n=None):
    policy = policy or rng.choice(["q"] * 7 + ["b", "b", "c"])
    cap = rng.choice([0, 1, 1, 2, 2, 3]) if cap is None else cap
    steps = []
    v = [0]

    def val():
        v[0] += 1
        return v[0]
    if rng.random() < 0.12:
        steps.append("%s%d:%d" % (rng.choice("tb"), rng.randint(1, 3), val()))     # before start: refused
    steps.append("S")
    parked = None          # producer that may be parked in send_blocking
    rstop = False
    stopped = False
    for _ in range(n or rng.randint(4, 26)):
        r = rng.random()
        free = [p for p in (1, 2, 3) if p != parked]
        if r < 0.36:
            steps.append("t%d:%d" % (rng.choice(free), val()))
        elif r < 0.52:
            if parked is None:
                p = rng.choice(free)
                steps.append("b%d:%d" % (p, val()))
                if cap > 0 and policy != "c" and not stopped and not rstop:
                    parked = p
            else:
                steps.append("c")
                if not rstop:
                    parked = None
        elif r < 0.90:
            steps.append("c")
            if not rstop:
                parked = None
        elif r < 0.93:
            steps.append("r"); rstop = True
        elif r < 0.97:
            steps.append("X"); stopped = True; parked = None
        else:
            steps.append("S")
    return Case(["case %d" % idx, "cfg %d %s" % (cap, policy), "sched " + " ".join(steps)], {"kind": "random"})


def gen_nested(rng, idx):
    """schedules with one nested step at a protocol point (only when the optional
    HGRAPH_VERIF_POINTs are compiled in): a cycle / stop request between a send's admission and its
    mark, a try_send between the consumer's pop and its re-arm.  No sender is parked meanwhile."""
    policy = rng.choice(["q"] * 8 + ["b", "c"])
    cap = rng.choice([0, 0, 1, 2, 2, 3])
    steps = ["S"]
    v = [0]

    def val():
        v[0] += 1
        return v[0]
    rstop = False
    for _ in range(rng.randint(4, 22)):
        r = rng.random()
        if r < 0.22:
            steps.append("t%d:%d" % (rng.randint(1, 3), val()))
        elif r < 0.46:
            inner = "r" if (rng.random() < 0.08 and not rstop) else "c"
            rstop = rstop or inner == "r"
            steps.append("t%d:%d{%s}" % (rng.randint(1, 3), val(), inner))
        elif r < 0.66:
            steps.append("c")
        elif r < 0.92:
            steps.append("c{t%d:%d}" % (rng.randint(1, 3), val()))
        elif r < 0.95:
            steps.append("r"); rstop = True
        else:
            steps.append("X")
    return Case(["case %d" % idx, "cfg %d %s" % (cap, policy), "sched " + " ".join(steps)], {"kind": "points"})


def have_points():
    """does the build under test contain the optional protocol points of push_source_node.cpp?"""
    try:
        r = subprocess.run([os.path.join(BUILD, "hgv_push")], input="points\n", capture_output=True, text=True, timeout=60)
        return "points=1" in r.stdout
    except Exception:
        return False


def exhaustive(idx0):
    """every order of 2 producers x 2 messages (program order kept) and 4 cycles, capacities 0,1,2"""
    cases = []
    idx = idx0
    items = ["A", "A", "B", "B", "c", "c", "c", "c"]
    orders = sorted(set(itertools.permutations(items)))
    for cap in (0, 1, 2):
        for kinds in ("tt", "tb"):
            for o in orders:
                a = iter(["%s1:1" % kinds[0], "%s1:2" % kinds[0]])
                b = iter(["%s2:3" % kinds[1], "%s2:4" % kinds[1]])
                steps = ["S"]
                parked = False
                ok = True
                for x in o:
                    if x == "c":
                        steps.append("c"); parked = False
                    else:
                        s = next(a) if x == "A" else next(b)
                        if s[0] == "b":
                            if parked:
                                ok = False; break
                            parked = cap > 0
                        steps.append(s)
                if ok:
                    cases.append(Case(["case %d" % idx, "cfg %d q" % cap, "sched " + " ".join(steps)], {"kind": "exhaustive"}))
                    idx += 1
    return cases


def streams(rng, tier, seed):
    q = tier == "quick"
    cases = [gen_case(rng, i) for i in range(500 if q else 12000)]
    if not q:
        cases += exhaustive(len(cases))
    else:
        ex = exhaustive(len(cases))
        cases += [ex[i] for i in sorted(rng.sample(range(len(ex)), 120))]
    cdir = os.path.join(os.path.dirname(os.path.dirname(os.path.dirname(os.path.abspath(__file__)))), "corpus", "C16")
    corpus = []
    if os.path.isdir(cdir):
        for f in sorted(os.listdir(cdir)):
            corpus.append(Case([l.rstrip("\n") for l in open(os.path.join(cdir, f)) if l.strip()], {"kind": "corpus"}))
    # real threads against the real run loop (no hooks, no model: monitor only)
    stress = []
    for i in range(16 if q else 300):
        stress.append(Case(["case %d" % (100000 + i),
                            "stress %d %d %d %d" % (rng.choice([2, 3, 4, 6]), rng.choice([20, 100, 400]),
                                                    rng.choice([0, 1, 1, 2, 3, 16]), rng.choice([0, 1, 2]))],
                           {"kind": "threads"}))
    out = [Stream("push", [os.path.join(BUILD, "hgv_push")], model_cmd("C16"), corpus + cases, timeout=1800),
           Stream("push-threads", [os.path.join(BUILD, "hgv_push")], None, stress, timeout=1800)]
    if have_points():
        nested = [gen_nested(rng, 200000 + i) for i in range(300 if q else 8000)]
        out.append(Stream("push-points", [os.path.join(BUILD, "hgv_push")], model_cmd("C16"), nested, timeout=1800))
    return out


# ---------------------------------------------------------------- monitor

_PART = re.compile(r"^([^{ ]+)(?:\{(.*)\})?((?: \+\S+)*) p(\d+) f([01])$")
_EVENT = re.compile(r"^(S|X|r|c|[tb]\d+:\d+)(?:(\d+):(\S+)|:-|=(\S+))?$")


def _vals(txt):
    """values of one cycle entry: '5' -> [5]; '[1,2]' -> [1,2]"""
    txt = txt.strip()
    if txt.startswith("["):
        return [int(x) for x in txt[1:-1].split(",") if x]
    return [int(txt)]


class _State:
    def __init__(self, cap, policy):
        self.cap, self.policy = cap, policy
        self.started = self.stopped = self.rstop = False
        self.accepted, self.delivered, self.deliveries = [], [], []
        self.parked, self.who, self.producers_delivered = {}, {}, set()
        self.p, self.f = 0, 0
        self.bad, self.feats = [], set()
        self.bounded = cap > 0 and policy != "c"

    def event(self, text, nested=False):
        """apply one step's own effect (not its status); returns False when unreadable"""
        m = _EVENT.match(text)
        if not m:
            self.bad.append("[trace] unreadable step %r" % text)
            return False
        st, ctime, cvals, res = m.group(1), m.group(2), m.group(3), m.group(4)
        bad, feats = self.bad, self.feats
        running = self.started and not self.stopped
        if st == "S":
            if res is None:
                self.started = True
        elif st == "X":
            if res is None:
                self.stopped = True
        elif st == "r":
            self.rstop = True
        elif st == "c":
            if ctime is not None:
                t = int(ctime)
                if not running or self.rstop:
                    bad.append("[once] cycle %d ran while the graph was not running" % t)
                if self.deliveries and t <= self.deliveries[-1][0]:
                    bad.append("[once] cycle time %d not after %d" % (t, self.deliveries[-1][0]))
                if cvals != "-":
                    if "," in cvals and not cvals.startswith("["):
                        bad.append("[once] more than one delivery in cycle %d: %s" % (t, cvals))
                    vs = _vals(cvals.split(",")[0] if not cvals.startswith("[") else cvals)
                    self.deliveries.append((t, vs))
                    self.delivered.extend(vs)
                    self.p = max(0, self.p - len(vs))
                    feats.add("cycle-delivers")
                    if self.policy == "q" and len(vs) != 1:
                        bad.append("[once] queue policy delivered %d values in one cycle" % len(vs))
                    if len(vs) > 1:
                        feats.add("burst-tuple")
                    for x in vs:
                        self.producers_delivered.add(self.who.get(x))
                else:
                    feats.add("cycle-empty")
                    if self.p > 0 and self.f == 1:
                        bad.append("[lost] cycle %d had %d pending value(s) and the flag set but delivered nothing" % (t, self.p))
        else:
            kind, prod, val = st[0], int(st[1:st.index(":")]), int(st[st.index(":") + 1:])
            self.who[val] = prod
            full = self.bounded and self.p >= self.cap
            stopped_like = (not self.started) or self.stopped or self.rstop
            if res == "1":
                self.accepted.append(val)
                feats.add("accepted-%s" % ("try" if kind == "t" else "blocking"))
                if stopped_like:
                    bad.append("[stop] %s accepted although the source is %s" % (st, "not started" if not self.started else "stopped"))
                if full:
                    bad.append("[cap] %s accepted although %d value(s) were pending (capacity %d)" % (st, self.p, self.cap))
            elif res == "0":
                if kind == "t":
                    if not (stopped_like or full):
                        bad.append("[refused] %s refused although running with %d pending (capacity %d)" % (st, self.p, self.cap))
                    feats.add("refused-full" if (full and not stopped_like) else "refused-stopped")
                else:
                    if not stopped_like:
                        bad.append("[blocking] %s failed although the source has not stopped" % st)
                    feats.add("blocking-failed-stopped")
            elif res == "B":
                self.parked[prod] = val
                feats.add("sender-parked")
                if not full or stopped_like:
                    bad.append("[blocking] %s parked although the queue is not at capacity / not running" % st)
            elif res == "busy":
                feats.add("busy")
            else:
                bad.append("[trace] send result %r" % res)
        return True

    def status(self, st, p, f, mid=False):
        """checks on the state reported after a step; `mid`: some thread is inside an operation"""
        bad = self.bad
        running = self.started and not self.stopped
        if self.bounded and p > self.cap:
            bad.append("[cap] %d values pending with capacity %d after %s" % (p, self.cap, st))
        if running and self.policy != "c" and p != len(self.accepted) - len(self.delivered):
            bad.append("[prefix] pending_items %d but accepted-delivered = %d after %s"
                       % (p, len(self.accepted) - len(self.delivered), st))
        if not mid:
            if running and not self.rstop and p > 0 and f == 0:
                bad.append("[lost] %d value(s) pending, every thread idle, and the executor flag is clear after %s" % (p, st))
            if running and not self.rstop and self.parked and not (self.bounded and p >= self.cap):
                bad.append("[blocking] sender still parked with room in the queue after %s" % st)
        self.p, self.f = p, f


def _analyse_stress(case, out):
    bad, feats = [], {"kind-threads"}
    line = next((o for l, o in zip(case.lines, out) if l.startswith("stress")), None)
    if not line or not line.startswith("stress "):
        return ["[trace] no stress output: %r" % (line,)], feats
    kv = dict(x.split("=", 1) for x in line.split()[1:] if "=" in x)
    try:
        sent, failed, delivered = int(kv["sent"]), int(kv["failed"]), int(kv["delivered"])
        cap, maxpend = int(kv["cap"]), int(kv["maxpend"])
    except Exception:
        return ["[trace] unreadable stress output %r" % line[:100]], feats
    if "run_error" in kv:
        bad.append("[trace] run() threw: " + kv["run_error"][:80])
    if failed:
        bad.append("[blocking] %d send(s) failed although the source never stopped" % failed)
    if kv["timeout"] == "1" or delivered != sent:
        bad.append("[lost] %d of %d accepted values delivered with the run still going (concurrent producers)" % (delivered, sent))
    if int(kv["dup"]):
        bad.append("[once] %s value(s) delivered twice (concurrent producers)" % kv["dup"])
    if int(kv["order_bad"]):
        bad.append("[prefix] a producer's own order was not preserved (%s places)" % kv["order_bad"])
    if int(kv["time_bad"]):
        bad.append("[once] delivery times not strictly increasing (%s places)" % kv["time_bad"])
    if cap > 0 and maxpend > cap:
        bad.append("[cap] %d values pending with capacity %d (concurrent producers)" % (maxpend, cap))
    feats.add("threads-cap-%d" % cap)
    feats.add("threads-refused-" + kv.get("refused", "?"))
    return bad, feats


def _analyse(case, out):
    if case.meta.get("kind") == "threads" or any(l.startswith("stress") for l in case.lines):
        return _analyse_stress(case, out)
    cap, policy, line = None, None, None
    for ln, o in zip(case.lines, out):
        w = ln.split()
        if w and w[0] == "cfg":
            cap, policy = int(w[1]), w[2]
        if w and w[0] == "sched":
            line = o
    if line is None or cap is None:
        return ["[trace] no schedule output"], set()
    if line == "bad-op" or line.startswith("err:"):
        return ["[trace] harness rejected the schedule: " + line[:80]], set()
    S = _State(cap, policy)
    bad, feats = S.bad, S.feats
    parts = line.split(" | ")
    for part in parts[:-1]:
        m = _PART.match(part)
        if not m:
            return ["[trace] unreadable step %r" % part], feats
        outer, inner, extra, p, f = m.group(1), m.group(2), m.group(3), int(m.group(4)), int(m.group(5))
        if not S.event(outer):
            return bad, feats
        st = outer
        if inner is not None:
            if inner == "-":
                feats.add("point-not-reached")
            else:
                mi = re.match(r"^(\S+) p(\d+) f([01])$", inner)
                if not mi:
                    return ["[trace] unreadable nested step %r" % inner], feats
                feats.add("nested-in-" + ("cycle" if outer.startswith("c") else "send"))
                if not S.event(mi.group(1), nested=True):
                    return bad, feats
                S.status(mi.group(1), int(mi.group(2)), int(mi.group(3)), mid=True)
        for e in extra.split():
            if e == "+stuck":
                bad.append("[blocking] a parked sender was not released although the queue has room or the source stopped")
                continue
            m2 = re.match(r"^\+b(\d+):(\d+)=(\S)$", e)
            if not m2:
                bad.append("[trace] completion %r" % e)
                continue
            prod, val, r = int(m2.group(1)), int(m2.group(2)), m2.group(3)
            S.parked.pop(prod, None)
            if r == "1":
                S.accepted.append(val)
                feats.add("parked-sender-admitted")
                if S.stopped:
                    bad.append("[stop] parked %d accepted after the stop" % val)
            elif r == "0":
                feats.add("parked-sender-failed")
                if not S.stopped:
                    bad.append("[blocking] parked send of %d failed although the source has not stopped" % val)
            else:
                bad.append("[blocking] parked send of %d threw" % val)
        S.status(st, p, f)
    accepted, delivered = S.accepted, S.delivered
    # the ordering properties
    if policy == "c":
        it = iter(accepted)
        if not all(any(x == y for y in it) for x in delivered):
            bad.append("[prefix] conflated deliveries %s are not a subsequence of accepted %s" % (delivered[:8], accepted[:8]))
    elif delivered != accepted[:len(delivered)]:
        bad.append("[prefix] delivered %s is not a prefix of accepted %s" % (delivered[:8], accepted[:8]))
    if len(set(delivered)) != len(delivered):
        bad.append("[once] a value was delivered twice: %s" % delivered[:10])
    tail = parts[-1]
    m = re.match(r"^end((?: \+\S+)*) accepted=\[([^\]]*)\] delivered=\[(.*)\]$", tail)
    if not m:
        bad.append("[trace] unreadable summary %r" % tail[:80])
    else:
        for e in m.group(1).split():
            m2 = re.match(r"^\+b(\d+):(\d+)=(\S)$", e)
            if e == "+stuck" or (m2 and m2.group(3) != "0"):
                bad.append("[blocking] at the final stop a parked sender was %s" % ("not released" if e == "+stuck" else "accepted"))
        acc2 = [int(x) for x in m.group(2).split(",") if x]
        if acc2 != accepted:
            bad.append("[trace] summary accepted %s differs from the per-step results %s" % (acc2[:8], accepted[:8]))
    if len({p for p in S.producers_delivered if p}) >= 2:
        feats.add("multi-producer-delivery")
    feats.add("policy-" + policy)
    feats.add("cap-%d" % cap)
    feats.add("kind-" + case.meta.get("kind", "?"))
    if S.stopped:
        feats.add("graph-stop")
    if S.rstop:
        feats.add("request-stop")
    return bad, feats


def monitor(stream, case, out):
    return _analyse(case, out)[0][:3]


def features(stream, case, out):
    return sorted(_analyse(case, out)[1])


def nontrivial(stream, case, out):
    f = _analyse(case, out)[1]
    return bool(f & {"multi-producer-delivery", "sender-parked", "refused-full", "kind-threads"})
