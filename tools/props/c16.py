"""C16 - push queue: accepted values are delivered once, in order, within capacity."""
import itertools, os, re, subprocess
from vlib import Case, Stream, BUILD, model_cmd

ID = "C16"
LEAN_MODULES = ["HgVerif.Props.C16", "HgVerif.Props.C16N", "HgVerif.Model.Tie2", "HgVerif.Model.Extracted"]
USES_EXTRACT = True
THEOREMS = ["HgVerif.Tie.tie_pqFull",
    
    "HgVerif.PushQueue.inv_reach",
    "HgVerif.PushQueue.delivered_prefix_of_accepted", "HgVerif.PushQueue.per_producer_order",
    "HgVerif.PushQueue.delivered_once", "HgVerif.PushQueue.pending_le_capacity",
    "HgVerif.PushQueue.try_send_refused_iff_full_or_stopped", "HgVerif.PushQueue.refusal_sound",
    "HgVerif.PushQueue.nothing_accepted_after_stop", "HgVerif.PushQueue.send_after_stop_refused",
    "HgVerif.PushQueue.no_lost_wakeup",
    "HgVerif.PushQueue.blocking_fails_only_if_stopped", "HgVerif.PushQueue.blocked_sender_released",
    "HgVerif.PushQueue.progress", "HgVerif.PushQueue.eventually_delivered",
    "HgVerif.PushQueue.conflating_delivers_latest",
    # several push sources sharing ONE executor flag (Model/PushQueueN.lean)
    "HgVerif.PushQueueN.inv_reach",
    "HgVerif.PushQueueN.delivered_prefix_of_accepted_n", "HgVerif.PushQueueN.per_producer_order_n",
    "HgVerif.PushQueueN.delivered_once_n", "HgVerif.PushQueueN.pending_le_capacity_n",
    "HgVerif.PushQueueN.no_lost_wakeup_n", "HgVerif.PushQueueN.idle_loop_has_nothing_undelivered",
    "HgVerif.PushQueueN.try_send_refused_iff_full_or_stopped_n", "HgVerif.PushQueueN.blocking_fails_only_if_stopped_n",
    "HgVerif.PushQueueN.nothing_accepted_after_stop_n", "HgVerif.PushQueueN.conflating_delivers_latest_n",
    "HgVerif.PushQueueN.progress_n", "HgVerif.PushQueueN.eventually_delivered_n",
    "HgVerif.PushQueueN.per_source_sampling_loses_wakeup", "HgVerif.PushQueueN.one_reset_per_cycle_keeps_wakeup",
    # conflating policy with a COLLECTION output: accumulator of deltas
    "HgVerif.PushQueueN.dinv_reach", "HgVerif.PushQueueN.noop_send_keeps_pending", "HgVerif.PushQueueN.admission_keeps_pending",
    "HgVerif.PushQueueN.conflating_pending_iff_effective", "HgVerif.PushQueueN.conflating_delivered_is_window_fold",
    "HgVerif.PushQueueN.conflating_accepted_conserved", "HgVerif.PushQueueN.no_lost_wakeup_dict",
    "HgVerif.PushQueueN.take_delivers_window", "HgVerif.PushQueueN.conflating_accepted_effective_delivered",
    "HgVerif.PushQueueN.assigning_pending_loses_accepted_delta", "HgVerif.PushQueueN.oring_pending_delivers_accepted_delta",
]
CXX_TARGETS = ["hgv_push", "hgv_pushn"]
RULE = ("schedules of whole operations (start, try_send / send_blocking from producers 1-3, evaluation cycles, "
        "request_stop, graph stop) against a real push source of capacity 0 (unbounded), 1, 2 or 3 with policy queue, "
        "burst or conflating; sends run on their own threads, a send_blocking at capacity stays parked until a cycle "
        "or the stop releases it (at most one parked sender at a time); thorough adds every order of 2 producers x 2 "
        "messages x 4 cycles for capacities 0,1,2; a second, monitor-only stream runs 2-6 REAL producer threads against the "
        "real run loop (no hooks, OS-chosen interleavings); a third, push-tryonly, lets 1-4 real producer threads call plain "
        "try_send WITHOUT retry (3000-20000 sends each) against an unbounded queue or a burst source of capacity 1000000, with or "
        "without a thread polling inspection_metrics, and requires refused = 0. Streams multi / multi-threads: graphs with 1-3 push sources "
        "(independent policy and capacity each) sharing the one executor flag: sends address a source, cycles are driven by "
        "hand (c) or as the loop would (L: cycles while the flag is raised), with backlogs of >= 2 values on a queue source "
        "that is NOT the last of the push prefix, bounded sources kept full by try_send, producers on several sources, one "
        "parked sender per source; thorough adds every order of <= 3 messages on 2 sources x 4 cycles for 12 capacity / send-kind "
        "configurations; multi-threads runs the real loop with one real producer thread per source. Stream multi-dict: "
        "conflating sources with a COLLECTION output (TSD<int,TS<int>>, policy letter d), alone or next to queue / burst / "
        "scalar-conflating sources: sends carry collection deltas (set k=v, remove k present or ABSENT, the empty delta, "
        "combinations), with windows shaped effective-then-no-ops (the no-op is the LAST send before the take), no-op "
        "first, no-ops only, set-then-remove, empty-delta-validates, and random mixes. A case is non-trivial "
        "when values of >= 2 producers were delivered, or a sender parked, or a send was refused at capacity, or (multi) a "
        "non-last queue source entered a cycle with >= 2 pending or >= 2 sources delivered in one cycle, or (multi-dict) "
        "an accepted delta without effect was the last send of a window that holds an effective one; distinct by sha1 "
        "of the case text")
TRUSTED = [
    "C++ memory model, std::mutex / condition_variable semantics, thread scheduling: the harness executes the "
    "mutex-protected sections one after the other in schedule order (no source hooks); interleavings INSIDE one "
    "try_send / one push-node evaluation (admission|mark, pop|re-arm) are covered by the proof and by the monitor-only "
    "real-thread stream, and are exhibited deterministically only when the optional points of "
    "hooks/push_points_optional.patch are compiled in (the plug-in probes for them and then adds the stream push-points)",
    "data races and lifetime of the sender control block (active_calls / wait_for_quiescence / detach) are not "
    "modelled beyond the closing flag; TSan not run",
    "Value payloads are ints; schema validation (validate()) and the Value/TSOutput layers are trusted",
    "the rule [refused] of stream push-tryonly (every plain try_send to a never-full source is accepted while no stop is "
    "requested) is decided on REAL-THREAD runs only: the sequential model proves try_send_refused_iff_full_or_stopped for "
    "the mutex-protected sections executed one after the other; a refusal caused by contention on the policy mutex itself "
    "is outside the model and is only visible with real concurrency",
]
ASSUMPTIONS = [
    "eventually_delivered: weak fairness of every thread's steps, no stop request and no graph stop later, and the "
    "evaluation thread keeps starting cycles while the flag is set (C17 rt_no_missed_signal / rt_at_exact_T)",
    "strictly increasing cycle times are the run loop's (C17 rt_times_strict); here time only needs to increase per cycle",
    "restart after stop is not supported by design (graph.cpp) and not modelled; push source nodes are never scheduled "
    "(scheduled_now in the push phase is not modelled); the graph start / stop of several sources is modelled as the "
    "sources starting / stopping one after the other, cycles only while all of them run",
    "eventually_delivered_n: as eventually_delivered, for every source; an execution in which some source of the push "
    "prefix is never started has no cycle and is not fair in the sense of Exec.Fair once the flag is set",
]
TECHNIQUE = ("Lean 4 proof (inductive invariants over all interleavings of a labelled transition system whose atomic "
             "steps are the mutex-protected sections; weak-fairness liveness by a ranking argument) with differential "
             "correspondence of the same step function, composed per operation, against the real push source")
LEVEL_TEXT = ("Kernel-checked invariants over ALL interleavings, any number of producers and messages, any capacity: "
              "delivered values (flattened) are a prefix of the accepted ones (hence per-producer order), at most one "
              "delivery per cycle with strictly increasing times, pending <= capacity, try_send is refused iff the "
              "source is closed/stop-requested/not accepting or the bounded queue is full, a blocking send fails only "
              "for the first three reasons, nothing is accepted once the policy stopped, and no lost wake-up "
              "(non-empty queue => flag set or a producer between admission and mark or the consumer between reset and "
              "re-arm, or stop requested); under weak fairness every accepted value is delivered.  The same for ANY number "
              "of push sources sharing the one executor flag (per-source prefix / order / once / capacity / refusals / stop; "
              "shared-flag no-lost-wake-up: a pending value on any source k => flag set, or a mark due on some source, or "
              "the cycle in progress has not evaluated k yet, or a re-arm is owed, or stop requested; under weak fairness "
              "every accepted value of every source is delivered), with a kernel-checked witness that sampling the flag "
              "per source instead of once per cycle loses a wake-up.  Conflating sources with a collection output: the "
              "accumulator is the fold of the window's accepted deltas (no-ops skipped), pending holds iff one of them had "
              "effect, an accepted send never clears pending, every delivered value is the fold of its window, accepted "
              "deltas are conserved (delivered windows ++ current window), and under weak fairness the window holding an "
              "effective delta is delivered next; with a kernel-checked witness that ASSIGNING pending from modified() "
              "loses an accepted delta.")
LEVEL_NOTE = ("Proof of the protocol logic; PARTIAL for the runtime remainder: the C++ memory model, condition-variable "
              "behaviour and real thread scheduling are trusted. The step function of the model is tied to "
              "push_source_node.cpp / executor.cpp / graph.cpp by composing it per operation and comparing with the real "
              "code on generated and exhaustively enumerated schedules.")


# ---------------------------------------------------------------- generator

def gen_case(rng, idx, policy=None, cap=None, n=None):
    policy = policy or rng.choice(["q"] * 7 + ["b", "b", "c"])
    cap = rng.choice([0, 1, 1, 2, 2, 3]) if cap is None else cap
    steps = []
    v = [0]

    def val():
        v[0] += 1
        return v[0]
    if rng.random() < 0.12:
        steps.append("%s%d:%d" % (rng.choice("tb"), rng.randint(1, 3), val()))     # before start: refused
    steps.append("S")
    parked = None          # producer that may be parked in send_blocking
    rstop = False
    stopped = False
    for _ in range(n or rng.randint(4, 26)):
        r = rng.random()
        free = [p for p in (1, 2, 3) if p != parked]
        if r < 0.36:
            steps.append("t%d:%d" % (rng.choice(free), val()))
        elif r < 0.52:
            if parked is None:
                p = rng.choice(free)
                steps.append("b%d:%d" % (p, val()))
                if cap > 0 and policy != "c" and not stopped and not rstop:
                    parked = p
            else:
                steps.append("c")
                if not rstop:
                    parked = None
        elif r < 0.90:
            steps.append("c")
            if not rstop:
                parked = None
        elif r < 0.93:
            steps.append("r"); rstop = True
        elif r < 0.97:
            steps.append("X"); stopped = True; parked = None
        else:
            steps.append("S")
    return Case(["case %d" % idx, "cfg %d %s" % (cap, policy), "sched " + " ".join(steps)], {"kind": "random"})


def gen_nested(rng, idx):
    """schedules with one nested step at a protocol point (only when the optional
    HGRAPH_VERIF_POINTs are compiled in): a cycle / stop request between a send's admission and its
    mark, a try_send between the consumer's pop and its re-arm.  No sender is parked meanwhile."""
    policy = rng.choice(["q"] * 8 + ["b", "c"])
    cap = rng.choice([0, 0, 1, 2, 2, 3])
    steps = ["S"]
    v = [0]

    def val():
        v[0] += 1
        return v[0]
    rstop = False
    for _ in range(rng.randint(4, 22)):
        r = rng.random()
        if r < 0.22:
            steps.append("t%d:%d" % (rng.randint(1, 3), val()))
        elif r < 0.46:
            inner = "r" if (rng.random() < 0.08 and not rstop) else "c"
            rstop = rstop or inner == "r"
            steps.append("t%d:%d{%s}" % (rng.randint(1, 3), val(), inner))
        elif r < 0.66:
            steps.append("c")
        elif r < 0.92:
            steps.append("c{t%d:%d}" % (rng.randint(1, 3), val()))
        elif r < 0.95:
            steps.append("r"); rstop = True
        else:
            steps.append("X")
    return Case(["case %d" % idx, "cfg %d %s" % (cap, policy), "sched " + " ".join(steps)], {"kind": "points"})


def have_points():
    """does the build under test contain the optional protocol points of push_source_node.cpp?"""
    try:
        r = subprocess.run([os.path.join(BUILD, "hgv_push")], input="points\n", capture_output=True, text=True, timeout=60)
        return "points=1" in r.stdout
    except Exception:
        return False


def exhaustive(idx0):
    """every order of 2 producers x 2 messages (program order kept) and 4 cycles, capacities 0,1,2"""
    cases = []
    idx = idx0
    items = ["A", "A", "B", "B", "c", "c", "c", "c"]
    orders = sorted(set(itertools.permutations(items)))
    for cap in (0, 1, 2):
        for kinds in ("tt", "tb"):
            for o in orders:
                a = iter(["%s1:1" % kinds[0], "%s1:2" % kinds[0]])
                b = iter(["%s2:3" % kinds[1], "%s2:4" % kinds[1]])
                steps = ["S"]
                parked = False
                ok = True
                for x in o:
                    if x == "c":
                        steps.append("c"); parked = False
                    else:
                        s = next(a) if x == "A" else next(b)
                        if s[0] == "b":
                            if parked:
                                ok = False; break
                            parked = cap > 0
                        steps.append(s)
                if ok:
                    cases.append(Case(["case %d" % idx, "cfg %d q" % cap, "sched " + " ".join(steps)], {"kind": "exhaustive"}))
                    idx += 1
    return cases


def streams(rng, tier, seed):
    q = tier == "quick"
    cases = [gen_case(rng, i) for i in range(500 if q else 12000)]
    if not q:
        cases += exhaustive(len(cases))
    else:
        ex = exhaustive(len(cases))
        cases += [ex[i] for i in sorted(rng.sample(range(len(ex)), 120))]
    cdir = os.path.join(os.path.dirname(os.path.dirname(os.path.dirname(os.path.abspath(__file__)))), "corpus", "C16")
    corpus, mcorpus = [], []
    if os.path.isdir(cdir):
        for f in sorted(os.listdir(cdir)):
            c = Case([l.rstrip("\n") for l in open(os.path.join(cdir, f)) if l.strip()], {"kind": "corpus"})
            (mcorpus if f.startswith("multi_") else corpus).append(c)
    # real threads against the real run loop (no hooks, no model: monitor only)
    stress = []
    for i in range(16 if q else 300):
        stress.append(Case(["case %d" % (100000 + i),
                            "stress %d %d %d %d" % (rng.choice([2, 3, 4, 6]), rng.choice([20, 100, 400]),
                                                    rng.choice([0, 1, 1, 2, 3, 16]), rng.choice([0, 1, 2]))],
                           {"kind": "threads"}))
    out = [Stream("push", [os.path.join(BUILD, "hgv_push")], model_cmd("C16"), corpus + cases, timeout=1800),
           Stream("push-threads", [os.path.join(BUILD, "hgv_push")], None, stress, timeout=1800)]
    if have_points():
        nested = [gen_nested(rng, 200000 + i) for i in range(300 if q else 8000)]
        out.append(Stream("push-points", [os.path.join(BUILD, "hgv_push")], model_cmd("C16"), nested, timeout=1800))
    # several push sources in one graph, one shared executor flag
    multi = [gen_multi(rng, 300000 + i) for i in range(360 if q else 9000)]
    mex = multi_exhaustive(400000)
    multi += mex if not q else [mex[i] for i in sorted(rng.sample(range(len(mex)), 100))]
    out.append(Stream("multi", [os.path.join(BUILD, "hgv_pushn")], model_cmd("C16N"), mcorpus + multi, timeout=1800))
    mstress = []
    for i in range(8 if q else 150):
        k = rng.choice([2, 2, 3])
        caps = [rng.choice([0, 1, 2, 2, 3, 8]) for _ in range(k)]
        mstress.append(Case(["case %d" % (500000 + i),
                             "stressn %d %d %s" % (rng.choice([30, 120, 300]), rng.choice([0, 1, 2]), " ".join(map(str, caps)))],
                            {"kind": "multi-threads"}))
    out.append(Stream("multi-threads", [os.path.join(BUILD, "hgv_pushn")], None, mstress, timeout=1800))
    # plain try_send WITHOUT retry from real producer threads against a source that can never be full
    fixed = [(4, 4000, "q", 0), (4, 20000, "b", 0), (1, 6000, "q", 1), (1, 6000, "q", 0), (2, 8000, "q", 0), (3, 8000, "b", 1)]
    tro = [Case(["case %d" % (700000 + i), "tryonly %d %d %s %d" % f], {"kind": "tryonly"}) for i, f in enumerate(fixed)]
    for i in range(4 if q else 120):
        tro.append(Case(["case %d" % (700100 + i),
                         "tryonly %d %d %s %d" % (rng.choice([1, 2, 3, 4]), rng.choice([3000, 6000, 12000]), rng.choice("qqb"), rng.choice([0, 0, 1]))],
                        {"kind": "tryonly"}))
    out.append(Stream("push-tryonly", [os.path.join(BUILD, "hgv_pushn")], None, tro, timeout=1800))
    # conflating sources with a collection output (accumulator of deltas)
    dcorpus = [c for c in mcorpus if any(" d" in l for l in c.lines if l.startswith("cfgn"))]
    out[-2].cases = [c for c in out[-2].cases if c not in dcorpus]
    mdict = [gen_multi_dict(rng, 600000 + i) for i in range(260 if q else 7000)]
    out.append(Stream("multi-dict", [os.path.join(BUILD, "hgv_pushn")], model_cmd("C16N"), dcorpus + mdict, timeout=1800))
    return out


# ---------------------------------------------------------------- conflating with a collection output: generator

def gen_multi_dict(rng, idx):
    """1-3 push sources, at least one conflating source with a TSD output (policy letter d); its sends carry
    collection deltas.  `have[s]` is the generator's idea of the keys of the current window (fresh per take)."""
    k = rng.choice([1, 1, 1, 2, 2, 3])
    pol = [rng.choice(["q", "q", "q", "b", "c", "d"]) for _ in range(k)]
    pol[rng.randrange(k)] = "d"
    cap = [rng.choice([0, 0, 1, 2, 3]) for _ in range(k)]
    dsrc = [s for s in range(k) if pol[s] == "d"]
    others = [s for s in range(k) if pol[s] != "d"]
    steps, v = [], [0]
    have = {s: None for s in dsrc}           # None = fresh accumulator; else the set of keys of the window
    parked = [None] * k
    rstop = stopped = False

    def val():
        v[0] += 1
        return v[0]

    def send(s, tok):
        steps.append("%s%d.%d:%s" % (rng.choice("ttttb"), s, rng.randint(1, 3), tok))

    def eff_set(s):
        key = rng.randint(1, 4)
        if not (stopped or rstop):
            have[s] = (have[s] or set()) | {key}
        return "%d=%d" % (key, val())

    def noop(s):
        """a delta that has no effect on the generator's idea of the accumulator"""
        absent = [x for x in range(1, 10) if x not in (have[s] or set())]
        if have[s] is not None and rng.random() < 0.3:
            return "e"
        ks = rng.sample(absent, rng.choice([1, 1, 2]))
        return ",".join("-%d" % x for x in ks)

    def rem_present(s):
        if not have[s]:
            return noop(s)
        key = rng.choice(sorted(have[s]))
        if not (stopped or rstop):
            have[s] = have[s] - {key}
        return "-%d" % key

    def take():
        steps.append(rng.choice(["c", "c", "L"]))
        if not rstop and not stopped:
            for s in dsrc:
                have[s] = None
            for s in range(k):
                parked[s] = None

    def other_traffic():
        if others and rng.random() < 0.5:
            s = rng.choice(others)
            for _ in range(rng.randint(1, 3)):
                steps.append("t%d.%d:%d" % (s, rng.choice([p for p in (1, 2, 3) if p != parked[s]]), val()))

    if rng.random() < 0.1:
        send(rng.choice(dsrc), "1=%d" % val())              # before start: refused
    steps.append("S")
    for _ in range(rng.randint(3, 9)):
        s = rng.choice(dsrc)
        r = rng.random()
        if r < 0.30:
            # effective send(s), then accepted deltas WITHOUT effect as the last sends before the take
            for _ in range(rng.randint(1, 2)):
                send(s, eff_set(s))
            other_traffic()
            for _ in range(rng.randint(1, 3)):
                send(s, noop(s))
            take()
        elif r < 0.40:
            send(s, noop(s)); send(s, eff_set(s)); other_traffic(); take()            # the no-op comes first
        elif r < 0.48:
            for _ in range(rng.randint(1, 2)):
                send(s, noop(s) if have[s] is None else noop(s))                      # a window of no-ops only
            if have[s] is None and steps[-1].endswith(":e"):
                have[s] = set()
            take()
        elif r < 0.58:
            send(s, eff_set(s)); send(s, rem_present(s))                              # set then remove: an empty valid value
            if rng.random() < 0.5:
                send(s, noop(s))
            take()
        elif r < 0.66:
            send(s, "e")                                                              # the empty delta validates a fresh accumulator
            if have[s] is None and not (stopped or rstop):
                have[s] = set()
            for _ in range(rng.randint(0, 2)):
                send(s, noop(s))
            take()
        elif r < 0.76:
            a, b = eff_set(s), eff_set(s)
            send(s, a + "," + b)                                                      # combined deltas
            absent = [x for x in range(1, 10) if x not in (have[s] or set())]
            send(s, "-%d,%s" % (rng.choice(absent), eff_set(s)))
            if rng.random() < 0.6:
                send(s, noop(s))
            take()
        elif r < 0.88:
            for _ in range(rng.randint(1, 5)):
                c = rng.random()
                send(s, eff_set(s) if c < 0.45 else rem_present(s) if c < 0.65 else noop(s))
            other_traffic()
            take()
        elif r < 0.93:
            other_traffic(); take()
        elif r < 0.955:
            steps.append("r"); rstop = True
        elif r < 0.98:
            steps.append("X"); stopped = True
        else:
            steps.append("S")
    if not stopped and not rstop and rng.random() < 0.6:
        steps.append("L")
    cfg = " ".join("%d %s" % (cap[s], pol[s]) for s in range(k))
    return Case(["case %d" % idx, "cfgn " + cfg, "sched " + " ".join(steps)], {"kind": "multi-dict"})


# ---------------------------------------------------------------- several push sources: generator

def gen_multi(rng, idx):
    """a graph with 1-3 push sources; sends address a source; cycles by hand (c) or as the loop (L)"""
    k = rng.choice([1, 2, 2, 2, 2, 3, 3, 3])
    pol = [rng.choice(["q"] * 7 + ["b", "b", "c"]) for _ in range(k)]
    if k > 1 and rng.random() < 0.75:
        pol[rng.randrange(k - 1)] = "q"                      # a queue source that is not the last one
    cap = [rng.choice([0, 0, 1, 2, 2, 3]) for _ in range(k)]
    steps = []
    v = [0]

    def val():
        v[0] += 1
        return v[0]
    nonlast_q = [s for s in range(k - 1) if pol[s] == "q"]
    bounded = [s for s in range(k) if cap[s] > 0 and pol[s] != "c"]
    parked = [None] * k
    rstop = stopped = False

    def free(s):
        return [p for p in (1, 2, 3) if p != parked[s]]

    def pick_source():
        if nonlast_q and rng.random() < 0.55:
            return rng.choice(nonlast_q)
        return rng.randrange(k)
    if rng.random() < 0.1:
        steps.append("%s%d.%d:%d" % (rng.choice("tb"), rng.randrange(k), rng.randint(1, 3), val()))     # before start: refused
    steps.append("S")
    for _ in range(rng.randint(5, 24)):
        r = rng.random()
        if r < 0.14 and nonlast_q:
            # a backlog on a queue source that is followed by another push source
            s = rng.choice(nonlast_q)
            for _ in range(rng.randint(2, 4)):
                steps.append("t%d.%d:%d" % (s, rng.choice(free(s)), val()))
            if rng.random() < 0.6:
                s2 = rng.choice([x for x in range(k) if x != s])
                steps.append("t%d.%d:%d" % (s2, rng.choice(free(s2)), val()))
            steps.append(rng.choice(["c", "L", "L"]))
            if not rstop:
                parked = [None] * k
        elif r < 0.24 and bounded:
            # keep a bounded source full by try_send: fill until refused, one cycle's worth of loop, refill
            s = rng.choice(bounded)
            for _ in range(rng.randint(1, 3)):
                for _ in range(cap[s] + 1):
                    steps.append("t%d.%d:%d" % (s, rng.choice(free(s)), val()))
                steps.append(rng.choice(["c", "c", "L"]))
                if not rstop:
                    parked = [None] * k
        elif r < 0.50:
            s = pick_source()
            steps.append("t%d.%d:%d" % (s, rng.choice(free(s)), val()))
        elif r < 0.62:
            s = pick_source()
            if parked[s] is None:
                p = rng.choice(free(s))
                steps.append("b%d.%d:%d" % (s, p, val()))
                if cap[s] > 0 and pol[s] != "c" and not stopped and not rstop:
                    parked[s] = p
            else:
                steps.append("c")
                if not rstop:
                    parked = [None] * k
        elif r < 0.80:
            steps.append("c")
            if not rstop:
                parked = [None] * k
        elif r < 0.92:
            steps.append("L")
            if not rstop:
                parked = [None] * k
        elif r < 0.94:
            steps.append("r"); rstop = True
        elif r < 0.975:
            steps.append("X"); stopped = True; parked = [None] * k
        else:
            steps.append("S")
    if not stopped and not rstop and rng.random() < 0.7:
        steps.append("L")                                    # let the loop run until it goes idle
    cfg = " ".join("%d %s" % (cap[s], pol[s]) for s in range(k))
    return Case(["case %d" % idx, "cfgn " + cfg, "sched " + " ".join(steps)], {"kind": "multi-random"})


def multi_exhaustive(idx0):
    """two queue sources, every split of <= 3 messages over them (program order kept per source), every
    order of the sends and 4 cycles, then the loop until idle; capacities (0|1|2) x (0|1), sends to
    source 0 non-blocking or blocking (at most one sender parked per source)"""
    cases, idx = [], idx0
    splits = [(m0, m1) for m0 in range(0, 4) for m1 in range(0, 4) if 1 <= m0 + m1 <= 3 and m0 >= 1]
    for cap0 in (0, 1, 2):
        for cap1 in (0, 1):
            for kind0 in "tb":
                for (m0, m1) in splits:
                    items = ["A"] * m0 + ["B"] * m1 + ["c"] * 4
                    for o in sorted(set(itertools.permutations(items))):
                        a = iter(["%s0.%d:%d" % (kind0, j + 1, j + 1) for j in range(m0)])
                        b = iter(["t1.1:%d" % (10 + j) for j in range(m1)])
                        steps, parked, ok = ["S"], False, True
                        for x in o:
                            if x == "c":
                                steps.append("c"); parked = False
                            elif x == "B":
                                steps.append(next(b))
                            else:
                                s = next(a)
                                if s[0] == "b":
                                    if parked:
                                        ok = False; break
                                    parked = cap0 > 0
                                steps.append(s)
                        if ok:
                            steps.append("L")
                            cases.append(Case(["case %d" % idx, "cfgn %d q %d q" % (cap0, cap1), "sched " + " ".join(steps)],
                                              {"kind": "multi-exhaustive"}))
                            idx += 1
    return cases


# ---------------------------------------------------------------- monitor

_PART = re.compile(r"^([^{ ]+)(?:\{(.*)\})?((?: \+\S+)*) p(\d+) f([01])$")
_EVENT = re.compile(r"^(S|X|r|c|[tb]\d+:\d+)(?:(\d+):(\S+)|:-|=(\S+))?$")


def _vals(txt):
    """values of one cycle entry: '5' -> [5]; '[1,2]' -> [1,2]"""
    txt = txt.strip()
    if txt.startswith("["):
        return [int(x) for x in txt[1:-1].split(",") if x]
    return [int(txt)]


class _State:
    def __init__(self, cap, policy):
        self.cap, self.policy = cap, policy
        self.started = self.stopped = self.rstop = False
        self.accepted, self.delivered, self.deliveries = [], [], []
        self.parked, self.who, self.producers_delivered = {}, {}, set()
        self.p, self.f = 0, 0
        self.bad, self.feats = [], set()
        self.bounded = cap > 0 and policy != "c"

    def event(self, text, nested=False):
        """apply one step's own effect (not its status); returns False when unreadable"""
        m = _EVENT.match(text)
        if not m:
            self.bad.append("[trace] unreadable step %r" % text)
            return False
        st, ctime, cvals, res = m.group(1), m.group(2), m.group(3), m.group(4)
        bad, feats = self.bad, self.feats
        running = self.started and not self.stopped
        if st == "S":
            if res is None:
                self.started = True
        elif st == "X":
            if res is None:
                self.stopped = True
        elif st == "r":
            self.rstop = True
        elif st == "c":
            if ctime is not None:
                t = int(ctime)
                if not running or self.rstop:
                    bad.append("[once] cycle %d ran while the graph was not running" % t)
                if self.deliveries and t <= self.deliveries[-1][0]:
                    bad.append("[once] cycle time %d not after %d" % (t, self.deliveries[-1][0]))
                if cvals != "-":
                    if "," in cvals and not cvals.startswith("["):
                        bad.append("[once] more than one delivery in cycle %d: %s" % (t, cvals))
                    vs = _vals(cvals.split(",")[0] if not cvals.startswith("[") else cvals)
                    self.deliveries.append((t, vs))
                    self.delivered.extend(vs)
                    self.p = max(0, self.p - len(vs))
                    feats.add("cycle-delivers")
                    if self.policy == "q" and len(vs) != 1:
                        bad.append("[once] queue policy delivered %d values in one cycle" % len(vs))
                    if len(vs) > 1:
                        feats.add("burst-tuple")
                    for x in vs:
                        self.producers_delivered.add(self.who.get(x))
                else:
                    feats.add("cycle-empty")
                    if self.p > 0 and self.f == 1:
                        bad.append("[lost] cycle %d had %d pending value(s) and the flag set but delivered nothing" % (t, self.p))
        else:
            kind, prod, val = st[0], int(st[1:st.index(":")]), int(st[st.index(":") + 1:])
            self.who[val] = prod
            full = self.bounded and self.p >= self.cap
            stopped_like = (not self.started) or self.stopped or self.rstop
            if res == "1":
                self.accepted.append(val)
                feats.add("accepted-%s" % ("try" if kind == "t" else "blocking"))
                if stopped_like:
                    bad.append("[stop] %s accepted although the source is %s" % (st, "not started" if not self.started else "stopped"))
                if full:
                    bad.append("[cap] %s accepted although %d value(s) were pending (capacity %d)" % (st, self.p, self.cap))
            elif res == "0":
                if kind == "t":
                    if not (stopped_like or full):
                        bad.append("[refused] %s refused although running with %d pending (capacity %d)" % (st, self.p, self.cap))
                    feats.add("refused-full" if (full and not stopped_like) else "refused-stopped")
                else:
                    if not stopped_like:
                        bad.append("[blocking] %s failed although the source has not stopped" % st)
                    feats.add("blocking-failed-stopped")
            elif res == "B":
                self.parked[prod] = val
                feats.add("sender-parked")
                if not full or stopped_like:
                    bad.append("[blocking] %s parked although the queue is not at capacity / not running" % st)
            elif res == "busy":
                feats.add("busy")
            else:
                bad.append("[trace] send result %r" % res)
        return True

    def status(self, st, p, f, mid=False):
        """checks on the state reported after a step; `mid`: some thread is inside an operation"""
        bad = self.bad
        running = self.started and not self.stopped
        if self.bounded and p > self.cap:
            bad.append("[cap] %d values pending with capacity %d after %s" % (p, self.cap, st))
        if running and self.policy != "c" and p != len(self.accepted) - len(self.delivered):
            bad.append("[prefix] pending_items %d but accepted-delivered = %d after %s"
                       % (p, len(self.accepted) - len(self.delivered), st))
        if not mid:
            if running and not self.rstop and p > 0 and f == 0:
                bad.append("[lost] %d value(s) pending, every thread idle, and the executor flag is clear after %s" % (p, st))
            if running and not self.rstop and self.parked and not (self.bounded and p >= self.cap):
                bad.append("[blocking] sender still parked with room in the queue after %s" % st)
        self.p, self.f = p, f


def _analyse_stress(case, out):
    bad, feats = [], {"kind-threads"}
    line = next((o for l, o in zip(case.lines, out) if l.startswith("stress")), None)
    if not line or not line.startswith("stress "):
        return ["[trace] no stress output: %r" % (line,)], feats
    kv = dict(x.split("=", 1) for x in line.split()[1:] if "=" in x)
    try:
        sent, failed, delivered = int(kv["sent"]), int(kv["failed"]), int(kv["delivered"])
        cap, maxpend = int(kv["cap"]), int(kv["maxpend"])
    except Exception:
        return ["[trace] unreadable stress output %r" % line[:100]], feats
    if "run_error" in kv:
        bad.append("[trace] run() threw: " + kv["run_error"][:80])
    if failed:
        bad.append("[blocking] %d send(s) failed although the source never stopped" % failed)
    if kv["timeout"] == "1" or delivered != sent:
        bad.append("[lost] %d of %d accepted values delivered with the run still going (concurrent producers)" % (delivered, sent))
    if int(kv["dup"]):
        bad.append("[once] %s value(s) delivered twice (concurrent producers)" % kv["dup"])
    if int(kv["order_bad"]):
        bad.append("[prefix] a producer's own order was not preserved (%s places)" % kv["order_bad"])
    if int(kv["time_bad"]):
        bad.append("[once] delivery times not strictly increasing (%s places)" % kv["time_bad"])
    if cap > 0 and maxpend > cap:
        bad.append("[cap] %d values pending with capacity %d (concurrent producers)" % (maxpend, cap))
    feats.add("threads-cap-%d" % cap)
    feats.add("threads-refused-" + kv.get("refused", "?"))
    return bad, feats


def _analyse(case, out):
    if case.meta.get("kind") == "threads" or any(l.startswith("stress") for l in case.lines):
        return _analyse_stress(case, out)
    cap, policy, line = None, None, None
    for ln, o in zip(case.lines, out):
        w = ln.split()
        if w and w[0] == "cfg":
            cap, policy = int(w[1]), w[2]
        if w and w[0] == "sched":
            line = o
    if line is None or cap is None:
        return ["[trace] no schedule output"], set()
    if line == "bad-op" or line.startswith("err:"):
        return ["[trace] harness rejected the schedule: " + line[:80]], set()
    S = _State(cap, policy)
    bad, feats = S.bad, S.feats
    parts = line.split(" | ")
    for part in parts[:-1]:
        m = _PART.match(part)
        if not m:
            return ["[trace] unreadable step %r" % part], feats
        outer, inner, extra, p, f = m.group(1), m.group(2), m.group(3), int(m.group(4)), int(m.group(5))
        if not S.event(outer):
            return bad, feats
        st = outer
        if inner is not None:
            if inner == "-":
                feats.add("point-not-reached")
            else:
                mi = re.match(r"^(\S+) p(\d+) f([01])$", inner)
                if not mi:
                    return ["[trace] unreadable nested step %r" % inner], feats
                feats.add("nested-in-" + ("cycle" if outer.startswith("c") else "send"))
                if not S.event(mi.group(1), nested=True):
                    return bad, feats
                S.status(mi.group(1), int(mi.group(2)), int(mi.group(3)), mid=True)
        for e in extra.split():
            if e == "+stuck":
                bad.append("[blocking] a parked sender was not released although the queue has room or the source stopped")
                continue
            m2 = re.match(r"^\+b(\d+):(\d+)=(\S)$", e)
            if not m2:
                bad.append("[trace] completion %r" % e)
                continue
            prod, val, r = int(m2.group(1)), int(m2.group(2)), m2.group(3)
            S.parked.pop(prod, None)
            if r == "1":
                S.accepted.append(val)
                feats.add("parked-sender-admitted")
                if S.stopped:
                    bad.append("[stop] parked %d accepted after the stop" % val)
            elif r == "0":
                feats.add("parked-sender-failed")
                if not S.stopped:
                    bad.append("[blocking] parked send of %d failed although the source has not stopped" % val)
            else:
                bad.append("[blocking] parked send of %d threw" % val)
        S.status(st, p, f)
    accepted, delivered = S.accepted, S.delivered
    # the ordering properties
    if policy == "c":
        it = iter(accepted)
        if not all(any(x == y for y in it) for x in delivered):
            bad.append("[prefix] conflated deliveries %s are not a subsequence of accepted %s" % (delivered[:8], accepted[:8]))
    elif delivered != accepted[:len(delivered)]:
        bad.append("[prefix] delivered %s is not a prefix of accepted %s" % (delivered[:8], accepted[:8]))
    if len(set(delivered)) != len(delivered):
        bad.append("[once] a value was delivered twice: %s" % delivered[:10])
    tail = parts[-1]
    m = re.match(r"^end((?: \+\S+)*) accepted=\[([^\]]*)\] delivered=\[(.*)\]$", tail)
    if not m:
        bad.append("[trace] unreadable summary %r" % tail[:80])
    else:
        for e in m.group(1).split():
            m2 = re.match(r"^\+b(\d+):(\d+)=(\S)$", e)
            if e == "+stuck" or (m2 and m2.group(3) != "0"):
                bad.append("[blocking] at the final stop a parked sender was %s" % ("not released" if e == "+stuck" else "accepted"))
        acc2 = [int(x) for x in m.group(2).split(",") if x]
        if acc2 != accepted:
            bad.append("[trace] summary accepted %s differs from the per-step results %s" % (acc2[:8], accepted[:8]))
    if len({p for p in S.producers_delivered if p}) >= 2:
        feats.add("multi-producer-delivery")
    feats.add("policy-" + policy)
    feats.add("cap-%d" % cap)
    feats.add("kind-" + case.meta.get("kind", "?"))
    if S.stopped:
        feats.add("graph-stop")
    if S.rstop:
        feats.add("request-stop")
    return bad, feats


# ---------------------------------------------------------------- several push sources: monitor

_MPART = re.compile(r"^(\S+)((?: \+\S+)*) p([\d,]+) f([01])$")
_MSEND = re.compile(r"^([tb])(\d+)\.(\d+):(\S+)=(1|0|B|busy|E)$")


def _delta_parse(tok):
    """'<k>=<v>' | '-<k>' | 'e' | comma list -> (removed keys, {key: value})"""
    rem, sets = [], {}
    if tok != "e":
        for it in tok.split(","):
            if it.startswith("-"):
                rem.append(int(it[1:]))
            else:
                a, b = it.split("=")
                sets[int(a)] = int(b)
    return rem, sets


def _delta_canon(tok):
    rem, sets = _delta_parse(tok)
    items = ["-%d" % x for x in sorted(set(rem))] + ["%d=%d" % (a, sets[a]) for a in sorted(sets)]
    return ",".join(items) or "e"


def _delta_apply(acc, tok):
    """the reference reading of one accepted collection delta on the window's accumulator (None = fresh):
    -> (accumulator, had effect).  Sets always have effect; removals only if a removed key is held (they
    are applied before the sets); the empty delta only validates a fresh accumulator."""
    rem, sets = _delta_parse(tok)
    if sets:
        eff = True
    elif rem:
        eff = acc is not None and any(x in acc for x in rem)
    else:
        eff = acc is None
    if not eff:
        return acc, False
    m = dict(acc or {})
    for x in rem:
        m.pop(x, None)
    m.update(sets)
    return m, True


def _dict_str(m):
    return "{" + ",".join("%d:%d" % (a, m[a]) for a in sorted(m)) + "}"
_MCOMP = re.compile(r"^b(\d+)\.(\d+):(\d+)=(\S)$")
_MCYCLE = re.compile(r"^c(\d+):(\S+)$")


class _MState:
    """what the C16 obligations need, per source, recomputed from the implementation's output alone"""

    def __init__(self, caps, pols):
        self.k = len(caps)
        self.cap, self.pol = caps, pols
        self.started = self.stopped = self.rstop = False
        self.accepted = [[] for _ in caps]
        self.delivered = [[] for _ in caps]
        self.times = [[] for _ in caps]
        self.parked = [dict() for _ in caps]
        self.p = [0] * self.k
        self.f = 0
        self.last_cycle = 0
        self.bad, self.feats = [], set()
        self.senders = set()
        # conflating sources with a collection output (policy d): the current window, by the reference reading
        self.acc = [None] * self.k          # accumulator (None = fresh)
        self.win = [[] for _ in caps]       # accepted deltas since the last take: (token, had effect)

    def bounded(self, s):
        return self.cap[s] > 0 and self.pol[s] not in "cd"

    def effective(self, s):
        return any(e for _, e in self.win[s])

    def fresh_window(self, s):
        self.acc[s], self.win[s] = None, []

    def running(self):
        return self.started and not self.stopped

    def completion(self, txt, where):
        if txt == "stuck":
            self.bad.append("[blocking] a parked sender was not released although its queue has room or the source stopped (%s)" % where)
            return
        m = _MCOMP.match(txt)
        if not m:
            self.bad.append("[trace] completion %r" % txt)
            return
        s, prod, val, r = int(m.group(1)), int(m.group(2)), int(m.group(3)), m.group(4)
        if s >= self.k:
            self.bad.append("[trace] completion on source %d" % s)
            return
        self.parked[s].pop(prod, None)
        if r == "1":
            self.accepted[s].append(val)
            self.p[s] += 1
            self.feats.add("parked-sender-admitted")
            if s < self.k - 1:
                self.feats.add("parked-nonlast-admitted")
            if self.stopped:
                self.bad.append("[stop] source %d: parked %d accepted after the stop" % (s, val))
        elif r == "0":
            self.feats.add("parked-sender-failed")
            if not self.stopped:
                self.bad.append("[blocking] source %d: parked send of %d failed although the source has not stopped" % (s, val))
        else:
            self.bad.append("[blocking] source %d: parked send of %d threw" % (s, val))

    def cycle(self, txt, in_loop):
        m = _MCYCLE.match(txt)
        if not m:
            self.bad.append("[trace] unreadable cycle %r" % txt)
            return False
        t, body = int(m.group(1)), m.group(2)
        parts = body.split("+")
        ds = parts[0].split("/")
        if len(ds) != self.k:
            self.bad.append("[trace] cycle %d reports %d sources" % (t, len(ds)))
            return False
        if not self.running() or self.rstop:
            self.bad.append("[once] cycle %d ran while the graph was not running" % t)
        if t <= self.last_cycle:
            self.bad.append("[once] cycle time %d not after %d" % (t, self.last_cycle))
        self.last_cycle = t
        delivering = 0
        for s, d in enumerate(ds):
            if self.pol[s] == "q" and s < self.k - 1 and self.p[s] >= 2:
                self.feats.add("backlog-nonlast-queue")
                if self.f == 1:
                    self.feats.add("rearm-nonlast")
            if self.pol[s] == "d":
                eff = self.effective(s)
                toks = [x for x, _ in self.win[s]]
                if d == "-":
                    if eff and self.f == 1:
                        self.bad.append("[lost] cycle %d: conflating source %d accepted the effective delta(s) %s (window %s) and the "
                                        "flag was set, but it delivered nothing" % (t, s, [x for x, e in self.win[s] if e][:4], toks[:6]))
                    continue
                delivering += 1
                want = _dict_str(self.acc[s] or {})
                if not eff:
                    self.bad.append("[confl] cycle %d: conflating source %d delivered %s although no accepted delta of its window %s "
                                    "had effect" % (t, s, d, toks[:6]))
                elif d != want:
                    self.bad.append("[confl] cycle %d: conflating source %d delivered %s, but the merged state of its window's "
                                    "accepted deltas %s is %s" % (t, s, d, toks[:8], want))
                if eff and self.win[s] and not self.win[s][-1][1]:
                    self.feats.add("dict-noop-last")
                if eff and self.win[s] and not self.win[s][0][1]:
                    self.feats.add("dict-noop-first")
                if d == "{}":
                    self.feats.add("dict-empty-value")
                self.feats.add("dict-delivered")
                if self.times[s] and t <= self.times[s][-1]:
                    self.bad.append("[once] source %d: delivery time %d not after %d" % (s, t, self.times[s][-1]))
                self.times[s].append(t)
                self.delivered[s].append(d)
                self.p[s] = 0
                self.fresh_window(s)
                continue
            if d == "-":
                if self.p[s] > 0 and self.f == 1:
                    self.bad.append("[lost] cycle %d: source %d had %d pending value(s) and the flag was set but it delivered nothing"
                                    % (t, s, self.p[s]))
                continue
            delivering += 1
            if d.startswith("["):
                if "],[" in d:
                    self.bad.append("[once] source %d delivered twice in cycle %d: %s" % (s, t, d))
                vs = _vals(d.split("],[")[0] + ("]" if "],[" in d else ""))
            else:
                if "," in d:
                    self.bad.append("[once] source %d delivered twice in cycle %d: %s" % (s, t, d))
                vs = _vals(d.split(",")[0])
            if self.pol[s] == "q" and len(vs) != 1:
                self.bad.append("[once] source %d (queue policy) delivered %d values in cycle %d" % (s, len(vs), t))
            if len(vs) > 1:
                self.feats.add("burst-tuple")
            if self.times[s] and t <= self.times[s][-1]:
                self.bad.append("[once] source %d: delivery time %d not after %d" % (s, t, self.times[s][-1]))
            self.times[s].append(t)
            self.delivered[s].extend(vs)
            self.p[s] = max(0, self.p[s] - len(vs))
        self.feats.add("cycle-delivers" if delivering else "cycle-empty")
        if delivering >= 2:
            self.feats.add("multi-source-cycle")
        for c in parts[1:]:
            self.completion(c, "cycle %d" % t)
        return True

    def event(self, text):
        """one step's own effect; False when unreadable"""
        bad, feats = self.bad, self.feats
        if text in ("S", "S=-"):
            if text == "S":
                self.started = True
                for s in range(self.k):
                    self.fresh_window(s)
            return True
        if text in ("X", "X=-"):
            if text == "X":
                self.stopped = True
                for s in range(self.k):
                    self.fresh_window(s)           # the stop drops what is pending
            return True
        if text == "r":
            self.rstop = True
            return True
        if text in ("c:-", "L:-"):
            if self.running() and not self.rstop:
                bad.append("[trace] %s although the graph is running" % text)
            return True
        if text.startswith("c"):
            ok = self.cycle(text, False)
            self.after_cycle = True
            return ok
        if text.startswith("L"):
            m = re.match(r"^L(\d+)\[(.*)\]$", text)
            if not m:
                bad.append("[trace] unreadable loop %r" % text)
                return False
            n, body = int(m.group(1)), m.group(2)
            cycles = [c for c in body.split(";") if c]
            if len(cycles) != n:
                bad.append("[trace] loop reports %d cycles, lists %d" % (n, len(cycles)))
            if n > 0 and self.f == 0:
                bad.append("[trace] the loop ran although the flag was clear")
            for c in cycles:
                if not self.cycle(c, True):
                    return False
                self.f = 1          # inside the loop every further cycle starts because the flag is raised
            feats.add("loop-%s" % ("0" if n == 0 else "1" if n == 1 else "2-5" if n <= 5 else "6+"))
            if n >= 2:
                feats.add("loop-drains-backlog")
            self.loop_cycles = n
            return True
        m = _MSEND.match(text)
        if not m:
            bad.append("[trace] unreadable step %r" % text)
            return False
        kind, s, prod, val, res = m.group(1), int(m.group(2)), int(m.group(3)), m.group(4), m.group(5)
        if s >= self.k:
            bad.append("[trace] send to source %d" % s)
            return False
        isd = self.pol[s] == "d"
        try:
            val = _delta_canon(val) if isd else int(val)
        except ValueError:
            bad.append("[trace] payload %r of %s" % (val, text))
            return False
        if isd and res == "1":
            self.acc[s], e = _delta_apply(self.acc[s], val)
            if self.win[s] and not e and self.effective(s):
                feats.add("dict-noop-after-effective")
            if not e and not self.win[s]:
                feats.add("dict-noop-opens-window")
            self.win[s].append((val, e))
            feats.add("dict-%s" % ("effective" if e else "noop"))
            rem, sets = _delta_parse(val)
            if e and rem and not sets:
                feats.add("dict-remove-present")
            if e and val == "e":
                feats.add("dict-empty-validates")
        full = self.bounded(s) and self.p[s] >= self.cap[s]
        stopped_like = (not self.started) or self.stopped or self.rstop
        if res == "1":
            self.accepted[s].append(val)
            self.senders.add((s, prod))
            feats.add("accepted-%s" % ("try" if kind == "t" else "blocking"))
            if stopped_like:
                bad.append("[stop] source %d: %s accepted although the source is %s"
                           % (s, text, "not started" if not self.started else "stopped"))
            if full:
                bad.append("[cap] source %d: %s accepted although %d value(s) were pending (capacity %d)" % (s, text, self.p[s], self.cap[s]))
        elif res == "0":
            if kind == "t":
                if not (stopped_like or full):
                    bad.append("[refused] source %d: %s refused although running with %d pending (capacity %d)"
                               % (s, text, self.p[s], self.cap[s]))
                feats.add("refused-full" if (full and not stopped_like) else "refused-stopped")
                if full and not stopped_like and s < self.k - 1:
                    feats.add("full-nonlast")
            else:
                if not stopped_like:
                    bad.append("[blocking] source %d: %s failed although the source has not stopped" % (s, text))
                feats.add("blocking-failed-stopped")
        elif res == "B":
            self.parked[s][prod] = val
            feats.add("sender-parked")
            if s < self.k - 1:
                feats.add("parked-nonlast")
            if not full or stopped_like:
                bad.append("[blocking] source %d: %s parked although the queue is not at capacity / not running" % (s, text))
        elif res == "busy":
            feats.add("busy")
        else:
            bad.append("[trace] send result %r" % res)
        return True

    def status(self, st, p, f):
        """checks on the state reported after a step (every thread is idle between two steps)"""
        bad = self.bad
        running = self.running()
        for s in range(self.k):
            if self.bounded(s) and p[s] > self.cap[s]:
                bad.append("[cap] source %d: %d values pending with capacity %d after %s" % (s, p[s], self.cap[s], st))
            if self.pol[s] == "d" and running:
                eff = self.effective(s)
                if eff and p[s] == 0:
                    bad.append("[pending] conflating source %d reports pending_items 0 after %s although the accepted effective "
                               "delta(s) %s of its current window %s have not been delivered"
                               % (s, st[:14], [x for x, e in self.win[s] if e][:4], [x for x, _ in self.win[s]][:6]))
                elif not eff and p[s] != 0:
                    bad.append("[pending] conflating source %d reports pending_items %d after %s although no accepted delta of "
                               "its window %s had effect" % (s, p[s], st[:14], [x for x, _ in self.win[s]][:6]))
                if eff and f == 0 and not self.rstop:
                    bad.append("[lost] conflating source %d holds the accepted, effective, undelivered delta(s) %s, every thread is "
                               "idle and the executor flag is clear after %s: the loop sleeps and nothing will wake it"
                               % (s, [x for x, e in self.win[s] if e][:4], st[:14]))
            if running and self.pol[s] not in "cd" and p[s] != len(self.accepted[s]) - len(self.delivered[s]):
                bad.append("[prefix] source %d: pending_items %d but accepted-delivered = %d after %s"
                           % (s, p[s], len(self.accepted[s]) - len(self.delivered[s]), st))
            if running and not self.rstop and p[s] > 0 and f == 0:
                bad.append("[lost] source %d holds %d accepted undelivered value(s), every thread is idle and the executor "
                           "flag is clear after %s: the loop sleeps and nothing will wake it" % (s, p[s], st))
            if running and not self.rstop and self.parked[s] and not (self.bounded(s) and p[s] >= self.cap[s]):
                bad.append("[blocking] source %d: sender still parked with room in the queue after %s" % (s, st))
        if running and not self.rstop and f == 1 and not any(p) and (st.startswith("c") or st.startswith("L")) and st not in ("c:-", "L:-"):
            bad.append("[spin] the executor flag is still raised after %s although no source holds a value: the loop spins" % st[:12])
        if st.startswith("L") and getattr(self, "loop_cycles", 0) >= 40 and f == 1:
            bad.append("[spin] the loop did not go idle within 40 cycles")
        self.p, self.f = list(p), f


def _analyse_tryonly(case, out):
    """plain try_send without retry, real threads, a source that can never be full, no stop before the producers
    are done: the rule is exact - every send must have been accepted"""
    bad, feats = [], {"kind-tryonly"}
    line = next((o for l, o in zip(case.lines, out) if l.startswith("tryonly")), None)
    if not line or not line.startswith("tryonly "):
        return ["[trace] no tryonly output: %r" % (line,)], feats
    kv = dict(x.split("=", 1) for x in line.split()[1:] if "=" in x)
    try:
        sends = [int(x) for x in kv["sends"].split("/")]
        accepted = [int(x) for x in kv["accepted"].split("/")]
        refused = [int(x) for x in kv["refused"].split("/")]
        delivered = int(kv["delivered"])
    except Exception:
        return ["[trace] unreadable tryonly output %r" % line[:100]], feats
    if "run_error" in kv:
        bad.append("[trace] run() threw: " + kv["run_error"][:80])
    if kv.get("stop_before_done") == "0" and sum(refused):
        bad.append("[refused] %d of %d non-blocking sends were refused (per producer %s) although the %s can never be full and no stop "
                   "was requested before the producers finished (%s real producer thread(s)%s)"
                   % (sum(refused), sum(sends), kv["refused"], "unbounded queue" if kv.get("policy") == "q" else "burst source (capacity 1000000)",
                      kv.get("producers"), ", a metrics poller" if kv.get("poller") == "1" else ""))
    if any(a + r != s for a, r, s in zip(accepted, refused, sends)):
        bad.append("[trace] accepted + refused != sends: %s" % line[:120])
    if kv.get("timeout") == "1" or delivered != sum(accepted):
        bad.append("[lost] %d of %d accepted values delivered with the run still going (real threads)" % (delivered, sum(accepted)))
    feats.add("tryonly-%s-p%s%s" % (kv.get("policy"), kv.get("producers"), "-poller" if kv.get("poller") == "1" else ""))
    return bad, feats


def _analyse_mstress(case, out):
    bad, feats = [], {"kind-multi-threads"}
    line = next((o for l, o in zip(case.lines, out) if l.startswith("stressn")), None)
    if not line or not line.startswith("stressn "):
        return ["[trace] no stress output: %r" % (line,)], feats
    kv = dict(x.split("=", 1) for x in line.split()[1:] if "=" in x)
    try:
        sent = [int(x) for x in kv["sent"].split("/")]
        delivered = [int(x) for x in kv["delivered"].split("/")]
        maxpend = [int(x) for x in kv["maxpend"].split("/")]
        caps = [int(x) for x in kv["caps"].split("/")]
        messages, failed = int(kv["messages"]), int(kv["failed"])
    except Exception:
        return ["[trace] unreadable stress output %r" % line[:100]], feats
    if "run_error" in kv:
        bad.append("[trace] run() threw: " + kv["run_error"][:80])
    if failed:
        bad.append("[blocking] %d blocking send(s) failed although no source had stopped" % failed)
    for s in range(len(caps)):
        if kv["timeout"] == "1" or delivered[s] != sent[s] or sent[s] != messages:
            bad.append("[lost] source %d: %d of %d accepted values delivered (%d to send) with the run still going: the real "
                       "loop went to sleep on a backlog (one real producer thread per source)" % (s, delivered[s], sent[s], messages))
            break
    for s in range(len(caps)):
        if caps[s] > 0 and maxpend[s] > caps[s]:
            bad.append("[cap] source %d: %d values pending with capacity %d (real threads)" % (s, maxpend[s], caps[s]))
    if int(kv["dup"]):
        bad.append("[once] %s value(s) delivered twice (real threads)" % kv["dup"])
    if int(kv["order_bad"]):
        bad.append("[prefix] a source's delivery order differs from its producer's send order (%s places)" % kv["order_bad"])
    if int(kv["time_bad"]):
        bad.append("[once] a source's delivery times are not strictly increasing (%s places)" % kv["time_bad"])
    feats.add("threads-sources-%d" % len(caps))
    feats.add("threads-refused-" + kv.get("refused", "?"))
    if any(maxpend[s] >= 2 for s in range(len(caps) - 1)):
        feats.add("threads-backlog-nonlast")
    return bad, feats


def _analyse_multi(case, out):
    if any(l.startswith("tryonly") for l in case.lines):
        return _analyse_tryonly(case, out)
    if any(l.startswith("stressn") for l in case.lines):
        return _analyse_mstress(case, out)
    caps, pols, line = None, None, None
    for ln, o in zip(case.lines, out):
        w = ln.split()
        if w and w[0] == "cfgn":
            caps = [int(x) for x in w[1::2]]
            pols = w[2::2]
        if w and w[0] == "sched":
            line = o
    if line is None or caps is None:
        return ["[trace] no schedule output"], set()
    if line == "bad-op" or line.startswith("err:") or line.startswith("<"):
        return ["[trace] harness rejected the schedule: " + line[:80]], set()
    S = _MState(caps, pols)
    bad, feats = S.bad, S.feats
    parts = line.split(" | ")
    for part in parts[:-1]:
        m = _MPART.match(part)
        if not m:
            return ["[trace] unreadable step %r" % part[:60]], feats
        outer, extra = m.group(1), m.group(2)
        try:
            p, f = [int(x) for x in m.group(3).split(",")], int(m.group(4))
        except ValueError:
            return ["[trace] unreadable status in %r" % part[:60]], feats
        if len(p) != S.k:
            return ["[trace] status reports %d sources" % len(p)], feats
        if not S.event(outer):
            return bad, feats
        for e in extra.split():
            S.completion(e[1:], outer[:12])
        S.status(outer, p, f)
    k = S.k
    for s in range(k):
        acc, dlv = S.accepted[s], S.delivered[s]
        if pols[s] == "d":
            continue                     # checked per cycle against the fold of the window
        if pols[s] == "c":
            it = iter(acc)
            if not all(any(x == y for y in it) for x in dlv):
                bad.append("[prefix] source %d: conflated deliveries %s are not a subsequence of accepted %s" % (s, dlv[:8], acc[:8]))
        elif dlv != acc[:len(dlv)]:
            bad.append("[prefix] source %d: delivered %s is not a prefix of accepted %s" % (s, dlv[:8], acc[:8]))
        if len(set(dlv)) != len(dlv):
            bad.append("[once] source %d: a value was delivered twice: %s" % (s, dlv[:10]))
    tail = parts[-1]
    m = re.match(r"^end((?: \+\S+)*) accepted=(\S+) delivered=(.*)$", tail)
    if not m:
        bad.append("[trace] unreadable summary %r" % tail[:80])
    else:
        for e in m.group(1).split():
            m2 = _MCOMP.match(e[1:])
            if e == "+stuck" or (m2 and m2.group(4) != "0"):
                bad.append("[blocking] at the final stop a parked sender was %s" % ("not released" if e == "+stuck" else "accepted"))
        acc2 = [([x for x in a.strip("[]").split(";") if x] if pols[i] == "d" else [int(x) for x in a.strip("[]").split(",") if x])
                for i, a in enumerate(m.group(2).split("/"))]
        if acc2 != S.accepted:
            bad.append("[trace] summary accepted %s differs from the per-step results %s" % (acc2, S.accepted))
    if len({s for (s, _) in S.senders}) >= 2:
        feats.add("producers-on-several-sources")
    if len({pr for (s, pr) in S.senders if s == 0}) >= 2:
        feats.add("multi-producer-one-source")
    feats.add("multi-sources-%d" % k)
    feats.add("multi-policies-" + "".join(sorted(set(pols))))
    feats.add("kind-" + case.meta.get("kind", "multi"))
    if S.stopped:
        feats.add("graph-stop")
    if S.rstop:
        feats.add("request-stop")
    return bad, feats


def _is_multi(stream, case):
    return stream.startswith("multi") or any(l.startswith(("cfgn", "stressn", "tryonly")) for l in case.lines)


def monitor(stream, case, out):
    if _is_multi(stream, case):
        return _analyse_multi(case, out)[0][:3]
    return _analyse(case, out)[0][:3]


def features(stream, case, out):
    if _is_multi(stream, case):
        return sorted(_analyse_multi(case, out)[1])
    return sorted(_analyse(case, out)[1])


def nontrivial(stream, case, out):
    if _is_multi(stream, case):
        f = _analyse_multi(case, out)[1]
        return bool(f & {"backlog-nonlast-queue", "multi-source-cycle", "sender-parked", "refused-full", "kind-multi-threads",
                         "dict-noop-last", "dict-noop-after-effective", "kind-tryonly"})
    f = _analyse(case, out)[1]
    return bool(f & {"multi-producer-delivery", "sender-parked", "refused-full", "kind-threads"})
