"""C16 - push queue: accepted values are delivered once, in order, within capacity."""
import itertools, os, re
from vlib import Case, Stream, BUILD, model_cmd

ID = "C16"
LEAN_MODULES = ["HgVerif.Props.C16"]
THEOREMS = [
    "HgVerif.PushQueue.inv_reach",
    "HgVerif.PushQueue.delivered_prefix_of_accepted", "HgVerif.PushQueue.per_producer_order",
    "HgVerif.PushQueue.delivered_once", "HgVerif.PushQueue.pending_le_capacity",
    "HgVerif.PushQueue.try_send_refused_iff_full_or_stopped", "HgVerif.PushQueue.refusal_sound",
    "HgVerif.PushQueue.nothing_accepted_after_stop", "HgVerif.PushQueue.send_after_stop_refused",
    "HgVerif.PushQueue.no_lost_wakeup",
    "HgVerif.PushQueue.blocking_fails_only_if_stopped", "HgVerif.PushQueue.blocked_sender_released",
    "HgVerif.PushQueue.progress", "HgVerif.PushQueue.eventually_delivered",
    "HgVerif.PushQueue.conflating_delivers_latest",
]
CXX_TARGETS = ["hgv_push"]
RULE = ("schedules of whole operations (start, try_send / send_blocking from producers 1-3, evaluation cycles, "
        "request_stop, graph stop) against a real push source of capacity 0 (unbounded), 1, 2 or 3 with policy queue, "
        "burst or conflating; sends run on their own threads, a send_blocking at capacity stays parked until a cycle "
        "or the stop releases it (at most one parked sender at a time); thorough adds every order of 2 producers x 2 "
        "messages x 4 cycles for capacities 0,1,2; a second, monitor-only stream runs 2-6 REAL producer threads against the "
        "real run loop (no hooks, OS-chosen interleavings). A case is non-trivial when values of >= 2 producers were delivered, "
        "or a sender parked, or a send was refused at capacity; distinct by sha1 of the case text")
TRUSTED = [
    "C++ memory model, std::mutex / condition_variable semantics, thread scheduling: the harness executes the "
    "mutex-protected sections one after the other in schedule order (no source hooks); interleavings INSIDE one "
    "try_send / one push-node evaluation (admission|mark, pop|re-arm) are covered by the proof, not exhibited",
    "data races and lifetime of the sender control block (active_calls / wait_for_quiescence / detach) are not "
    "modelled beyond the closing flag; TSan not run",
    "Value payloads are ints; schema validation (validate()) and the Value/TSOutput layers are trusted",
]
ASSUMPTIONS = [
    "eventually_delivered: weak fairness of every thread's steps, no stop request and no graph stop later, and the "
    "evaluation thread keeps starting cycles while the flag is set (C17 rt_no_missed_signal / rt_at_exact_T)",
    "strictly increasing cycle times are the run loop's (C17 rt_times_strict); here time only needs to increase per cycle",
    "one push source node; restart after stop is not supported by design (graph.cpp) and not modelled",
]
TECHNIQUE = ("Lean 4 proof (inductive invariants over all interleavings of a labelled transition system whose atomic "
             "steps are the mutex-protected sections; weak-fairness liveness by a ranking argument) with differential "
             "correspondence of the same step function, composed per operation, against the real push source")
LEVEL_TEXT = ("Kernel-checked invariants over ALL interleavings, any number of producers and messages, any capacity: "
              "delivered values (flattened) are a prefix of the accepted ones (hence per-producer order), at most one "
              "delivery per cycle with strictly increasing times, pending <= capacity, try_send is refused iff the "
              "source is closed/stop-requested/not accepting or the bounded queue is full, a blocking send fails only "
              "for the first three reasons, nothing is accepted once the policy stopped, and no lost wake-up "
              "(non-empty queue => flag set or a producer between admission and mark or the consumer between reset and "
              "re-arm, or stop requested); under weak fairness every accepted value is delivered.")
LEVEL_NOTE = ("Proof of the protocol logic; PARTIAL for the runtime remainder: the C++ memory model, condition-variable "
              "behaviour and real thread scheduling are trusted. The step function of the model is tied to "
              "push_source_node.cpp / executor.cpp / graph.cpp by composing it per operation and comparing with the real "
              "code on generated and exhaustively enumerated schedules.")


# ---------------------------------------------------------------- generator

def gen_case(rng, idx, policy=None, cap=None, n=None):
    policy = policy or rng.choice(["q"] * 7 + ["b", "b", "c"])
    cap = rng.choice([0, 1, 1, 2, 2, 3]) if cap is None else cap
    steps = []
    v = [0]

    def val():
        v[0] += 1
        return v[0]
    if rng.random() < 0.12:
        steps.append("%s%d:%d" % (rng.choice("tb"), rng.randint(1, 3), val()))     # before start: refused
    steps.append("S")
    parked = None          # producer that may be parked in send_blocking
    rstop = False
    stopped = False
    for _ in range(n or rng.randint(4, 26)):
        r = rng.random()
        free = [p for p in (1, 2, 3) if p != parked]
        if r < 0.36:
            steps.append("t%d:%d" % (rng.choice(free), val()))
        elif r < 0.52:
            if parked is None:
                p = rng.choice(free)
                steps.append("b%d:%d" % (p, val()))
                if cap > 0 and policy != "c" and not stopped and not rstop:
                    parked = p
            else:
                steps.append("c")
                if not rstop:
                    parked = None
        elif r < 0.90:
            steps.append("c")
            if not rstop:
                parked = None
        elif r < 0.93:
            steps.append("r"); rstop = True
        elif r < 0.97:
            steps.append("X"); stopped = True; parked = None
        else:
            steps.append("S")
    return Case(["case %d" % idx, "cfg %d %s" % (cap, policy), "sched " + " ".join(steps)], {"kind": "random"})


def exhaustive(idx0):
    """every order of 2 producers x 2 messages (program order kept) and 4 cycles, capacities 0,1,2"""
    cases = []
    idx = idx0
    items = ["A", "A", "B", "B", "c", "c", "c", "c"]
    orders = sorted(set(itertools.permutations(items)))
    for cap in (0, 1, 2):
        for kinds in ("tt", "tb"):
            for o in orders:
                a = iter(["%s1:1" % kinds[0], "%s1:2" % kinds[0]])
                b = iter(["%s2:3" % kinds[1], "%s2:4" % kinds[1]])
                steps = ["S"]
                parked = False
                ok = True
                for x in o:
                    if x == "c":
                        steps.append("c"); parked = False
                    else:
                        s = next(a) if x == "A" else next(b)
                        if s[0] == "b":
                            if parked:
                                ok = False; break
                            parked = cap > 0
                        steps.append(s)
                if ok:
                    cases.append(Case(["case %d" % idx, "cfg %d q" % cap, "sched " + " ".join(steps)], {"kind": "exhaustive"}))
                    idx += 1
    return cases


def streams(rng, tier, seed):
    q = tier == "quick"
    cases = [gen_case(rng, i) for i in range(500 if q else 12000)]
    if not q:
        cases += exhaustive(len(cases))
    else:
        ex = exhaustive(len(cases))
        cases += [ex[i] for i in sorted(rng.sample(range(len(ex)), 120))]
    cdir = os.path.join(os.path.dirname(os.path.dirname(os.path.dirname(os.path.abspath(__file__)))), "corpus", "C16")
    corpus = []
    if os.path.isdir(cdir):
        for f in sorted(os.listdir(cdir)):
            corpus.append(Case([l.rstrip("\n") for l in open(os.path.join(cdir, f)) if l.strip()], {"kind": "corpus"}))
    # real threads against the real run loop (no hooks, no model: monitor only)
    stress = []
    for i in range(24 if q else 300):
        stress.append(Case(["case %d" % (100000 + i),
                            "stress %d %d %d %d" % (rng.choice([2, 3, 4, 6]), rng.choice([20, 100, 400]),
                                                    rng.choice([0, 1, 1, 2, 3, 16]), rng.choice([0, 1, 2]))],
                           {"kind": "threads"}))
    return [Stream("push", [os.path.join(BUILD, "hgv_push")], model_cmd("C16"), corpus + cases, timeout=1800),
            Stream("push-threads", [os.path.join(BUILD, "hgv_push")], None, stress, timeout=1800)]


# ---------------------------------------------------------------- monitor

_STEP = re.compile(r"^(S|X|r|c|[tb]\d+:\d+)(?:(\d+):(\S+)|:-|=(\S+))?((?: \+\S+)*) p(\d+) f([01])$")


def _vals(txt):
    """values of one cycle entry: '5' -> [5]; '[1,2]' -> [1,2]"""
    txt = txt.strip()
    if txt.startswith("["):
        return [int(x) for x in txt[1:-1].split(",") if x]
    return [int(txt)]


def _analyse_stress(case, out):
    bad, feats = [], {"kind-threads"}
    line = next((o for l, o in zip(case.lines, out) if l.startswith("stress")), None)
    if not line or not line.startswith("stress "):
        return ["[trace] no stress output: %r" % (line,)], feats
    kv = dict(x.split("=", 1) for x in line.split()[1:] if "=" in x)
    try:
        sent, failed, delivered = int(kv["sent"]), int(kv["failed"]), int(kv["delivered"])
        cap, maxpend = int(kv["cap"]), int(kv["maxpend"])
    except Exception:
        return ["[trace] unreadable stress output %r" % line[:100]], feats
    if "run_error" in kv:
        bad.append("[trace] run() threw: " + kv["run_error"][:80])
    if failed:
        bad.append("[blocking] %d send(s) failed although the source never stopped" % failed)
    if kv["timeout"] == "1" or delivered != sent:
        bad.append("[lost] %d of %d accepted values delivered with the run still going (concurrent producers)" % (delivered, sent))
    if int(kv["dup"]):
        bad.append("[once] %s value(s) delivered twice (concurrent producers)" % kv["dup"])
    if int(kv["order_bad"]):
        bad.append("[prefix] a producer's own order was not preserved (%s places)" % kv["order_bad"])
    if int(kv["time_bad"]):
        bad.append("[once] delivery times not strictly increasing (%s places)" % kv["time_bad"])
    if cap > 0 and maxpend > cap:
        bad.append("[cap] %d values pending with capacity %d (concurrent producers)" % (maxpend, cap))
    feats.add("threads-cap-%d" % cap)
    feats.add("threads-refused-" + kv.get("refused", "?"))
    return bad, feats


def _analyse(case, out):
    if case.meta.get("kind") == "threads" or any(l.startswith("stress") for l in case.lines):
        return _analyse_stress(case, out)
    bad, feats = [], set()
    cap, policy, line = None, None, None
    for ln, o in zip(case.lines, out):
        w = ln.split()
        if w and w[0] == "cfg":
            cap, policy = int(w[1]), w[2]
        if w and w[0] == "sched":
            line = o
    if line is None or cap is None:
        return ["[trace] no schedule output"], feats
    if line == "bad-op" or line.startswith("err:"):
        return ["[trace] harness rejected the schedule: " + line[:80]], feats
    parts = line.split(" | ")
    started = stopped = rstop = False
    accepted, delivered = [], []        # delivered: flattened values
    deliveries = []                     # (time, [values])
    parked = {}                         # producer -> value
    producers_delivered = set()
    who = {}
    prev_p, prev_f = 0, 0
    bounded = cap > 0 and policy != "c"
    for part in parts[:-1]:
        m = _STEP.match(part)
        if not m:
            return ["[trace] unreadable step %r" % part], feats
        st, ctime, cvals, res, extra, p, f = m.group(1), m.group(2), m.group(3), m.group(4), m.group(5), int(m.group(6)), int(m.group(7))
        running = started and not stopped
        if st == "S":
            if res is None:
                started = True
        elif st == "X":
            if res is None:
                stopped = True
        elif st == "r":
            rstop = True
        elif st == "c":
            if ctime is not None:
                t = int(ctime)
                if not running or rstop:
                    bad.append("[once] cycle %d ran while the graph was not running" % t)
                if deliveries and t <= deliveries[-1][0]:
                    bad.append("[once] cycle time %d not after %d" % (t, deliveries[-1][0]))
                if cvals != "-":
                    if "," in cvals and not cvals.startswith("["):
                        bad.append("[once] more than one delivery in cycle %d: %s" % (t, cvals))
                    vs = _vals(cvals.split(",")[0] if not cvals.startswith("[") else cvals)
                    deliveries.append((t, vs))
                    delivered.extend(vs)
                    feats.add("cycle-delivers")
                    if policy == "q" and len(vs) != 1:
                        bad.append("[once] queue policy delivered %d values in one cycle" % len(vs))
                    if len(vs) > 1:
                        feats.add("burst-tuple")
                    for x in vs:
                        producers_delivered.add(who.get(x))
                else:
                    feats.add("cycle-empty")
                    if prev_p > 0 and prev_f == 1:
                        bad.append("[lost] cycle %d had %d pending value(s) and the flag set but delivered nothing" % (t, prev_p))
        else:
            kind, prod, val = st[0], int(st[1:st.index(":")]), int(st[st.index(":") + 1:])
            who[val] = prod
            full = bounded and prev_p >= cap
            stopped_like = (not started) or stopped or rstop
            if res == "1":
                accepted.append(val)
                feats.add("accepted-%s" % ("try" if kind == "t" else "blocking"))
                if stopped_like:
                    bad.append("[stop] %s accepted although the source is %s" % (st, "not started" if not started else "stopped"))
                if full:
                    bad.append("[cap] %s accepted although %d value(s) were pending (capacity %d)" % (st, prev_p, cap))
            elif res == "0":
                if kind == "t":
                    if not (stopped_like or full):
                        bad.append("[refused] %s refused although running with %d pending (capacity %d)" % (st, prev_p, cap))
                    feats.add("refused-full" if (full and not stopped_like) else "refused-stopped")
                else:
                    if not stopped_like:
                        bad.append("[blocking] %s failed although the source has not stopped" % st)
                    feats.add("blocking-failed-stopped")
            elif res == "B":
                parked[prod] = val
                feats.add("sender-parked")
                if not full or stopped_like:
                    bad.append("[blocking] %s parked although the queue is not at capacity / not running" % st)
            elif res == "busy":
                feats.add("busy")
            else:
                bad.append("[trace] send result %r" % res)
        for e in extra.split():
            if e == "+stuck":
                bad.append("[blocking] a parked sender was not released although the queue has room or the source stopped")
                continue
            m2 = re.match(r"^\+b(\d+):(\d+)=(\S)$", e)
            if not m2:
                bad.append("[trace] completion %r" % e)
                continue
            prod, val, r = int(m2.group(1)), int(m2.group(2)), m2.group(3)
            parked.pop(prod, None)
            if r == "1":
                accepted.append(val)
                feats.add("parked-sender-admitted")
                if stopped:
                    bad.append("[stop] parked %d accepted after the stop" % val)
            elif r == "0":
                feats.add("parked-sender-failed")
                if not stopped:
                    bad.append("[blocking] parked send of %d failed although the source has not stopped" % val)
            else:
                bad.append("[blocking] parked send of %d threw" % val)
        # state after the step
        running = started and not stopped
        if bounded and p > cap:
            bad.append("[cap] %d values pending with capacity %d after %s" % (p, cap, st))
        if running and policy != "c" and p != len(accepted) - len(delivered):
            bad.append("[prefix] pending_items %d but accepted-delivered = %d after %s" % (p, len(accepted) - len(delivered), st))
        if running and not rstop and p > 0 and f == 0:
            bad.append("[lost] %d value(s) pending, every thread idle, and the executor flag is clear after %s" % (p, st))
        if running and not rstop and parked and not (bounded and p >= cap):
            bad.append("[blocking] sender still parked with room in the queue after %s" % st)
        prev_p, prev_f = p, f
    # the ordering properties
    if policy == "c":
        it = iter(accepted)
        if not all(any(x == y for y in it) for x in delivered):
            bad.append("[prefix] conflated deliveries %s are not a subsequence of accepted %s" % (delivered[:8], accepted[:8]))
    elif delivered != accepted[:len(delivered)]:
        bad.append("[prefix] delivered %s is not a prefix of accepted %s" % (delivered[:8], accepted[:8]))
    if len(set(delivered)) != len(delivered):
        bad.append("[once] a value was delivered twice: %s" % delivered[:10])
    tail = parts[-1]
    m = re.match(r"^end((?: \+\S+)*) accepted=\[([^\]]*)\] delivered=\[(.*)\]$", tail)
    if not m:
        bad.append("[trace] unreadable summary %r" % tail[:80])
    else:
        for e in m.group(1).split():
            m2 = re.match(r"^\+b(\d+):(\d+)=(\S)$", e)
            if e == "+stuck" or (m2 and m2.group(3) != "0"):
                bad.append("[blocking] at the final stop a parked sender was %s" % ("not released" if e == "+stuck" else "accepted"))
        acc2 = [int(x) for x in m.group(2).split(",") if x]
        if acc2 != accepted:
            bad.append("[trace] summary accepted %s differs from the per-step results %s" % (acc2[:8], accepted[:8]))
    if len({p for p in producers_delivered if p}) >= 2:
        feats.add("multi-producer-delivery")
    feats.add("policy-" + policy)
    feats.add("cap-%d" % cap)
    feats.add("kind-" + case.meta.get("kind", "?"))
    if stopped:
        feats.add("graph-stop")
    if rstop:
        feats.add("request-stop")
    return bad, feats


def monitor(stream, case, out):
    return _analyse(case, out)[0][:3]


def features(stream, case, out):
    return sorted(_analyse(case, out)[1])


def nontrivial(stream, case, out):
    f = _analyse(case, out)[1]
    return bool(f & {"multi-producer-delivery", "sender-parked", "refused-full", "kind-threads"})
