#!/bin/bash
# tools/eval_seed.sh <seed-dir-name> <check-id>...
# Runs the named checks against a scratch worktree of /repo with seeded/<seed>/patch.diff applied
# (never /repo itself).  Logs: /tmp/ev_<seed>/<ID>.log ; summary on stdout.  The scratch worktree and
# its build copy are removed at the end.  Evidence files of /verif are restored afterwards
# (a run against a seeded tree is not evidence).
set -u
S=$1; shift
V=/verif
D=/tmp/ev_$S
rm -rf $D; mkdir -p $D
git -C /repo worktree prune
git -C /repo worktree add --detach $D/repo HEAD >/dev/null 2>&1 || { echo "worktree failed"; exit 2; }
cp -r $V/.build $D/build
find $D/build \( -name '*.o' -o -name '*.a' -o -name 'hgv_*' \) -print0 | xargs -0 touch
sleep 1
git -C $D/repo apply $V/seeded/$S/patch.diff || { echo "patch does not apply"; exit 2; }
# header changes are not tracked by the copied dependency files: touch every repo .cpp that includes a changed header
# (in the scratch worktree) and drop the scratch copies of the harness objects (never touch /verif/harness itself:
# that would make the main build relink its drivers under running checks)
for h in $(git -C $D/repo diff --name-only | grep '\.h$'); do
  b=$(basename $h)
  grep -rl --include='*.cpp' "$b" $D/repo/src 2>/dev/null | xargs -r touch
  for h2 in $(grep -rl --include='*.h' "$b" $D/repo/include | xargs -n1 basename 2>/dev/null | sort -u); do
    grep -rl --include='*.cpp' "$h2" $D/repo/src 2>/dev/null | xargs -r touch
  done
  rm -f $D/build/obj/harness__*.o
done
git -C $D/repo diff --name-only | grep '\.cpp$' | while read f; do touch $D/repo/$f; done
for C in "$@"; do
  ( cd $V && HGV_REPO=$D/repo HGV_BUILD_DIR=$D/build timeout 3000 ./check $C > $D/$C.log 2>&1; echo "rc=$?" >> $D/$C.log )
  echo "== $S $C: $(grep -c '^VIOLATION' $D/$C.log) violation lines, $(tail -1 $D/$C.log)"
  grep '^VIOLATION\|KNOWN-FINDING' $D/$C.log | sort | uniq -c | head -8
  mkdir -p $V/seeded/$S/eval
  grep '^VIOLATION\|^KNOWN-FINDING\|\[check\].*\(broken\|fail\|violation\|diff\)' $D/$C.log | head -40 > $V/seeded/$S/eval/$C.txt
  for r in $(grep -o 'replay=[^ ]*' $D/$C.log | cut -d= -f2 | head -3); do
    [ -f $V/$r ] && cp $V/$r $D/ && rm -f $V/$r
  done
  git -C $V checkout -- evidence/$C.json 2>/dev/null
  rm -f $V/evidence/$C.replay.*
done
# harness files touched above keep their new mtime; restore Extracted.lean from /repo
( cd $V && /venv/bin/python tools/extract.py >/dev/null 2>&1 )
git -C /repo worktree remove --force $D/repo
rm -rf $D/build
