#!/bin/bash
# tools/collect_seed.sh <n> <sID> <check-id>...   : take the deliverables of seed agent <n> (/tmp/seed<n>/out),
# store them as seeded/<sID>/, CONFIRM the demonstration ourselves in a fresh scratch worktree (passes on the
# unchanged tree, fails with the patch), then evaluate the named checks against the patched tree.
set -u
N=$1; S=$2; shift 2
V=/verif; O=/tmp/seed$N/out
[ -f $O/patch.diff ] && [ -f $O/drv_demo.cpp ] && [ -f $O/meta.json ] || { echo "deliverables missing in $O"; exit 2; }
mkdir -p $V/seeded/$S
cp $O/patch.diff $O/drv_demo.cpp $O/meta.json $V/seeded/$S/
# the agent's worktree is no longer needed
git -C /repo worktree remove --force /tmp/seed$N/repo 2>/dev/null; rm -rf /tmp/seed$N
# --- confirmation in a fresh worktree
C=/tmp/cf_$S; rm -rf $C; mkdir -p $C/kit/tools $C/kit/harness $C/kit/.build
git -C /repo worktree prune; git -C /repo worktree add --detach $C/repo HEAD >/dev/null 2>&1
git -C $C/repo apply --check $V/seeded/$S/patch.diff || { echo "CONFIRM: patch does not apply"; exit 2; }
cp $V/tools/gen_build.py $C/kit/tools/; cp -r $V/build $C/kit/build
cp -r $V/.build/obj $V/.build/gen $V/.build/libhgv.a $C/kit/.build/
cp $V/seeded/$S/drv_demo.cpp $C/kit/harness/
( cd $C/kit && HGV_REPO=$C/repo python3 tools/gen_build.py >/dev/null )
find $C/kit/.build \( -name '*.o' -o -name '*.a' \) -print0 | xargs -0 touch
( cd $C/kit && HGV_REPO=$C/repo make -C .build -j8 $C/kit/.build/hgv_demo > $C/build0.log 2>&1 ) || { echo "CONFIRM: demo does not build on the unchanged tree"; tail -5 $C/build0.log; }
( cd $C/kit && timeout 600 ./.build/hgv_demo > $C/run0.log 2>&1 ); RC0=$?
sleep 1
git -C $C/repo apply $V/seeded/$S/patch.diff
for f in $(git -C $C/repo diff --name-only); do touch $C/repo/$f; done
for h in $(git -C $C/repo diff --name-only | grep '\.h$'); do b=$(basename $h)
  grep -rl --include='*.cpp' "$b" $C/repo/src $C/kit/harness | xargs -r touch
  for h2 in $(grep -rl --include='*.h' "$b" $C/repo/include | xargs -n1 basename 2>/dev/null | sort -u); do
    grep -rl --include='*.cpp' "$h2" $C/repo/src $C/kit/harness 2>/dev/null | xargs -r touch; done; done
( cd $C/kit && HGV_REPO=$C/repo make -C .build -j8 $C/kit/.build/hgv_demo > $C/build1.log 2>&1 ) || { echo "CONFIRM: does not build with the patch"; tail -5 $C/build1.log; }
( cd $C/kit && timeout 600 ./.build/hgv_demo > $C/run1.log 2>&1 ); RC1=$?
echo "CONFIRM $S: demo exit unchanged=$RC0 patched=$RC1"
python3 - $V/seeded/$S/meta.json $RC0 $RC1 <<'EOP'
import json,sys
p=sys.argv[1]; m=json.load(open(p)); m["confirmed"]={"demo_exit_unchanged":int(sys.argv[2]),"demo_exit_patched":int(sys.argv[3]),"how":"tools/collect_seed.sh: fresh scratch worktree of /repo HEAD, demo built against it, run, patch applied, rebuilt, run"}
json.dump(m,open(p,"w"),indent=1)
EOP
git -C /repo worktree remove --force $C/repo; rm -rf $C
[ $RC0 -eq 0 ] && [ $RC1 -ne 0 ] || { echo "NOT CONFIRMED"; exit 1; }
[ $# -gt 0 ] && exec $V/tools/eval_seed.sh $S "$@"
