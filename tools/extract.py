#!/usr/bin/env python3
"""Translator part: extract small decision points from /repo's sources into
lean/HgVerif/Model/Extracted.lean (regenerated on every run) and .build/extracted.json.
Extraction is an accelerator, never an alarm by itself (DESIGN.md section 3.3)."""
import json, os, re, sys

REPO = os.environ.get("HGV_REPO", "/repo")
VERIF = os.path.dirname(os.path.dirname(os.path.abspath(__file__)))
OUT_LEAN = os.path.join(VERIF, "lean/HgVerif/Model/Extracted.lean")
OUT_JSON = os.path.join(os.environ.get("HGV_BUILD_DIR", os.path.join(VERIF, ".build")), "extracted.json")

CMP = {"<": "lt", "<=": "le", ">": "gt", ">=": "ge", "==": "eq", "!=": "ne"}


def read(rel):
    try:
        return open(os.path.join(REPO, rel)).read()
    except OSError:
        return ""


def one(pattern, text, flags=re.S):
    ms = re.findall(pattern, text, flags)
    return ms[0] if len(ms) == 1 else None


def main():
    items = {}   # name -> (lean type, lean value, pinned value, status)

    def cmp_item(name, pinned, found):
        if found is None or found not in CMP:
            items[name] = ("Cmp", ".%s" % pinned, pinned, "pattern-missing")
        else:
            items[name] = ("Cmp", ".%s" % CMP[found], pinned, "found")

    ns = read("include/hgraph/runtime/node_scheduler.h")
    # NodeScheduler::schedule guards
    cmp_item("nsStartedGuard", "le", one(r"if \(started_\)\s*\{\s*if \(when (<=|<|>=|>) reference_now\)", ns))
    cmp_item("nsStartGuard", "lt", one(r"else if \(when (<=|<|>=|>) reference_now\)", ns))
    cmp_item("nsPushGuard", "lt", one(r"graph_ != nullptr && next (<=|<|>=|>) prev_first", ns))
    cmp_item("nsAdvanceGuard", "le", one(r"state_->events\.begin\(\)->first (<=|<|>=|>) now_\)", ns))

    g = read("src/hgraph/runtime/graph.cpp")
    m = re.search(r"if \(scheduled (<=|<) current \|\| when (<=|<) scheduled\) \{\s*scheduled = when;\s*"
                  r"if \(when (>=|>) current && when (<=|<) state\.next_scheduled_time\)", g)
    cmp_item("slotConsumed", "le", m.group(1) if m else None)
    cmp_item("slotEarlier", "lt", m.group(2) if m else None)
    cmp_item("cacheFuture", "gt", m.group(3) if m else None)
    cmp_item("cacheEarlier", "lt", m.group(4) if m else None)
    m = re.search(r"if \(scheduled (>=|>) state\.evaluation_time &&\s*scheduled (<=|<) state\.next_scheduled_time\)", g)
    cmp_item("startFoldFrom", "ge", m.group(1) if m else None)
    ms = re.findall(r"\} else if \(scheduled (>=|>) evaluation_time\) \{\s*if \(scheduled (<=|<) state\.next_scheduled_time\)", g)
    cmp_item("scanFoldFuture", "gt", ms[0][0] if len(ms) == 1 else None)
    ms = re.findall(r"if \(scheduled (==|<=|>=) evaluation_time\) \{\s*// post-eval", g)
    cmp_item("scanRunsWhen", "eq", ms[0] if len(ms) == 1 else None)

    # evaluate_impl: does `resuming` exclude a failed previous evaluation?  (F1)
    m = re.search(r"const bool resuming\s*=\s*(.*?);", g, re.S)
    if m:
        expr = re.sub(r"\s+", " ", m.group(1))
        has_cursor = "evaluation_cursor != 0" in expr
        checks_failed = "!state.evaluation_failed" in expr
        items["resumeChecksFailed"] = ("Bool", "true" if checks_failed else "false", "true",
                                       "found" if has_cursor else "pattern-missing")
        if not has_cursor:
            items["resumeChecksFailed"] = ("Bool", "true", "true", "pattern-missing")
    else:
        items["resumeChecksFailed"] = ("Bool", "true", "true", "pattern-missing")

    # evaluate_impl: the failure handlers fold the unvisited nodes' pending wake-ups into the cache  (F5)
    m = re.search(r"auto keep_unvisited_wakeups = \[&\] \{\s*for \(std::size_t index = state\.evaluation_cursor \+ 1;"
                  r".*?if \(pending (>=|>) evaluation_time && pending (<=|<) state\.next_scheduled_time\)", g, re.S)
    cmp_item("keepFuture", "gt", m.group(1) if m else None)
    cmp_item("keepEarlier", "lt", m.group(2) if m else None)
    calls = len(re.findall(r"state\.evaluation_failed = true;\s*keep_unvisited_wakeups\(\);", g))
    items["failKeepsWakeups"] = ("Bool", "true" if calls >= 2 else "false", "true", "found" if m else "pattern-missing")

    def nat_item(name, pinned, found):
        if found is None:
            items[name] = ("Nat", str(pinned), str(pinned), "pattern-missing")
        else:
            items[name] = ("Nat", str(int(found)), str(pinned), "found")

    # executor.cpp advance_realtime: drain cut-off and the next-evaluation-time formula  (C17)
    ex = read("src/hgraph/runtime/executor.cpp")
    nat_item("rtDrainLimit", 1024, one(r"constexpr std::uint32_t max_immediate_drain_cycles = (\d+);", ex))
    m = re.search(r"if \(wall_now (>=|>) state\.end_time && next (<=|<) next_cycle &&\s*"
                  r"state\.consecutive_immediate_cycles (>=|>) max_immediate_drain_cycles\)", ex)
    cmp_item("rtCutWall", "ge", m.group(1) if m else None)
    cmp_item("rtCutNext", "le", m.group(2) if m else None)
    cmp_item("rtCutCount", "ge", m.group(3) if m else None)
    shape = (re.search(r"const DateTime wall_or_next_cycle = std::max\(wall_now, next_cycle\);", ex) is not None and
             re.search(r"const DateTime next = std::min\(target, wall_or_next_cycle\);", ex) is not None)
    items["rtNextIsMinOfTargetAndMaxWallNext"] = ("Bool", "true" if shape else "false", "true", "found")

    # push_source_node.cpp QueuePolicyStorage::full()  (C16)
    ps = read("src/hgraph/runtime/push_source_node.cpp")
    ms = re.findall(r"return max_pending != 0 && values\.size\(\) (>=|>) max_pending;", ps)
    cmp_item("pqFull", "ge", ms[0] if ms and all(x == ms[0] for x in ms) else None)

    # map_node.cpp: drain of the child schedule queue and the per-child due tests  (C10)
    mp = read("src/hgraph/runtime/map_node.cpp")
    ms = re.findall(r"child_schedule_queue\.front\(\)\.when (<=|<) evaluation_time", mp)
    cmp_item("mapDrainDue", "le", ms[0] if len(ms) == 2 and ms[0] == ms[1] else None)
    cmp_item("mapChildDue", "le", one(r"child\.next_scheduled_time\(\) (<=|<) evaluation_time \|\|", mp))
    cmp_item("mapChildFuture", "gt", one(r"next != MAX_DT && next (>=|>) evaluation_time", mp))


    # ---- C19: rank weights of the operator overload ranking (type_pattern.cpp, operator_dispatch.h)
    tp = read("src/hgraph/types/type_pattern.cpp")
    od = read("include/hgraph/types/operator_dispatch.h")
    nat_item("rankLarge", 10000, one(r"constexpr int LARGE_RANK = (\d+);", tp))
    nat_item("rankScalarVar", 100, one(r"constexpr int SCALAR_VAR_RANK = (\d+);", tp))
    nat_item("rankCollectTsDefault", 10000, one(r"collect_ts_rank\(const TypePattern &pattern, RankAccumulator &acc, int var_rank = (\d+)\)", od))
    ms = re.findall(r"std::max\((\d+), var_rank / (\d+)\)", od)
    same = ms and all(x == ms[0] for x in ms)
    nat_item("rankDecayFloor", 1, ms[0][0] if same else None)
    nat_item("rankDecayDiv", 2, ms[0][1] if same else None)
    ms = re.findall(r"collect_scalar_rank\(pattern\.scalar, acc, (\d+)\);", od)
    nat_item("rankCollectScalarDefault", 100, ms[0] if ms and all(x == ms[0] for x in ms) else None)
    m = re.search(r"\(pattern\.size_var \? (\d+) : pattern\.fixed_size == 0 \? (\d+) : 0\)", tp)
    nat_item("rankTslSizeVarBonus", 5, m.group(1) if m else None)
    nat_item("rankTslAnySizeBonus", 10, m.group(2) if m else None)
    nat_item("rankTswAnyWindowBonus", 10, one(r"\(pattern\.any_window \? (\d+) : 0\)", tp))

    # ---- C08: the feedback sink books the paired source one smallest step later (feedback_node.cpp); MIN_TD (date_time.h)
    fb = read("src/hgraph/runtime/feedback_node.cpp")
    ms = re.findall(r"schedule_node\(source_node\.node_index\(\), evaluation_time \+ MIN_TD\);", fb)
    items["fbDelayIsOneMinTd"] = ("Bool", "true" if len(ms) == 1 else "false", "true",
                                  "found" if re.search(r"schedule_node\(source_node\.node_index\(\), evaluation_time", fb) else "pattern-missing")
    dt = read("include/hgraph/util/date_time.h")
    nat_item("minTdTicks", 1, one(r"constexpr TimeDelta smallest_time_increment\(\) noexcept \{ return TimeDelta\((\d+)\); \}", dt))
    ok_st = re.search(r"constexpr DateTime min_start_time\(\) noexcept \{ return min_time\(\) \+ smallest_time_increment\(\); \}", dt) is not None
    items["minStIsMinDtPlusMinTd"] = ("Bool", "true" if ok_st else "false", "true",
                                      "found" if "min_start_time()" in dt else "pattern-missing")

    # ---- C02: the simulation clock advances to min(pending, end) and the run loop ends at `next >= end_time`
    m = re.search(r"const DateTime next = std::min\(pending_time, state\.end_time\);", ex)
    items["simNextIsMinOfPendingAndEnd"] = ("Bool", "true" if m else "false", "true",
                                            "found" if "advance_simulation" in ex else "pattern-missing")
    cmp_item("runEndsWhenNext", "ge", one(r"if \(next == MAX_DT \|\| next (>=|>) state\.end_time\)", ex))
    cmp_item("runEndsWhenTime", "ge", one(r"evaluation_time == MAX_DT \|\|\s*evaluation_time (>=|>) state\.end_time\)", ex))

    # ---- C12: switch_ re-instantiates iff nothing is active, reload_on_ticked, or the key differs
    sw = read("src/hgraph/runtime/switch_node.cpp")
    m = re.search(r"if \(!storage\.active_slot\.has_value\(\) \|\| context\.spec\.reload_on_ticked \|\|\s*!same_key\) \{", sw)
    m2 = re.search(r"const bool same_key = storage\.active_slot\.has_value\(\) &&\s*storage\.active_key\.has_value\(\) &&\s*key_value\.equals\(storage\.active_key\);", sw)
    items["switchReloadRule"] = ("Bool", "true" if (m and m2) else "false", "true",
                                 "found" if "same_key" in sw else "pattern-missing")

    os.makedirs(os.path.dirname(OUT_JSON), exist_ok=True)
    lean = ["/- GENERATED by tools/extract.py from /repo on every run; do not edit. -/",
            "namespace HgVerif.Extracted", "",
            "inductive Cmp where | lt | le | gt | ge | eq | ne", "deriving Repr, DecidableEq", "",
            "def Cmp.eval (c : Cmp) (a b : Nat) : Bool :=",
            "  match c with",
            "  | .lt => decide (a < b) | .le => decide (a ≤ b) | .gt => decide (a > b)",
            "  | .ge => decide (a ≥ b) | .eq => decide (a = b) | .ne => decide (a ≠ b)", ""]
    for name, (ty, val, pinned, status) in sorted(items.items()):
        lean.append("/-- %s (pinned: %s) -/" % (status, pinned))
        lean.append("def %s : %s := %s" % (name, ty, val))
    lean += ["", "end HgVerif.Extracted", ""]
    text = "\n".join(lean)
    if not os.path.exists(OUT_LEAN) or open(OUT_LEAN).read() != text:
        open(OUT_LEAN, "w").write(text)
    json.dump({"common": {k: {"value": v[1], "pinned": v[2], "status": v[3]} for k, v in items.items()}},
              open(OUT_JSON, "w"), indent=1)


if __name__ == "__main__":
    main()
