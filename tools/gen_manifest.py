#!/usr/bin/env python3
"""Regenerate MANIFEST.json from the property plug-ins (tools/props/cNN.py)."""
import importlib, json, os, sys

HERE = os.path.dirname(os.path.abspath(__file__))
VERIF = os.path.dirname(HERE)
sys.path.insert(0, HERE)
sys.path.insert(0, os.path.join(HERE, "props"))

props = [json.loads(l) for l in open(os.path.join(VERIF, "properties.jsonl"))]
checks, na = [], []
NOT_YET = {}
try:
    NOT_YET = json.load(open(os.path.join(VERIF, "tools/not_claimed.json")))
except Exception:
    pass
for p in props:
    pid = p["id"]
    path = os.path.join(HERE, "props", pid.lower() + ".py")
    CLAIMED = json.load(open(os.path.join(VERIF, "tools/claimed.json")))
    if pid not in CLAIMED:
        na.append({"property_id": pid, "reason": NOT_YET.get(pid, "not claimed yet: the check for this property is still being built/integrated (plan in DESIGN.md section 5)")})
        continue
    if not os.path.exists(path):
        na.append({"property_id": pid, "reason": NOT_YET.get(pid, "not claimed: no Lean model/theorems/correspondence for this property are committed yet (see DESIGN.md section 5 for the plan)")})
        continue
    try:
        m = importlib.import_module("props." + pid.lower())
        m.LEVEL_TEXT, m.LEVEL_NOTE, m.TECHNIQUE
    except Exception as e:
        na.append({"property_id": pid, "reason": "check under construction (plug-in not complete yet): %s" % str(e)[:80]})
        continue
    checks.append({
        "property_id": pid,
        "quick_cmd": "./check %s --tier quick" % pid,
        "thorough_cmd": "./check %s --tier thorough" % pid,
        "evidence_file": "evidence/%s.json" % pid,
        "replay_cmd_template": "./check %s --replay {path}" % pid,
        "engine": "lean-proof+correspondence",
        "level_claimed": {"category": "proof", "text": m.LEVEL_TEXT, "design_ref": "DESIGN.md section 5 (%s)" % pid},
        "level_note": m.LEVEL_NOTE,
        "technique": m.TECHNIQUE,
    })
man = {
    "version": 1,
    "setup_cmd": "./setup.sh",
    "hooks": {
        "guard": "HHENSON_HGRAPH_VERIF",
        "enable": "HHENSON_HGRAPH_VERIF=1 (default in ./check) makes tools/gen_build.py add -DHGRAPH_VERIF_HOOKS=1 to the verification build of /repo",
        "baseline_off_cmd": "cd /repo && /venv/bin/python -m pytest -ra -q -p no:cacheprovider --timeout=900 --continue-on-collection-errors",
        "source_commits": json.load(open(os.path.join(VERIF, "tools/hook_commits.json"))) if os.path.exists(os.path.join(VERIF, "tools/hook_commits.json")) else [],
        "add_only": True,
    },
    "engines": [{
        "name": "lean-proof+correspondence", "path": "check",
        "serves_properties": [c["property_id"] for c in checks],
        "kind_free_text": "Lean 4 theorems about hand-written executable models (lean/HgVerif), tied to /repo by (a) a translator for small decision points (tools/extract.py -> Extracted.lean + Tie.lean) and (b) differential correspondence against drivers compiled from /repo's working tree (harness/, tools/gen_build.py)",
    }],
    "checks": checks,
    "not_applicable": na,
    "notes": "All checks compile /repo's working tree (C++), rebuild the Lean theorems, audit axioms, and run the correspondence; exit 2 = machinery failure (never a VIOLATION).",
}
json.dump(man, open(os.path.join(VERIF, "MANIFEST.json"), "w"), indent=1)
print("claimed:", [c["property_id"] for c in checks])
