#!/usr/bin/env python3
"""tools/seed_note.py <sID> <text>  : append a line to seeded/<sID>/meta.json "checks_run" """
import json, sys
p = "/verif/seeded/%s/meta.json" % sys.argv[1]
m = json.load(open(p))
m.setdefault("checks_run", None)
m["checks_run"] = (m["checks_run"] or []) + [sys.argv[2]]
json.dump(m, open(p, "w"), indent=1)
