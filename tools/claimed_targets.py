#!/usr/bin/env python3
"""Print the make targets (driver binaries) and Lean modules needed by the claimed checks."""
import importlib, json, os, sys
HERE = os.path.dirname(os.path.abspath(__file__))
sys.path.insert(0, HERE); sys.path.insert(0, os.path.join(HERE, "props"))
import vlib
claimed = json.load(open(os.path.join(HERE, "claimed.json")))
targets, mods = set(), set()
for pid in claimed:
    m = importlib.import_module("props." + pid.lower())
    targets |= set(m.CXX_TARGETS)
    mods |= set(m.LEAN_MODULES)
if sys.argv[1:] == ["lean"]:
    print(" ".join(sorted(mods)))
else:
    print(" ".join(os.path.join(vlib.BUILD, t) for t in sorted(targets)))
