"""Common machinery of ./check: builds, Lean audit, correspondence runs, monitors,
shrinking, failing-input search, evidence, known findings.

A property plug-in (tools/props/cNN.py) provides:

  ID, LEAN_MODULES, THEOREMS, CXX_TARGETS, TRUSTED (extra trusted-base lines), ASSUMPTIONS
  streams(rng, tier, seed) -> [Stream]
      Stream(name, impl_cmd, model_cmd, cases)   cases: [Case(lines, meta)]
      impl_cmd/model_cmd are argv lists; both read the concatenated case lines on stdin and
      print exactly one output line per input line.
  monitor(stream_name, case, out_lines) -> [str]    property violations visible in ONE trace
  nontrivial(stream_name, case, out_lines) -> bool
  features(stream_name, case, out_lines) -> [str]   histogram keys (input distribution)
  alarm_filter(stream_name, case, impl_out, model_out) -> (bool, [str])   optional: which
      differences are alarm-raising (observable) and which are model-internal drift.
"""
import hashlib, json, os, random, re, subprocess, sys, time

VERIF = os.path.dirname(os.path.dirname(os.path.abspath(__file__)))
REPO = os.environ.get("HGV_REPO", "/repo")
BUILD = os.environ.get("HGV_BUILD_DIR", os.path.join(VERIF, ".build"))
LEAN = os.path.join(VERIF, "lean")
PY = sys.executable
ALLOWED_AXIOMS = {"propext", "Classical.choice", "Quot.sound"}
FORBIDDEN = re.compile(r"\bsorry\b|\badmit\b|^axiom |native_decide|bv_decide|implemented_by|\bunsafe |maxHeartbeats 0", re.M)


class Case:
    def __init__(self, lines, meta=None):
        self.lines = list(lines)
        self.meta = meta or {}

    def key(self):
        return hashlib.sha1("\n".join(self.lines[1:]).encode()).hexdigest()


class Stream:
    def __init__(self, name, impl_cmd, model_cmd, cases, timeout=600):
        self.name, self.impl_cmd, self.model_cmd, self.cases, self.timeout = name, impl_cmd, model_cmd, cases, timeout


def log(*a):
    print("[check]", *a, file=sys.stderr, flush=True)


def sh(cmd, cwd=None, timeout=3600, env=None, stdin=None):
    e = dict(os.environ)
    if env:
        e.update(env)
    p = subprocess.run(cmd, cwd=cwd, timeout=timeout, env=e, input=stdin, capture_output=True, text=True)
    return p.returncode, p.stdout, p.stderr


# ---------------------------------------------------------------- builds

def build_cxx(targets):
    """Compile the working tree.  Returns (ok, log)."""
    rc, out, err = sh([PY, os.path.join(VERIF, "tools/gen_build.py")])
    if rc != 0:
        return False, out + err
    if not targets:
        return True, ""
    tg = [os.path.join(BUILD, t) for t in targets]
    rc, out, err = sh(["make", "-C", BUILD, "-j16"] + tg, timeout=3600)
    # a link that was interrupted (or raced with another process linking the same file) can leave an
    # empty / non-executable target that make then takes for up to date: remove such files and build once more
    stale = [t for t in tg if not (os.path.isfile(t) and os.path.getsize(t) > 0 and os.access(t, os.X_OK))]
    if rc != 0 or stale:
        for t in stale:
            try:
                os.remove(t)
            except OSError:
                pass
        time.sleep(2)
        rc, out2, err2 = sh(["make", "-C", BUILD, "-j16"] + tg, timeout=3600)
        out, err = out + out2, err + err2
    return rc == 0, out + err


def run_extract():
    rc, out, err = sh([PY, os.path.join(VERIF, "tools/extract.py")])
    if rc != 0:
        log("extract.py failed (pinned values stay in use):", err.strip()[-400:])
    try:
        return json.load(open(os.path.join(BUILD, "extracted.json")))
    except Exception:
        return {}


def build_lean(modules):
    rc, out, err = sh(["lake", "build"] + modules, cwd=LEAN, timeout=3600)
    return rc == 0, out + err


def strip_comments(text):
    text = re.sub(r"/-.*?-/", "", text, flags=re.S)
    return re.sub(r"--.*", "", text)


def lean_sources(modules):
    """Transitive closure of project-local imports of the given modules."""
    seen, todo = [], list(modules)
    while todo:
        m = todo.pop()
        if m in seen or not m.startswith("HgVerif"):
            continue
        path = os.path.join(LEAN, m.replace(".", "/") + ".lean")
        if not os.path.exists(path):
            continue
        seen.append(m)
        for imp in re.findall(r"^import\s+(\S+)", open(path).read(), re.M):
            todo.append(imp)
    return seen


def audit(modules, theorems):
    """Returns (obligations, discharged, problems, axioms_by_theorem)."""
    problems = []
    for m in lean_sources(modules):
        path = os.path.join(LEAN, m.replace(".", "/") + ".lean")
        src = strip_comments(open(path).read())
        hit = FORBIDDEN.search(src)
        if hit:
            problems.append("forbidden token %r in %s" % (hit.group(0), m))
    tmp = os.path.join(BUILD, "audit_%d.lean" % os.getpid())
    with open(tmp, "w") as f:
        for m in modules:
            f.write("import %s\n" % m)
        for t in theorems:
            f.write("#print axioms %s\n" % t)
    rc, out, err = sh(["lake", "env", "lean", tmp], cwd=LEAN, timeout=1800)
    os.unlink(tmp)
    axioms = {}
    txt = out + err
    for m in re.finditer(r"'([^']+)' depends on axioms: \[([^\]]*)\]", txt, re.S):
        axioms[m.group(1)] = [a.strip() for a in m.group(2).replace("\n", " ").split(",") if a.strip()]
    for m in re.finditer(r"'([^']+)' does not depend on any axioms", txt):
        axioms[m.group(1)] = []
    discharged = 0
    for t in theorems:
        short = [k for k in axioms if k == t or k.endswith("." + t)]
        if not short:
            problems.append("theorem %s not found / not checked" % t)
            continue
        bad = [a for a in axioms[short[0]] if a not in ALLOWED_AXIOMS]
        if bad:
            problems.append("theorem %s depends on %s" % (t, bad))
        else:
            discharged += 1
    return len(theorems), discharged, problems, axioms


# ---------------------------------------------------------------- correspondence

def run_driver(cmd, cases, timeout=600, cwd=None):
    """Feed all cases to one driver process; split its output per case."""
    text = "".join("\n".join(c.lines) + "\n" for c in cases)
    try:
        p = subprocess.run(cmd, input=text, capture_output=True, text=True, timeout=timeout, cwd=cwd)
    except subprocess.TimeoutExpired:
        return None, "timeout"
    lines = p.stdout.split("\n")
    if lines and lines[-1] == "":
        lines.pop()
    outs, i = [], 0
    for c in cases:
        n = len(c.lines)
        outs.append(lines[i:i + n])
        i += n
    crashed = p.returncode != 0
    return outs, ("rc=%d %s" % (p.returncode, p.stderr[-300:]) if crashed else "")


def run_driver_robust(cmd, cases, timeout=600, cwd=None, isolate_hangs=False):
    """As run_driver, but if the process dies mid-stream, re-run the remaining cases one
    batch at a time so that one crashing case does not hide the rest."""
    outs, note = run_driver(cmd, cases, timeout, cwd)
    if outs is None:
        if not isolate_hangs:
            return [["<timeout>"] for _ in cases], note
        # the stream did not finish: find the inputs on which the driver does not terminate instead of waiting the
        # full budget again and again - chunks with a proportional budget, then single cases inside a hanging chunk;
        # after a few hanging inputs the remaining cases are left out of this run ("<skipped>", never evaluated)
        res, hangs, size = [], 0, 50
        chunk_budget = max(30, int(4.0 * timeout * size / max(1, len(cases))))
        i = 0
        while i < len(cases):
            if hangs >= 3:
                res.extend([["<skipped>"]] * (len(cases) - i))
                break
            chunk = cases[i:i + size]
            o, n = run_driver(cmd, chunk, chunk_budget, cwd)
            if o is not None:
                res.extend(o if not n else run_driver_robust(cmd, chunk, chunk_budget, cwd, False)[0])
            else:
                one = max(10, chunk_budget // 5)
                for c in chunk:
                    if hangs >= 3:
                        res.append(["<skipped>"])
                        continue
                    o1, n1 = run_driver(cmd, [c], one, cwd)
                    if o1 is None:
                        hangs += 1
                        res.append(["<timeout>"])
                    else:
                        res.append(o1[0] if not n1 else o1[0] + ["<crash %s>" % n1.split("\n")[0][:120]])
            i += size
        return res, "timeout (%d hanging input(s) isolated)" % hangs
    if not note:
        return outs, note
    # find first incomplete case and isolate it
    res = []
    i = 0
    while i < len(cases):
        chunk = cases[i:]
        o, n = run_driver(cmd, chunk, timeout, cwd)
        if o is None:
            res.extend([["<timeout>"]] * len(chunk))
            break
        if not n:
            res.extend(o)
            break
        k = 0
        while k < len(chunk) and len(o[k]) == len(chunk[k].lines):
            k += 1
        # cases before k completed; case k crashed
        res.extend(o[:k])
        if k < len(chunk):
            res.append(o[k] + ["<crash %s>" % n.split("\n")[0][:120]])
        i += k + 1
    while len(res) < len(cases):
        res.append(["<missing>"])
    return res, note


def model_cmd(driver):
    return ["lake", "env", "lean", "--run", os.path.join("Drivers", driver + ".lean")]


def ddmin(lines, test, budget=60):
    """Shrink case body lines (header kept by caller) while test(lines) stays true."""
    n = 2
    cur = list(lines)
    calls = 0
    while len(cur) >= 2 and calls < budget:
        chunk = max(1, len(cur) // n)
        reduced = False
        for i in range(0, len(cur), chunk):
            cand = cur[:i] + cur[i + chunk:]
            calls += 1
            if cand and test(cand):
                cur = cand
                n = max(n - 1, 2)
                reduced = True
                break
            if calls >= budget:
                break
        if not reduced:
            if chunk == 1:
                break
            n = min(len(cur), n * 2)
    return cur


# ---------------------------------------------------------------- known findings

def load_known(pid):
    path = os.path.join(VERIF, "known_findings.json")
    try:
        data = json.load(open(path))
    except Exception:
        return []
    return [k for k in data.get("findings", []) if k.get("property") == pid and k.get("status") == "known"]


def match_known(known, text):
    for k in known:
        if re.search(k["fingerprint"], text):
            return k
    return None


# ---------------------------------------------------------------- the run

def tier_from_env(default):
    return os.environ.get("VERIF_TIER", default)


def main_check(plugin, tier, replay=None):
    t0 = time.time()
    pid = plugin.ID
    seed = int(os.environ.get("VERIF_SEED", "0"))
    rng = random.Random((seed << 8) ^ int(hashlib.sha1(pid.encode()).hexdigest()[:6], 16))
    evid_dir = os.path.join(VERIF, "evidence")
    os.makedirs(evid_dir, exist_ok=True)
    os.makedirs(BUILD, exist_ok=True)
    if replay is None:
        # replay files describe THIS run: drop the ones an earlier run left behind
        import glob
        for old in glob.glob(os.path.join(evid_dir, "%s.replay.*.json" % pid)):
            os.remove(old)
    broken = []          # proof obligations / correspondences that no longer check
    violations = []      # (description, replay_path)
    diagnostics = []

    # 1. builds ----------------------------------------------------------
    extracted = run_extract() if getattr(plugin, "USES_EXTRACT", False) else {}
    ok, blog = build_cxx(plugin.CXX_TARGETS)
    if not ok:
        log("C++ build of the working tree failed:\n" + blog[-3000:])
        return 2
    # a decision point the translator can no longer find in the source: the tie theorem for it checks a pinned
    # value, not the code -> that obligation no longer checks (search for a failing input, report either way)
    tie_alias = {"rtNextShape": "rtNextIsMinOfTargetAndMaxWallNext"}
    for th in plugin.THEOREMS:
        if th.startswith("HgVerif.Tie.tie_"):
            key = th[len("HgVerif.Tie.tie_"):]
            item = (extracted.get("common") or {}).get(tie_alias.get(key, key))
            if item is not None and item.get("status") == "pattern-missing":
                broken.append({"kind": "translator", "name": th,
                               "detail": "the source pattern this tie is extracted from is no longer found in /repo"})
                log("translator: pattern for %s no longer found -> the tie no longer checks; searching for a failing input" % th)
    ok, llog = build_lean(plugin.LEAN_MODULES)
    if not ok:
        errs = [l for l in llog.split("\n") if "error" in l][:8]
        broken.append({"kind": "proof-obligation", "name": "lake build " + " ".join(plugin.LEAN_MODULES),
                       "detail": "\n".join(errs)})
        log("Lean build failed -> broken proof obligation; searching the implementation for a failing input")
    # 2. audit -----------------------------------------------------------
    obligations, discharged, axioms = len(plugin.THEOREMS), 0, {}
    if not broken:
        obligations, discharged, problems, axioms = audit(plugin.LEAN_MODULES, plugin.THEOREMS)
        for p in problems:
            broken.append({"kind": "proof-obligation", "name": p, "detail": ""})
    # 2b. thorough: independent re-check of the compiled proofs with leanchecker
    leanchecker = None
    if tier == "thorough" and not broken:
        mods = [m for m in plugin.LEAN_MODULES if ".Props." in m]
        rc, out, err = sh(["lake", "env", "leanchecker"] + mods, cwd=LEAN, timeout=3600)
        leanchecker = "ok" if rc == 0 else "failed"
        if rc != 0:
            broken.append({"kind": "proof-obligation", "name": "leanchecker " + " ".join(mods), "detail": (out + err)[-400:]})
    # 3. correspondence ----------------------------------------------------
    search_rounds = 1 if not broken else (3 if tier == "quick" else 6)
    evaluations = 0
    validated = 0
    distinct = set()
    hist = {}
    samples = []
    disagreements = []
    mon_fail = []
    model_ok = not any(b["name"].startswith("lake build") for b in broken)
    for rnd in range(search_rounds):
        streams = plugin.streams(rng, tier, seed + 1000 * rnd)
        if replay and rnd == 0:
            rp = json.load(open(replay))
            streams = [s for s in streams if s.name == rp.get("stream")] or streams[:1]
            for s in streams:
                s.cases = [Case(rp["case"])]
        for s in streams:
            if not s.cases:
                continue
            impl_out, inote = run_driver_robust(s.impl_cmd, s.cases, s.timeout, None, True)
            if inote:
                diagnostics.append("impl driver %s: %s" % (s.name, inote[:200]))
            model_out = None
            if model_ok and s.model_cmd:
                model_out, mnote = run_driver_robust(s.model_cmd, s.cases, s.timeout, cwd=LEAN)
                if mnote:
                    diagnostics.append("model driver %s: %s" % (s.name, mnote[:200]))
                if mnote == "timeout":
                    # the MODEL driver ran out of its budget (machine load): nothing is known about the code - that is a
                    # failure of the machinery (exit 2), never a violation
                    print("[check] model driver of stream %s exceeded its budget of %ds: machinery failure" % (s.name, s.timeout))
                    return 2
            for i, c in enumerate(s.cases):
                io = impl_out[i]
                if io == ["<skipped>"]:
                    continue
                evaluations += 1
                if io == ["<timeout>"]:
                    hist["implementation-does-not-terminate"] = hist.get("implementation-does-not-terminate", 0) + 1
                    mon_fail.append((s, c, io, model_out[i] if model_out else None,
                                     ["[hang] the implementation does not terminate on this input (no answer within the "
                                      "per-input budget; the model answers: %s)" % (" | ".join(model_out[i])[:160] if model_out else "-")]))
                    continue
                # output the plug-in cannot even parse is output no correct implementation produces: it is a
                # monitor failure on that input (searched, shrunk and reported like any other), not a crash of the check
                try:
                    for f in plugin.features(s.name, c, io):
                        hist[f] = hist.get(f, 0) + 1
                    if plugin.nontrivial(s.name, c, io):
                        distinct.add(s.name + ":" + c.key())
                except Exception as ex:
                    hist["unparsable-output"] = hist.get("unparsable-output", 0) + 1
                if len(samples) < 3 and rnd == 0:
                    samples.append({"stream": s.name, "input": c.lines[:40], "impl_output": io[:40]})
                try:
                    mv = plugin.monitor(s.name, c, io)
                except Exception as ex:
                    mv = ["[unparsable] the implementation's output for this input is outside the protocol the monitor "
                          "understands (%s: %s)" % (type(ex).__name__, str(ex)[:120])]
                if mv:
                    mon_fail.append((s, c, io, model_out[i] if model_out else None, mv))
                if model_out is not None:
                    mo = model_out[i]
                    if mo == io:
                        validated += 1
                    else:
                        alarm, notes = True, []
                        if hasattr(plugin, "alarm_filter"):
                            alarm, notes = plugin.alarm_filter(s.name, c, io, mo)
                        if alarm:
                            disagreements.append((s, c, io, mo))
                        else:
                            validated += 1
                            diagnostics.append("model-internal-drift %s: %s" % (s.name, "; ".join(notes)[:200]))
        if mon_fail:
            break
        if not broken and not disagreements:
            break
    # 4. classify ----------------------------------------------------------
    known = load_known(pid)
    replay_n = 0

    def write_replay(obj):
        nonlocal replay_n
        replay_n += 1
        path = os.path.join(evid_dir, "%s.replay.%d.json" % (pid, replay_n))
        json.dump(obj, open(path, "w"), indent=1)
        return path

    def shrink(s, c, pred, budget=40):
        head, body = c.lines[:1], c.lines[1:]

        def test(b):
            cc = Case(head + b, {})
            return pred(cc)
        try:
            nb = ddmin(body, test, budget=budget)
        except Exception:
            nb = body
        return Case(head + nb, {})

    reported = set()
    known_hits = []
    # every monitor failure is classified: failures matching a listed known finding (on the
    # original, unshrunk case) are reported as KNOWN-FINDING; all others are violations
    unknown = []
    for item in mon_fail:
        (s, c, io, mo, mv) = item
        k = match_known(known, "; ".join(mv) + "\n" + "\n".join(c.lines))
        if k:
            known_hits.append(k)
        else:
            unknown.append(item)
    for (s, c, io, mo, mv) in unknown[:6]:
        sig0 = mv[0].split("]")[0] if mv[0].startswith("[") else mv[0][:25]

        hang = sig0.startswith("[hang")

        def still_fails(cc, s=s, sig0=sig0):
            o, _ = run_driver_robust(s.impl_cmd, [cc], 15 if hang else 60)
            if hang:
                return o[0] == ["<timeout>"]
            if any("bad-op" in l for l in o[0]):
                return False
            if hasattr(plugin, "valid_case") and not plugin.valid_case(s.name, cc, o[0], None):
                return False
            try:
                ms = plugin.monitor(s.name, cc, o[0])
            except Exception as ex:
                ms = ["[unparsable] %s" % type(ex).__name__]
            return any(m.startswith(sig0) for m in ms)
        small = shrink(s, c, still_fails, 10 if hang else 40)
        o, _ = run_driver_robust(s.impl_cmd, [small], 15 if hang else 60)
        try:
            mv2 = mv if hang else (plugin.monitor(s.name, small, o[0]) or mv)
        except Exception:
            mv2 = mv
        desc = "; ".join(mv2)[:400]
        sig = mv2[0][:60]
        if sig in reported:
            continue
        reported.add(sig)
        path = write_replay({"property": pid, "stream": s.name, "seed": seed, "case": small.lines,
                             "impl_output": o[0], "model_output": mo, "monitor": mv2,
                             "broken": broken, "kind": "failing-input"})
        violations.append((desc, path, True))
    if not violations and not (mon_fail and known_hits and not unknown and not disagreements and not broken):
        if disagreements:
            s, c, io, mo = disagreements[0]

            def still_diff(cc, s=s):
                a, _ = run_driver_robust(s.impl_cmd, [cc], 60)
                b, _ = run_driver_robust(s.model_cmd, [cc], 120, cwd=LEAN)
                if a[0] == b[0]:
                    return False
                if hasattr(plugin, "valid_case") and not plugin.valid_case(s.name, cc, a[0], b[0]):
                    return False
                if hasattr(plugin, "alarm_filter"):
                    return plugin.alarm_filter(s.name, cc, a[0], b[0])[0]
                return True
            small = shrink(s, c, still_diff)
            a, _ = run_driver_robust(s.impl_cmd, [small], 60)
            b, _ = run_driver_robust(s.model_cmd, [small], 120, cwd=LEAN)
            first = next((j for j in range(min(len(a[0]), len(b[0]))) if a[0][j] != b[0][j]), -1)
            path = write_replay({"property": pid, "stream": s.name, "seed": seed, "case": small.lines,
                                 "impl_output": a[0], "model_output": b[0], "first_difference_line": first,
                                 "broken": [{"kind": "correspondence", "name": "model/%s vs implementation" % s.name,
                                             "detail": "%d of %d cases differ" % (len(disagreements), evaluations)}] + broken,
                                 "monitor": "holds on every implementation trace explored",
                                 "kind": "no-failing-input-found"})
            violations.append(("correspondence %s broken (%d cases differ), monitor holds on all implementation traces"
                               % (s.name, len(disagreements)), path, False))
        elif broken:
            path = write_replay({"property": pid, "seed": seed, "broken": broken,
                                 "monitor": "holds on every implementation trace explored (%d)" % evaluations,
                                 "kind": "no-failing-input-found"})
            violations.append(("proof obligation broken: %s" % broken[0]["name"], path, False))

    # 5. evidence ----------------------------------------------------------
    wall = time.time() - t0
    trusted = ["Lean 4.33.0 kernel", "axioms: " + ", ".join(sorted({a for v in axioms.values() for a in v}) or ["none"]),
               "hand-written Lean model tied to /repo by differential correspondence (tools/props/%s.py, harness/)" % pid.lower(),
               "C++ verification build: g++ 12 -O0, stubs for JSON/time-zone TUs"] + list(getattr(plugin, "TRUSTED", []))
    ev = {
        "property_id": pid, "tier": tier, "seed": seed, "level": "proof", "wall_s": round(wall, 2),
        "violations": len(violations),
        "coverage": {
            "obligations": max(obligations, 1), "discharged": discharged,
            "checker_cmd": "cd lean && lake build %s && #print axioms <theorem> for each of %d theorems (tools/vlib.py audit)"
                           % (" ".join(plugin.LEAN_MODULES), len(plugin.THEOREMS)),
            "trusted_base": trusted,
            "theorems": {t: axioms.get(next((k for k in axioms if k == t or k.endswith("." + t)), ""), None)
                         for t in plugin.THEOREMS},
            "evaluations": evaluations, "distinct_nontrivial": len(distinct),
            "rule": getattr(plugin, "RULE", ""),
            "samples": samples, "traces_validated_against_impl": validated,
            "disagreements": len(disagreements), "monitor_failures": len(mon_fail),
            "input_distribution": dict(sorted(hist.items())),
            "broken_obligations": broken, "diagnostics": diagnostics[:20],
            "extracted": extracted.get(pid, extracted.get("common", {})) if extracted else {},
            "known_findings_hit": sorted({k["id"] for k in known_hits}),
            "leanchecker": leanchecker,
        },
        "assumptions": list(getattr(plugin, "ASSUMPTIONS", [])),
    }
    if discharged == 0:   # keep the file schema-valid on a broken run: the proof keys are withheld
        cov = ev["coverage"]
        cov["obligations_total"] = cov.pop("obligations")
        cov["obligations_discharged"] = cov.pop("discharged")
        cov["distinct_nontrivial"] = max(cov["distinct_nontrivial"], 2) if evaluations else 2
        cov["evaluations"] = max(cov["evaluations"], 1)
    json.dump(ev, open(os.path.join(evid_dir, "%s.json" % pid), "w"), indent=1)
    for k in {k["id"]: k for k in known_hits}.values():
        print("KNOWN-FINDING: property=%s %s" % (pid, k["what"]))
    if violations:
        for desc, path, found in violations:
            log(desc)
            print("VIOLATION property=%s replay=%s%s" % (pid, os.path.relpath(path, VERIF),
                                                        "" if found else " no-failing-input-found"))
        return 1
    log("%s %s: %d/%d obligations, %d cases, %d validated, %d distinct non-trivial, %.1fs"
        % (pid, tier, discharged, obligations, evaluations, validated, len(distinct), wall))
    return 0
