#!/bin/bash
# Build the framework from files on disk only (offline): the verification build of /repo's C++
# core, the correspondence drivers of every claimed check, and the Lean library.
set -e
cd "$(dirname "$0")"
export HHENSON_HGRAPH_VERIF=${HHENSON_HGRAPH_VERIF:-1}
/venv/bin/python tools/gen_build.py
/venv/bin/python tools/extract.py
TARGETS=$(/venv/bin/python tools/claimed_targets.py)
make -C .build -j16 -k $TARGETS 2>&1 | grep -v '^CXX\|^make' | tail -20 || true
make -C .build -j16 $TARGETS > /dev/null
(cd lean && lake build $(/venv/bin/python ../tools/claimed_targets.py lean) HgVerif.Driver.Proto 2>&1 | tail -3)
echo "setup done"
