#!/bin/bash
# Build the framework from files on disk only (offline): the verification build of /repo's C++
# core, every correspondence driver, and the Lean library.
set -e
cd "$(dirname "$0")"
export HHENSON_HGRAPH_VERIF=${HHENSON_HGRAPH_VERIF:-1}
/venv/bin/python tools/gen_build.py
/venv/bin/python tools/extract.py
make -C .build -j16 -k all 2>&1 | grep -v '^CXX\|^make' | tail -20 || true
make -C .build -j16 all > /dev/null
(cd lean && lake build 2>&1 | tail -3)
echo "setup done"
