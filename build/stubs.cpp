// Verification-build stubs for TUs that need libraries not installed offline
// (simdjson, Howard Hinnant date): json_impl.cpp, json_codec.cpp,
// time_zone_provider.cpp.  JSON and time-zone operators are NOT modelled and
// NOT verified; any call that reaches them throws.
#include <hgraph/lib/std/operators/impl/json_impl.h>
#include <hgraph/lib/std/operators/json.h>
#include <hgraph/types/temporal.h>
#include <hgraph/types/value/json_codec.h>

#include <stdexcept>

namespace hgraph
{
    namespace
    {
        [[noreturn]] void not_in_verif_build(const char *what)
        {
            throw std::logic_error(std::string{"not in verification build: "} + what);
        }
    }  // namespace

    const JsonConverter &json_converter(const ValueTypeMetaData *) { not_in_verif_build("json_converter"); }
    void clear_json_converters() noexcept {}
    std::string to_json_string(const ValueView &) { not_in_verif_build("to_json_string"); }
    Value from_json_string(const ValueTypeMetaData *, std::string_view) { not_in_verif_build("from_json_string"); }
    Value from_json_string(const JsonConverter &, std::string_view) { not_in_verif_build("from_json_string"); }

    std::shared_ptr<const TimeZoneProvider> make_time_zone_provider() { not_in_verif_build("make_time_zone_provider"); }
    void clear_time_zone_provider_cache() noexcept {}
    const TimeZoneProvider &time_zone_provider(GlobalStateView) { not_in_verif_build("time_zone_provider"); }

    namespace stdlib
    {
        void register_json_operators() {}
        namespace json_tree
        {
            bool is_json_ts(const TSValueTypeMetaData *) noexcept { return false; }
            std::partial_ordering compare(const ValueView &, const ValueView &) { not_in_verif_build("json_tree::compare"); }
            bool equals(const ValueView &, const ValueView &) { not_in_verif_build("json_tree::equals"); }
        }  // namespace json_tree
    }  // namespace stdlib
}  // namespace hgraph
