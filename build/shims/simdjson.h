#pragma once
#include "simdjson_shim.h"
