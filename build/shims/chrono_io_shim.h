// Verification-build shim: libstdc++ 12 lacks operator<< for sys_time (P0355 I/O).
#pragma once
#include <chrono>
#include <ostream>
namespace std::chrono {
template <class Duration>
inline std::ostream &operator<<(std::ostream &os, const sys_time<Duration> &tp) {
    return os << tp.time_since_epoch().count();
}
}  // namespace std::chrono
namespace std::chrono {
inline std::ostream &operator<<(std::ostream &os, const year_month_day &d) {
    return os << int(d.year()) << '-' << unsigned(d.month()) << '-' << unsigned(d.day());
}
template <class Duration>
inline std::ostream &operator<<(std::ostream &os, const hh_mm_ss<Duration> &t) {
    return os << t.to_duration().count();
}
}  // namespace std::chrono
