// Verification-build shim: conversion_impl.cpp uses only simdjson::validate_utf8.
#pragma once
#include <cstddef>
#include <string_view>
namespace simdjson {
inline bool validate_utf8(std::string_view s) noexcept {
    const unsigned char *p = reinterpret_cast<const unsigned char *>(s.data());
    size_t n = s.size(), i = 0;
    while (i < n) {
        unsigned char c = p[i];
        if (c < 0x80) { i++; continue; }
        size_t len; unsigned cp;
        if ((c & 0xE0) == 0xC0) { len = 2; cp = c & 0x1F; }
        else if ((c & 0xF0) == 0xE0) { len = 3; cp = c & 0x0F; }
        else if ((c & 0xF8) == 0xF0) { len = 4; cp = c & 0x07; }
        else return false;
        if (i + len > n) return false;
        for (size_t k = 1; k < len; k++) { if ((p[i + k] & 0xC0) != 0x80) return false; cp = (cp << 6) | (p[i + k] & 0x3F); }
        if ((len == 2 && cp < 0x80) || (len == 3 && cp < 0x800) || (len == 4 && cp < 0x10000)) return false;
        if (cp > 0x10FFFF || (cp >= 0xD800 && cp <= 0xDFFF)) return false;
        i += len;
    }
    return true;
}
}  // namespace simdjson
