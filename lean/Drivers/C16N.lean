import HgVerif.Model.PushQueueN
import HgVerif.Driver.Proto
/-! Model driver for the multi-source part of C16: same line protocol as `harness/drv_pushn.cpp`.
    Every schedule step is the composition, in program order, of the model's atomic steps of one
    thread (`HgVerif.PushQueueN.step`): a send = enter, check, admitQ, mark of ONE source; a cycle =
    beginCycle (the single reset of the shared flag), then pop + rearm of every source in index
    order; the loop `L` = cycles while the shared flag is raised. -/
open HgVerif.PushQueueN HgVerif.Driver
open HgVerif.PushQueue (Policy Cfg SendKind Outcome PPc)
/-! A source with policy letter `d` is the conflating policy with a `TSD<int, TS<int>>` output: the
    payload of a send to it is a collection delta (`<k>=<v>` | `-<k>` | `e` | a comma list), its
    cycle entry the delivered value `{k:v,..}` sorted by key. -/

structure DS where
  sys : Sys := { n := 1, cfg := fun _ => {} }

def stepD (sys : Sys) (s : St) (l : Label) : St := (step sys s l).getD s

def b2 (b : Bool) : String := if b then "1" else "0"

/-- the last returned result of producer `i` of a source -/
def lastResult (x : Src) (i : Nat) : String :=
  match (x.results.filter (fun r => r.1 == i)).getLast? with
  | some (_, _, _, .accepted) => "1"
  | some _ => "0"
  | none => "?"

def stoppedS (x : Src) : Bool := x.started && !x.accepting
def anyStarted (sys : Sys) (s : St) : Bool := (List.range sys.n).any (fun k => (s.src k).started)
def anyStopped (sys : Sys) (s : St) : Bool := (List.range sys.n).any (fun k => stoppedS (s.src k))

def pendS (sys : Sys) (s : St) : String :=
  let ps := (List.range sys.n).map (fun k =>
    let x := s.src k
    toString (if !x.started || stoppedS x then 0 else x.deque.length))
  " p" ++ ",".intercalate ps ++ s!" f{b2 s.flag}"

/-- parked senders `(source, producer, value)`, kept sorted by source (stable) -/
abbrev Parked := List (Nat × Nat × Nat)

def parkIns (bl : Parked) (e : Nat × Nat × Nat) : Parked :=
  (bl.filter (fun x => x.1 ≤ e.1)) ++ [e] ++ (bl.filter (fun x => x.1 > e.1))

/-- parked senders whose wait predicate holds complete: wake, then mark -/
def settle (sys : Sys) : Nat → St → Parked → String → St × Parked × String
  | 0, s, bl, out => (s, bl, out)
  | fuel + 1, s, bl, out =>
    match bl.find? (fun e => !(s.src e.1).accepting || !(s.src e.1).full (sys.cfg e.1)) with
    | none => (s, bl, out)
    | some (k, i, v) =>
      let s1 := stepD sys s (.src k (.wake i))
      let s2 := match (s1.src k).pcs i with
        | .admitted _ _ _ => stepD sys s1 (.src k (.mark i))
        | _ => s1
      settle sys fuel s2 (bl.filter (fun x => !(x.1 == k && x.2.1 == i)))
        (out ++ s!" +b{k}.{i}:{v}={lastResult (s2.src k) i}")

def sortNat (l : List Nat) : List Nat := l.mergeSort (fun a b => a ≤ b)

/-- `{k:v,..}` sorted by key -/
def dictS (m : Dict) : String :=
  let ks := (sortNat (m.map (·.1))).eraseDups
  "{" ++ ",".intercalate (ks.filterMap (fun k => (m.find? (fun e => e.1 == k)).map (fun e => s!"{e.1}:{e.2}"))) ++ "}"

/-- canonical text of a delta: removals ascending, then sets by key (last one wins), `e` when empty -/
def deltaS (d : Delta) : String :=
  let rs := (sortNat d.removes).eraseDups.map (fun k => s!"-{k}")
  let m : Dict := d.sets.foldl dictSet []
  let ks := (sortNat (m.map (·.1))).eraseDups
  let ss := ks.filterMap (fun k => (m.find? (fun e => e.1 == k)).map (fun e => s!"{e.1}={e.2}"))
  if rs.isEmpty && ss.isEmpty then "e" else ",".intercalate (rs ++ ss)

def valsS (cfg : Cfg) (vs : List (Nat × Nat)) : String :=
  match cfg.policy with
  | .burst => "[" ++ ",".intercalate (vs.map (fun x => toString x.2)) ++ "]"
  | _ => ",".intercalate (vs.map (fun x => toString x.2))

/-- what each source handed to the graph in the cycle stamped `t` -/
def cycleVals (sys : Sys) (s : St) (t : Nat) : String :=
  "/".intercalate ((List.range sys.n).map (fun k =>
    let vs := if isDict (sys.cfg k) then ((s.src k).cdelivered.filter (fun d => d.1 == t)).map (fun d => dictS d.2.2)
              else ((s.src k).delivered.filter (fun d => d.1 == t)).map (fun d => valsS (sys.cfg k) d.2)
    if vs.isEmpty then "-" else ",".intercalate vs))

/-- the push phase: pop and re-arm of every source, in index order -/
def pushPhase (sys : Sys) : Nat → St → St
  | 0, s => s
  | fuel + 1, s =>
    match s.cpc with
    | .at _ => pushPhase sys fuel (stepD sys (stepD sys s .pop) .rearm)
    | _ => s

def canCycle (sys : Sys) (s : St) : Bool := allRunning sys s && !s.stopReq && !anyStopped sys s

/-- a whole evaluation cycle -/
def doCycle (sys : Sys) (s : St) : St × String :=
  let s1 := stepD sys s (.beginCycle 0)
  let s2 := pushPhase sys (sys.n + 1) s1
  (s2, s!"c{s2.time + 1000}:{cycleVals sys s2 s2.time}")

/-- the real-time loop by hand: a cycle while the flag is raised, parked senders completing after
    each cycle; then the loop sleeps -/
def doLoop (sys : Sys) (sfuel : Nat) : Nat → St → Parked → List String → St × Parked × List String
  | 0, s, bl, acc => (s, bl, acc)
  | fuel + 1, s, bl, acc =>
    if s.flag && canCycle sys s then
      let r := doCycle sys s
      let (s', bl', line) := settle sys sfuel r.1 bl r.2
      doLoop sys sfuel fuel s' bl' (acc ++ [line.replace " " ""])
    else (s, bl, acc)

def allDigits (a : String) : Bool := !a.isEmpty && a.all Char.isDigit

/-- one item of a delta: `<k>=<v>` or `-<k>` -/
def parseItem (d : Delta) (it : String) : Option Delta :=
  if it.startsWith "-" then
    let k := (it.drop 1).toString
    if allDigits k && it.length < 8 then k.toNat?.map (fun k => { d with removes := d.removes ++ [k] }) else none
  else match it.splitOn "=" with
    | [k, v] =>
      if allDigits k && allDigits v && it.length ≤ 16 then
        match k.toNat?, v.toNat? with
        | some k, some v => some { d with sets := d.sets ++ [(k, v)] }
        | _, _ => none
      else none
    | _ => none

/-- `e` | comma list of items -/
def parseDelta (tok : String) : Option Delta :=
  if tok == "e" then some {} else
  (tok.splitOn ",").foldl (fun acc it => acc.bind (fun d => parseItem d it)) (some {})

/-- `t<s>.<i>:<payload>` / `b<s>.<i>:<payload>` -/
def parseSend (t : String) : Option (Bool × Nat × Nat × String) :=
  match t.toList with
  | c :: rest =>
    if c == 't' || c == 'b' then
      match (String.ofList rest).splitOn ":" with
      | [a, v] =>
        match a.splitOn "." with
        | [k, i] =>
          if allDigits k && allDigits i && !v.isEmpty && k.length ≤ 6 then
            match k.toNat?, i.toNat? with
            | some k, some i => some (c == 'b', k, i, v)
            | _, _ => none
          else none
        | _ => none
      | _ => none
    else none
  | [] => none

def validStep (sys : Sys) (t : String) : Bool :=
  t == "S" || t == "c" || t == "L" || t == "r" || t == "X" ||
  (match parseSend t with
   | some (_, k, _, v) => k < sys.n && (if isDict (sys.cfg k) then (parseDelta v).isSome else allDigits v)
   | none => false)

/-- a whole send by producer `i` of source `k` -/
def doSend (sys : Sys) (s : St) (bl : Parked) (t : String) (blocking : Bool) (k i : Nat) (pay : String) : St × Parked × String :=
  if bl.any (fun x => x.1 == k && x.2.1 == i) then (s, bl, t ++ "=busy") else
  let kd := if blocking then SendKind.blocking else SendKind.try_
  let v := pay.toNat?.getD 0
  let s1 := if isDict (sys.cfg k) then stepD sys s (.src k (.enterD i kd ((parseDelta pay).getD {})))
            else stepD sys s (.src k (.enter i kd v))
  let s2 := match (s1.src k).pcs i with | .entered _ _ => stepD sys s1 (.src k (.check i)) | _ => s1
  let s3 := match (s2.src k).pcs i with | .checked _ _ => stepD sys s2 (.src k (.admitQ i)) | _ => s2
  match (s3.src k).pcs i with
  | .blocked _ => (s3, parkIns bl (k, i, v), t ++ "=B")
  | .admitted _ _ _ =>
    let s4 := stepD sys s3 (.src k (.mark i))
    (s4, bl, t ++ "=" ++ lastResult (s4.src k) i)
  | _ => (s3, bl, t ++ "=" ++ lastResult (s3.src k) i)

def stopAll (sys : Sys) (s : St) : St :=
  (List.range sys.n).foldl (fun s k => stepD sys (stepD sys s (.src k .closeBegin)) (.src k .queueStop)) s

def startAll (sys : Sys) (s : St) : St :=
  (List.range sys.n).foldl (fun s k => stepD sys s (.src k .start)) s

def runSched (sys : Sys) (steps : List String) : String :=
  let fuel := steps.length + 8
  let r := steps.foldl (fun (acc : St × Parked × List String) t =>
    let s := acc.1
    let bl := acc.2.1
    let (s', bl', line) : St × Parked × String :=
      if t == "S" then
        if anyStarted sys s then (s, bl, t ++ "=-") else (startAll sys s, bl, t)
      else if t == "c" then
        if canCycle sys s then let r := doCycle sys s; (r.1, bl, r.2) else (s, bl, "c:-")
      else if t == "L" then
        if canCycle sys s then
          let (s1, bl1, ls) := doLoop sys fuel 40 s bl []
          (s1, bl1, s!"L{ls.length}[" ++ ";".intercalate ls ++ "]")
        else (s, bl, "L:-")
      else if t == "r" then (stepD sys s .reqStop, bl, t)
      else if t == "X" then
        if !anyStarted sys s || anyStopped sys s then (s, bl, t ++ "=-") else (stopAll sys s, bl, t)
      else match parseSend t with
        | some (blocking, k, i, pay) => doSend sys s bl t blocking k i pay
        | none => (s, bl, t ++ "=?")
    let (s'', bl'', line') := settle sys fuel s' bl' line
    (s'', bl'', acc.2.2 ++ [line' ++ pendS sys s''])) (({} : St), [], [])
  let s := r.1
  let (sE, _, tail) :=
    if anyStarted sys s && !anyStopped sys s then settle sys fuel (stopAll sys s) r.2.1 ""
    else settle sys fuel s r.2.1 ""
  let acc := "/".intercalate ((List.range sys.n).map (fun k =>
    if isDict (sys.cfg k) then "[" ++ ";".intercalate ((sE.src k).caccepted.map (fun x => deltaS x.2)) ++ "]"
    else "[" ++ ",".intercalate ((sE.src k).accepted.map (fun x => toString x.2)) ++ "]"))
  let del := "/".intercalate ((List.range sys.n).map (fun k =>
    if isDict (sys.cfg k) then
      "[" ++ " ".intercalate ((sE.src k).cdelivered.map (fun d => s!"{d.1 + 1000}:{dictS d.2.2}")) ++ "]"
    else "[" ++ " ".intercalate ((sE.src k).delivered.map (fun d => s!"{d.1 + 1000}:{valsS (sys.cfg k) d.2}")) ++ "]"))
  " | ".intercalate (r.2.2 ++ [s!"end{tail} accepted={acc} delivered={del}"])

def parseCfgs : List String → Option (List Cfg)
  | [] => some []
  | c :: p :: rest =>
    if !allDigits c then none else
    match c.toNat?, p, parseCfgs rest with
    | some c, "q", some l => some ({ cap := c, policy := .queue } :: l)
    | some c, "b", some l => some ({ cap := c, policy := .burst } :: l)
    | some c, "c", some l => some ({ cap := c, policy := .conflating } :: l)
    | some c, "d", some l => some ({ cap := c, policy := .conflating, dict := true } :: l)
    | _, _, _ => none
  | _ => none

def step' (d : DS) (ws : List String) : DS × String :=
  match ws with
  | ["case", n] => ({}, s!"case {n}")
  | "cfgn" :: rest =>
    match parseCfgs rest with
    | some l =>
      if l.length ≥ 1 && l.length ≤ 3 then ({ d with sys := { n := l.length, cfg := fun k => l.getD k {} } }, "ok")
      else (d, "bad-op")
    | none => (d, "bad-op")
  | "sched" :: steps => if steps.all (validStep d.sys) then (d, runSched d.sys steps) else (d, "bad-op")
  | [] => (d, "")
  | _ => (d, "bad-op")

def main : IO Unit := HgVerif.Driver.run ({} : DS) step'
