import HgVerif.Model.PushQueue
import HgVerif.Driver.Proto
/-! Model driver for C16: same line protocol as `harness/drv_push.cpp`.  Every schedule step is
    the composition, in program order, of the model's atomic steps of one thread. -/
open HgVerif.PushQueue HgVerif.Driver

structure DS where
  cfg : Cfg := {}

def stepD (cfg : Cfg) (s : St) (l : Label) : St := (step cfg s l).getD s

def b2 (b : Bool) : String := if b then "1" else "0"

/-- the last returned result of producer `i` -/
def lastResult (s : St) (i : Nat) : String :=
  match (s.results.filter (fun r => r.1 == i)).getLast? with
  | some (_, _, _, .accepted) => "1"
  | some _ => "0"
  | none => "?"

def stopped (s : St) : Bool := s.started && !s.accepting

def pendS (s : St) : String :=
  let n := if !s.started || stopped s then 0 else s.deque.length
  s!" p{n} f{b2 s.flag}"

/-- blocked senders (in blocking order) whose wait predicate holds complete: wake, then mark -/
def settle (cfg : Cfg) : Nat → St → List (Nat × Nat) → String → St × List (Nat × Nat) × String
  | 0, s, bl, out => (s, bl, out)
  | fuel + 1, s, bl, out =>
    match bl.find? (fun _ => !s.accepting || !full cfg s) with
    | none => (s, bl, out)
    | some (i, v) =>
      let s1 := stepD cfg s (.wake i)
      let s2 := match s1.pcs i with
        | .admitted _ _ _ => stepD cfg s1 (.mark i)
        | _ => s1
      settle cfg fuel s2 (bl.filter (fun x => x.1 != i)) (out ++ s!" +b{i}:{v}={lastResult s2 i}")

def valsS (cfg : Cfg) (vs : List (Nat × Nat)) : String :=
  match cfg.policy with
  | .burst => "[" ++ ",".intercalate (vs.map (fun x => toString x.2)) ++ "]"
  | _ => ",".intercalate (vs.map (fun x => toString x.2))

def parseSend (t : String) : Option (Bool × Nat × Nat) :=
  match t.toList with
  | c :: rest =>
    if c == 't' || c == 'b' then
      match (String.ofList rest).splitOn ":" with
      | [a, b] => if a.isEmpty || b.isEmpty || !a.all Char.isDigit || !b.all Char.isDigit then none else
          match a.toNat?, b.toNat? with
          | some i, some v => some (c == 'b', i, v)
          | _, _ => none
      | _ => none
    else none
  | [] => none

def plainOk (t : String) : Bool :=
  t == "S" || t == "c" || t == "r" || t == "X" || (parseSend t).isSome

/-- split `outer{inner}` -/
def splitNest (t : String) : String × Option String :=
  match t.splitOn "{" with
  | [o, i] => if i.endsWith "}" then (o, some ((i.dropEnd 1).toString)) else (t, none)
  | _ => (t, none)

def validStep (t : String) : Bool :=
  match splitNest t with
  | (o, none) => !t.contains '{' && !t.contains '}' && plainOk o
  | (o, some i) =>
    plainOk i && !i.contains '{' && !i.contains '}' &&
    (if o == "c" then i.startsWith "t" else (o.startsWith "t" || o.startsWith "b") && plainOk o && (i == "c" || i == "r"))

/-- a whole evaluation cycle; `inner` runs between the pop and the re-arm -/
def doCycle (cfg : Cfg) (s : St) (inner : St → St × String) (nested : Bool) : St × String :=
  if !s.started || stopped s || s.closing || s.stopReq then (s, "c:-" ++ (if nested then "{-}" else ""))
  else
    let s1 := stepD cfg s (.beginCycle 0)
    let t := s1.time
    let vals (x : St) : String :=
      let vs := (x.delivered.filter (fun d => d.1 == t)).map (fun d => valsS cfg d.2)
      if vs.isEmpty then "-" else ",".intercalate vs
    match s1.cpc with
    | .reset =>
      let s2 := stepD cfg s1 .pop
      let r := if nested then inner s2 else (s2, "")
      let s3 := stepD cfg r.1 .rearm
      (s3, s!"c{t + 1000}:{vals s2}" ++ (if nested then "{" ++ r.2 ++ "}" else ""))
    | _ => (s1, s!"c{t + 1000}:{vals s1}" ++ (if nested then "{-}" else ""))

/-- a whole send by producer `i`; `inner` runs between the admission and the mark -/
def doSend (cfg : Cfg) (s : St) (bl : List (Nat × Nat)) (t : String) (blocking : Bool) (i v : Nat)
    (inner : St → St × String) (nested : Bool) : St × List (Nat × Nat) × String :=
  if bl.any (fun x => x.1 == i) then (s, bl, t ++ "=busy" ++ (if nested then "{-}" else "")) else
  let k := if blocking then SendKind.blocking else SendKind.try_
  let s1 := stepD cfg s (.enter i k v)
  let s2 := match s1.pcs i with | .entered _ _ => stepD cfg s1 (.check i) | _ => s1
  let s3 := match s2.pcs i with | .checked _ _ => stepD cfg s2 (.admitQ i) | _ => s2
  match s3.pcs i with
  | .blocked _ => (s3, bl ++ [(i, v)], t ++ "=B" ++ (if nested then "{-}" else ""))
  | .admitted _ _ _ =>
    let r := if nested then inner s3 else (s3, "")
    let s4 := stepD cfg r.1 (.mark i)
    (s4, bl, t ++ "=" ++ lastResult s4 i ++ (if nested then "{" ++ r.2 ++ "}" else ""))
  | _ => (s3, bl, t ++ "=" ++ lastResult s3 i ++ (if nested then "{-}" else ""))

def noInner (s : St) : St × String := (s, "")

def runSched (cfg : Cfg) (steps : List String) : String :=
  let fuel := steps.length + 4
  let r := steps.foldl (fun (acc : St × List (Nat × Nat) × List String) full =>
    let s := acc.1
    let bl := acc.2.1
    let (t, innerTok) := splitNest full
    let nested := innerTok.isSome
    let it := innerTok.getD ""
    -- the nested step, executed at the protocol point (no parked senders are involved)
    let inner : St → St × String := fun x =>
      if it == "c" then let r := doCycle cfg x noInner false; (r.1, r.2 ++ pendS r.1)
      else if it == "r" then let x' := stepD cfg x .reqStop; (x', "r" ++ pendS x')
      else match parseSend it with
        | some (_, i, v) => let r := doSend cfg x [] it false i v noInner false; (r.1, r.2.2 ++ pendS r.1)
        | none => (x, "?")
    let (s', bl', line) : St × List (Nat × Nat) × String :=
      if t == "S" then
        if s.started then (s, bl, t ++ "=-") else (stepD cfg s .start, bl, t)
      else if t == "c" then
        let r := doCycle cfg s inner nested; (r.1, bl, r.2)
      else if t == "r" then (stepD cfg s .reqStop, bl, t)
      else if t == "X" then
        if !s.started || stopped s then (s, bl, t ++ "=-")
        else (stepD cfg (stepD cfg s .closeBegin) .queueStop, bl, t)
      else match parseSend t with
        | some (blocking, i, v) => doSend cfg s bl t blocking i v inner nested
        | none => (s, bl, t ++ "=?")
    let (s'', bl'', line') := settle cfg fuel s' bl' line
    (s'', bl'', acc.2.2 ++ [line' ++ pendS s''])) (({} : St), [], [])
  let s := r.1
  let (sE, _, tail) :=
    if s.started && !stopped s then
      settle cfg fuel (stepD cfg (stepD cfg s .closeBegin) .queueStop) r.2.1 ""
    else settle cfg fuel s r.2.1 ""
  let acc := ",".intercalate (sE.accepted.map (fun x => toString x.2))
  let del := " ".intercalate (sE.delivered.map (fun d => s!"{d.1 + 1000}:{valsS cfg d.2}"))
  " | ".intercalate (r.2.2 ++ [s!"end{tail} accepted=[{acc}] delivered=[{del}]"])

def step' (d : DS) (ws : List String) : DS × String :=
  match ws with
  | ["case", n] => ({}, s!"case {n}")
  | ["cfg", c, p] =>
    match c.toNat?, p with
    | some c, "q" => ({ d with cfg := { cap := c, policy := .queue } }, "ok")
    | some c, "b" => ({ d with cfg := { cap := c, policy := .burst } }, "ok")
    | some c, "c" => ({ d with cfg := { cap := c, policy := .conflating } }, "ok")
    | _, _ => (d, "bad-op")
  | "sched" :: steps => if steps.all validStep then (d, runSched d.cfg steps) else (d, "bad-op")
  | [] => (d, "")
  | _ => (d, "bad-op")

def main : IO Unit := HgVerif.Driver.run ({} : DS) step'
