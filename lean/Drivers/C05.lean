import HgVerif.Model.Slots
import HgVerif.Model.SlotsGrow
import HgVerif.Driver.Proto
/-! Model driver for C05: same line protocol as `harness/drv_slots.cpp`.
The key type token of the case header (`tss:date`, `tsd:i32`, ...) is accepted and ignored: the model is
key-type independent (keys are `Int`; the C++ driver prints narrow keys through a fixed bijection). -/
open HgVerif.Slots HgVerif.Driver
local notation "Time" => Nat

inductive Obj where
  | none
  | tss (x : TSS)
  | tsd (x : TSD)
  | tsw (w : Win)
  | tsl (x : Fixed)

def insSorted (le : α → α → Bool) (a : α) : List α → List α
  | [] => [a]
  | x :: xs => if le a x then a :: x :: xs else x :: insSorted le a xs

def sortBy (le : α → α → Bool) (l : List α) : List α := l.foldl (fun acc a => insSorted le a acc) []

def brack (items : List String) : String := "[" ++ ",".intercalate items ++ "]"
def keysStr (l : List Key) : String := brack ((sortBy (fun a b => decide (a ≤ b)) l).map toString)
def itemsStr (l : List (Key × String)) : String :=
  brack ((sortBy (fun (a b : Key × String) => decide (a.1 ≤ b.1)) l).map fun p => s!"{p.1}:{p.2}")
def natsStr (l : List Nat) : String := brack (l.map toString)

/-- the keys named by a dump (`cands`) that pass `contains()` -/
def containedStr (has : Key → Bool) (cands : List Key) : String :=
  keysStr ((cands.filter has).eraseDups)

/-- `tss` / `tsd` with an optional key type token -/
def kindOf (w : String) : Option String :=
  match w.splitOn ":" with
  | [k] => if k == "tss" || k == "tsd" then some k else none
  | [k, ty] => if (k == "tss" || k == "tsd") && (ty == "i64" || ty == "i32" || ty == "date" || ty == "f32") then some k else none
  | _ => none

/-- narrow keys are limited to |n| < 2^24 by the C++ driver; the model accepts every integer, so the generator
    stays inside that range for all key types -/
def dumpTss (x : TSS) (t : Time) : String :=
  let v := keysStr x.value
  let c := containedStr x.contains (x.value ++ x.addedAt t ++ x.removedAt t)
  let d := if x.modifiedAt t then
      s!"a{keysStr (addedKeysRaw x.keys.slots)}r{keysStr (removedKeysRaw x.keys.slots)}" else "none"
  s!"lmt={x.lmt} mod={b2s (x.modifiedAt t)} valid={b2s (x.lmt != 0)} n={x.keys.size} v={v} a={keysStr (x.addedAt t)} r={keysStr (x.removedAt t)} c={c} vv={v} d={d}"

def childStr (s : Slot) : String := if s.clmt != 0 then toString s.cval else "-"

def dumpTsd (x : TSD) (t : Time) : String :=
  let sl := x.keys.slots
  let live := sl.filter (fun s => s.st == .live)
  let v := itemsStr (x.validItems.map fun p => (p.1, toString p.2))
  let inv := keysStr ((live.filter (fun s => s.clmt == 0)).map (·.key))
  let modKeys := (modifiedItemsRaw sl).map (·.1)
  let m := keysStr (if x.modifiedAt t then modKeys else [])
  let mi := itemsStr (if x.modifiedAt t then (sl.filter (fun s => s.st == .live && s.modified)).map (fun s => (s.key, childStr s)) else [])
  let ri := itemsStr (if x.structAt t then (sl.filter (fun s => s.st != .free && s.removed)).map (fun s => (s.key, childStr s)) else [])
  let ksMod := t != 0 && x.keySetLmt == t
  let kv := keysStr (liveKeys sl)
  let ka := keysStr (if ksMod then addedKeysRaw sl else [])
  let kr := keysStr (if ksMod then removedKeysRaw sl else [])
  let vv := itemsStr (live.map fun s => (s.key, toString s.cval))
  let c := containedStr x.contains (liveKeys sl ++ x.addedAt t ++ x.removedAt t)
  let d := if x.modifiedAt t then
      s!"r{keysStr (removedKeysRaw sl)}m{itemsStr ((modifiedItemsRaw sl).map fun p => (p.1, toString p.2))}" else "none"
  s!"lmt={x.lmt} mod={b2s (x.modifiedAt t)} valid={b2s (x.lmt != 0)} n={x.keys.size} v={v} inv={inv} a={keysStr (x.addedAt t)} r={keysStr (x.removedAt t)} m={m} mi={mi} ri={ri} klmt={x.keySetLmt} kv={kv} ka={ka} kr={kr} c={c} vv={vv} d={d}"

def dumpTsw (w : Win) (t : Time) : String :=
  let modif := t != 0 && w.lmt == t
  let ev := if t != 0 && w.evictedTime == t then (match w.evicted with | some v => toString v | none => "-") else "-"
  let clearedTime := if w.evicted.isSome then 0 else w.evictedTime
  let clr := t != 0 && clearedTime == t
  let d := if modif && w.size != 0 then toString (w.elemAt (w.size - 1)).1 else "none"
  s!"lmt={w.lmt} mod={b2s modif} valid={b2s w.valid} allvalid={b2s w.allValid} n={w.size} full={b2s w.full} v={brack (w.values.map toString)} times={brack (w.times.map toString)} ev={ev} clr={b2s clr} d={d}"

def dumpTsl (x : Fixed) (t : Time) : String :=
  let idx := (List.range x.kids.length).map fun i => (i, x.kids.getD i (0, 0))
  let v := (idx.filter fun p => p.2.2 != 0).map fun p => s!"{p.1}:{p.2.1}"
  let vv := x.kids.map fun p => toString p.1
  let m := (idx.filter fun p => t != 0 && p.2.2 == t).map fun p => s!"{p.1}:{p.2.1}"
  let d := if x.modifiedAt t then brack ((idx.filter fun p => p.2.2 == x.lmt).map fun p => s!"{p.1}:{p.2.1}") else "none"
  let allv := x.lmt != 0 && x.kids.all (fun p => p.2 != 0)
  s!"lmt={x.lmt} mod={b2s (x.modifiedAt t)} valid={b2s (x.lmt != 0)} allvalid={b2s allv} n={x.kids.length} v={brack v} vv={brack vv} m={brack m} d={d}"

def slotsStr (sl : List Slot) (withMod : Bool) : String :=
  let idx := (List.range sl.length).map fun i => (i, sget sl i)
  let occ := (idx.filter fun p => p.2.st != .free).map fun p =>
    s!"{p.1}:{p.2.key}{if p.2.st == .live then "L" else "P"}"
  let a := (idx.filter fun p => p.2.added).map (·.1)
  let r := (idx.filter fun p => p.2.removed).map (·.1)
  let m := (idx.filter fun p => p.2.modified).map (·.1)
  s!"cap={sl.length} s={brack occ} A={natsStr a} R={natsStr r}" ++ (if withMod then s!" M={natsStr m}" else "")

def step (o : Obj) (ws : List String) : Obj × String :=
  match o, ws with
  | _, ["case", n] => (.none, s!"case {n}")
  | _, ["tss"] => (.tss {}, "ok")
  | _, ["tsd"] => (.tsd {}, "ok")
  | _, ["tsw", p, m] =>
    match p.toNat?, m.toNat? with
    | some p, some m => if p == 0 then (o, "bad-op") else (.tsw (Win.init p m), "ok")
    | _, _ => (o, "bad-op")
  | _, ["tsl", n] =>
    match n.toNat? with
    | some n => if n == 0 || n > 64 then (o, "bad-op") else (.tsl (Fixed.init n), "ok")
    | none => (o, "bad-op")
  | .tsl x, ["lset", t, i, v] =>
    match t.toNat?, i.toNat?, v.toInt? with
    | some t, some i, some v =>
      if i ≥ x.kids.length then (o, "err:range")
      else if t == 0 then (o, "err:invalid-arg")
      else (.tsl (x.write i t v), "ok")
    | _, _, _ => (o, "bad-op")
  | .tsl x, ["dump", t] =>
    match t.toNat? with
    | some t => (o, dumpTsl x t)
    | none => (o, "bad-op")
  | .tsl _, ["slots"] => (o, "-")
  | .tss x, [op, t, k] =>
    match t.toNat?, k.toInt? with
    | some t, some k =>
      if op == "add" || op == "rem" then
        if t == 0 then (o, "err:invalid-arg")
        else
          let r := if op == "add" then x.add t k else x.remove t k
          (.tss r.1, b2s r.2)
      else if op == "has" then (o, b2s (x.contains k))
      else if op == "reserve" then
        match k.toNat? with
        | some cap => if cap > 4096 then (o, "bad-op") else
          if t == 0 then (o, "err:invalid-arg") else (.tss (x.stepG (.reserve t cap)), "ok")
        | none => (o, "bad-op")
      else (o, "bad-op")
    | _, _ => (o, "bad-op")
  | .tss x, [op, t] =>
    match t.toNat? with
    | some t =>
      if op == "clear" || op == "touch" then
        if t == 0 then (o, "err:invalid-arg")
        else (.tss (if op == "clear" then x.clear t else x.touchOp t), "ok")
      else if op == "dump" then (o, dumpTss x t)
      else (o, "bad-op")
    | none => (o, "bad-op")
  | .tss x, ["slots"] => (o, slotsStr x.keys.slots false)
  | .tsd x, ["set", t, k, v] =>
    match t.toNat?, k.toInt?, v.toInt? with
    | some t, some k, some v => if t == 0 then (o, "err:invalid-arg") else (.tsd (x.set t k v), "ok")
    | _, _, _ => (o, "bad-op")
  | .tsd x, [op, t, k] =>
    match t.toNat?, k.toInt? with
    | some t, some k =>
      if op == "at" then
        if t == 0 then (o, "err:invalid-arg") else (.tsd (x.at t k).1, "ok")
      else if op == "erase" then
        if t == 0 then (o, "err:invalid-arg")
        else let r := x.erase t k; (.tsd r.1, b2s r.2)
      else if op == "has" then (o, b2s (x.contains k))
      else if op == "reserve" then
        match k.toNat? with
        | some cap => if cap > 4096 then (o, "bad-op") else
          if t == 0 then (o, "err:invalid-arg") else (.tsd (x.stepG (.reserve t cap)), "ok")
        | none => (o, "bad-op")
      else (o, "bad-op")
    | _, _ => (o, "bad-op")
  | .tsd x, [op, t] =>
    match t.toNat? with
    | some t =>
      if op == "clear" || op == "touch" then
        if t == 0 then (o, "err:invalid-arg")
        else (.tsd (if op == "clear" then x.clear t else x.touchOp t), "ok")
      else if op == "dump" then (o, dumpTsd x t)
      else (o, "bad-op")
    | none => (o, "bad-op")
  | .tsd x, ["slots"] => (o, slotsStr x.keys.slots true)
  | .tsw w, [op, t, v] =>
    match t.toNat?, v.toInt? with
    | some t, some v =>
      let wo := if op == "push" then some (WinOp.push t v) else if op == "wclearpush" then some (WinOp.clearPush t v) else none
      match wo with
      | some wo =>
        match w.step wo with
        | .ok w' => (.tsw w', "ok")
        | .error .invalidArg => (o, "err:invalid-arg")
        | .error .logic => (o, "err:logic")
      | none => (o, "bad-op")
    | _, _ => (o, "bad-op")
  | .tsw w, [op, t] =>
    match t.toNat? with
    | some t =>
      if op == "wclear" then
        match w.step (.clear t) with
        | .ok w' => (.tsw w', "ok")
        | .error .invalidArg => (o, "err:invalid-arg")
        | .error .logic => (o, "err:logic")
      else if op == "dump" then (o, dumpTsw w t)
      else (o, "bad-op")
    | none => (o, "bad-op")
  | .tsw _, ["slots"] => (o, "-")
  | _, [] => (o, "")
  | _, [w] =>
    match kindOf w with
    | some "tss" => (.tss {}, "ok")
    | some "tsd" => (.tsd {}, "ok")
    | _ => (o, "bad-op")
  | _, _ => (o, "bad-op")

def main : IO Unit := run Obj.none step
