import HgVerif.Model.TimeWindow
import HgVerif.Driver.Proto
/-! Model driver for the duration-window part of C05: same line protocol as `harness/drv_twindow.cpp`. -/
open HgVerif.TimeWindow HgVerif.Driver

def brack (items : List String) : String := "[" ++ ",".intercalate items ++ "]"

def dumpTw (w : TWin) (t : Nat) : String :=
  let pairs := brack (w.content.map fun e => s!"{e.1}@{e.2}")
  let ev := match w.removedAt t with | some v => toString v | none => "-"
  let d := match w.deltaAt t with | some v => toString v | none => "none"
  s!"lmt={w.lmt} mod={b2s (w.modifiedAt t)} valid={b2s w.valid} allvalid={b2s w.allValid} n={w.size} w={pairs} vv={brack (w.values.map toString)} vr={pairs} fmt={w.firstModifiedTime} ev={ev} clr={b2s (w.clearedAt t)} d={d}"

def result (o : Option TWin) (r : Except TWErr TWin) : Option TWin × String :=
  match r with
  | .ok w' => (some w', "ok")
  | .error .invalidArg => (o, "err:invalid-arg")
  | .error .logic => (o, "err:logic")

/-- naturals as the C++ driver accepts them: digits only, at most 15 of them -/
def nat? (s : String) : Option Nat := if s.length > 15 then none else s.toNat?
def int? (s : String) : Option Int :=
  if (s.startsWith "-" && s.length > 16) || (!s.startsWith "-" && s.length > 15) then none else s.toInt?

def step (o : Option TWin) (ws : List String) : Option TWin × String :=
  match o, ws with
  | _, ["case", n] => (none, s!"case {n}")
  | _, ["twin", s, m] =>
    match nat? s, nat? m with
    | some s, some m => (some (TWin.init s m), "ok")
    | _, _ => (o, "bad-op")
  | some w, [op, t, v] =>
    match nat? t, int? v with
    | some t, some v =>
      if op == "push" then result o (w.step (.push t v))
      else if op == "wclearpush" then result o (w.step (.clearPush t v))
      else (o, "bad-op")
    | _, _ => (o, "bad-op")
  | some w, [op, t] =>
    match nat? t with
    | some t =>
      if op == "wclear" then result o (w.step (.clear t))
      else if op == "dump" then (o, dumpTw w t)
      else (o, "bad-op")
    | none => (o, "bad-op")
  | some w, ["cap"] => (o, s!"cap={w.cap}")
  | _, [] => (o, "")
  | _, _ => (o, "bad-op")

def main : IO Unit := run (none : Option TWin) step
