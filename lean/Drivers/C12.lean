import HgVerif.Model.Switch
import HgVerif.Driver.Proto
/-! Model driver for C12: same line protocol as `harness/drv_switch.cpp`.

The switch node (`cycle`, `evaluate`, `activate`, `childEval`, `shutdown`) is the model the theorems
of `Props/C12.lean` are about; the driver adds only the branch vocabulary of the harness as concrete
`Branch` values over one state record, the parsing and the printing. -/
open HgVerif.Switch HgVerif.Driver

/-- State of a vocabulary branch: two counters and the wake-up it has pending. -/
structure St where
  a : Int := 0
  b : Int := 0
  pend : Option Nat := none

def pv (v : List Port) (i : Nat) : Int := ((v.getD i Port.absent).value).getD 0
def pt (v : List Port) (i : Nat) : Bool := (v.getD i Port.absent).ticked
def pvalid (v : List Port) (i : Nat) : Bool := ((v.getD i Port.absent).value).isSome

def plain (name : String) (binds : List Nat) (f : St → List Port → St × Int) : Branch St :=
  { name := name, binds := binds, validInputs := none, init := {},
    start := fun _ s => (s, none),
    step := fun s _ v _ => let r := f s v; (r.1, some r.2, none) }

/-- the value of view position `i`, `-1` when it is not valid -/
def pq (v : List Port) (i : Nat) : Int := ((v.getD i Port.absent).value).getD (-1)

/-- one node bound to several boundary inputs: `passive` positions of `binds`, validity gate `valid` -/
def mixed (name : String) (binds passive : List Nat) (valid : Option (List Nat)) (f : List Port → Int) : Branch St :=
  { name := name, binds := binds, validInputs := valid, init := {}, passive := passive,
    start := fun _ s => (s, none),
    step := fun s _ v _ => (s, some (f v), none) }

def timerStep (yIdx : Option Nat) (s : St) (now : Nat) (v : List Port) (woken : Bool) : St × Option Int × Option Nat :=
  let y := match yIdx with
    | some i => pv v i * 1000
    | none => 0
  if pt v 0 then
    ({ a := pv v 0, b := 2, pend := some (now + 2) }, some (pv v 0 * 10 + y), some (now + 2))
  else if woken || yIdx.isNone then
    let b' := s.b - 1
    let w := if b' > 0 then some (now + 2) else none
    ({ s with b := b', pend := w }, some (s.a * 10 + s.b + y), w)
  else (s, some y, s.pend)

def branchOf (name : String) : Option (Nat × Branch St) :=
  match name with
  | "beat" => some (0, { name := "beat", binds := [], validInputs := none, init := {},
                         start := fun now s => (s, some now),
                         step := fun s now _ _ =>
                           let a := s.a + 1
                           ({ s with a := a }, some (100 + a), if a < 3 then some (now + 2) else none) })
  | "keyonly" => some (0, plain "keyonly" [0] fun s v => (s, pv v 0 * 2))
  | "inc" => some (1, plain "inc" [1] fun s v => (s, pv v 0 + 1))
  | "sum" => some (1, plain "sum" [1] fun s v => let a := s.a + pv v 0; ({ s with a := a }, a))
  | "keyadd" => some (1, plain "keyadd" [0, 1] fun s v => (s, pv v 0 + pv v 1))
  | "timer" => some (1, { name := "timer", binds := [1], validInputs := none, init := {},
                          start := fun _ s => (s, none), step := timerStep none })
  | "dbl1" => some (1, plain "dbl1" [1] fun s v => (s, pv v 0 * 2 + 1))
  | "add2" => some (2, plain "add2" [1, 2] fun s v => (s, pv v 0 + pv v 1))
  | "keyadd2" => some (2, plain "keyadd2" [0, 1, 2] fun s v => (s, pv v 0 + pv v 1 + pv v 2))
  | "sum2" => some (2, { name := "sum2", binds := [1, 2], validInputs := some [], init := {},
                         start := fun _ s => (s, none),
                         step := fun s _ v _ =>
                           let a := s.a + (if pvalid v 0 && pt v 0 then pv v 0 else 0) + (if pvalid v 1 && pt v 1 then pv v 1 else 0)
                           ({ s with a := a }, some a, none) })
  | "timer2" => some (2, { name := "timer2", binds := [1, 2], validInputs := none, init := {},
                           start := fun _ s => (s, none), step := timerStep (some 1) })
  | "pecho" => some (1, mixed "pecho" [1] [0] none fun v => pv v 0)
  | "kpx" => some (1, mixed "kpx" [0, 1] [0] none fun v => pv v 0 * 1000 + pv v 1)
  | "kxp" => some (1, mixed "kxp" [0, 1] [1] none fun v => pv v 0 * 1000 + pv v 1)
  | "gadd" => some (2, mixed "gadd" [1, 2] [0] none fun v => pv v 0 * 100 + pv v 1)
  | "gaddr" => some (2, mixed "gaddr" [1, 2] [1] none fun v => pv v 0 * 100 + pv v 1)
  | "pp2" => some (2, mixed "pp2" [1, 2] [0, 1] none fun v => pv v 0 * 100 + pv v 1)
  | "orelse" => some (2, mixed "orelse" [1, 2] [] (some [1]) fun v => pq v 0 * 100 + pv v 1)
  | "orelser" => some (2, mixed "orelser" [1, 2] [] (some [0]) fun v => pv v 0 * 100 + pq v 1)
  | "uap2" => some (2, mixed "uap2" [1, 2] [1] (some [1]) fun v => pq v 0 * 100 + pv v 1)
  | "usum2p" => some (2, mixed "usum2p" [1, 2] [0] (some []) fun v => pq v 0 * 100 + pq v 1)
  | "kgadd" => some (2, mixed "kgadd" [0, 1, 2] [0, 1] none fun v => pv v 0 * 10000 + pv v 1 * 100 + pv v 2)
  | "kmid" => some (2, mixed "kmid" [0, 1, 2] [0, 2] none fun v => pv v 0 * 10000 + pv v 1 * 100 + pv v 2)
  | "add3" => some (3, mixed "add3" [1, 2, 3] [] none fun v => pv v 0 + pv v 1 + pv v 2)
  | "g3" => some (3, mixed "g3" [1, 2, 3] [0] (some [0, 2]) fun v => pv v 0 * 10000 + pq v 1 * 100 + pv v 2)
  | "g3l" => some (3, mixed "g3l" [1, 2, 3] [0, 1] none fun v => pv v 0 * 10000 + pv v 1 * 100 + pv v 2)
  | _ => none

structure DS where
  cfg : Cfg St := { cases := [], dflt := none, reload := false }
  nin : Nat := 1
  bad : Bool := true
  run : Run St := {}
  now : Nat := 1            -- MIN_ST

def canonInt (s : String) : Option Int :=
  match s.toInt? with
  | some v => if toString v == s then some v else none
  | none => none

def parseCases (nin : Nat) : List String → Option (List (Key × Branch St))
  | [] => some []
  | w :: rest =>
    match w.splitOn "=" with
    | [k, b] => do
      let kv ← canonInt k
      let (n, br) ← branchOf b
      if n != nin then none
      let r ← parseCases nin rest
      if r.any (fun c => c.1 == kv) then none
      pure ((kv, br) :: r)
    | _ => none

def parseCfg (ws : List String) : Option (Nat × Cfg St) :=
  match ws with
  | kt :: rl :: df :: ni :: cs => do
    if kt != "int" && kt != "str" then none
    let reload ← if rl == "0" then some false else if rl == "1" then some true else none
    let nin ← if ni == "0" then some 0 else if ni == "1" then some 1 else if ni == "2" then some 2
      else if ni == "3" then some 3 else none
    let dflt ← if df == "-" then some none else
      match branchOf df with
      | some (n, br) => if n == nin then some (some br) else none
      | none => none
    let cases ← parseCases nin cs
    if cases.isEmpty && dflt.isNone then none
    pure (nin, { cases := cases, dflt := dflt, reload := reload })
  | _ => none

structure CycP where
  k : Option Int := none
  x : Option Int := none
  y : Option Int := none
  z : Option Int := none

def parseCyc (nin : Nat) : List String → CycP → Option CycP
  | [], c => some c
  | n :: v :: rest, c => do
    let val ← canonInt v
    if n == "k" && c.k.isNone then parseCyc nin rest { c with k := some val }
    else if n == "x" && c.x.isNone && nin ≥ 1 then parseCyc nin rest { c with x := some val }
    else if n == "y" && c.y.isNone && nin ≥ 2 then parseCyc nin rest { c with y := some val }
    else if n == "z" && c.z.isNone && nin == 3 then parseCyc nin rest { c with z := some val }
    else none
  | _, _ => none

def showEv : Event → String
  | .construct _ _ => "C"
  | .destroy id _ => s!"D{id}"
  | .start id _ name => s!"S{id}:{name}"
  | .stop id _ => s!"X{id}"
  | .eval id _ => s!"E{id}"
  | .user id _ => s!"U{id}"

def showEvs (l : List Event) : String := if l.isEmpty then "-" else ",".intercalate (l.map showEv)

def showOpt (dash : String) (o : Option Int) : String :=
  match o with
  | some v => toString v
  | none => dash

def fresh (d : DS) : DS := { d with run := {}, now := 1 }

def cycleLine (d : DS) (c : CycP) : DS × String :=
  if d.bad then (d, "err:invalid-argument") else
  if d.run.dead then ({ d with now := d.now + 1 }, "dead") else
  let cyc : Cyc := { key := c.k, ins := if d.nin == 0 then [] else if d.nin == 1 then [c.x] else if d.nin == 2 then [c.x, c.y] else [c.x, c.y, c.z] }
  let o := cycle d.cfg d.run d.now cyc
  let d' := { d with run := o.run, now := d.now + 1 }
  match o.err with
  | some .noBranch => (d', s!"err:no-branch ev={showEvs o.events}")
  | some .slotLogic => (d', s!"err:exception ev={showEvs o.events}")
  | none =>
    (d', s!"rec={showOpt "-" o.out} out={showOpt "none" o.run.sw.outVal} ev={showEvs o.events} ngc={o.run.sw.storedGraphs}")

def step (d : DS) (ws : List String) : DS × String :=
  match ws with
  | ["case", n] => ({}, s!"case {n}")
  | "cfg" :: rest =>
    if rest.length < 4 then (fresh d, "bad-op") else
    match parseCfg rest with
    | some (nin, cfg) => ({ cfg := cfg, nin := nin, bad := false }, "ok")
    | none => ({ (fresh d) with bad := true }, "bad-op")
  | "c" :: rest =>
    match parseCyc d.nin rest {} with
    | some c => cycleLine d c
    | none => (fresh d, "bad-op")
  | ["run"] =>
    if d.bad then (fresh d, "err:invalid-argument")
    else (fresh d, s!"end ev={showEvs (shutdown d.run.sw)}")
  | [] => (fresh d, "")
  | _ => (fresh d, "bad-op")

def main : IO Unit := run ({} : DS) step
