import HgVerif.Model.MapNode
import HgVerif.Model.MapNodeRef
import HgVerif.Driver.Proto
/-! Model driver for C10: same line protocol as `harness/drv_map.cpp`.

The map node itself (`MapNode.cycle`: entries, heap, candidates, loop, drains, re-arm) is the
definition the theorems of `Props/C10.lean` are about.  The driver adds the bookkeeping of the
surrounding graph only: the replayed dictionaries, the slot store of the key set (which slot a key
gets, when a removed slot is erased), which children an input tick notifies, and the vocabulary of
mapped functions as `Beh` instances.

Reference-routed child outputs (`evenref`, `flagref`, `bflagref`, `swref`): which children exist and run is
still `MapNode.cycle`; what the evaluated children do to their output elements (`RefOp`s, kept in the child
state) and the owned output dictionary with its delta bookkeeping is `MapNodeRef.refCycle`, the definition the
theorems of `Props/C10Ref.lean` are about. -/
open HgVerif.MapNode HgVerif.Driver
open HgVerif.MapNodeRef (RefOp RefIn refCycle)

/-! ## vocabulary -/

/-- what the child of one key can read in a cycle -/
structure Inp where
  a : Option Int := none        -- a[k] (bound and valid)
  aTick : Bool := false
  b : Option Int := none
  bTick : Bool := false
  z : Option Int := none
  zTick : Bool := false
  nSets : List (Int × Int) := []   -- nest: inner sets / deletes of this cycle
  nDels : List Int := []

/-- output values: an integer, or (nest) an inner dictionary with its delta -/
inductive OV where
  | i (v : Int)
  | d (full : List (Int × Int)) (rem : List Int) (mod : List (Int × Int))

structure CS where
  acc : Int := 0
  echo : Int := 0
  pend : Nat := MAX_DT
  g : Option Int := none
  e : Option Int := none
  inner : List (Int × Int) := []
  routed : Bool := false               -- reference-routed output: the terminal's reference is non-empty
  ops : List (RefOp Int) := []         -- … and what the last evaluation did to the output element

def kvGet (l : List (Int × Int)) (k : Int) : Option Int := (l.find? (·.1 == k)).map (·.2)
def kvSet (l : List (Int × Int)) (k v : Int) : List (Int × Int) :=
  if (kvGet l k).isSome then l.map (fun p => if p.1 == k then (k, v) else p) else l ++ [(k, v)]
def kvDel (l : List (Int × Int)) (k : Int) : List (Int × Int) := l.filter (·.1 != k)

def echoStep (K : Nat) (now : Nat) (i : Inp) (s : CS) : StepRes CS OV Int :=
  if i.aTick then
    match i.a with
    | some v => { st := { s with echo := v + 100, pend := now + K }, out := some (.i v), next := now + K }
    | none => { st := s, next := s.pend }
  else if s.pend == now then { st := { s with pend := MAX_DT }, out := some (.i s.echo), next := MAX_DT }
  else { st := s, next := s.pend }

/-- `if_(cond, a).true` as the child's output: the reference follows the condition whenever the condition
    input is valid; an unchanged non-empty reference does nothing, a new one samples its target -/
def routeStep (cond : Option Int) (a : Option Int) (s : CS) : StepRes CS OV Int :=
  match cond with
  | none => { st := { s with ops := [] } }
  | some f =>
    match (if f != 0 then a else none) with
    | some v => { st := { s with routed := true, ops := if s.routed then [] else [.bind v] } }
    | none => { st := { s with routed := false, ops := [.clear] } }

def sum2 (s : CS) : Int := (s.g.getD 0) + 1000000 * (s.e.getD 0)

def behOf (fn : String) : Beh Int CS Inp OV Int where
  init := fun _ _ _ => {}
  startNext := fun _ now _ => now
  restart := fun _ _ _ s => s
  step := fun k now i s =>
    match fn with
    | "inc" => match i.aTick, i.a with
      | true, some v => { st := s, out := some (.i (v + 1)) }
      | _, _ => { st := s }
    | "acc" => match i.aTick, i.a with
      | true, some v => { st := { s with acc := s.acc + v }, out := some (.i (s.acc + v)) }
      | _, _ => { st := s }
    | "addkey" => match i.aTick, i.a with
      | true, some v => { st := s, out := some (.i (v + 1000 * k)) }
      | _, _ => { st := s }
    | "echo1" => echoStep 1 now i s
    | "echo2" => echoStep 2 now i s
    | "echo3" => echoStep 3 now i s
    | "echov" => echoStep (1 + ((((i.a.getD 0) % 3 + 3) % 3).toNat)) now i s
    | "even" => match i.aTick, i.a with
      | true, some v => if v % 2 == 0 then { st := s, out := some (.i v) } else { st := s }
      | _, _ => { st := s }
    | "neg" => match i.aTick, i.a with
      | true, some v =>
        if v < 0 then { st := s, err := some v }
        else { st := { s with acc := s.acc + v }, out := some (.i (s.acc + v)) }
      | _, _ => { st := s }
    | "negecho" => match i.aTick, i.a with
      | true, some v =>
        -- the guard node throws: the echo node (ranked after it) is not evaluated, its graph slot was
        -- overwritten by this tick's notification, the child's cached next time is what the aborted
        -- scan saw (nothing): the pending echo is dropped
        if v < 0 then { st := { s with pend := MAX_DT }, err := some v, next := MAX_DT }
        else
          let s1 : CS := { s with g := some v, e := some v, echo := v + 100, pend := now + 2 }
          { st := s1, out := some (.i (sum2 s1)), next := now + 2 }
      | _, _ =>
        if s.pend == now then
          let s1 : CS := { s with e := some s.echo, pend := MAX_DT }
          { st := s1, out := some (.i (sum2 s1)), next := MAX_DT }
        else { st := s, next := s.pend }
    | "eguard" => match i.aTick, i.a with
      | true, some v =>
        -- the echo node is ranked BEFORE the guard: it has ticked and armed its wake-up when the guard throws; the
        -- sum node (after the guard) is not evaluated in the failing cycle; the child's wake-up survives
        if v < 0 then { st := { s with e := some v, echo := v + 100, pend := now + 2 }, err := some v, next := now + 2 }
        else
          let s1 : CS := { s with g := some v, e := some v, echo := v + 100, pend := now + 2 }
          { st := s1, out := some (.i (sum2 s1)), next := now + 2 }
      | _, _ =>
        if s.pend == now then
          let s1 : CS := { s with e := some s.echo, pend := MAX_DT }
          { st := s1, out := some (.i (sum2 s1)), next := MAX_DT }
        else { st := s, next := s.pend }
    | "addb" => match i.a, i.z with
      | some v, some z => if i.aTick || i.zTick then { st := s, out := some (.i (v + z)) } else { st := s }
      | _, _ => { st := s }
    | "pair" => match i.a, i.b with
      | some l, some r => if i.aTick || i.bTick then { st := s, out := some (.i (l + 1000 * r)) } else { st := s }
      | _, _ => { st := s }
    | "evenref" => match i.aTick, i.a with
      | true, some v => routeStep (some (if v % 2 == 0 then 1 else 0)) (some v) s
      | _, _ => { st := { s with ops := [] } }
    | "flagref" => routeStep i.b i.a s
    | "bflagref" => routeStep i.z i.a s
    | "swref" => match i.aTick, i.a with
      -- switch_ on the element's own value mod 3; branch 2 never emits: the output keeps the old branch's value
      | true, some v =>
        let r := ((v % 3) + 3) % 3
        { st := { s with ops := if r == 0 then [.bind v] else if r == 1 then [.bind (v + 1000)] else [] } }
      | _, _ => { st := { s with ops := [] } }
    | "nest" =>
      -- inner map_(acc): one running sum per inner key, fresh after an inner remove + re-add
      let dels := i.nDels.filter fun j => (kvGet s.inner j).isSome
      let inner1 := dels.foldl kvDel s.inner
      let step := fun (acc : List (Int × Int) × List (Int × Int)) (jv : Int × Int) =>
        let cur := (kvGet acc.1 jv.1).getD 0
        (kvSet acc.1 jv.1 (cur + jv.2), kvSet acc.2 jv.1 (cur + jv.2))
      let r := i.nSets.foldl step (inner1, [])
      if dels.isEmpty && i.nSets.isEmpty then { st := s }
      else { st := { s with inner := r.1 }, out := some (.d r.1 dels r.2) }
    | _ => { st := s }

/-! ## the surrounding graph -/

structure Cfg where
  fn : String := "inc"
  key : Bool := false
  err : Bool := false

/-- slot store of the key set: live slots, removed-but-not-erased slots -/
structure KS where
  live : List (Nat × Int) := []
  pending : List Nat := []

def KS.slotOf (s : KS) (k : Int) : Option Nat := (s.live.find? (·.2 == k)).map (·.1)
def KS.alloc (s : KS) : Nat :=
  let used := s.live.map (·.1) ++ s.pending
  ((List.range (used.length + 1)).find? (fun i => !used.contains i)).getD used.length

structure DS where
  cfg : Cfg := {}
  bad : Bool := false
  m : M Int CS OV Int := {}
  a : List (Int × Int) := []
  b : List (Int × Int) := []
  na : List (Int × List (Int × Int)) := []   -- nest: the outer dictionary
  aValid : Bool := false
  bValid : Bool := false
  z : Option Int := none
  ks : KS := {}
  outValid : Bool := false
  errValid : Bool := false
  cycle : Nat := 0
  dead : Bool := false         -- an uncaptured child exception ended the run
  rd : HgVerif.MapNodeRef.D Int Int := {}    -- reference-routed outputs: the owned output dictionary

inductive Op where
  | set (k v : Int) | del (k : Int) | bset (k v : Int) | bdel (k : Int) | z (v : Int) | tick
  | nset (k j v : Int) | ndel (k j : Int)

def parseOps : List String → Option (List Op)
  | [] => some []
  | "set" :: k :: v :: rest => do let k ← k.toInt?; let v ← v.toInt?; let r ← parseOps rest; pure (.set k v :: r)
  | "del" :: k :: rest => do let k ← k.toInt?; let r ← parseOps rest; pure (.del k :: r)
  | "bset" :: k :: v :: rest => do let k ← k.toInt?; let v ← v.toInt?; let r ← parseOps rest; pure (.bset k v :: r)
  | "bdel" :: k :: rest => do let k ← k.toInt?; let r ← parseOps rest; pure (.bdel k :: r)
  | "z" :: v :: rest => do let v ← v.toInt?; let r ← parseOps rest; pure (.z v :: r)
  | "tick" :: rest => do let r ← parseOps rest; pure (.tick :: r)
  | "nset" :: k :: j :: v :: rest => do
      let k ← k.toInt?; let j ← j.toInt?; let v ← v.toInt?; let r ← parseOps rest; pure (.nset k j v :: r)
  | "ndel" :: k :: j :: rest => do let k ← k.toInt?; let j ← j.toInt?; let r ← parseOps rest; pure (.ndel k j :: r)
  | _ => none

def insertSorted (x : Int) : List Int → List Int
  | [] => [x]
  | y :: ys => if x ≤ y then x :: y :: ys else y :: insertSorted x ys
def sortInts (l : List Int) : List Int := l.foldl (fun acc x => insertSorted x acc) []
def dedup (l : List Int) : List Int := l.foldl (fun acc x => if acc.contains x then acc else acc ++ [x]) []

def joinC (l : List String) : String := ",".intercalate l

def showOV : OV → String
  | .i v => toString v
  | .d full _ _ => "[" ++ joinC ((sortInts (full.map (·.1))).map fun j => s!"{j}:{(kvGet full j).getD 0}") ++ "]"

def showOVDelta : OV → String
  | .i v => toString v
  | .d _ rem mod =>
    "[" ++ joinC ((sortInts rem).map (fun j => s!"-{j}") ++
                 (sortInts (mod.map (·.1))).map fun j => s!"{j}:{(kvGet mod j).getD 0}") ++ "]"

def findKV {β : Type} (l : List (Int × β)) (k : Int) : Option β := (l.find? (·.1 == k)).map (·.2)

/-- `{-k,..,k=v,..}` -/
def showDelta {β : Type} (rem : List Int) (mod : List (Int × β)) (sh : β → String) : String :=
  "{" ++ joinC ((sortInts (dedup rem)).map (fun k => s!"-{k}") ++
               (sortInts (dedup (mod.map (·.1)))).filterMap fun k => (findKV mod.reverse k).map fun v => s!"{k}={sh v}") ++ "}"

def showEvents (keyed : Bool) (stops starts : List Int) : String :=
  let f := fun (sign : String) (l : List Int) =>
    if keyed then (sortInts l).map (fun k => s!"{sign}{k}") else l.map (fun _ => s!"{sign}?")
  let all := f "-" stops ++ f "+" starts
  if all.isEmpty then "-" else joinC all

def showRuns (keyed : Bool) (l : List Int) : String :=
  if l.isEmpty then "-" else joinC (if keyed then (sortInts l).map toString else l.map fun _ => "?")

/-- value of the map output: every started entry, valid elements with their value, others `_` -/
def showVal (m : M Int CS OV Int) : String :=
  let items := (List.range m.cap).filterMap fun s =>
    match m.ent s with
    | some e => if e.started then some (e.key, e.outv) else none
    | none => none
  "{" ++ joinC ((sortInts (items.map (·.1))).map fun k =>
    match findKV items k with
    | some (some v) => s!"{k}={showOV v}"
    | _ => s!"{k}=_") ++ "}"

def showErrVal (m : M Int CS OV Int) : String :=
  let items := errDict m
  "{" ++ joinC ((sortInts (items.map (·.1))).map fun k => s!"{k}={(findKV items k).getD 0}") ++ "}"

def slotOfStarted (m : M Int CS OV Int) (k : Int) : Option Nat :=
  (List.range m.cap).find? fun s => match m.ent s with | some e => e.started && e.key == k | none => false

def isRef (fn : String) : Bool := ["evenref", "flagref", "bflagref", "swref"].contains fn

def cycleStep (d : DS) (ops : List Op) : DS × String :=
  if d.bad then (d, "err:invalid-argument") else
  if d.dead then (d, "err:exception") else
  let cfg := d.cfg
  let two := cfg.fn == "pair" || cfg.fn == "flagref"
  let bc := cfg.fn == "addb" || cfg.fn == "bflagref"
  -- the element of `a` is only a REFERENCE input of these children: its ticks do not schedule them
  let passiveA := cfg.fn == "flagref" || cfg.fn == "bflagref"
  let nested := cfg.fn == "nest"
  let now := d.cycle + 1
  -- ---- the replayed sources --------------------------------------------------------------------
  let aSets := ops.filterMap fun o => match o with | .set k v => some (k, v) | _ => none
  let aDels := dedup (ops.filterMap fun o => match o with | .del k => some k | _ => none)
  let bSets := ops.filterMap fun o => match o with | .bset k v => some (k, v) | _ => none
  let bDels := dedup (ops.filterMap fun o => match o with | .bdel k => some k | _ => none)
  let nSets := ops.filterMap fun o => match o with | .nset k j v => some (k, j, v) | _ => none
  let nDels := ops.filterMap fun o => match o with | .ndel k j => some (k, j) | _ => none
  let zTick := ops.any fun o => match o with | .z _ => true | _ => false
  let z := ops.foldl (fun acc o => match o with | .z v => some v | _ => acc) d.z
  let aTicked := ops.any fun o => match o with
    | .set .. | .del .. | .tick | .nset .. | .ndel .. => true | _ => false
  -- keys of `a` before / after (nest: keys of the outer dictionary)
  let aKeys0 := if nested then d.na.map (·.1) else d.a.map (·.1)
  let nTouched := dedup (nSets.map (·.1) ++ nDels.map (·.1))
  let aEffDels := aDels.filter fun k => aKeys0.contains k
  let a1 := aSets.foldl (fun l kv => kvSet l kv.1 kv.2) (aEffDels.foldl kvDel d.a)
  let na0 := d.na.filter fun p => !aEffDels.contains p.1
  let na1 := nTouched.foldl (fun (l : List (Int × List (Int × Int))) k =>
      let cur := (findKV l k).getD []
      let cur1 := (nDels.filter (·.1 == k)).foldl (fun c kj => kvDel c kj.2) cur
      let cur2 := (nSets.filter (·.1 == k)).foldl (fun c kjv => kvSet c kjv.2.1 kjv.2.2) cur1
      if (findKV l k).isSome then l.map (fun p => if p.1 == k then (k, cur2) else p) else l ++ [(k, cur2)]) na0
  let aKeys1 := if nested then na1.map (·.1) else a1.map (·.1)
  let aEff := !aSets.isEmpty || !aEffDels.isEmpty || !nTouched.isEmpty
  -- an entirely empty delta validates a dictionary that is not valid yet; a delta that only removes absent
  -- keys changes nothing (and does not validate)
  let aEmpty := aTicked && aSets.isEmpty && aDels.isEmpty && nTouched.isEmpty
  let aMod := aEff || (!d.aValid && aEmpty)
  let aValid := d.aValid || aMod
  let bEffDels := bDels.filter fun k => (kvGet d.b k).isSome
  let b1 := bSets.foldl (fun l kv => kvSet l kv.1 kv.2) (bEffDels.foldl kvDel d.b)
  let bEff := !bSets.isEmpty || !bEffDels.isEmpty
  let bMod := two && bEff
  let bValid := d.bValid || bMod
  -- ---- the key set and its slots ------------------------------------------------------------------
  let keys0 := d.ks.live.map (·.2)
  let keys1 := if two then dedup (aKeys1 ++ b1.map (·.1)) else aKeys1
  let remKeys := keys0.filter fun k => !keys1.contains k
  let addKeys := keys1.filter fun k => !keys0.contains k
  let keysModified := !remKeys.isEmpty || !addKeys.isEmpty
  let storeMutates := if two then keysModified else aMod
  let erased := if storeMutates then d.ks.pending else []
  let ks0 : KS := if storeMutates then { d.ks with pending := [] } else d.ks
  let removed := remKeys.filterMap ks0.slotOf
  let ks1 : KS := { live := ks0.live.filter (fun p => !remKeys.contains p.2), pending := ks0.pending ++ removed }
  let ks2 := addKeys.foldl (fun (s : KS) k => { s with live := s.live ++ [(s.alloc, k)] }) ks1
  let added := addKeys.filterMap fun k => (ks2.slotOf k).map fun s => (s, k)
  let keysValid := aValid || bValid
  -- ---- who is notified ----------------------------------------------------------------------------
  let touchedA := if passiveA then [] else dedup (aSets.map (·.1) ++ aEffDels ++ nTouched)
  let touchedB := if two then dedup (bSets.map (·.1) ++ bEffDels) else []
  let bcast := bc && zTick
  let started0 := (List.range d.m.cap).filterMap fun s =>
    match d.m.ent s with | some e => if e.started then some (s, e.key) else none | none => none
  let notified := started0.filterMap fun p =>
    if bcast || touchedA.contains p.2 || touchedB.contains p.2 then some p.1 else none
  let memberChanged := dedup ((aKeys1.filter fun k => !aKeys0.contains k) ++ aEffDels ++
      (if two then (b1.map (·.1)).filter (fun k => (kvGet d.b k).isNone) ++ bEffDels else []))
  let modSlots := (dedup (aSets.map (·.1) ++ nTouched ++ (if two then bSets.map (·.1) else []) ++ memberChanged)).filterMap ks2.slotOf
  let late := memberChanged.filterMap ks2.slotOf
  let input : Int → Inp := fun k =>
    { a := if nested then none else kvGet a1 k
      aTick := (aSets.any (·.1 == k)) || (nested && nTouched.contains k)
      b := if two then kvGet b1 k else none
      bTick := two && bSets.any (·.1 == k)
      z := if bc then z else none
      zTick := bcast
      nSets := (nSets.filter (·.1 == k)).map (·.2)
      nDels := (nDels.filter (·.1 == k)).map (·.2) }
  let I : CycleIn Int Inp :=
    { now := now, erased := erased, cap := (ks2.live.map (·.1) ++ ks2.pending).foldl (fun acc s => max acc (s + 1)) 0
      keysValid := keysValid, keysModified := keysModified && keysValid
      live := ks2.live, removed := removed, added := added
      bcastModified := bcast, muxModified := aMod || bMod
      modSlots := modSlots, notified := notified, late := late, input := input }
  let r := HgVerif.MapNode.cycle (behOf cfg.fn) cfg.err d.m I
  let o := r.out
  if !o.ok then ({ d with dead := true }, "err:exception") else
  -- ---- reference-routed outputs: the owned output dictionary --------------------------------------
  let routedBefore := fun (k : Int) =>
    started0.any fun p => p.2 == k && (match d.m.ent p.1 with | some e => e.st.routed | none => false)
  let opsOf := fun (k : Int) =>
    ((List.range r.m.cap).findSome? fun s =>
      match r.m.ent s with | some e => if e.started && e.key == k then some e.st.ops else none | none => none).getD []
  let RI : RefIn Int Int :=
    { now := now
      pre := if cfg.fn == "swref" then [] else aSets.filter fun kv => routedBefore kv.1
      removed := o.stopped, added := o.startedK
      evals := o.runs.map fun k => (k, opsOf k) }
  let rd := if isRef cfg.fn then refCycle RI d.rd else d.rd
  let allKeys := dedup (keys0 ++ keys1)
  let refRem := allKeys.filter fun k => HgVerif.MapNodeRef.isRemoved rd now k
  let refMod := keys1.filterMap fun k => (HgVerif.MapNodeRef.modifiedVal rd now k).map fun v => (k, OV.i v)
  let o := if isRef cfg.fn then
      { o with removedOut := refRem, modified := refMod, touched := o.touched || HgVerif.MapNodeRef.ticked rd now }
    else o
  let outValid := d.outValid || o.touched
  let errTouched := !o.errs.isEmpty || !o.removedErr.isEmpty
  let errValid := d.errValid || errTouched
  let rec_ := if o.touched then showDelta o.removedOut o.modified showOVDelta else "-"
  let val := if !outValid then "_" else if isRef cfg.fn then
      "{" ++ joinC ((sortInts keys1).map fun k =>
        match (rd.slot k).val with | some v => s!"{k}={v}" | none => s!"{k}=_") ++ "}"
    else showVal r.m
  let line := s!"rec={rec_} val={val} ev={showEvents cfg.key o.stopped o.startedK} run={showRuns cfg.key o.runs}" ++
    s!" act={activeCount r.m} cg={childGraphCount r.m}" ++
    (if cfg.err then
      let erec := if errTouched then showDelta o.removedErr o.errs (fun (v : Int) => toString v) else "-"
      s!" erec={erec} eval={if errValid then showErrVal r.m else "_"}"
     else "")
  ({ d with m := r.m, a := a1, b := b1, na := na1, aValid := aValid, bValid := bValid, z := z, ks := ks2,
            outValid := outValid, errValid := errValid, cycle := d.cycle + 1, rd := rd }, line)

def fnKnown (f : String) : Bool :=
  ["inc", "acc", "addkey", "echo1", "echo2", "echo3", "echov", "even", "neg", "negecho", "eguard", "addb", "pair", "nest",
   "evenref", "flagref", "bflagref", "swref"].contains f

def reset (d : DS) : DS := { cfg := d.cfg, bad := d.bad }

def endLine (d : DS) : String :=
  if d.bad then "err:invalid-argument" else if d.dead then "err:exception" else
  let keys := (List.range d.m.cap).filterMap fun s =>
    match d.m.ent s with | some e => if e.started then some e.key else none | none => none
  "end ev=" ++ showEvents d.cfg.key keys []

def step (d : DS) (ws : List String) : DS × String :=
  match ws with
  | ["case", n] => ({}, s!"case {n}")
  | ["cfg", f, k, e] =>
    let ok := fnKnown f && (k == "0" || k == "1") && (e == "0" || e == "1") &&
              !(f == "addkey" && k == "0") && !(f == "nest" && e == "1")
    if ok then ({ cfg := { fn := f, key := k == "1", err := e == "1" } }, "ok")
    else ({ cfg := d.cfg, bad := true }, "bad-op")
  | "c" :: rest =>
    match parseOps rest with
    | some ops => cycleStep d ops
    | none => (reset d, "bad-op")
  | ["run"] => (reset d, endLine d)
  | [] => (reset d, "")
  | _ => (reset d, "bad-op")

def main : IO Unit := run ({} : DS) step
