import HgVerif.Model.TslMap
import HgVerif.Driver.Proto
/-! Model driver for the dynamic-list half of C10: same line protocol as `harness/drv_tslmap.cpp`.

The map node itself (`TslMap.cycle`: creation loop, re-binding, evaluation loop, re-arm; `TslMap.stop`) is the
definition the theorems of `Props/C10Tsl.lean` are about.  The driver adds the bookkeeping of the surrounding graph
only: the replayed lists (which elements exist / are set), which children an input tick notifies, which children the
re-binding after a growth schedules, and the vocabulary of mapped functions as `Beh` instances. -/
open HgVerif.TslMap HgVerif.Driver
open HgVerif.MapNode (StepRes Beh MAX_DT)

/-- what the child of one index can read in a cycle -/
structure Inp where
  a : Option Int := none        -- a[i] (bound and valid)
  aTick : Bool := false
  b : Option Int := none
  bTick : Bool := false
  z : Option Int := none
  zTick : Bool := false
  zMod : Bool := false          -- the broadcast is modified for this child: it ticked, or the child starts in this cycle

structure CS where
  acc : Int := 0
  echo : Int := 0
  pend : Nat := MAX_DT

def echoStep (K : Nat) (now : Nat) (i : Inp) (s : CS) : StepRes CS Int Int :=
  if i.aTick then
    match i.a with
    | some v => { st := { s with echo := v + 100, pend := now + K }, out := some v, next := now + K }
    | none => { st := s, next := s.pend }
  else if s.pend == now then { st := { s with pend := MAX_DT }, out := some s.echo, next := MAX_DT }
  else { st := s, next := s.pend }

def behOf (fn : String) (ndx : Bool) : Beh Nat CS Inp Int Int where
  init := fun _ _ _ => {}
  -- `schedule_sampled_input_consumers`: a consumer of a valid sampled input (the index source is always valid)
  startNext := fun _ now i =>
    if ndx || i.a.isSome || ((fn == "addb" || fn == "bmod") && i.z.isSome) || (fn == "pair" && i.b.isSome) then now
    else MAX_DT
  restart := fun _ _ _ s => s
  step := fun k now i s =>
    match fn with
    | "inc" => match i.aTick, i.a with
      | true, some v => { st := s, out := some (v + 1) }
      | _, _ => { st := s }
    | "acc" => match i.aTick, i.a with
      | true, some v => { st := { s with acc := s.acc + v }, out := some (s.acc + v) }
      | _, _ => { st := s }
    | "addidx" => match i.aTick, i.a with
      | true, some v => { st := s, out := some (v + 1000 * (k : Int)) }
      | _, _ => { st := s }
    | "echo1" => echoStep 1 now i s
    | "echo2" => echoStep 2 now i s
    | "echo3" => echoStep 3 now i s
    | "echov" => echoStep (1 + ((((i.a.getD 0) % 3 + 3) % 3).toNat)) now i s
    | "even" => match i.aTick, i.a with
      | true, some v => if v % 2 == 0 then { st := s, out := some v } else { st := s }
      | _, _ => { st := s }
    | "neg" => match i.aTick, i.a with
      | true, some v =>
        if v < 0 then { st := s, err := some v }
        else { st := { s with acc := s.acc + v }, out := some (s.acc + v) }
      | _, _ => { st := s }
    | "addb" => match i.a, i.z with
      | some v, some z => if i.aTick || i.zTick then { st := s, out := some (v + z) } else { st := s }
      | _, _ => { st := s }
    | "bmod" => match i.a, i.z with
      -- emits only while the broadcast is modified for THIS child (`zMod`: a tick, or sampled at the child's start)
      | some v, some z => if i.zMod then { st := s, out := some (v + z) } else { st := s }
      | _, _ => { st := s }
    | "pair" => match i.a, i.b with
      | some l, some r => if i.aTick || i.bTick then { st := s, out := some (l + 1000 * r) } else { st := s }
      | _, _ => { st := s }
    | _ => { st := s }

structure Cfg where
  fn : String := "inc"
  ndx : Bool := false

structure DS where
  cfg : Cfg := {}
  bad : Bool := false
  m : M CS Int := {}
  a : List (Option Int) := []
  b : List (Option Int) := []
  z : Option Int := none
  outValid : Bool := false
  cycle : Nat := 0
  dead : Bool := false         -- a child exception ended the run

inductive Op where
  | set (i : Nat) (v : Int) | bset (i : Nat) (v : Int) | z (v : Int)

def parseOps : List String → Option (List Op)
  | [] => some []
  | "set" :: i :: v :: rest => do
      let i ← i.toNat?; let v ← v.toInt?; let r ← parseOps rest
      if i > 4096 then none else pure (.set i v :: r)
  | "bset" :: i :: v :: rest => do
      let i ← i.toNat?; let v ← v.toInt?; let r ← parseOps rest
      if i > 4096 then none else pure (.bset i v :: r)
  | "z" :: v :: rest => do let v ← v.toInt?; let r ← parseOps rest; pure (.z v :: r)
  | _ => none

def joinC (l : List String) : String := ",".intercalate l

/-- apply `set i v` ops (later ones win) to a list, growing it with unset elements -/
def applySets (l : List (Option Int)) (sets : List (Nat × Int)) : List (Option Int) :=
  let n := sets.foldl (fun acc p => max acc (p.1 + 1)) l.length
  (List.range n).map fun i =>
    match (sets.reverse.find? (·.1 == i)) with
    | some p => some p.2
    | none => (l[i]?).join

def showIdx (ndx : Bool) (sign : String) (l : List Nat) : List String :=
  if ndx then l.map (fun i => s!"{sign}{i}") else l.map (fun _ => s!"{sign}?")

def showList (l : List String) : String := if l.isEmpty then "-" else joinC l

def cycleStep (d : DS) (ops : List Op) : DS × String :=
  if d.bad then (d, "err:invalid-argument") else
  if d.dead then (d, "err:exception") else
  let cfg := d.cfg
  let two := cfg.fn == "pair"
  let bc := cfg.fn == "addb" || cfg.fn == "bmod"
  let now := d.cycle + 1
  let aSets := ops.filterMap fun o => match o with | .set i v => some (i, v) | _ => none
  let bSets := if two then ops.filterMap fun o => match o with | .bset i v => some (i, v) | _ => none else []
  let zTick := bc && ops.any fun o => match o with | .z _ => true | _ => false
  let z := if bc then ops.foldl (fun acc o => match o with | .z v => some v | _ => acc) d.z else d.z
  let a1 := applySets d.a aSets
  let b1 := applySets d.b bSets
  let live0 := d.m.live
  let aT := fun (i : Nat) => aSets.any (·.1 == i)
  let bT := fun (i : Nat) => bSets.any (·.1 == i)
  -- ticks of elements that a child is bound to
  let notified := (List.range live0).filter fun i =>
    zTick || (aT i && decide (i < d.a.length)) || (bT i && decide (i < d.b.length))
  -- elements a growing list brings under an existing child: the re-binding samples them
  let rebound := (List.range live0).filter fun i =>
    (aT i && decide (d.a.length ≤ i)) || (bT i && decide (d.b.length ≤ i))
  let input : Nat → Inp := fun i =>
    { a := (a1[i]?).join, aTick := aT i, b := if two then (b1[i]?).join else none, bTick := bT i,
      z := if bc then z else none, zTick := zTick, zMod := zTick || (bc && decide (live0 ≤ i) && z.isSome) }
  let I : CycleIn Inp :=
    { now := now, sizes := if two then [a1.length, b1.length] else [a1.length]
      inputTick := !aSets.isEmpty || !bSets.isEmpty || zTick
      notified := notified, rebound := rebound, input := input }
  let r := HgVerif.TslMap.cycle (behOf cfg.fn cfg.ndx) d.m I
  let o := r.out
  if !o.ok then ({ d with dead := true }, "err:exception") else
  -- (the root graph is evaluated in every cycle of the harness run: a cycle in which the map node does not run
  -- prints the unchanged state)
  let outValid := d.outValid || !o.modified.isEmpty
  let rec_ := if o.modified.isEmpty then "-" else
    "{" ++ joinC ((List.range r.m.live).filterMap fun i =>
      ((o.modified.reverse.find? (·.1 == i)).map fun p => s!"{i}={p.2}")) ++ "}"
  let val := if !outValid then "_" else
    "{" ++ joinC ((List.range r.m.live).map fun i =>
      match elem r.m i with | some v => s!"{i}={v}" | none => s!"{i}=_") ++ "}"
  let line := s!"rec={rec_} val={val} len={r.m.live} ev={showList (showIdx cfg.ndx "+" o.startedK)}" ++
    s!" run={showList (showIdx cfg.ndx "" o.runs)} act={activeCount r.m} cg={childGraphCount r.m}"
  ({ d with m := r.m, a := a1, b := b1, z := z, outValid := outValid, cycle := d.cycle + 1 }, line)

def fnKnown (f : String) : Bool :=
  ["inc", "acc", "addidx", "echo1", "echo2", "echo3", "echov", "even", "neg", "addb", "bmod", "pair"].contains f

def reset (d : DS) : DS := { cfg := d.cfg, bad := d.bad }

def endLine (d : DS) : String :=
  if d.bad then "err:invalid-argument" else if d.dead then "err:exception" else
  let s := (stop d.m).1
  -- `stop` runs at node stop: nothing is left for the destruction of the storage (`late=0`)
  s!"end ev={showList (showIdx d.cfg.ndx "-" s)} n={s.length} late={(stop (stop d.m).2).1.length}"

def step (d : DS) (ws : List String) : DS × String :=
  match ws with
  | ["case", n] => ({}, s!"case {n}")
  | ["cfg", f, k] =>
    let ok := fnKnown f && (k == "0" || k == "1") && !(f == "addidx" && k == "0")
    if ok then ({ cfg := { fn := f, ndx := k == "1" } }, "ok")
    else ({ cfg := d.cfg, bad := true }, "bad-op")
  | "c" :: rest =>
    match parseOps rest with
    | some ops => cycleStep d ops
    | none => (reset d, "bad-op")
  | ["run"] => (reset d, endLine d)
  | [] => (reset d, "")
  | _ => (reset d, "bad-op")

def main : IO Unit := run ({} : DS) step
