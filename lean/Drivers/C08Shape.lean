import HgVerif.Model.FeedbackShape
import HgVerif.Driver.Proto
/-! Model driver for the structured-feedback stream of C08: same line protocol as `harness/drv_fbshape.cpp`.
    Every `c` line is answered at once (the answer depends on the lines read so far only). -/
open HgVerif.FeedbackShape HgVerif.Driver

structure DS where
  shape : String := ""
  kind : Kind := .fix
  npos : Nat := 0            -- positions of a fixed shape
  n : Nat := 0               -- accepted `c` lines
  fb : FB Delta := {}
  rv : Val := {}             -- value of the feedback source's output (what the reader sees)
  pv : Val := {}             -- value of the producer's output
  bun : Bool := false        -- shape tsbs = TSB{a : TS, s : TSS}: the three fields below replace the three above
  bfb : FB BDelta := {}
  brv : BVal := {}
  bpv : BVal := {}
  loop : Bool := false       -- self loop through the validity-gated body (`lp`) instead of the line
  lp : Loop := {}
  probe : Nat := 0           -- time at which the reader recorder is evaluated without a tick (0 = none)

def natOfChars (cs : List Char) : Option Nat :=
  if cs.isEmpty || !cs.all Char.isDigit then none
  else some (cs.foldl (fun a c => a * 10 + (c.toNat - '0'.toNat)) 0)

def intOfChars : List Char → Option Int
  | '-' :: r => (natOfChars r).map (fun n => -(Int.ofNat n))
  | r => (natOfChars r).map Int.ofNat

inductive Tok where
  | set (p : Nat) (v : Int)
  | add (p : Nat)
  | rem (p : Nat)

def Tok.pos : Tok → Nat
  | .set p _ => p
  | .add p => p
  | .rem p => p

def parseTok (s : String) : Option Tok :=
  match s.toList with
  | '+' :: r => (natOfChars r).map Tok.add
  | '-' :: r => (natOfChars r).map Tok.rem
  | cs =>
    let l := cs.takeWhile (· != '=')
    let r := (cs.dropWhile (· != '=')).drop 1
    if l.length == cs.length then none else
    match natOfChars l, intOfChars r with
    | some p, some v => some (Tok.set p v)
    | _, _ => none

def shapeInfo : String → Option (Kind × Nat)
  | "ts" => some (.fix, 1)
  | "tsb2" => some (.fix, 2)
  | "tsb3" => some (.fix, 3)
  | "tsbn" => some (.fix, 3)
  | "tsl2" => some (.fix, 2)
  | "tss" => some (.set, 0)
  | "tsd" => some (.dict, 0)
  | "tsbs" => some (.fix, 1)      -- field a; the set field is handled by the `B` functions
  | _ => none

def tokOk (k : Kind) (npos : Nat) : Tok → Bool
  | .set p _ => (k == .fix && p < npos) || k == .dict
  | .add _ => k == .set
  | .rem _ => k == .set || k == .dict

def distinct : List Nat → Bool
  | [] => true
  | a :: r => !r.contains a && distinct r

/-- writes of one line -> operations as a `Delta` -/
def parseWrites (k : Kind) (npos : Nat) (text : String) : Option Delta :=
  let parts := text.splitOn ","
  let toks := parts.map parseTok
  if toks.any (·.isNone) then none else
  let ts := toks.filterMap id
  if ts.isEmpty || !ts.all (tokOk k npos) || !distinct (ts.map Tok.pos) then none else
  some { mods := ts.filterMap (fun t => match t with
                                | .set p v => some (p, v)
                                | .add p => some (p, 0)
                                | .rem _ => none),
         rems := ts.filterMap (fun t => match t with
                                | .rem p => some p
                                | _ => none) }

/-- writes of one line for `tsbs`: `0=v` (field a), `+e` / `-e` (field s).  `init`: an authored delta, whose `s`
    entry defaults to the empty set delta; otherwise producer operations (`s` present iff it is mutated) -/
def parseWritesB (init : Bool) (text : String) : Option BDelta :=
  let toks := (text.splitOn ",").map parseTok
  if toks.any (·.isNone) then none else
  let ts := toks.filterMap id
  let sets := ts.filterMap (fun t => match t with
    | .set p v => some (p, v)
    | _ => none)
  let adds := ts.filterMap (fun t => match t with
    | .add p => some (p, (0 : Int))
    | _ => none)
  let rems := ts.filterMap (fun t => match t with
    | .rem p => some p
    | _ => none)
  if ts.isEmpty || sets.length > 1 || sets.any (·.1 != 0) || !distinct (adds.map (·.1) ++ rems) then none else
  some { a := sets.head?.map (·.2),
         s := if init || !adds.isEmpty || !rems.isEmpty then some { mods := adds, rems := rems } else none }

def showDelta (k : Kind) (d : Delta) : String :=
  let ms := d.mods.map fun e => (e.1, if k == .set then s!"+{e.1}" else s!"{e.1}={e.2}")
  let rs := d.rems.map fun p => (p, s!"-{p}")
  let toks := (ms ++ rs).mergeSort (fun a b => a.1 ≤ b.1)
  "{" ++ ",".intercalate (toks.map (·.2)) ++ "}"

def showVal (k : Kind) (v : Val) : String :=
  let toks := v.items.map fun e => if k == .set then s!"{e.1}" else s!"{e.1}={e.2}"
  "{" ++ ",".intercalate toks ++ "}"

/-- tokens of a set delta without braces, sorted by element -/
def setToks (d : Delta) : List String :=
  let ms := d.mods.map fun e => (e.1, s!"+{e.1}")
  let rs := d.rems.map fun p => (p, s!"-{p}")
  ((ms ++ rs).mergeSort (fun a b => a.1 ≤ b.1)).map (·.2)

/-- a bundle delta as the recorder prints it: `0=v` if `a` ticked, `s` if `s` ticked, then the set changes -/
def showB (a : Option Int) (s : Option Delta) : String :=
  let ta := match a with
    | some x => [s!"0={x}"]
    | none => []
  let ts := match s with
    | some d => "s" :: setToks d
    | none => []
  "{" ++ ",".intercalate (ta ++ ts) ++ "}"

def showBDelta (d : BDelta) : String := showB d.a d.s

def showBObs (o : BObs) : String :=
  showB (o.a.bind (fun d => d.mods.head?.map (·.2))) o.s

/-- the bundle is valid when a field is -/
def bValid (v : BVal) : Bool := v.a.valid || v.s.valid

def showBVal (v : BVal) : String :=
  if !bValid v then "invalid" else
  let ta := v.a.items.map fun e => s!"{e.1}={e.2}"
  let ts := if v.s.valid then "s" :: v.s.items.map (fun e => s!"{e.1}") else []
  "{" ++ ",".intercalate (ta ++ ts) ++ "}"

def showValid (k : Kind) (v : Val) : String := if v.valid then showVal k v else "invalid"

/-- one `c` line at time `t` -/
def cycleLine (d : DS) (ops : Option Delta) : DS × String :=
  let t := 1 + d.n
  let d := { d with n := d.n + 1 }
  let due := sourceDue t d.fb
  let probed := d.probe == t
  if !(due || ops.isSome || probed) then (d, s!"t={t} cyc=0 w=- r=- v=-") else
  let r := sourceStep t d.fb
  let (rv, robs) : Val × Option (Option Delta) :=
    match r.2 with
    | some dl => let a := applyDelta d.kind d.rv dl; (a.1, some a.2)
    | none => (d.rv, none)
  let (pv, w) : Val × Option Delta :=
    match ops with
    | some o => let p := producerStep d.kind d.pv o; (p.1, some p.2)
    | none => (d.pv, none)
  let fb := sinkStep t w r.1
  let ws := match w with
    | some x => showDelta d.kind x
    | none => "-"
  let (rs, vs) := match robs with
    | some (some x) => (showDelta d.kind x, showValid d.kind rv)
    | _ => ("-", if probed then showValid d.kind rv else "-")
  ({ d with fb := fb, rv := rv, pv := pv }, s!"t={t} cyc=1 w={ws} r={rs} v={vs}")

/-- the same for the bundle with a collection field -/
def cycleLineB (d : DS) (ops : Option BDelta) : DS × String :=
  let t := 1 + d.n
  let d := { d with n := d.n + 1 }
  let due := sourceDue t d.bfb
  let probed := d.probe == t
  if !(due || ops.isSome || probed) then (d, s!"t={t} cyc=0 w=- r=- v=-") else
  let r := sourceStep t d.bfb
  let (rv, robs) : BVal × Option BObs :=
    match r.2 with
    | some dl => applyDeltaB d.brv dl
    | none => (d.brv, none)
  let (pv, w) : BVal × Option BDelta :=
    match ops with
    | some o => let p := producerStepB d.bpv o; (p.1, some p.2)
    | none => (d.bpv, none)
  let fb := sinkStep t w r.1
  let ws := match w with
    | some x => showBDelta x
    | none => "-"
  let (rs, vs) := match robs with
    | some x => (showBObs x, showBVal rv)
    | none => ("-", if probed then showBVal rv else "-")
  ({ d with bfb := fb, brv := rv, bpv := pv }, s!"t={t} cyc=1 w={ws} r={rs} v={vs}")

/-- the same for the self loop: `x` = the value written to the external input -/
def cycleLineL (d : DS) (x : Option Int) : DS × String :=
  let t := 1 + d.n
  let d := { d with n := d.n + 1 }
  let due := sourceDue t d.lp.fb
  let probed := d.probe == t
  if !(due || x.isSome || probed) then (d, s!"t={t} cyc=0 w=- r=- v=-") else
  let r := loopCycle d.kind t x d.lp
  let ws := match r.2.2 with
    | some w => showDelta d.kind w
    | none => "-"
  let (rs, vs) := match r.2.1 with
    | some o => (showDelta d.kind o, showValid d.kind r.1.prev)
    | none => ("-", if probed then showValid d.kind r.1.prev else "-")
  ({ d with lp := r.1 }, s!"t={t} cyc=1 w={ws} r={rs} v={vs}")

/-- options of the `shape` line after the shape name: `[init <writes>|{}] [loop] [probe <t>]` -/
def parseOpts (s : String) (k : Kind) (np : Nat) (d : DS) (rest : List String) : Option DS :=
  let base : DS := { d with shape := s, kind := k, npos := np, bun := s == "tsbs" }
  let afterInit : Option (DS × List String) :=
    match rest with
    | "init" :: text :: r =>
      if s == "tsbs" then
        (if text == "{}" then some emptyDeltaB else parseWritesB true text).map
          (fun d0 => ({ base with bfb := initFB 1 d0 }, r))
      else if text == "{}" then
        (if s == "ts" then none else some ({ base with fb := initFB 1 emptyDelta, lp := loopStart 1 (some emptyDelta) }, r))
      else (parseWrites k np text).map (fun d0 => ({ base with fb := initFB 1 d0, lp := loopStart 1 (some d0) }, r))
    | r => some (base, r)
  match afterInit with
  | none => none
  | some (d1, r1) =>
    let afterLoop : Option (DS × List String) :=
      match r1 with
      | "loop" :: r => if s == "ts" || s == "tss" || s == "tsd" then some ({ d1 with loop := true }, r) else none
      | r => some (d1, r)
    match afterLoop with
    | none => none
    | some (d2, r2) =>
      match r2 with
      | [] => some d2
      | ["probe", t] =>
        match natOfChars t.toList with
        | some n => if 1 ≤ n && n < 1000 then some { d2 with probe := n } else none
        | none => none
      | _ => none

def step (d : DS) (ws : List String) : DS × String :=
  match ws with
  | ["case", n] => ({}, s!"case {n}")
  | "shape" :: s :: rest =>
    if d.shape != "" || d.n != 0 then (d, "bad-op") else
    match shapeInfo s with
    | none => (d, "bad-op")
    | some (k, np) =>
      match parseOpts s k np d rest with
      | some d' => (d', "ok")
      | none => (d, "bad-op")
  | ["c", text] =>
    if d.shape == "" then (d, "bad-op") else
    if d.loop then
      (if text == "-" then cycleLineL d none else
       match parseWrites .fix 1 text with
       | some ops =>
         match ops.mods with
         | [(_, x)] => if x ≥ 0 then cycleLineL d (some x) else (d, "bad-op")
         | _ => (d, "bad-op")
       | none => (d, "bad-op"))
    else if d.bun then
      (if text == "-" then cycleLineB d none else
       match parseWritesB false text with
       | some ops => cycleLineB d (some ops)
       | none => (d, "bad-op"))
    else
    if text == "-" then cycleLine d none else
    match parseWrites d.kind d.npos text with
    | some ops => cycleLine d (some ops)
    | none => (d, "bad-op")
  | ["run"] =>
    if d.shape == "" || d.n == 0 then (d, "bad-op") else ({}, "ok extra=0")
  | [] => (d, "")
  | _ => (d, "bad-op")

def main : IO Unit := run ({} : DS) step
