import HgVerif.Model.FeedbackShape
import HgVerif.Driver.Proto
/-! Model driver for the structured-feedback stream of C08: same line protocol as `harness/drv_fbshape.cpp`.
    Every `c` line is answered at once (the answer depends on the lines read so far only). -/
open HgVerif.FeedbackShape HgVerif.Driver

structure DS where
  shape : String := ""
  kind : Kind := .fix
  npos : Nat := 0            -- positions of a fixed shape
  n : Nat := 0               -- accepted `c` lines
  fb : FB := {}
  rv : Val := {}             -- value of the feedback source's output (what the reader sees)
  pv : Val := {}             -- value of the producer's output

def natOfChars (cs : List Char) : Option Nat :=
  if cs.isEmpty || !cs.all Char.isDigit then none
  else some (cs.foldl (fun a c => a * 10 + (c.toNat - '0'.toNat)) 0)

def intOfChars : List Char → Option Int
  | '-' :: r => (natOfChars r).map (fun n => -(Int.ofNat n))
  | r => (natOfChars r).map Int.ofNat

inductive Tok where
  | set (p : Nat) (v : Int)
  | add (p : Nat)
  | rem (p : Nat)

def Tok.pos : Tok → Nat
  | .set p _ => p
  | .add p => p
  | .rem p => p

def parseTok (s : String) : Option Tok :=
  match s.toList with
  | '+' :: r => (natOfChars r).map Tok.add
  | '-' :: r => (natOfChars r).map Tok.rem
  | cs =>
    let l := cs.takeWhile (· != '=')
    let r := (cs.dropWhile (· != '=')).drop 1
    if l.length == cs.length then none else
    match natOfChars l, intOfChars r with
    | some p, some v => some (Tok.set p v)
    | _, _ => none

def shapeInfo : String → Option (Kind × Nat)
  | "ts" => some (.fix, 1)
  | "tsb2" => some (.fix, 2)
  | "tsb3" => some (.fix, 3)
  | "tsbn" => some (.fix, 3)
  | "tsl2" => some (.fix, 2)
  | "tss" => some (.set, 0)
  | "tsd" => some (.dict, 0)
  | _ => none

def tokOk (k : Kind) (npos : Nat) (init : Bool) : Tok → Bool
  | .set p _ => (k == .fix && p < npos) || k == .dict
  | .add _ => k == .set
  | .rem _ => (k == .set || k == .dict) && !init

def distinct : List Nat → Bool
  | [] => true
  | a :: r => !r.contains a && distinct r

/-- writes of one line -> operations as a `Delta` -/
def parseWrites (k : Kind) (npos : Nat) (init : Bool) (text : String) : Option Delta :=
  let parts := text.splitOn ","
  let toks := parts.map parseTok
  if toks.any (·.isNone) then none else
  let ts := toks.filterMap id
  if ts.isEmpty || !ts.all (tokOk k npos init) || !distinct (ts.map Tok.pos) then none else
  some { mods := ts.filterMap (fun t => match t with
                                | .set p v => some (p, v)
                                | .add p => some (p, 0)
                                | .rem _ => none),
         rems := ts.filterMap (fun t => match t with
                                | .rem p => some p
                                | _ => none) }

def showDelta (k : Kind) (d : Delta) : String :=
  let ms := d.mods.map fun e => (e.1, if k == .set then s!"+{e.1}" else s!"{e.1}={e.2}")
  let rs := d.rems.map fun p => (p, s!"-{p}")
  let toks := (ms ++ rs).mergeSort (fun a b => a.1 ≤ b.1)
  "{" ++ ",".intercalate (toks.map (·.2)) ++ "}"

def showVal (k : Kind) (v : Val) : String :=
  let toks := v.items.map fun e => if k == .set then s!"{e.1}" else s!"{e.1}={e.2}"
  "{" ++ ",".intercalate toks ++ "}"

/-- one `c` line at time `t` -/
def cycleLine (d : DS) (ops : Option Delta) : DS × String :=
  let t := 1 + d.n
  let d := { d with n := d.n + 1 }
  let due := sourceDue t d.fb
  if !(due || ops.isSome) then (d, s!"t={t} cyc=0 w=- r=- v=-") else
  let r := sourceStep t d.fb
  let (rv, robs) : Val × Option (Option Delta) :=
    match r.2 with
    | some dl => let a := applyDelta d.kind d.rv dl; (a.1, some a.2)
    | none => (d.rv, none)
  let (pv, w) : Val × Option Delta :=
    match ops with
    | some o => let p := producerStep d.kind d.pv o; (p.1, some p.2)
    | none => (d.pv, none)
  let fb := sinkStep t w r.1
  let ws := match w with
    | some x => showDelta d.kind x
    | none => "-"
  let (rs, vs) := match robs with
    | some (some x) => (showDelta d.kind x, showVal d.kind rv)
    | _ => ("-", "-")
  ({ d with fb := fb, rv := rv, pv := pv }, s!"t={t} cyc=1 w={ws} r={rs} v={vs}")

def step (d : DS) (ws : List String) : DS × String :=
  match ws with
  | ["case", n] => ({}, s!"case {n}")
  | "shape" :: s :: rest =>
    if d.shape != "" || d.n != 0 then (d, "bad-op") else
    match shapeInfo s with
    | none => (d, "bad-op")
    | some (k, np) =>
      match rest with
      | [] => ({ d with shape := s, kind := k, npos := np }, "ok")
      | ["init", text] =>
        match parseWrites k np true text with
        | some d0 => ({ d with shape := s, kind := k, npos := np, fb := initFB 1 d0 }, "ok")
        | none => (d, "bad-op")
      | _ => (d, "bad-op")
  | ["c", text] =>
    if d.shape == "" then (d, "bad-op") else
    if text == "-" then cycleLine d none else
    match parseWrites d.kind d.npos false text with
    | some ops => cycleLine d (some ops)
    | none => (d, "bad-op")
  | ["run"] =>
    if d.shape == "" || d.n == 0 then (d, "bad-op") else ({}, "ok extra=0")
  | [] => (d, "")
  | _ => (d, "bad-op")

def main : IO Unit := run ({} : DS) step
