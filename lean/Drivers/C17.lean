import HgVerif.Model.Realtime
import HgVerif.Driver.Proto
/-! Model driver for C17: same line protocol as `harness/drv_realtime.cpp`. -/
open HgVerif.Realtime HgVerif.Driver

structure DS where
  start : Nat := 1000
  endT : Nat := 2000
  slice : Nat := 1000
  wall0 : Nat := 1000
  cost : Nat := 1
  scripts : List (List (List ROp)) := []
  before : List (Nat × List EnvEv) := []
  after : List (Nat × List EnvEv) := []
  events : List WEv := []

def digits (s : String) : Option Nat :=
  if s.isEmpty then some 0 else if s.all Char.isDigit then s.toNat? else none

/-- a token `<letter><digits>` with the letter among `allowed` -/
def parseTok (allowed : String) (t : String) : Option (Char × Nat) :=
  match t.toList with
  | [] => none
  | c :: rest => if allowed.contains c then (digits (String.ofList rest)).map (fun n => (c, n)) else none

def envOf : Char × Nat → Option EnvEv
  | ('a', n) => some (.adv n)
  | ('p', n) => some (.push n)
  | ('x', _) => some .stop
  | _ => none

def ropOf : Char × Nat → Option ROp
  | ('r', n) => some (.rel n)
  | ('R', n) => some (.abs n)
  | ('w', n) => some (.wallRel n)
  | ('W', n) => some (.wallAbs n)
  | ('L', _) => some .loop
  | p => (envOf p).map .env

def wevOf : Char × Nat → Option WEv
  | ('t', _) => some .tmo
  | ('s', _) => some .spur
  | p => (envOf p).map .env

def parseList {α : Type} (allowed : String) (f : Char × Nat → Option α) (ws : List String) : Option (List α) :=
  ws.foldl (fun acc w => match acc with
    | none => none
    | some l => if w == "-" then some l else
      match (parseTok allowed w).bind f with
      | some x => some (l ++ [x])
      | none => none) (some [])

/-- split at ";" -/
def splitEntries (ws : List String) : List (List String) :=
  let r := ws.foldl (fun (acc : List (List String) × List String) w =>
    if w == ";" then (acc.1 ++ [acc.2], []) else (acc.1, acc.2 ++ [w])) ([], [])
  r.1 ++ [r.2]

def parseScript (ws : List String) : Option (List (List ROp)) :=
  (splitEntries ws).foldl (fun acc e => match acc, parseList "rRwWapxL" ropOf e with
    | some l, some x => some (l ++ [x])
    | _, _ => none) (some [])

def b2 (b : Bool) : String := if b then "1" else "0"

def tokS : Tok → String
  | .adv d => s!"a{d}"
  | .pushed v a w => s!"p{v}={b2 a}@{w}"
  | .stopped w => s!"x@{w}"
  | .tmo => "t"
  | .spur => "s"
  | .rel d => s!"r{d}"
  | .abs t => s!"R{t}"
  | .wallRel d w => s!"w{d}@{w}"
  | .wallAbs t w => s!"W{t}@{w}"

def toksS (l : List Tok) : String := ",".intercalate (l.map tokS)

def reasonS : Reason → String
  | .stop => "stop" | .endReached => "end" | .cutoff => "cutoff" | .fuel => "fuel"

def optS : Option Nat → String
  | none => "max"
  | some n => toString n

def cycleS (c : CycleRec) : List String :=
  [s!"c{c.t}@{c.wall}"]
  ++ (match c.before with | some l => [s!"B[{toksS l}]"] | none => [])
  ++ c.nodes.map (fun n => s!"n{n.1}:{n.2.1}[{toksS n.2.2}]")
  ++ (match c.delivered with | some v => [s!"v{v}"] | none => [])
  ++ [s!"e{optS c.next}"]
  ++ (match c.after with | some l => [s!"A[{toksS l}]"] | none => [])

def entryS : Entry → List String
  | .start w => [s!"start@{w}"]
  | .startNode id l => [s!"S{id}:0[{toksS l}]"]
  | .waited l => [s!"Z[{toksS l}]"]
  | .cycle c => cycleS c
  | .fin r w => [s!"end:{reasonS r}@{w}"]

def runCase (d : DS) : String :=
  let cfg : Cfg := { start := d.start, endT := d.endT, slice := d.slice, wall0 := d.wall0, cost := d.cost,
                     scripts := d.scripts, before := d.before, after := d.after }
  if d.endT ≤ d.start then "run-err:GraphExecutor end_time must be after start_time" else
  let r := HgVerif.Realtime.run cfg d.events
  " | ".intercalate ((r.log.map entryS).flatten)

def step (d : DS) (ws : List String) : DS × String :=
  match ws with
  | ["case", n] => ({}, s!"case {n}")
  | ["cfg", a, b, c, e, f] =>
    match a.toNat?, b.toNat?, c.toNat?, e.toNat?, f.toNat? with
    | some a, some b, some c, some e, some f => ({ d with start := a, endT := b, slice := c, wall0 := e, cost := f }, "ok")
    | _, _, _, _, _ => (d, "bad-op")
  | "node" :: id :: rest =>
    match id.toNat?, parseScript rest with
    | some id, some sc => if id = d.scripts.length + 1 then ({ d with scripts := d.scripts ++ [sc] }, "ok") else (d, "bad-op")
    | _, _ => (d, "bad-op")
  | "before" :: k :: rest =>
    match k.toNat?, parseList "apx" envOf rest with
    | some k, some l => ({ d with before := (k, l) :: d.before }, "ok")
    | _, _ => (d, "bad-op")
  | "after" :: k :: rest =>
    match k.toNat?, parseList "apx" envOf rest with
    | some k, some l => ({ d with after := (k, l) :: d.after }, "ok")
    | _, _ => (d, "bad-op")
  | "events" :: rest =>
    match parseList "atpxs" wevOf rest with
    | some l => ({ d with events := l }, "ok")
    | none => (d, "bad-op")
  | ["run"] => (d, runCase d)
  | [] => (d, "")
  | _ => (d, "bad-op")

def main : IO Unit := HgVerif.Driver.run ({} : DS) step
