import HgVerif.Model.DispatchVar
import HgVerif.Driver.Proto
/-! Model driver for C19: same line protocol as `harness/drv_dispatch.cpp` (syntax documented there). -/
open HgVerif.Dispatch HgVerif.Driver

/-! ### parsing -/
structure PS where
  syms : Array String
  rest : List Char

abbrev P := StateT PS Option

def intern (s : String) : P Nat := do
  let st ← get
  match st.syms.toList.idxOf? s with
  | some i => pure i
  | none =>
    set { st with syms := st.syms.push s }
    pure st.syms.size

def peek? : P (Option Char) := do return (← get).rest.head?

def eatChar (c : Char) : P Bool := do
  let st ← get
  match st.rest with
  | x :: xs => if x == c then set { st with rest := xs } *> pure true else pure false
  | [] => pure false

def eatStr (w : String) : P Bool := do
  let st ← get
  let cs := w.toList
  if cs.isPrefixOf st.rest then
    set { st with rest := st.rest.drop cs.length }
    pure true
  else pure false

def expect (c : Char) : P Unit := do
  if ← eatChar c then pure () else failure

def isIdent (c : Char) : Bool := c.isAlphanum || c == '_'

def identStr : P String := do
  let st ← get
  let w := st.rest.takeWhile isIdent
  if w.isEmpty then failure
  set { st with rest := st.rest.drop w.length }
  pure (String.ofList w)

def number : P Nat := do
  let st ← get
  let w := st.rest.takeWhile Char.isDigit
  if w.isEmpty then failure
  set { st with rest := st.rest.drop w.length }
  match (String.ofList w).toNat? with
  | some n => pure n
  | none => failure

def scalarOf (s : String) : P Sc :=
  match s with
  | "bool" => pure 0 | "int" => pure 1 | "float" => pure 2 | "str" => pure 3
  | _ => failure

def scalarName (s : Sc) : String :=
  match s with
  | 0 => "bool" | 1 => "int" | 2 => "float" | 3 => "str" | _ => "?scalar"

def sepBy1 {α : Type} (item : P α) (sep : Char) : P (List α) := do
  let first ← item
  let rec go (fuel : Nat) (acc : List α) : P (List α) :=
    match fuel with
    | 0 => failure
    | fuel + 1 => do
      if ← eatChar sep then
        let x ← item
        go fuel (x :: acc)
      else pure acc.reverse
  go 64 [first]

mutual
partial def parseCT : P CT := do
  if ← eatStr "SIGNAL" then return .signal
  if ← eatStr "TSS[" then
    let s ← scalarOf (← identStr); expect ']'; return .tss s
  if ← eatStr "TSL[" then
    let e ← parseCT; expect ','; let n ← number; expect ']'; return .tsl e n
  if ← eatStr "TSD[" then
    let k ← scalarOf (← identStr); expect ','; let v ← parseCT; expect ']'; return .tsd k v
  if ← eatStr "TSW[" then
    let s ← scalarOf (← identStr); expect ','; let p ← number; expect ','; let m ← number; expect ']'
    return .tsw s p m
  if ← eatStr "TSB<" then
    -- a NAMED bundle (`TypeRegistry::tsb(name, fields)`); the registry's name space (one name, one field list,
    -- a conflicting re-declaration throws) is outside the model: the generator derives the name from the field list
    let nm ← intern (← identStr); expect '>'; expect '['
    let fs ← parseCFields; expect ']'; return .tsb (some nm) fs
  if ← eatStr "TSB[" then
    let fs ← parseCFields; expect ']'; return .tsb none fs
  if ← eatStr "REF[" then
    let t ← parseCT; expect ']'; return mkRef t
  if ← eatStr "TS[" then
    let s ← scalarOf (← identStr); expect ']'; return .ts s
  failure
partial def parseCFields : P CFields := do
  let f ← intern (← identStr)
  expect ':'
  let t ← parseCT
  if ← eatChar ',' then
    let rest ← parseCFields
    return .cons f t rest
  else return .cons f t .nil
end

def parseSP : P SP := do
  if ← eatChar '~' then
    let n ← intern (← identStr)
    if ← eatChar '<' then
      let cs ← sepBy1 (do scalarOf (← identStr)) '|'
      expect '>'
      return .var n cs
    return .var n []
  return .conc (← scalarOf (← identStr))

mutual
partial def parseTP : P TP := do
  if ← eatChar '~' then
    let n ← intern (← identStr)
    if ← eatChar '<' then
      let cs ← sepBy1 parseCT '|'
      expect '>'
      return .var n cs
    return .var n []
  if ← eatChar '=' then return .conc (← parseCT)
  if ← eatStr "SIGNAL" then return .signal
  if ← eatStr "TSS[" then
    let s ← parseSP; expect ']'; return .tss s
  if ← eatStr "TSL[" then
    let e ← parseTP; expect ','
    if ← eatChar '~' then
      let n ← intern (← identStr)
      let cs ← (do if ← eatChar '<' then
                      let cs ← sepBy1 number '|'
                      expect '>'
                      pure cs
                    else pure [])
      expect ']'
      return .tsl e (.var n cs)
    let n ← number; expect ']'; return .tsl e (.fixed n)
  if ← eatStr "TSD[" then
    let k ← parseSP; expect ','; let v ← parseTP; expect ']'; return .tsd k v
  if ← eatStr "TSW[" then
    let s ← parseSP; expect ','
    if ← eatChar '*' then
      expect ']'; return .tsw s none
    let p ← number; expect ','; let m ← number; expect ']'
    return .tsw s (some (p, m))
  if ← eatStr "TSB[~" then
    let n ← intern (← identStr); expect ']'; return .tsbVar n
  if ← eatStr "TSB<" then
    let nm ← intern (← identStr); expect '>'; expect '['
    let fs ← parsePFields; expect ']'; return .tsb (some nm) fs
  if ← eatStr "TSB[" then
    let fs ← parsePFields; expect ']'; return .tsb none fs
  if ← eatStr "REF[" then
    let t ← parseTP; expect ']'; return .ref t
  if ← eatStr "TS[" then
    let s ← parseSP; expect ']'; return .ts s
  failure
partial def parsePFields : P PFields := do
  let f ← intern (← identStr)
  expect ':'
  let t ← parseTP
  if ← eatChar ',' then
    let rest ← parsePFields
    return .cons f t rest
  else return .cons f t .nil
end

/-- run a parser on one whole word -/
def parseAll {α : Type} (p : P α) (syms : Array String) (w : String) : Option (α × Array String) :=
  match p.run { syms := syms, rest := w.toList } with
  | some (a, st) => if st.rest.isEmpty then some (a, st.syms) else none
  | none => none

/-! ### printing -/
def symName (syms : Array String) (n : Nat) : String := syms.getD n "?"

mutual
partial def showCT (syms : Array String) : CT → String
  | .ts s => s!"TS[{scalarName s}]"
  | .tss s => s!"TSS[{scalarName s}]"
  | .tsl e n => s!"TSL[{showCT syms e},{n}]"
  | .tsd k v => s!"TSD[{scalarName k},{showCT syms v}]"
  | .tsw s p m => s!"TSW[{scalarName s},{p},{m}]"
  | .tsb none fs => s!"TSB[{showCFields syms fs}]"
  | .tsb (some nm) fs => s!"TSB<{symName syms nm}>[{showCFields syms fs}]"
  | .ref t => s!"REF[{showCT syms t}]"
  | .signal => "SIGNAL"
partial def showCFields (syms : Array String) : CFields → String
  | .nil => ""
  | .cons f t .nil => s!"{symName syms f}:{showCT syms t}"
  | .cons f t rest => s!"{symName syms f}:{showCT syms t},{showCFields syms rest}"
end

def insertSorted (p : String × String) : List (String × String) → List (String × String)
  | [] => [p]
  | x :: xs => if p.1 < x.1 || (p.1 == x.1 && p.2 < x.2) then p :: x :: xs else x :: insertSorted p xs

def sortPairs (l : List (String × String)) : List (String × String) := l.foldr insertSorted []

def showMap (items : List (String × String)) : String :=
  "{" ++ ",".intercalate ((sortPairs items).map fun p => s!"{p.1}={p.2}") ++ "}"

def insertCand (p : String × Nat) : List (String × Nat) → List (String × Nat)
  | [] => [p]
  | x :: xs => if p.1 < x.1 || (p.1 == x.1 && p.2 < x.2) then p :: x :: xs else x :: insertCand p xs

def showCands (l : List (String × Nat)) : String :=
  "[" ++ ",".intercalate ((l.foldr insertCand []).map fun p => s!"{p.1}:{p.2}") ++ "]"

/-! ### the protocol -/
structure DS where
  syms : Array String := #[]
  family : List VOverload := []
  perms : List (List VOverload) := []

/-- the parameter words up to `->`: the fixed parameters, the tail pattern of a variadic candidate (`*ts:<tp>`, only
    as the LAST parameter), the symbol table, the words behind `->` -/
def parseParams (syms : Array String) :
    List String → Option (List Param × Option TP × Array String × List String)
  | [] => none
  | "->" :: rest => some ([], none, syms, rest)
  | w :: rest =>
    if w.startsWith "*ts:" then
      match parseAll parseTP syms (w.drop 4).toString, rest with
      | some (p, syms), "->" :: rest' => some ([], some p, syms, rest')
      | _, _ => none
    else if w.startsWith "ts:" then
      match parseAll parseTP syms (w.drop 3).toString with
      | some (p, syms) =>
        match parseParams syms rest with
        | some (ps, tl, syms, tail) => some (.input p :: ps, tl, syms, tail)
        | none => none
      | none => none
    else if w.startsWith "sc:" then
      match parseAll parseSP syms (w.drop 3).toString with
      | some (p, syms) =>
        match parseParams syms rest with
        | some (ps, tl, syms, tail) => some (.scalar p :: ps, tl, syms, tail)
        | none => none
      | none => none
    else none

def parseArgs (syms : Array String) : List String → Option (List Arg × Array String)
  | [] => some ([], syms)
  | w :: rest =>
    if w.startsWith "ts:" then
      match parseAll parseCT syms (w.drop 3).toString with
      | some (c, syms) => (parseArgs syms rest).map fun (as, syms) => (.ts c :: as, syms)
      | none => none
    else if w.startsWith "sc:" then
      match parseAll (do scalarOf (← identStr)) syms (w.drop 3).toString with
      | some (s, syms) => (parseArgs syms rest).map fun (as, syms) => (.sc s :: as, syms)
      | none => none
    else none

/-- scalar → const promotion into a FIXED time-series parameter would be needed: outside the model
    (a plain value in a variadic tail is modelled: `scPromote`) -/
def unsupported (family : List VOverload) (args : List Arg) : Bool :=
  family.any fun vo =>
    let o := vo.ov
    (if vo.tail.isSome then decide (o.params.length ≤ args.length) else o.params.length == args.length) &&
      (o.params.zip args).any fun pa =>
        match pa with
        | (.input _, .sc _) => true
        | _ => false

def showEvent (syms : Array String) (os : List VOverload) (args : List Arg) (sel : Option Survivor)
    (amb : List Survivor) : String :=
  let rej := (os.filterMap (rejectedOfV args)).map fun p => (symName syms p.1, p.2)
  let selS := match sel with
    | some s => s!"{symName syms s.ov.label}:{s.rank}"
    | none => "-"
  s!" ev=sel:{selS};rej:{showCands rej};amb:{showCands (amb.map fun s => (symName syms s.ov.label, s.rank))}"

def showOutcome (syms : Array String) (os : List VOverload) (args : List Arg) : String :=
  match resolveCallV os args with
  | .noMatch => "err:no-match" ++ showEvent syms os args none []
  | .ambiguous tied => "err:ambiguous" ++ showEvent syms os args none tied
  | .winner s out =>
    let ts := showMap (s.map.ts.map fun p => (symName syms p.1, showCT syms p.2))
    let sc := showMap (s.map.sc.map fun p => (symName syms p.1, scalarName p.2))
    let sz := showMap (s.map.sz.map fun p => (symName syms p.1, toString p.2))
    let o := match s.ov.out, out with
      | none, _ => "-"
      | some _, some c => showCT syms c
      | some _, none => "null"
    s!"win:{symName syms s.ov.label}:{s.rank} ts{ts} sc{sc} sz{sz} out={o}" ++ showEvent syms os args (some s) []

def showSolo (syms : Array String) (args : List Arg) (o : VOverload) : String :=
  match survivorOfV args o with
  | some s => s!" {symName syms o.ov.label}=ok:{s.rank}"
  | none => s!" {symName syms o.ov.label}=rej"

def step (d : DS) (ws : List String) : DS × String :=
  match ws with
  | [] => (d, "")
  | ["case", n] => ({}, s!"case {n}")
  | "ov" :: label :: rest =>
    if rest.length < 2 then (d, "bad-op") else
    match parseParams d.syms rest with
    | some (ps, tl, syms, outW :: kwWs) =>
      let outR : Option (Option TP × Array String) :=
        if outW == "-" then some (none, syms)
        else (parseAll parseTP syms outW).map fun (p, syms) => (some p, syms)
      match outR with
      | some (out, syms) =>
        let kwR : Option (Option (Option TP) × Array String) :=
          match kwWs with
          | [] => some (none, syms)
          | [kwW] =>
            if kwW == "kw:*" then some (some none, syms)
            else if kwW.startsWith "kw:" then
              (parseAll parseTP syms (kwW.drop 3).toString).map fun (p, syms) => (some (some p), syms)
            else none
          | _ => none
        match kwR with
        | some (kw, syms) =>
          match (intern label).run { syms := syms, rest := [] } with
          | some (l, st) =>
            if d.family.any (fun o => o.ov.label == l) then (d, "bad-op")
            else
              let o : VOverload := { ov := { label := l, params := ps, out := out, kw := kw }, tail := tl }
              ({ d with syms := st.syms, family := d.family ++ [o] }, s!"ok {baseRank o}")
          | none => (d, "bad-op")
        | none => (d, "bad-op")
      | none => (d, "bad-op")
    | _ => (d, "bad-op")
  | ["perm"] => (d, "bad-op")
  | "perm" :: labels =>
    let chosen := labels.map fun l => d.family.find? fun o => symName d.syms o.ov.label == l
    if chosen.all Option.isSome then
      ({ d with perms := d.perms ++ [chosen.filterMap id] }, "ok")
    else (d, "bad-op")
  | "call" :: ws =>
    match parseArgs d.syms ws with
    | some (args, syms) =>
      if unsupported d.family args then (d, "unsupported") else
      let solo := String.join (d.family.map (showSolo syms args))
      let perms := String.join (d.perms.map fun os => " ## " ++ showOutcome syms os args)
      ({ d with syms := syms }, "solo" ++ solo ++ perms)
    | none => (d, "bad-op")
  | _ => (d, "bad-op")

def main : IO Unit := run ({} : DS) step
