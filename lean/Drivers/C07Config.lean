import HgVerif.Model.GSConfig
import HgVerif.Driver.Proto
/-! Model driver for the C07 record/replay configuration stream: same line protocol as `harness/drv_gsconfig.cpp`. -/
open HgVerif.GSConfig HgVerif.Driver

def wordOk (s : String) : Bool :=
  let cs := s.toList
  match cs with
  | [] => false
  | c :: _ => cs.length ≤ 40 && cs.all (fun c => c.isAlphanum || c == '.' || c == '_') && c != '_' && c != '.'

def parseInt (s : String) : Option Int :=
  if s.startsWith "+" then none else s.toInt?

def parseAction (tok : String) : Option Action :=
  if tok == "rm" then some .rmCfg
  else if tok == "bad" then some .bad
  else if tok.startsWith "set:" then (let b := (tok.drop 4).toString; if wordOk b then some (.setCfg b) else none)
  else if tok.startsWith "raw:" then (let b := (tok.drop 4).toString; if wordOk b then some (.rawCfg b) else none)
  else if tok.startsWith "del:" then (let k := (tok.drop 4).toString; if wordOk k then some (.del k) else none)
  else if tok.startsWith "put:" then
    match (tok.drop 4).toString.splitOn "=" with
    | [k, v] => match parseInt v with
      | some v => if wordOk k then some (.put k v) else none
      | none => none
    | _ => none
  else none

def parseActions (text : String) : Option (List Action) :=
  if text == "-" then some []
  else (text.splitOn "+").foldr (fun tok acc => match parseAction tok, acc with
    | some a, some r => some (a :: r)
    | _, _ => none) (some [])

def parseStore (w : String) : Option StoreKind :=
  match w with
  | "new" => some .fresh
  | "frame" => some .frame
  | "own" => some .own
  | "none" => some .stateless
  | _ => if w.startsWith "obj:" && wordOk (w.drop 4).toString then some (.obj (w.drop 4).toString) else none

def parsePrep : String → Option Prep
  | "asis" => some .asis
  | "reset" => some .reset
  | "copy" => some .copy
  | "clear" => some .clear
  | w => if w.startsWith "copy:" && wordOk (w.drop 5).toString then some (.copyFrom (w.drop 5).toString) else none

def parseItems : List String → Option (List (Option Int))
  | [] => some []
  | "_" :: rest => (parseItems rest).map (none :: ·)
  | w :: rest => match parseInt w, parseItems rest with
    | some v, some r => some (some v :: r)
    | _, _ => none

/-- graph token `<kind>[@model][!]` -> (kind name, model, probe) -/
def splitGraphTok (tok : String) : Option (String × String × Bool) :=
  let probe := tok.endsWith "!"
  let t := if probe then (tok.dropEnd 1).toString else tok
  match t.splitOn "@" with
  | [g] => some (g, "", probe)
  | [g, m] => if wordOk m then some (g, m, probe) else none
  | _ => none

def parseGraph (tok key : String) (inputs : List String) : Option (Option GraphSpec) :=
  match splitGraphTok tok with
  | none => none
  | some (g, model, probe) =>
    if g == "q" then
      if key == "-" && inputs.isEmpty && model == "" && !probe && !(tok.contains '@') then some none else none
    else if !(wordOk key) || key == "in" then none
    else if g == "tick" then
      match inputs with
      | [n] => match n.toList with
        | [c] => if c ≥ '1' && c ≤ '9' then some (some ⟨.tick (c.toNat - '0'.toNat), model, key, probe⟩) else none
        | _ => none
      | _ => none
    else if g == "rep" || g == "cmp" then
      match parseItems inputs with
      | some xs => if xs.length > 12 then none
                   else some (some ⟨if g == "rep" then .rep xs else .cmp xs, model, key, probe⟩)
      | none => none
    else none

def parseStep : List String → Option Step
  | "step" :: store :: prep :: pre :: late :: gtok :: key :: inputs =>
    match parseStore store, parsePrep prep, parseActions pre, parseActions late, parseGraph gtok key inputs with
    | some k, some p, some a, some l, some g =>
      if k == .stateless && p != .asis then none else some { kind := k, prep := p, pre := a, late := l, graph := g }
    | _, _, _, _, _ => none
  | _ => none

def enumSome (off : Nat) : List (Option Int) → List (Nat × Int)
  | [] => []
  | none :: rest => enumSome (off + 1) rest
  | some v :: rest => (off, v) :: enumSome (off + 1) rest

def showTrace (t : List (Nat × Int)) : String :=
  "[" ++ " ".intercalate (t.map fun p => s!"{p.1}:{p.2}") ++ "]"

def showU : UVal → String
  | .cfg b => s!"cfg({b})"
  | .int v => s!"i{v}"

def showF : FVal → String
  | .user v => showU v
  | .anyl xs => s!"A{xs.length}" ++ showTrace (enumSome 0 xs)
  | .dense xs => s!"D{xs.length}" ++ showTrace (enumSome 0 xs)
  | .sparse xs => s!"S{xs.length}" ++ showTrace xs
  | .summary c m => s!"cmp({c}/{m})"

def insSorted (p : String × String) : List (String × String) → List (String × String)
  | [] => [p]
  | x :: xs => if p.1 < x.1 then p :: x :: xs else x :: insSorted p xs

def showAList {α : Type} (sh : α → String) (s : AList α) : String :=
  let sorted := s.foldl (fun acc p => insSorted (p.1, sh p.2) acc) []
  "{" ++ " ".intercalate (sorted.map fun p => p.1 ++ "=" ++ p.2) ++ "}"

def showSeed : SeedObs → String
  | .value v => s!"{v}"
  | .nothing => "-"
  | .err => "err"

def showObs (o : Obs) : String :=
  let pre := "pre" ++ showAList showU o.pre
  match o.out with
  | .query (some b) => pre ++ " cfg=" ++ b
  | .query none => pre ++ " cfg=err"
  | .wireErr => pre ++ " err:wire"
  | .ran st final seed =>
    pre ++ (match st with | .ok => " ok" | .errRun => " err:run") ++ " post" ++ showAList showF final ++
      (match seed with | some s => " seed=" ++ showSeed s | none => "")

def step (p : Proc) (ws : List String) : Proc × String :=
  match ws with
  | ["case", n] => ({}, s!"case {n}")
  | [] => (p, "")
  | _ =>
    match parseStep ws with
    | none => (p, "bad-op")
    | some st => let r := p.step st; (r.1, showObs r.2)

def main : IO Unit := run ({} : Proc) step
