import HgVerif.Model.Rank
import HgVerif.Driver.Proto
/-! Model driver for the static half of C01 (rank pass): same line protocol as `harness/drv_rank.cpp`. -/
open HgVerif.Rank HgVerif.Driver

structure DS where
  labels : List String := []                       -- declared nodes, statement order
  ins : List (List (String × Bool)) := []          -- per node: inputs as written (producer label, rank flag)
  prog : Prog := {}                                -- `inputs` are filled in at `finish`

def idxOfLabel (d : DS) (l : String) : Option Nat :=
  let i := d.labels.idxOf l
  if i < d.labels.length then some i else none

/-- `r:x` / `R:x` rank-carrying, `f:x` / `F:x` rank-free -/
def parseIn (t : String) : Option (String × Bool) :=
  match t.toList with
  | k :: ':' :: c :: rest =>
    let name := String.ofList (c :: rest)
    if k = 'r' || k = 'R' then some (name, true)
    else if k = 'f' || k = 'F' then some (name, false)
    else none
  | _ => none

def lexLe (a b : String × String × String) : Bool :=
  if a.1 != b.1 then a.1 < b.1
  else if a.2.1 != b.2.1 then a.2.1 < b.2.1
  else a.2.2 ≤ b.2.2

def errStr : Err → String
  | .cycle => "err:cycle"
  | _ => "err:other"

def resolved (d : DS) : Prog :=
  let n := d.labels.length
  let g := (d.prog.g.zip d.ins).map fun (nd, is) =>
    { nd with inputs := is.map fun (l, r) => ((idxOfLabel d l).getD n, r) }
  { d.prog with g := g }

def finishLine (d : DS) : String :=
  match finish (resolved d) with
  | .error e => errStr e
  | .ok b =>
    let lab (i : Nat) : String := d.labels.getD i "?"
    let order := ",".intercalate (b.order.map lab)
    let es := b.edges.map fun e => (lab (b.order.getD e.src 0), lab (b.order.getD e.tgt 0), s!".{e.slot}")
    let es := es.mergeSort lexLe
    let edges := ",".intercalate (es.map fun e => s!"{e.1}>{e.2.1}{e.2.2}")
    s!"order={order} edges={edges} push={b.pushEnd}"

def step (d : DS) (ws : List String) : DS × String :=
  match ws with
  | ["case", n] => ({}, s!"case {n}")
  | "node" :: l :: p :: ins =>
    if (p != "0" && p != "1") || ins.length > 3 || (idxOfLabel d l).isSome then (d, "bad-op") else
    let push := p == "1"
    let parsed := ins.map parseIn
    if parsed.any (·.isNone) then (d, "bad-op") else
    let is := parsed.filterMap id
    if push && is.any (fun i => !i.2) then (d, "bad-op") else
    ({ d with labels := d.labels ++ [l], ins := d.ins ++ [is],
              prog := { d.prog with g := d.prog.g ++ [{ push := push }] } }, "ok")
  | ["dep", a, b] =>
    match idxOfLabel d a, idxOfLabel d b with
    | some a, some b =>
      match addDep d.prog.g a b with
      | .ok g => ({ d with prog := { d.prog with g := g } }, "ok")
      | .error e => (d, errStr e)
    | _, _ => (d, "bad-op")
  | ["pair", a, b] =>
    match idxOfLabel d a, idxOfLabel d b with
    | some a, some b =>
      match addPair d.prog a b with
      | .ok p => ({ d with prog := p }, "ok")
      | .error e => (d, errStr e)
    | _, _ => (d, "bad-op")
  | ["finish"] => ({}, finishLine d)
  | [] => (d, "")
  | _ => (d, "bad-op")

def main : IO Unit := run ({} : DS) step
