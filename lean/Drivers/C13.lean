import HgVerif.Model.RefLink
import HgVerif.Driver.Proto
/-! Model driver for C13: same line protocol as `harness/drv_ref.cpp`.
Consumer ids `0 .. ncons-1` are the counting consumers (consumer 1 is `Unchecked`); id `ncons` is
the stdlib recorder reading through the reference (an `Unchecked` consumer that stores the captured
delta when its input is modified and the delta is observable). -/
open HgVerif.RefLink HgVerif.Driver

structure DS where
  shape : Shape := .ts
  ncons : Nat := 1
  inner : Bool := false
  innerRef : Bool := false
  cmp : Bool := false
  cfgBad : Bool := false
  st : State := {}

def mkState (shape : Shape) (ncons : Nat) (inner innerRef cmp : Bool) : State :=
  init { shape := shape, nC := ncons + 1, nT := if cmp then 3 else 2,
         checked := fun c => c != 1 && c != ncons,
         startSched := if inner && ncons ≥ 2 then [1] else [],
         resample := if innerRef && ncons ≥ 2 then [1] else [] }

def DS.fresh (d : DS) : DS := { d with st := mkState d.shape d.ncons d.inner d.innerRef d.cmp }

def insSorted (p : Int × String) : List (Int × String) → List (Int × String)
  | [] => [p]
  | x :: xs => if p.1 < x.1 then p :: x :: xs else if p.1 == x.1 then x :: xs else x :: insSorted p xs

def joinSorted (items : List (Int × String)) : String :=
  ",".intercalate ((items.foldl (fun acc p => insSorted p acc) []).map (·.2))

def cat (l r : String) : String := if l.isEmpty || r.isEmpty then l ++ r else l ++ "," ++ r

def pre (p : String) (ks : List Int) : String := joinSorted (ks.map fun k => (k, p ++ toString k))

def kvText (m : List (Int × Int)) : String := joinSorted (m.map fun p => (p.1, s!"{p.1}:{p.2}"))

def tsVal (m : List (Int × Int)) : String :=
  match m with
  | (_, v) :: _ => toString v
  | [] => "_"

/-- canonical delta text (same as `delta_text` of the harness) -/
def deltaText (sh : Shape) (a r : List Int) (kv : List (Int × Int)) : String :=
  match sh with
  | .ts => tsVal kv
  | .tss => "{" ++ cat (pre "+" a) (pre "-" r) ++ "}"
  | .tsd => "{" ++ cat (pre "-" r) (kvText kv) ++ "}"

def seenText (sh : Shape) (v : View) : String :=
  let head := s!"v={b2s v.valid} m={b2s v.modified}"
  match sh with
  | .ts =>
    if v.valid then head ++ s!" x={tsVal v.items} d=" ++ (match v.dv with
      | some (_, _, kv) => tsVal kv
      | none => "_")
    else head ++ " x=_ d=_"
  | .tss =>
    if !v.valid then head ++ " x=_ d=_ k=_" else
    head ++ " x={" ++ pre "" (keys v.items) ++ "} d=" ++ (match v.dv with
      | some (a, r, kv) => deltaText sh a r kv
      | none => "_") ++ " k={" ++ cat (pre "+" v.added) (pre "-" v.removed) ++ "}"
  | .tsd =>
    if !v.valid then head ++ " x=_ d=_ k=_" else
    head ++ " x={" ++ kvText v.items ++ "} d=" ++ (match v.dv with
      | some (a, r, kv) => deltaText sh a r kv
      | none => "_") ++ " k={" ++ cat (cat (pre "+" v.added) (pre "-" v.removed)) (pre "~" (keys v.modk)) ++ "}"

/-- what `record` stores: `capture_delta` gated by `delta_is_observable` -/
def recText (sh : Shape) (v : Option View) : String :=
  match v with
  | none => "-"
  | some v =>
    if !v.modified then "-" else
    match sh with
    | .ts => if v.valid then tsVal v.items else "-"
    | .tss => if v.valid || !v.removed.isEmpty then deltaText sh v.added v.removed [] else "-"
    | .tsd => if v.valid || !v.removed.isEmpty || !v.modk.isEmpty then deltaText sh [] v.removed v.modk else "-"

def parseNat (s : String) : Option Nat :=
  if s.isEmpty || s.length > 9 || !s.all Char.isDigit then none else s.toNat?

def parseInt (s : String) : Option Int :=
  if s.startsWith "-" then (parseNat (s.drop 1).toString).map (fun n => -(Int.ofNat n))
  else (parseNat s).map Int.ofNat

def parseSpec (sh : Shape) (tok : String) : Option Delta :=
  match sh with
  | .ts => (parseInt tok).map fun v => { sets := [(0, v)] }
  | .tss =>
    (tok.splitOn ",").foldl (fun acc p => acc.bind fun (d : Delta) =>
      if p.length < 2 then none else
      match parseNat (p.drop 1).toString with
      | none => none
      | some k =>
        if p.startsWith "+" then some { d with sets := d.sets ++ [((k : Int), 0)] }
        else if p.startsWith "-" then some { d with dels := d.dels ++ [(k : Int)] }
        else none) (some {})
  | .tsd =>
    (tok.splitOn ",").foldl (fun acc p => acc.bind fun (d : Delta) =>
      if p.length ≥ 2 && p.startsWith "-" then
        (parseNat (p.drop 1).toString).map fun k => { d with dels := d.dels ++ [(k : Int)] }
      else
        match p.splitOn ":" with
        | [ks, vs] =>
          match parseNat ks, parseInt vs with
          | some k, some v => some { d with sets := d.sets ++ [((k : Int), v)] }
          | _, _ => none
        | _ => none) (some {})

structure CyParse where
  sel : Option Nat := none
  d : List (Nat × Delta) := []

def targetIdx (k : String) (cmp : Bool) : Option Nat :=
  if k == "a" then some 0 else if k == "b" then some 1 else if k == "c" && cmp then some 2 else none

def parseCycle (d : DS) (ws : List String) : Option CyParse :=
  ws.foldl (fun acc w => acc.bind fun (cy : CyParse) =>
    match w.splitOn "=" with
    | [k, v] =>
      if k == "sel" then
        match targetIdx v d.cmp, cy.sel with
        | some i, none => some { cy with sel := some i }
        | _, _ => none
      else
        match targetIdx k d.cmp with
        | some i =>
          if cy.d.any (·.1 == i) then none
          else (parseSpec d.shape v).map fun dl => { cy with d := cy.d ++ [(i, dl)] }
        | none => none
    | _ => none) (some {})

def ownText (sh : Shape) (t : Target) : String :=
  match sh with
  | .ts => tsVal t.items
  | _ => deltaText sh t.added t.removed t.modKV

def cycleLine (d : DS) (cy : CyParse) : DS × String :=
  let inp : CycleIn := { sel := cy.sel, ticks := fun t => (cy.d.find? (·.1 == t)).map (·.2) }
  let r := cycle d.st inp
  let s' := r.1
  let names := ["ra", "rb", "rc"]
  let recs := (List.range s'.nT).map fun t =>
    s!" {names.getD t "r?"}=" ++ (if (s'.targets t).lmt == s'.now then ownText d.shape (s'.targets t) else "-")
  let seen := fun (c : Nat) => (r.2.find? (·.1 == c)).map (·.2)
  let cons := (List.range d.ncons).map fun c =>
    " | " ++ (match seen c with
      | some v => seenText d.shape v
      | none => "-")
  ({ d with st := s' },
   s!"r={b2s (s'.refLmt == s'.now)}" ++ String.join recs ++ " rs=" ++ recText d.shape (seen d.ncons) ++ String.join cons)

def shapeOf (s : String) : Option Shape :=
  if s == "ts" then some .ts else if s == "tss" then some .tss else if s == "tsd" then some .tsd else none

def step (d : DS) (ws : List String) : DS × String :=
  match ws with
  | [] => (d.fresh, "")
  | "case" :: rest => (({} : DS).fresh, " ".intercalate ("case" :: rest))
  | "cfg" :: args =>
    let bad : DS × String := ({ d.fresh with cfgBad := true }, "bad-op")
    match args with
    | sh :: n :: stage :: more =>
      match shapeOf sh, more with
      | some shape, [] | some shape, ["ite"] | some shape, ["cmp"] =>
        if (n == "1" || n == "2" || n == "3") && (stage == "direct" || stage == "pass" || stage == "inner" || stage == "innerref") then
          (({ shape := shape, ncons := n.toNat!, inner := stage == "inner" || stage == "innerref",
              innerRef := stage == "innerref", cmp := more == ["cmp"] } : DS).fresh, "ok")
        else bad
      | _, _ => bad
    | _ => bad
  | "c" :: rest =>
    if d.cfgBad then (d.fresh, "bad-op") else
    match parseCycle d rest with
    | some cy => cycleLine d cy
    | none => (d.fresh, "bad-op")
  | "run" :: _ => if d.cfgBad then (d.fresh, "bad-op") else (d.fresh, "end")
  | _ => (d.fresh, "bad-op")

def main : IO Unit := run (({} : DS).fresh) step
