import HgVerif.Model.RefLinkSib
import HgVerif.Driver.Proto
/-! Model driver for C13: same line protocol as `harness/drv_ref.cpp`.
Consumer ids `0 .. ncons-1` are the counting consumers (consumer 1 is `Unchecked`); id `ncons` is
the stdlib recorder reading through the reference (an `Unchecked` consumer that stores the captured
delta when its input is modified and the delta is observable).
Every configuration is a selection tree (`Chain`): `ite` = `i(a,b)`, `cmp` = `m(a,b,c)`, `tree:<T>` as given. -/
open HgVerif.RefLink HgVerif.Driver

structure DS where
  shape : Shape := .ts
  ncons : Nat := 1
  inner : Bool := false
  innerRef : Bool := false
  cmp : Bool := false
  /-- structured shapes (`tsb2`, `tsb3`, `tsl2`, `tsbw2`): number of fields; `0` = a plain shape -/
  nF : Nat := 0
  /-- sibling-children shapes (`tsf`, `tle`, `tsx`, `tsm`, `tssf`): the designation code of every target letter
      (`Desig.code 4`); `[]` = the letters are the target numbers -/
  codes : List Nat := []
  /-- `tsbw2`: bundles assembled at wiring time - `r` / `n` are not observed -/
  wired : Bool := false
  /-- `cfg ... tree:<T>` -/
  chained : Bool := false
  /-- the selection tree with all nodes in their initial state -/
  tree : Chain := .ite 0 {} (.leaf 0) (.leaf 1)
  /-- number of selection nodes / their arities (by selector number) -/
  arity : List Nat := [2]
  nT : Nat := 2
  cfgBad : Bool := false
  st : CSys := { chain := .ite 0 {} (.leaf 0) (.leaf 1), s := {} }

def mkState (shape : Shape) (ncons : Nat) (inner innerRef : Bool) (nT : Nat) : State :=
  init { shape := shape, nC := ncons + 1, nT := nT,
         checked := fun c => c != 1 && c != ncons,
         startSched := if inner && ncons ≥ 2 then [1] else [],
         resample := if innerRef && ncons ≥ 2 then [1] else [] }

/-- the field links of consumer `c` -/
def fieldLinks (nF c : Nat) : List Nat := (List.range nF).map fun f => c * nF + f

def mkStateS (nF ncons : Nat) (inner innerRef : Bool) (nT : Nat) : State :=
  initS nF (ncons + 1) nT (fun c => c != 1 && c != ncons)
    (if inner && ncons ≥ 2 then fieldLinks nF 1 else [])
    (if innerRef && ncons ≥ 2 then fieldLinks nF 1 else [])

/-- target number of letter `t` -/
def DS.code (d : DS) (t : Nat) : Nat := if d.codes.isEmpty then t else d.codes.getD t t

/-- number of targets of the state -/
def DS.stateNT (d : DS) : Nat := if d.codes.isEmpty then d.nT else (d.codes.foldl max 0) + 1

def DS.fresh (d : DS) : DS :=
  { d with st := { chain := d.tree,
                   s := if d.nF == 0 then mkState d.shape d.ncons d.inner d.innerRef d.stateNT
                        else mkStateS d.nF d.ncons d.inner d.innerRef d.nT } }

def fieldNames : List String := ["x", "y", "z"]

/-- fields with their values, `x:<v>,y:<v>` (`-` when there is none) -/
def fieldsText (items : List (Nat × Int)) : String :=
  if items.isEmpty then "-" else ",".intercalate (items.map fun p => s!"{fieldNames.getD p.1 "?"}:{p.2}")

def fieldVal (v : View) : Int :=
  match v.items with
  | (_, x) :: _ => x
  | [] => 0

def seenTextS (v : SView) : String :=
  s!"v={b2s v.valid} m={b2s v.modified} x=" ++
    ",".intercalate (v.fields.map fun f => if f.valid then toString (fieldVal f) else "_") ++
    " fm=" ++ String.join (v.fields.map fun f => b2s f.modified)

/-- what `record` stores for a bundle: the valid fields that are modified -/
def recTextS (v : Option SView) : String :=
  match v with
  | none => "-"
  | some v =>
    fieldsText (((List.range v.fields.length).zip v.fields).filterMap fun p =>
      if p.2.modified && p.2.valid then some (p.1, fieldVal p.2) else none)

/-! selection trees: `T ::= a|b|c|d | i(T,T) | m(T,T,T) | p(T)`, `p` not directly above a target (same limits as the harness) -/

structure TP where
  rest : List Char
  nsel : Nat := 0
  arity : List Nat := []
  nT : Nat := 0

def maxTargets : Nat := 4
def maxSel : Nat := 6
def maxDepth : Nat := 4

def expect (c : Char) (p : TP) : Option TP :=
  match p.rest with
  | x :: xs => if x == c then some { p with rest := xs } else none
  | [] => none

/-- recursive descent; `fuel` bounds the depth -/
def parseTree : Nat → TP → Option (Chain × TP)
  | 0, _ => none
  | fuel + 1, p =>
    match p.rest with
    | [] => none
    | ch :: xs =>
      if 'a'.toNat ≤ ch.toNat && ch.toNat < 'a'.toNat + maxTargets then
        let t := ch.toNat - 'a'.toNat
        some (.leaf t, { p with rest := xs, nT := max p.nT (t + 1) })
      else if ch == 'p' then
        (expect '(' { p with rest := xs }).bind fun p1 =>
        (parseTree fuel p1).bind fun (k, p2) =>
        match k with
        | .leaf _ => none
        | _ => (expect ')' p2).map fun p3 => (.pass k, p3)
      else if ch == 'i' then
        if p.nsel ≥ maxSel then none else
        let id := p.nsel
        (expect '(' { p with rest := xs, nsel := p.nsel + 1, arity := p.arity ++ [2] }).bind fun p1 =>
        (parseTree fuel p1).bind fun (l, p2) =>
        (expect ',' p2).bind fun p3 =>
        (parseTree fuel p3).bind fun (r, p4) =>
        (expect ')' p4).map fun p5 => (.ite id {} l r, p5)
      else if ch == 'm' then
        if p.nsel ≥ maxSel then none else
        let id := p.nsel
        (expect '(' { p with rest := xs, nsel := p.nsel + 1, arity := p.arity ++ [3] }).bind fun p1 =>
        (parseTree fuel p1).bind fun (a, p2) =>
        (expect ',' p2).bind fun p3 =>
        (parseTree fuel p3).bind fun (b, p4) =>
        (expect ',' p4).bind fun p5 =>
        (parseTree fuel p5).bind fun (c, p6) =>
        (expect ')' p6).map fun p7 => (.cmp id {} a b c, p7)
      else none

def makeTree (txt : String) : Option (Chain × TP) :=
  match parseTree maxDepth { rest := txt.toList } with
  | some (t, p) =>
    if !p.rest.isEmpty then none else
    match t with
    | .ite .. | .cmp .. => some (t, p)
    | _ => none
  | none => none

/-- number of tree nodes (selection operators and pass-throughs) whose REF output ticked: those whose
    published reference differs between the old and the new tree -/
def published : Chain → Chain → Nat
  | .ite _ s l r, .ite _ s' l' r' => (if s.out != s'.out then 1 else 0) + published l l' + published r r'
  | .cmp _ s a b c, .cmp _ s' a' b' c' =>
    (if s.out != s'.out then 1 else 0) + published a a' + published b b' + published c c'
  | .pass k, .pass k' => (if k.out != k'.out then 1 else 0) + published k k'
  | _, _ => 0

def insSorted (p : Int × String) : List (Int × String) → List (Int × String)
  | [] => [p]
  | x :: xs => if p.1 < x.1 then p :: x :: xs else if p.1 == x.1 then x :: xs else x :: insSorted p xs

def joinSorted (items : List (Int × String)) : String :=
  ",".intercalate ((items.foldl (fun acc p => insSorted p acc) []).map (·.2))

def cat (l r : String) : String := if l.isEmpty || r.isEmpty then l ++ r else l ++ "," ++ r

def pre (p : String) (ks : List Int) : String := joinSorted (ks.map fun k => (k, p ++ toString k))

def kvText (m : List (Int × Int)) : String := joinSorted (m.map fun p => (p.1, s!"{p.1}:{p.2}"))

def tsVal (m : List (Int × Int)) : String :=
  match m with
  | (_, v) :: _ => toString v
  | [] => "_"

/-- canonical delta text (same as `delta_text` of the harness) -/
def deltaText (sh : Shape) (a r : List Int) (kv : List (Int × Int)) : String :=
  match sh with
  | .ts => tsVal kv
  | .tss => "{" ++ cat (pre "+" a) (pre "-" r) ++ "}"
  | .tsd => "{" ++ cat (pre "-" r) (kvText kv) ++ "}"

def seenText (sh : Shape) (v : View) : String :=
  let head := s!"v={b2s v.valid} m={b2s v.modified}"
  match sh with
  | .ts =>
    if v.valid then head ++ s!" x={tsVal v.items} d=" ++ (match v.dv with
      | some (_, _, kv) => tsVal kv
      | none => "_")
    else head ++ " x=_ d=_"
  | .tss =>
    if !v.valid then head ++ " x=_ d=_ k=_" else
    head ++ " x={" ++ pre "" (keys v.items) ++ "} d=" ++ (match v.dv with
      | some (a, r, kv) => deltaText sh a r kv
      | none => "_") ++ " k={" ++ cat (pre "+" v.added) (pre "-" v.removed) ++ "}"
  | .tsd =>
    if !v.valid then head ++ " x=_ d=_ k=_" else
    head ++ " x={" ++ kvText v.items ++ "} d=" ++ (match v.dv with
      | some (a, r, kv) => deltaText sh a r kv
      | none => "_") ++ " k={" ++ cat (cat (pre "+" v.added) (pre "-" v.removed)) (pre "~" (keys v.modk)) ++ "}"

/-- what `record` stores: `capture_delta` gated by `delta_is_observable` -/
def recText (sh : Shape) (v : Option View) : String :=
  match v with
  | none => "-"
  | some v =>
    if !v.modified then "-" else
    match sh with
    | .ts => if v.valid then tsVal v.items else "-"
    | .tss => if v.valid || !v.removed.isEmpty then deltaText sh v.added v.removed [] else "-"
    | .tsd => if v.valid || !v.removed.isEmpty || !v.modk.isEmpty then deltaText sh [] v.removed v.modk else "-"

def parseNat (s : String) : Option Nat :=
  if s.isEmpty || s.length > 9 || !s.all Char.isDigit then none else s.toNat?

def parseInt (s : String) : Option Int :=
  if s.startsWith "-" then (parseNat (s.drop 1).toString).map (fun n => -(Int.ofNat n))
  else (parseNat s).map Int.ofNat

def parseSpec (sh : Shape) (tok : String) : Option Delta :=
  match sh with
  | .ts => (parseInt tok).map fun v => { sets := [(0, v)] }
  | .tss =>
    (tok.splitOn ",").foldl (fun acc p => acc.bind fun (d : Delta) =>
      if p.length < 2 then none else
      match parseNat (p.drop 1).toString with
      | none => none
      | some k =>
        if p.startsWith "+" then some { d with sets := d.sets ++ [((k : Int), 0)] }
        else if p.startsWith "-" then some { d with dels := d.dels ++ [(k : Int)] }
        else none) (some {})
  | .tsd =>
    (tok.splitOn ",").foldl (fun acc p => acc.bind fun (d : Delta) =>
      if p.length ≥ 2 && p.startsWith "-" then
        (parseNat (p.drop 1).toString).map fun k => { d with dels := d.dels ++ [(k : Int)] }
      else
        match p.splitOn ":" with
        | [ks, vs] =>
          match parseNat ks, parseInt vs with
          | some k, some v => some { d with sets := d.sets ++ [((k : Int), v)] }
          | _, _ => none
        | _ => none) (some {})

structure CyParse where
  sel : List (Nat × Nat) := []
  d : List (Nat × Delta) := []

def targetIdx (k : String) (nT : Nat) : Option Nat :=
  match k.toList with
  | [ch] => if 'a'.toNat ≤ ch.toNat && ch.toNat < 'a'.toNat + nT then some (ch.toNat - 'a'.toNat) else none
  | _ => none

def digit (ch : Char) (bound : Nat) : Option Nat :=
  if '0'.toNat ≤ ch.toNat && ch.toNat < '0'.toNat + bound then some (ch.toNat - '0'.toNat) else none

def parseCycle (d : DS) (ws : List String) : Option CyParse :=
  ws.foldl (fun acc w => acc.bind fun (cy : CyParse) =>
    match w.splitOn "=" with
    | [k, v] =>
      if k == "sel" then
        if d.chained then none else
        match targetIdx v d.nT, cy.sel with
        | some i, [] => some { cy with sel := [(0, i)] }
        | _, _ => none
      else
        match k.toList, v.toList with
        | ['s', kc], [vc] =>
          if !d.chained then none else
          match digit kc d.arity.length with
          | some n =>
            match digit vc (d.arity.getD n 0) with
            | some b => if cy.sel.any (·.1 == n) then none else some { cy with sel := cy.sel ++ [(n, b)] }
            | none => none
          | none => none
        | [tc, '.', fc], _ =>
          if d.nF == 0 then none else
          match targetIdx (String.singleton tc) d.nT, parseInt v with
          | some t, some val =>
            if 'x'.toNat ≤ fc.toNat && fc.toNat < 'x'.toNat + d.nF then
              let i := t * d.nF + (fc.toNat - 'x'.toNat)
              if cy.d.any (·.1 == i) then none else some { cy with d := cy.d ++ [(i, { sets := [(0, val)] })] }
            else none
          | _, _ => none
        | _, _ =>
          if d.nF != 0 then none else
          match (targetIdx k d.nT).map d.code with
          | some i =>
            if cy.d.any (·.1 == i) then none
            else (parseSpec d.shape v).map fun dl => { cy with d := cy.d ++ [(i, dl)] }
          | none => none
    | _ => none) (some {})

def ownText (sh : Shape) (t : Target) : String :=
  match sh with
  | .ts => tsVal t.items
  | _ => deltaText sh t.added t.removed t.modKV

/-- the same state with `targets` / `links` tabulated (the model updates them by wrapping closures; without
    this a long history makes every lookup walk through all earlier updates) -/
def tabulate (s : State) (nL nT : Nat) : State :=
  let ts := ((List.range nT).map s.targets).toArray
  let ls := ((List.range nL).map s.links).toArray
  let t0 := s.targets nT
  let l0 := s.links nL
  { s with targets := fun t => ts.getD t t0, links := fun c => ls.getD c l0 }

def cycleLineS (d : DS) (cy : CyParse) : DS × String :=
  let inp : CIn := { conds := fun n => (cy.sel.find? (·.1 == n)).map (·.2),
                     ticks := fun t => (cy.d.find? (·.1 == t)).map (·.2) }
  let r := cycleCS d.nF (d.ncons + 1) d.st inp
  let s' := r.1.s
  let names := ["ra", "rb", "rc", "rd"]
  let recs := (List.range d.nT).map fun t =>
    s!" {names.getD t "r?"}=" ++ fieldsText ((List.range d.nF).filterMap fun f =>
      let tg := s'.targets (t * d.nF + f)
      if tg.lmt == s'.now then some (f, fieldVal { items := tg.items }) else none)
  let seen := fun (c : Nat) => (r.2.find? (·.1 == c)).map (·.2)
  let cons := (List.range d.ncons).map fun c =>
    " | " ++ (match seen c with
      | some v => seenTextS v
      | none => "-")
  ({ d with st := { r.1 with s := tabulate r.1.s ((d.ncons + 1) * d.nF) (d.nT * d.nF) } },
   (if d.wired then "r=-" else s!"r={b2s (s'.refLmt == s'.now)}" ++
      (if d.chained then s!" n={published d.st.chain r.1.chain}" else "")) ++
   String.join recs ++ " rs=" ++ recTextS (seen d.ncons) ++ String.join cons)

def cycleLine (d : DS) (cy : CyParse) : DS × String :=
  if d.nF != 0 then cycleLineS d cy else
  let inp : CIn := { conds := fun n => (cy.sel.find? (·.1 == n)).map (·.2),
                     ticks := fun t => (cy.d.find? (·.1 == t)).map (·.2) }
  let r := cycleC d.st inp
  let s' := r.1.s
  let names := ["ra", "rb", "rc", "rd"]
  let recs := (List.range d.nT).map fun t =>
    let tg := s'.targets (d.code t)
    s!" {names.getD t "r?"}=" ++ (if tg.lmt == s'.now then ownText d.shape tg else "-")
  let seen := fun (c : Nat) => (r.2.find? (·.1 == c)).map (·.2)
  let cons := (List.range d.ncons).map fun c =>
    " | " ++ (match seen c with
      | some v => seenText d.shape v
      | none => "-")
  ({ d with st := { r.1 with s := tabulate r.1.s (d.ncons + 1) d.stateNT } },
   s!"r={b2s (s'.refLmt == s'.now)}" ++ (if d.chained then s!" n={published d.st.chain r.1.chain}" else "") ++
   String.join recs ++ " rs=" ++ recText d.shape (seen d.ncons) ++ String.join cons)

def shapeOf (s : String) : Option Shape :=
  if s == "ts" || s == "tsf" || s == "tle" || s == "tsx" || s == "tsm" then some .ts
  else if s == "tss" || s == "tssf" then some .tss else if s == "tsd" then some .tsd
  else if s == "tsb2" || s == "tsb3" || s == "tsl2" || s == "tsbw2" then some .ts else none

/-- sibling-children shapes: the designation (output, child) of the letters a..d, as codes with `W = 4` -/
def codesOf (s : String) : List Nat :=
  let c := fun (o p : Nat) => Desig.code 4 { out := o, path := p }
  if s == "tsf" || s == "tle" || s == "tssf" then [c 0 0, c 0 1, c 0 2, c 0 3]      -- children of ONE output
  else if s == "tsx" then [c 0 0, c 1 0, c 2 0, c 3 0]                              -- child 0 of four outputs
  else if s == "tsm" then [c 0 0, c 0 1, c 1 0, c 2 0]                              -- two siblings, two independent
  else []

def fieldsOf (s : String) : Nat :=
  if s == "tsb3" then 3 else if s == "tsb2" || s == "tsl2" || s == "tsbw2" then 2 else 0

def step (d : DS) (ws : List String) : DS × String :=
  match ws with
  | [] => (d.fresh, "")
  | "case" :: rest => (({} : DS).fresh, " ".intercalate ("case" :: rest))
  | "cfg" :: args =>
    let bad : DS × String := ({ d.fresh with cfgBad := true }, "bad-op")
    match args with
    | sh :: n :: stage :: more =>
      let topo : Option (Bool × String) := match more with
        | [] | ["ite"] => some (false, "i(a,b)")
        | ["cmp"] => some (false, "m(a,b,c)")
        | [t] => if t.startsWith "tree:" then some (true, (t.drop 5).toString) else none
        | _ => none
      match shapeOf sh, topo.bind (fun tp => (makeTree tp.2).map fun r => (tp.1, r)) with
      | some shape, some (chained, tree, tp) =>
        if (n == "1" || n == "2" || n == "3") && (stage == "direct" || stage == "pass" || stage == "inner" || stage == "innerref") then
          (({ shape := shape, ncons := n.toNat!, inner := stage == "inner" || stage == "innerref",
              innerRef := stage == "innerref", cmp := more == ["cmp"], nF := fieldsOf sh, wired := sh == "tsbw2",
              chained := chained, codes := codesOf sh,
              tree := if (codesOf sh).isEmpty then tree else tree.mapLeaves fun t => (codesOf sh).getD t t,
              arity := tp.arity, nT := tp.nT } : DS).fresh, "ok")
        else bad
      | _, _ => bad
    | _ => bad
  | "c" :: rest =>
    if d.cfgBad then (d.fresh, "bad-op") else
    match parseCycle d rest with
    | some cy => cycleLine d cy
    | none => (d.fresh, "bad-op")
  | "run" :: _ => if d.cfgBad then (d.fresh, "bad-op") else (d.fresh, "end")
  | _ => (d.fresh, "bad-op")

def main : IO Unit := run (({} : DS).fresh) step
