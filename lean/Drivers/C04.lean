import HgVerif.Model.Tracking
import HgVerif.Model.TrackingWhole
import HgVerif.Driver.Proto
/-! Model driver for the C04 `track` stream: same line protocol as `harness/drv_track.cpp`.
The tree of positions (pre-order numbering, root = 0) comes from the `schema` line; writes are
`Tracking.write`, invalidations `Tracking.invalidate`, whole-value writes of a container (`ws` / `wm`, a possibly
sparse value) `Tracking.wholeOut` (`Model/TrackingWhole.lean`), the input views `Tracking.inLmt / inModified /
inValid` over the per-input link record (`Tracking.linkStep / linkStepW / linkBind`). -/
open HgVerif.Tracking HgVerif.Driver

inductive Sh where
  | leaf
  | node (list : Bool) (kids : List Sh)     -- `list` = fixed-size TSL (its native value is dense)
deriving Inhabited

partial def Sh.count : Sh → Nat
  | .leaf => 1
  | .node _ ks => 1 + (ks.map Sh.count).sum

def eat (lit : String) (cs : List Char) : Option (List Char) :=
  let l := lit.toList
  if cs.take l.length == l then some (cs.drop l.length) else none

/-- `S ::= TS<Int> | TSB{name:S,...} | TSL<S,n>`; depth ≤ 4, n in 1..8 (as `drv_track.cpp`) -/
partial def parseSh (depth : Nat) (cs : List Char) : Option (Sh × List Char) :=
  if depth > 4 then none else
  match eat "TS<Int>" cs with
  | some r => some (.leaf, r)
  | none =>
    match eat "TSB{" cs with
    | some r => fields depth r [] []
    | none =>
      match eat "TSL<" cs with
      | some r =>
        match parseSh (depth + 1) r with
        | none => none
        | some (el, r1) =>
          match eat "," r1 with
          | none => none
          | some r2 =>
            let ds := r2.takeWhile Char.isDigit
            let r3 := r2.dropWhile Char.isDigit
            if ds.isEmpty || ds.length > 2 then none else
            match eat ">" r3 with
            | none => none
            | some r4 =>
              let n := (String.ofList ds).toNat!
              if n == 0 || n > 8 then none else some (.node true (List.replicate n el), r4)
      | none => none
where
  fields (depth : Nat) (cs : List Char) (names : List String) (acc : List Sh) : Option (Sh × List Char) :=
    let nm := cs.takeWhile Char.isAlphanum
    let r := cs.dropWhile Char.isAlphanum
    if nm.isEmpty then none else
    match eat ":" r with
    | none => none
    | some r1 =>
      if names.contains (String.ofList nm) then none else
      match parseSh (depth + 1) r1 with
      | none => none
      | some (k, r2) =>
        match eat "," r2 with
        | some r3 => fields depth r3 (String.ofList nm :: names) (acc ++ [k])
        | none =>
          match eat "}" r2 with
          | some r3 => some (.node false (acc ++ [k]), r3)
          | none => none

structure Flat where
  parents : Array (Option Nat) := #[]
  leaf : Array Bool := #[]
  list : Array Bool := #[]
  paths : Array String := #[]

/-- pre-order numbering -/
partial def flatten (s : Sh) (par : Option Nat) (path : String) (f : Flat) : Flat :=
  let me := f.parents.size
  let f1 : Flat := { parents := f.parents.push par, paths := f.paths.push (if path.isEmpty then "." else path),
                     leaf := f.leaf.push (match s with | .leaf => true | _ => false),
                     list := f.list.push (match s with | .node true _ => true | _ => false) }
  match s with
  | .leaf => f1
  | .node _ ks =>
    (ks.zipIdx).foldl (fun acc (k, i) => flatten k (some me) (if path.isEmpty then toString i else path ++ "." ++ toString i) acc) f1

structure DS where
  have_ : Bool := false
  flat : Flat := {}
  K : KTree := KTree.ofParents #[]
  L : Array Nat := #[]
  vals : Array Int := #[]
  ever : Array Bool := #[]            -- the position has been stamped at least once (a bundle value marks the field then,
                                      -- `mark_tsb_value_field_valid`, and never unsets it)
  links : List (Option Nat) := []     -- `none` = input not bound yet

def lmtOf (a : Array Nat) : Lmt := fun x => a.getD x 0
def snap (n : Nat) (L : Lmt) : Array Nat := (Array.range n).map L

def isNat (s : String) : Bool := !s.isEmpty && s.all Char.isDigit && s.length ≤ 15
def isInt (s : String) : Bool := if s.startsWith "-" then isNat (s.drop 1).toString else isNat s

def posOf (d : DS) (path : String) : Option Nat :=
  -- paths are canonical ("." or indices joined by "."); leading zeros etc. are malformed as in C++? the C++
  -- side accepts "01"; normalise each component through toNat
  if path == "." then some 0 else
  let comps := path.splitOn "."
  if comps.any (fun c => !isNat c) then none else
  let canon := ".".intercalate (comps.map fun c => toString c.toNat!)
  d.flat.paths.toList.idxOf? canon

def posStr (d : DS) (valid modif : Bool) (lmt : Nat) (p : Nat) : String :=
  let v := if d.flat.leaf.getD p false && valid then toString (d.vals.getD p 0) else "-"
  s!" {d.flat.paths.getD p "?"}={b2s valid}{b2s modif}/{lmt}/{v}"

def dumpLine (d : DS) (t : Nat) : String :=
  let n := d.flat.parents.size
  let L := lmtOf d.L
  let o := String.join ((List.range n).map fun p => posStr d (L p != 0) (t != 0 && L p == t) (L p) p)
  let ins := (d.links.zipIdx).map fun (k, i) =>
    match k with
    | none => s!" | i{i}: unbound"
    | some k =>
      s!" | i{i}:" ++ String.join ((List.range n).map fun p =>
        posStr d (decide (inValid L p)) (t != 0 && decide (inModified 0 k L p t)) (inLmt 0 k L p) p)
  "o:" ++ o ++ String.join ins

/-- `position.value()` rendered like a value spec: a bundle field is set once its child has been stamped; the native
    fixed-list value is dense (never written `Int` elements read 0) -/
partial def patOf (d : DS) (x : Nat) : String :=
  if d.flat.leaf.getD x false then toString (d.vals.getD x 0) else
  let isList := d.flat.list.getD x false
  "(" ++ ",".intercalate ((d.K.kids x).map fun c => if isList || d.ever.getD c false then patOf d c else "_") ++ ")"

def valLine (d : DS) : String :=
  let n := d.flat.parents.size
  let body := String.join ((List.range n).map fun p =>
    if d.flat.leaf.getD p false then "" else s!" {d.flat.paths.getD p "?"}={patOf d p}")
  let ins := (d.links.zipIdx).map fun (k, i) =>
    match k with
    | none => s!" | i{i}: unbound"
    | some _ => s!" | i{i}:" ++ body
  "o:" ++ body ++ String.join ins

/-- the fields a bundle value has marked after the operation: every position that carries a time now -/
def everAfter (d : DS) (L' : Array Nat) : Array Bool :=
  (Array.range d.flat.parents.size).map fun x => d.ever.getD x false || L'.getD x 0 != 0

/-- " <path>*<count>" for every notified position, pre-order -/
def notes (d : DS) (ns : List Nat) : String :=
  String.join ((List.range d.flat.parents.size).map fun p =>
    let c := ns.count p
    if c == 0 then "" else s!" {d.flat.paths.getD p "?"}*{c}")

/-- `<spec> ::= <int> | (<spec or _>,...)` against the shape below position `p`: the present positions strictly below
    `p`, the leaf values, the rest of the text (as `SpecParser` of `drv_track.cpp`: a list NESTED in the value, `top =
    false`, is a native fixed list and must be dense) -/
partial def parseSpec (d : DS) (top : Bool) (p : Nat) (cs : List Char) : Option (List Nat × List (Nat × Int) × List Char) :=
  if d.flat.leaf.getD p false then
    let (neg, r) := match cs with
      | '-' :: r => (true, r)
      | _ => (false, cs)
    let ds := r.takeWhile Char.isDigit
    let rest := r.dropWhile Char.isDigit
    if ds.isEmpty || ds.length > 15 then none else
    let n : Int := (String.ofList ds).toNat!
    some ([], [(p, if neg then -n else n)], rest)
  else
    match cs with
    | '(' :: r => kidsLoop (d.K.kids p) true r [] []
    | _ => none
where
  kidsLoop (ks : List Nat) (first : Bool) (cs : List Char) (ps : List Nat) (vs : List (Nat × Int)) :
      Option (List Nat × List (Nat × Int) × List Char) :=
    match ks with
    | [] =>
      match cs with
      | ')' :: r => some (ps, vs, r)
      | _ => none
    | k :: ks =>
      let cs1 := if first then some cs else (match cs with | ',' :: r => some r | _ => none)
      match cs1 with
      | none => none
      | some ('_' :: r) => if d.flat.list.getD p false && !top then none else kidsLoop ks false r ps vs
      | some r =>
        match parseSpec d false k r with
        | none => none
        | some (ps1, vs1, r1) => kidsLoop ks false r1 (ps ++ [k] ++ ps1) (vs ++ vs1)

def doOp (d : DS) (o : Op) : DS × String :=
  let n := d.flat.parents.size
  let L := lmtOf d.L
  let L' := apply d.K o L
  ({ d with L := snap n L', ever := everAfter d (snap n L'), links := d.links.map (fun k => k.map (linkStep 0 o L L')) },
   notes d (applyN d.K o L))

def step (d : DS) (ws : List String) : DS × String :=
  match ws with
  | ["case", n] => ({}, s!"case {n}")
  | ["schema", s, k] =>
    if !isNat k then (d, "bad-op") else
    let k := k.toNat!
    if k < 1 || k > 2 then (d, "bad-op") else
    match parseSh 0 s.toList with
    | some (sh, []) =>
      if sh.count > 64 then (d, "bad-op") else
      let f := flatten sh none "" {}
      let n := f.parents.size
      ({ have_ := true, flat := f, K := KTree.ofParents f.parents, L := Array.replicate n 0,
         vals := Array.replicate n 0, ever := Array.replicate n false, links := List.replicate k none }, s!"ok n={n}")
    | _ => (d, "bad-op")
  | ["bind", i, t] =>
    if !d.have_ || !isNat i || !isNat t then (d, "bad-op") else
    let i := i.toNat!
    match d.links[i]? with
    | some none => ({ d with links := d.links.set i (some (linkBind 0 (lmtOf d.L))) }, "ok")
    | _ => (d, "bad-op")
  | ["w", path, t, v] =>
    if !d.have_ || !isNat t || !isInt v then (d, "bad-op") else
    match posOf d path with
    | none => (d, "bad-op")
    | some p =>
      if !(d.flat.leaf.getD p false) then (d, "bad-op") else
      let t := t.toNat!
      if t == 0 then (d, "err:invalid-arg") else
      let (d1, ns) := doOp d (.w p t)
      ({ d1 with vals := d1.vals.setIfInBounds p v.toInt! }, "ok" ++ ns)
  | [op, path, t, spec] =>
    if op != "ws" && op != "wm" then (d, "bad-op") else
    if !d.have_ || !isNat t then (d, "bad-op") else
    match posOf d path with
    | none => (d, "bad-op")
    | some p =>
      if d.flat.leaf.getD p false then (d, "bad-op") else
      match parseSpec d true p spec.toList with
      | some (ps, vs, []) =>
        let t := t.toNat!
        if t == 0 then (d, "err:invalid-arg") else
        let n := d.flat.parents.size
        let L := lmtOf d.L
        let o := wholeOut d.K p t (fun x => ps.contains x) L
        let vals := o.V.foldl (fun a l => match vs.lookup l with | some v => a.setIfInBounds l v | none => a) d.vals
        ({ d with L := snap n o.L, vals := vals, ever := everAfter d (snap n o.L),
                  links := d.links.map (fun k => k.map (linkStepW 0 (.ws p t (fun x => ps.contains x)) L o.L)) },
         (match o.r with | none => "err:logic" | some _ => "ok") ++ notes d o.N)
      | _ => (d, "bad-op")
  | ["inv", path, t] =>
    if !d.have_ || !isNat t then (d, "bad-op") else
    match posOf d path with
    | none => (d, "bad-op")
    | some p =>
      let t := t.toNat!
      if t == 0 then (d, "err:invalid-arg") else
      let (d1, ns) := doOp d (.inv p t)
      (d1, b2s (d.L.getD p 0 != 0) ++ ns)
  | ["dump", t] =>
    if !d.have_ || !isNat t then (d, "bad-op") else (d, dumpLine d t.toNat!)
  | ["val", t] =>
    if !d.have_ || !isNat t then (d, "bad-op") else (d, valLine d)
  | [] => (d, "")
  | _ => (d, "bad-op")

def main : IO Unit := run ({} : DS) step
