import HgVerif.Model.Activity
import HgVerif.Driver.Proto
/-! Model driver for the C03 `activity-*` streams: same line protocol as `harness/drv_activity.cpp`
(the output of a case is produced when its `end` line is read). -/
open HgVerif.Activity HgVerif.Driver

inductive Sh where
  | leaf
  | comp (peered : Bool) (ch : List Sh)

def shapeOf : String → Option Sh
  | "ts" => some .leaf
  | "tsl2p" => some (.comp true [.leaf, .leaf])
  | "tsl2n" => some (.comp false [.leaf, .leaf])
  | "tsl3p" => some (.comp true [.leaf, .leaf, .leaf])
  | "tsl3n" => some (.comp false [.leaf, .leaf, .leaf])
  | "tsb2p" => some (.comp true [.leaf, .leaf])
  | "tsb2n" => some (.comp false [.leaf, .leaf])
  | "nestn" => some (.comp false [.comp false [.leaf, .leaf], .comp false [.leaf, .leaf]])
  | "nestm" => some (.comp false [.comp true [.leaf, .leaf], .comp true [.leaf, .leaf]])
  | "nestp" => some (.comp true [.comp true [.leaf, .leaf], .comp true [.leaf, .leaf]])
  | _ => none

/-- positions of a shape rooted at `p`, parents first -/
partial def posOf (s : Sh) (p : Path) : List Pos :=
  match s with
  | .leaf => [⟨p, false, 0⟩]
  | .comp peered ch =>
    ⟨p, !peered, ch.length⟩ ::
      ((List.zip (List.range ch.length) ch).map fun ic => posOf ic.2 (p ++ [ic.1])).flatten

def pathKey (p : Path) : String :=
  match p with
  | [] => "?"
  | k :: rest => String.singleton (Char.ofNat (97 + k)) ++ String.join (rest.map fun i => s!".{i}")

def parsePath (t : String) : Option Path :=
  match t.toList with
  | [] => none
  | c :: rest =>
    if c < 'a' || c > 'c' then none
    else
      let rec go : List Char → Path → Option Path
        | [], acc => some acc.reverse
        | '.' :: d :: more, acc => if d.isDigit then go more ((d.toNat - 48) :: acc) else none
        | _, _ => none
      (go rest []).map fun r => (c.toNat - 97) :: r

def parseInt (s : String) : Option Int :=
  let body := if s.startsWith "-" then (s.drop 1).toString else s
  if body.isEmpty || body.length > 9 || !body.all Char.isDigit then none else s.toInt?

structure DS where
  inCase : Bool := false
  bad : Bool := false
  seenT : Bool := false
  seenInit : Bool := false
  shapes : List Sh := []
  acts : List Bool := []
  gates : List Gate := []
  init : List Cmd := []
  cycles : List Cycle := []      -- reversed
  out : List String := []        -- reversed; `none`-marked cycle lines are "\x00<k>"
  deriving Inhabited

def DS.cfg (d : DS) : Cfg :=
  { pos := ((List.zip (List.range d.shapes.length) d.shapes).map fun ks => posOf ks.2 [ks.1]).flatten,
    gates := d.gates, initActive := d.acts }

def validPos (d : DS) (p : Path) : Bool := d.cfg.pos.any fun q => q.path == p
def leafPos (d : DS) (p : Path) : Bool := d.cfg.pos.any fun q => q.path == p && q.arity == 0

def parseCmd (d : DS) (t : String) : Option Cmd :=
  if t.length < 5 then none
  else if t.startsWith "pas:" || t.startsWith "act:" then
    match parsePath (t.drop 4).toString with
    | some p => if validPos d p then some ⟨t.startsWith "act:", p⟩ else none
    | none => none
  else none

def parseCmds (d : DS) : List String → Option (List Cmd)
  | [] => some []
  | t :: ts => do
    let c ← parseCmd d t
    let cs ← parseCmds d ts
    pure (c :: cs)

/-- tokens of a `t` line -/
def parseCycle (d : DS) : List String → Cycle → Option Cycle
  | [], c => some { ticks := c.ticks.reverse, cmds := c.cmds.reverse }
  | t :: ts, c =>
    match t.splitOn "=" with
    | [l, v] =>
      match parsePath l, parseInt v with
      | some p, some n =>
        if leafPos d p && !(c.ticks.any fun tk => tk.1 == p) then parseCycle d ts { c with ticks := (p, n) :: c.ticks }
        else none
      | _, _ => none
    | [_] =>
      match parseCmd d t with
      | some cmd => parseCycle d ts { c with cmds := cmd :: c.cmds }
      | none => none
    | _ => none

def lookupVal (vals : List (Path × Int)) (p : Path) : Option Int := (vals.find? fun v => v.1 == p).map (·.2)

partial def describe (cfg : Cfg) (vals ticks : List (Path × Int)) (s : Sh) (p : Path) : String :=
  match s with
  | .leaf =>
    let v := lookupVal vals p
    b2s v.isSome ++ b2s (tickedUnder ticks p) ++ "," ++ (match v with | some n => toString n | none => "-")
  | .comp _ ch =>
    b2s (validAt cfg vals p) ++ b2s (allValidAt cfg vals p ch.length) ++ b2s (tickedUnder ticks p) ++ "[" ++
      " ".intercalate ((List.zip (List.range ch.length) ch).map fun ic => describe cfg vals ticks ic.2 (p ++ [ic.1])) ++ "]"

def runLine (d : DS) (cfg : Cfg) (before after : St) (ticks : List (Path × Int)) : String :=
  let ins := (List.zip (List.range d.shapes.length) d.shapes).map fun ks => " " ++ describe cfg before.vals ticks ks.2 [ks.1]
  let fl := cfg.pos.map fun q => s!" {pathKey q.path}:{b2s (active cfg after q.path)}"
  "run" ++ String.join ins ++ " |" ++ String.join fl

/-- the cycle lines of a case, in order -/
def runCase (d : DS) : List String :=
  let cfg := d.cfg
  let rec go (st : St) : List Cycle → List String
    | [] => []
    | c :: cs =>
      let r := step cfg st c
      let line := if r.2 then runLine d cfg { st with vals := c.ticks ++ st.vals } r.1 c.ticks else "-"
      line :: go r.1 cs
  go (start cfg d.init) d.cycles.reverse

def cycleMark : String := "\x00"

/-- returns the new state and the lines to print now -/
def step1 (d : DS) (ws : List String) : DS × List String :=
  let flushNow (d : DS) : DS × List String := ({ d with out := [] }, d.out.reverse)
  let emit (d : DS) (s : String) : DS × List String :=
    if d.inCase then ({ d with out := s :: d.out }, []) else flushNow { d with out := s :: d.out }
  let badOp (d : DS) : DS × List String := emit { d with bad := d.bad || d.inCase } "bad-op"
  match ws with
  | [] => emit d ""
  | ["case", n] =>
    let (_, lines) := flushNow d
    (({ inCase := true, out := [s!"case {n}"] } : DS), lines)
  | "in" :: rest =>
    if !d.inCase then badOp d
    else match rest with
    | [sh, a, v] =>
      if d.seenT || d.seenInit || d.shapes.length ≥ 3 then badOp d
      else
        let g : Option Gate := match v with | "v" => some .valid | "a" => some .allValid | "u" => some .unchecked | _ => none
        match shapeOf sh, g, (a == "a" || a == "p") with
        | some s, some g, true =>
          emit { d with shapes := d.shapes ++ [s], acts := d.acts ++ [a == "a"], gates := d.gates ++ [g] } "ok"
        | _, _, _ => badOp d
    | _ => badOp d
  | "init" :: rest =>
    if !d.inCase || d.seenT || d.seenInit || d.shapes.isEmpty then badOp d
    else match parseCmds d rest with
    | some cs => emit { d with init := cs, seenInit := true } "ok"
    | none => badOp d
  | "t" :: rest =>
    if !d.inCase || d.shapes.isEmpty || d.cycles.length ≥ 64 then badOp d
    else match parseCycle d rest ⟨[], []⟩ with
    | some c => emit { d with cycles := c :: d.cycles, seenT := true } cycleMark
    | none => badOp d
  | ["end"] =>
    if !d.inCase then badOp d
    else
      let skip := d.bad || d.shapes.isEmpty
      let results := if skip then d.cycles.map (fun _ => "skip") else runCase d
      -- substitute the cycle marks in order
      let rec fill : List String → List String → List String
        | [], _ => []
        | l :: ls, rs =>
          if l == cycleMark then
            match rs with
            | r :: rs' => r :: fill ls rs'
            | [] => "?" :: fill ls []
          else l :: fill ls rs
      let lines := fill d.out.reverse results ++ [if skip then "err:bad-case" else "end"]
      (({} : DS), lines)
  | _ => badOp d

partial def loop (h out : IO.FS.Stream) (d : DS) : IO Unit := do
  let line ← h.getLine
  if line.isEmpty then
    for l in d.out.reverse do
      out.putStrLn (if l == cycleMark then "" else l)
    out.flush
    return ()
  let (d', lines) := step1 d (words line)
  for l in lines do
    out.putStrLn l
  loop h out d'

def main : IO Unit := do
  loop (← IO.getStdin) (← IO.getStdout) {}
