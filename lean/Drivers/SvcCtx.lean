import HgVerif.Model.SvcCtx
import HgVerif.Driver.Proto
/-! Model driver for the C07 service-transport-context stream: same line protocol as `harness/drv_svcctx.cpp`.
    Like the C++ process, the driver keeps the context and node-type tables for its whole life; a `case` line only
    drops the builders. -/
open HgVerif.SvcCtx HgVerif.Driver

def pathOk (s : String) : Bool :=
  let cs := s.toList
  !cs.isEmpty && cs.length ≤ 60 &&
    cs.all (fun c => c.isAlphanum || c == '.' || c == '_' || c == '/' || c == ':' || c == '-')

/-- one or two digits, no leading zero on two -/
def smallNat (s : String) : Option Nat :=
  match s.toList with
  | [a] => if a.isDigit then some (a.toNat - '0'.toNat) else none
  | [a, b] => if a.isDigit && b.isDigit && a != '0' then some ((a.toNat - '0'.toNat) * 10 + (b.toNat - '0'.toNat)) else none
  | _ => none

def parseScript : List String → Option (List (Option Nat))
  | [] => some []
  | "_" :: rest => (parseScript rest).map (none :: ·)
  | w :: rest => match smallNat w, parseScript rest with
    | some k, some r => some (some k :: r)
    | _, _ => none

def parseKt : String → Option KeyType
  | "int" => some .int
  | "i32" => some .i32
  | "str" => some .str
  | _ => none

def parseMode : String → Option Bool
  | "direct" => some true
  | "deferred" => some false
  | _ => none

def parseLayout : String → Option Bool
  | "cs" => some true
  | "sc" => some false
  | _ => none

def parseStep : List String → Option Step
  | "build" :: path :: kt :: mode :: layout :: toks =>
    if toks.isEmpty || toks.length > 16 || !pathOk path then none
    else match parseKt kt, parseMode mode, parseLayout layout, parseScript toks with
      | some k, some m, some l, some sc => some (.build ⟨path, k, m, l, sc⟩)
      | _, _, _, _ => none
  | ["reuse", i] => (smallNat i).map .reuse
  | _ => none

def insSorted (x : Nat) : List Nat → List Nat
  | [] => [x]
  | y :: ys => if x ≤ y then x :: y :: ys else y :: insSorted x ys

def sortNat (xs : List Nat) : List Nat := xs.foldr insSorted []

def showNats (xs : List Nat) : String := " ".intercalate ((sortNat xs).map toString)

def showPub (p : Pub) : String :=
  s!"{p.time}:-[{showNats p.removed}]+[{showNats p.added}]=\{{showNats p.members}}"

def showTrace (t : Trace) : String :=
  "cyc[" ++ " ".intercalate (t.cycles.map toString) ++ "] pub[" ++ " ".intercalate (t.pubs.map showPub) ++ "]"

/-- the storage offsets are whatever the node storage plan says: any assignment gives the same outputs -/
def offsets : Offsets := ⟨fun _ => 0, fun _ => 0⟩

def step (p : Proc) (ws : List String) : Proc × String :=
  match ws with
  | ["case", n] => (p.newCase, s!"case {n}")
  | [] => (p, "")
  | _ =>
    match parseStep ws with
    | none => (p, "bad-op")
    | some st =>
      let r := p.step offsets st
      (r.1, match r.2 with
            | .trace t => showTrace t
            | .badOp => "bad-op")

def main : IO Unit := run ({} : Proc) step
