import HgVerif.Model.Delta
import HgVerif.Model.Recover
import HgVerif.Driver.Proto
/-! Model driver for C20: same line protocol as `harness/drv_replay.cpp` (grammar: `harness/replay_text.h`) and,
for the recover / as-of stream, as `harness/drv_recover.cpp` (ops `record`, `asof`, `onetime`, `replay`, `values`).

The model's key universe is `{0 … 9}` (`U`): set elements and dictionary keys are `0..9` (`Int`) or
`s0..s9` (`Str`); bundle fields are named positionally `a, b, c, …`.  `TSL<S>` (no size) is the dynamic list
`tsld`; its delta text may name the indices `0 … DYN_MAX-1`.  `source raw`: the ticks of the case are written to
the source through the raw output API (`write` of `Model/Delta.lean`), `touch c i` grows a top-level dynamic list
without a write. -/
open HgVerif.Delta HgVerif.Driver

def U : Nat := 10
def DYN_MAX : Nat := 12

abbrev P (α : Type) := List Char → Option (α × List Char)

def isTok (c : Char) : Bool := c.isAlphanum || c == '_'

def tok (cs : List Char) : String × List Char :=
  (String.ofList (cs.takeWhile isTok), cs.dropWhile isTok)

def expect (c : Char) : List Char → Option (List Char)
  | x :: xs => if x == c then some xs else none
  | [] => none

def eatWord (w : String) (cs : List Char) : Option (List Char) :=
  let wl := w.toList
  if cs.take wl.length == wl then some (cs.drop wl.length) else none

def scalarOf (str : Bool) (t : String) : Option Nat :=
  if str then (if t.startsWith "s" && t.length == 2 then (t.drop 1).toNat? else none)
  else if t.length ≤ 6 then t.toNat? else none

def showScalar (str : Bool) (n : Nat) : String := if str then s!"s{n}" else toString n

def kindOf (cs : List Char) : Option (Bool × List Char) :=
  match eatWord "Int" cs with
  | some r => some (false, r)
  | none => (eatWord "Str" cs).map (true, ·)

/-! ### schema text -/
mutual
partial def parseSchema (cs : List Char) : Option (Shape × List Char) :=
  if let some r := eatWord "TSS<" cs then do
    let (k, r) ← kindOf r
    let r ← expect '>' r
    pure (.tss k U, r)
  else if let some r := eatWord "TSD<" cs then do
    let (k, r) ← kindOf r
    let r ← expect ',' r
    let (v, r) ← parseSchema r
    let r ← expect '>' r
    pure (.tsd k U v, r)
  else if let some r := eatWord "TSL<" cs then do
    let (e, r) ← parseSchema r
    match r with
    | '>' :: r' => pure (.tsld e, r')
    | _ =>
      let r ← expect ',' r
      let (t, r) := tok r
      let n ← t.toNat?
      let r ← expect '>' r
      if n == 0 then none else pure (.tsl e n, r)
  else if let some r := eatWord "TSB<" cs then do
    let (fs, r) ← parseFields r 0
    let r ← expect '>' r
    pure (.tsb fs, r)
  else if let some r := eatWord "TSW<" cs then do
    let (k, r) ← kindOf r
    let r ← expect ',' r
    let (t, r) := tok r
    let p ← t.toNat?
    let r ← expect ',' r
    let (t2, r) := tok r
    let _ ← t2.toNat?
    let r ← expect '>' r
    if k then none else pure (.tsw k p, r)
  else if let some r := eatWord "TS<" cs then do
    let (k, r) ← kindOf r
    let r ← expect '>' r
    pure (.ts k, r)
  else if let some r := eatWord "SIGNAL" cs then pure (.signal, r)
  else none

partial def parseFields (cs : List Char) (i : Nat) : Option (Shape × List Char) := do
  let (name, r) := tok cs
  if name != String.singleton (Char.ofNat (97 + i)) then none
  let r ← expect ':' r
  let (f, r) ← parseSchema r
  match r with
  | ',' :: r' =>
      let (rest, r'') ← parseFields r' (i + 1)
      pure (.bcons f rest, r'')
  | _ => pure (.bcons f .bnil, r)
end

/-! ### delta text -> `Dl s` -/
def bits (u : Nat) (ks : List Nat) : List Bool := (List.range u).map fun k => ks.contains k

def lookupLast {α : Type} (k : Nat) : List (Nat × α) → Option α
  | [] => none
  | (k', v) :: rest => match lookupLast k rest with
      | some x => some x
      | none => if k' == k then some v else none

/-- comma separated items up to the closing bracket -/
partial def items {α : Type} (close : Char) (item : P α) (cs : List Char) : Option (List α × List Char) :=
  match cs with
  | c :: r => if c == close then some ([], r) else
      let rec loop (cs : List Char) (acc : List α) : Option (List α × List Char) := do
        let (x, r) ← item cs
        match r with
        | ',' :: r' => loop r' (acc ++ [x])
        | c' :: r' => if c' == close then some (acc ++ [x], r') else none
        | [] => none
      loop cs []
  | [] => none

def fieldShape : Shape → Nat → Option Shape
  | .bcons f _, 0 => some f
  | .bcons _ r, i + 1 => fieldShape r i
  | _, _ => none

def buildFields (its : List (Nat × (Σ f : Shape, Dl f))) : (g : Shape) → Nat → Dl g
  | .bcons f rest, i =>
      let mine : Option (Dl f) := match lookupLast i its with
        | some ⟨f', d⟩ => if h : f' = f then some (h ▸ d) else none
        | none => none
      ((mine, buildFields its rest (i + 1)) : Option (Dl f) × Dl rest)
  | g, _ => emptyDelta g

partial def parseDl : (s : Shape) → P (Dl s)
  | .ts k, cs => let (t, r) := tok cs; (scalarOf k t).map (·, r)
  | .tsw k _, cs => let (t, r) := tok cs; (scalarOf k t).map (·, r)
  | .signal, cs => let (t, r) := tok cs; if t == "T" then some ((), r) else none
  | .tss k u, cs => do
      let cs ← expect '{' cs
      let (its, r) ← items '}' (fun cs => match cs with
        | '+' :: r => let (t, r) := tok r; (scalarOf k t).map fun n => ((true, n), r)
        | '-' :: r => let (t, r) := tok r; (scalarOf k t).map fun n => ((false, n), r)
        | _ => none) cs
      if its.any (fun p => p.2 ≥ u) then none
      let d : SetDl := { added := bits u ((its.filter (·.1)).map (·.2)),
                         removed := bits u ((its.filter (!·.1)).map (·.2)) }
      pure (d, r)
  | .tsd k u v, cs => do
      let cs ← expect '{' cs
      let (its, r) ← items '}' (fun cs => match cs with
        | '-' :: r => let (t, r) := tok r; (scalarOf k t).map fun n => ((n, (none : Option (Dl v))), r)
        | _ => do
            let (t, r) := tok cs
            let n ← scalarOf k t
            let r ← expect '=' r
            let (d, r) ← parseDl v r
            pure ((n, some d), r)) cs
      if its.any (fun p => p.1 ≥ u) then none
      let rem := (its.filter (·.2.isNone)).map (·.1)
      let mods : List (Nat × Dl v) := its.filterMap fun p => p.2.map (p.1, ·)
      let d : List (KeyOp (Dl v)) := (List.range u).map fun key =>
        { removed := rem.contains key, modified := lookupLast key mods }
      pure (d, r)
  | .tsl e n, cs => do
      let cs ← expect '[' cs
      let (its, r) ← items ']' (fun cs => do
        let (t, r) := tok cs
        let i ← scalarOf false t
        let r ← expect '=' r
        let (d, r) ← parseDl e r
        pure ((i, d), r)) cs
      if its.any (fun p => p.1 ≥ n) then none
      let d : List (Option (Dl e)) := (List.range n).map fun i => lookupLast i its
      pure (d, r)
  | .tsld e, cs => do
      let cs ← expect '[' cs
      let (its, r) ← items ']' (fun cs => do
        let (t, r) := tok cs
        let i ← scalarOf false t
        let r ← expect '=' r
        let (d, r) ← parseDl e r
        pure ((i, d), r)) cs
      if its.any (fun p => p.1 ≥ DYN_MAX) then none
      -- a map: positions up to the largest named index, nothing after it
      let hi := its.foldl (fun a p => max a (p.1 + 1)) 0
      let d : List (Option (Dl e)) := (List.range hi).map fun i => lookupLast i its
      pure (d, r)
  | .tsb fs, cs => do
      let cs ← expect '(' cs
      let rec loop (cs : List Char) (acc : List (Nat × (Σ f : Shape, Dl f))) :
          Option (List (Nat × (Σ f : Shape, Dl f)) × List Char) := do
        let (t, r) := tok cs
        if t.length != 1 then none
        let i := (t.toList.headD 'a').toNat - 97
        let f ← fieldShape fs i
        let r ← expect '=' r
        let (d, r) ← parseDl f r
        match r with
        | ',' :: r' => loop r' (acc ++ [(i, ⟨f, d⟩)])
        | ')' :: r' => some (acc ++ [(i, ⟨f, d⟩)], r')
        | _ => none
      let (its, r) ← (match cs with
        | ')' :: r => some ([], r)
        | _ => loop cs [])
      pure (buildFields its fs 0, r)
  | .bnil, _ => none
  | .bcons _ _, _ => none

/-! ### canonical text of deltas and states -/
def trues (l : List Bool) : List Nat :=
  (List.range l.length).filter fun i => l.getD i false

def fieldName (i : Nat) : String := String.singleton (Char.ofNat (97 + i))

def joinC (l : List String) : String := String.intercalate "," l

def showDlL : (s : Shape) → Nat → Dl s → List String
  | .ts k, _, d => [showScalar k d]
  | .tsw k _, _, d => [showScalar k d]
  | .signal, _, _ => ["T"]
  | .tss k _, _, d =>
      ["{" ++ joinC ((trues d.added).map (fun n => "+" ++ showScalar k n) ++
                     (trues d.removed).map (fun n => "-" ++ showScalar k n)) ++ "}"]
  | .tsd k _ v, _, d =>
      let d : List (KeyOp (Dl v)) := d
      let idx := List.range d.length
      let rem := idx.filterMap fun i => match d[i]? with
        | some op => if op.removed then some ("-" ++ showScalar k i) else none
        | none => none
      let mods := idx.filterMap fun i => match d[i]? with
        | some op => op.modified.map fun dc => showScalar k i ++ "=" ++ joinC (showDlL v 0 dc)
        | none => none
      ["{" ++ joinC (rem ++ mods) ++ "}"]
  | .tsl e _, _, d =>
      let d : List (Option (Dl e)) := d
      let idx := List.range d.length
      ["[" ++ joinC (idx.filterMap fun i => match d[i]? with
        | some (some dc) => some (toString i ++ "=" ++ joinC (showDlL e 0 dc))
        | _ => none) ++ "]"]
  | .tsld e, _, d =>
      let d : List (Option (Dl e)) := d
      let idx := List.range d.length
      ["[" ++ joinC (idx.filterMap fun i => match d[i]? with
        | some (some dc) => some (toString i ++ "=" ++ joinC (showDlL e 0 dc))
        | _ => none) ++ "]"]
  | .tsb fs, _, d => ["(" ++ joinC (showDlL fs 0 d) ++ ")"]
  | .bnil, _, _ => []
  | .bcons f r, i, d =>
      (match d.1 with
       | some df => [fieldName i ++ "=" ++ joinC (showDlL f 0 df)]
       | none => []) ++ showDlL r (i + 1) d.2

def showDl (s : Shape) (d : Dl s) : String := joinC (showDlL s 0 d)

def showStL : (s : Shape) → Nat → St s → List String
  | .ts k, _, st => [match st.val with | some v => showScalar k v | none => "_"]
  | .signal, _, st => [if st.val then "T" else "_"]
  | .tsw k _, _, st => [if st.val.isEmpty then "_" else "<" ++ String.intercalate ";" (st.val.map (showScalar k)) ++ ">"]
  | .tss k _, _, st => [if st.valid then "{" ++ joinC ((trues st.elems).map (showScalar k)) ++ "}" else "_"]
  | .tsd k _ v, _, st =>
      [if st.valid then
        "{" ++ joinC ((List.range st.slots.length).filterMap fun i => match st.slots[i]? with
          | some (some c) => some (showScalar k i ++ "=" ++ joinC (showStL v 0 c))
          | _ => none) ++ "}"
       else "_"]
  | .tsl e _, _, st => ["[" ++ joinC (st.map fun c => joinC (showStL e 0 c)) ++ "]"]
  | .tsld e, _, st =>
      let st : List (St e) := st
      ["[" ++ joinC (st.map fun c => joinC (showStL e 0 c)) ++ "]#" ++ toString st.length]
  | .tsb fs, _, st => ["(" ++ joinC (showStL fs 0 st) ++ ")"]
  | .bnil, _, _ => []
  | .bcons f r, i, st => (fieldName i ++ "=" ++ joinC (showStL f 0 st.1)) :: showStL r (i + 1) st.2

def showSt (s : Shape) (st : St s) : String := joinC (showStL s 0 st)

def showBuf (s : Shape) (tag : String) (buf : Buffer s) : String :=
  let ticks := (List.range buf.length).filterMap fun i => match buf[i]? with
    | some (some d) => some s!" {i}:{showDl s d}"
    | _ => none
  s!"{tag} n={buf.length}" ++ String.join ticks

/-! ### canonical text of VALUES (`Value{ts.value()}`, `print_value` of `harness/drv_recover.cpp`)

A copied value keeps validity only for bundle fields; elsewhere a never-valid position reads as the default of
its value type (`0`, the empty string, `F`, an empty set / dictionary, a window of zeros); a window is its
whole ring of `period` elements, oldest first, zero padded. -/
def showV1L : (s : Shape) → Nat → V1 s → List String
  | .ts k, _, st =>
      let st : Option Nat := st
      [match st with | some v => showScalar k v | none => if k then "" else "0"]
  | .signal, _, st =>
      let st : Bool := st
      [if st then "T" else "F"]
  | .tsw k p, _, st =>
      let w : List Nat := st.1
      ["<" ++ String.intercalate ";" ((w ++ List.replicate (p - w.length) 0).map (showScalar k)) ++ ">"]
  | .tss k _, _, st =>
      let es : List Bool := st.2
      ["{" ++ joinC ((trues es).map (showScalar k)) ++ "}"]
  | .tsd k _ v, _, st =>
      let sl : List (Slot (V1 v)) := st.2
      ["{" ++ joinC ((List.range sl.length).filterMap fun i => match sl[i]? with
          | some (Slot.live c) => some (showScalar k i ++ "=" ++ joinC (showV1L v 0 c))
          | _ => none) ++ "}"]
  | .tsl e _, _, st =>
      let st : List (V1 e) := st
      ["[" ++ joinC (st.map fun c => joinC (showV1L e 0 c)) ++ "]"]
  | .tsld e, _, st =>
      let st : List (V1 e) := st
      ["[" ++ joinC (st.map fun c => joinC (showV1L e 0 c)) ++ "]#" ++ toString st.length]
  | .tsb fs, _, st => ["(" ++ joinC (showV1L fs 0 st) ++ ")"]
  | .bnil, _, _ => []
  | .bcons f r, i, st =>
      (fieldName i ++ "=" ++ (if valid1 f st.1 then joinC (showV1L f 0 st.1) else "_")) :: showV1L r (i + 1) st.2

def showV1 (s : Shape) (st : V1 s) : String := joinC (showV1L s 0 st)

/-- an optional value (`-` = none) -/
def showOptVal (s : Shape) : Option (St s) → String
  | some st => showV1 s (toV1 s st)
  | none => "-"

def showRec (s : Shape) (tag : String) (rec : Recording s) : String :=
  tag ++ String.join (rec.map fun e => s!" {e.1}:{showDl s e.2}")

/-- the cycles the as-of read is asked for: `0 … last recorded cycle + 2` -/
def asofCycles {s : Shape} (rec : Recording s) : List Nat :=
  List.range ((match rec.getLast? with | some e => e.1 | none => 0) + 3)

def showAsof {s : Shape} (rec : Recording s) (live : List (Nat × St s)) : String :=
  "asof" ++ String.join ((asofCycles rec).map fun c =>
    let got := showOptVal s (resolve rec c)
    let lv := showOptVal s (liveAt live c)
    s!" {c}:{got}|{lv}|" ++ (if got == lv then "=" else "!"))

def showOneTime {s : Shape} (rec : Recording s) : String :=
  "onetime" ++ String.join ((asofCycles rec).map fun c =>
    s!" {c}:" ++ (match recoverOneView rec c with
      | some st => if valid1 s st then showV1 s st else "-"
      | none => "err:logic"))

def showVals {s : Shape} (l1 l2 : List (Nat × St s)) : String :=
  let cycles := (l1.map (·.1) ++ (l2.map (·.1)).filter fun c => !(l1.map (·.1)).contains c).mergeSort
  let at_ (l : List (Nat × St s)) (c : Nat) : String := match l.find? (·.1 == c) with
    | some e => showOptVal s (some e.2)
    | none => "-"
  "vals" ++ String.join (cycles.map fun c => s!" {c}:{at_ l1 c}|{at_ l2 c}")

/-! ### the driver -/
structure Run (s : Shape) where
  ticks : List (Nat × Dl s) := []          -- (cycle, delta), cycles strictly increasing
  raw : Bool := false                      -- `source raw`: ticks are written through the raw output API
  touches : List (Nat × Nat) := []         -- raw source: (cycle, index) `at(index)` without a write
  run1 : Option (Buffer s × St s × List (Nat × St s)) := none      -- buffer, final state, probe (cycle, state)
  run2 : Option (Buffer s × St s × List (Nat × St s)) := none
  srun1 : Option (Recording s × List (Nat × St s)) := none     -- recover stream: graph 1 (recording, probe)
  srun2 : Option (Recording s × List (Nat × St s)) := none     -- recover stream: graph 2

structure DS where
  sch : Option (Σ s : Shape, Run s) := none

def seedOf {s : Shape} (ticks : List (Nat × Dl s)) : Buffer s :=
  ticks.foldl (fun buf t => buf ++ List.replicate (t.1 - buf.length) none ++ [some t.2]) []

/-! ### the raw source (`harness/replay_raw.h`) -/

/-- `as_list().at(i)` on a top-level dynamic list without a write -/
def growTop : (s : Shape) → Nat → St s → St s
  | .tsld e, i, st => growTo (fresh e) (i + 1) st
  | _, _, st => st

/-- a step of the script: the touches of the cycle, then its write -/
abbrev Step (s : Shape) := Nat × List Nat × Option (Dl s)

def insertNat (x : Nat) : List Nat → List Nat
  | [] => [x]
  | y :: ys => if x < y then x :: y :: ys else if x == y then y :: ys else y :: insertNat x ys

def rawScript {s : Shape} (ticks : List (Nat × Dl s)) (touches : List (Nat × Nat)) : List (Step s) :=
  let cycles := (ticks.map (·.1) ++ touches.map (·.1)).foldl (fun acc c => insertNat c acc) []
  cycles.map fun c =>
    (c, (touches.filter (·.1 == c)).map (·.2), (ticks.find? (·.1 == c)).map (·.2))

/-- the source's output after the evaluation that plays `step` (a new engine cycle: old marks gone) -/
def rawStep {s : Shape} (st : St s) (step : Step s) : St s :=
  let st1 := step.2.1.foldl (fun a i => growTop s i a) (clear s st)
  match step.2.2 with
  | some d => write s st1 d
  | none => st1

/-- (cycle, end-of-cycle state) of every evaluation of the raw source that plays a step -/
def rawStates {s : Shape} (script : List (Step s)) : List (Nat × St s) :=
  (script.foldl (fun (acc : List (Nat × St s) × St s) step =>
    let st := rawStep acc.2 step
    (acc.1 ++ [(step.1, st)], st)) ([], fresh s)).1

/-- graph 1 with the raw source: `hgv_rawsrc -> record(out)` + probe -/
def rawRecord {s : Shape} (script : List (Step s)) : Buffer s × St s × List (Nat × St s) :=
  let sts := rawStates script
  (sts.foldl (fun buf e => recordEval buf e.1 e.2) [],
   (match sts.getLast? with | some e => e.2 | none => fresh s),
   sts.filter fun e => modified s e.2)

/-- the probe next to the record node of `replay(in) -> record(out)`: the replay node's output per buffered cycle -/
def replayProbe {s : Shape} (inp : Buffer s) : List (Nat × St s) :=
  ((List.range inp.length).foldl (fun (acc : List (Nat × St s) × St s) i =>
    let st := match inp[i]? with
      | some (some d) => apply s acc.2 d
      | _ => clear s acc.2
    (if modified s st then acc.1 ++ [(i, st)] else acc.1, st)) ([], fresh s)).1

def showStates {s : Shape} (l1 l2 : List (Nat × St s)) : String :=
  let cycles := (l1.map (·.1) ++ l2.map (·.1)).foldl (fun acc c => insertNat c acc) []
  let at_ (l : List (Nat × St s)) (c : Nat) : String := match l.find? (·.1 == c) with
    | some e => showSt s e.2
    | none => "-"
  "states" ++ String.join (cycles.map fun c => s!" {c}:{at_ l1 c}|{at_ l2 c}")

/-- recover stream, graph 1 with the raw source: `hgv_rawsrc -> sparse record` + value probe -/
def rawRecordSparse {s : Shape} (script : List (Step s)) : Recording s × List (Nat × St s) :=
  let sts := rawStates script
  (sts.foldl (fun rec e => sparseRecordEval rec e.1 e.2) [],
   sts.filterMap fun e => if modified s e.2 && valid s e.2 then some (e.1, clear s e.2) else none)

/-- bare-output round trip with the raw source, step by step -/
def directRaw {s : Shape} (script : List (Step s)) : String :=
  let r := script.foldl (fun (acc : String × St s × St s) step =>
    let src := rawStep acc.2.1 step
    if !modified s src then
      (acc.1 ++ s!" {step.1}:-|-|{showSt s src}|{showSt s acc.2.2}", src, clear s acc.2.2)
    else
      let d := capture s src
      let dst := apply s acc.2.2 d
      let d2 := if modified s dst then showDl s (capture s dst) else "-"
      let obs := if observable s src d then "" else "!unobservable"
      (acc.1 ++ s!" {step.1}:{showDl s d}{obs}|{d2}|{showSt s src}|{showSt s dst}", src, dst))
    ("direct", fresh s, fresh s)
  r.1

/-- bare-output round trip, tick by tick (`direct` op of the C++ driver) -/
def direct {s : Shape} (ticks : List (Nat × Dl s)) : String :=
  let r := ticks.foldl (fun (acc : String × St s × St s) t =>
    let src := apply s acc.2.1 t.2
    if !modified s src then
      (acc.1 ++ s!" {t.1}:-|-|{showSt s src}|{showSt s acc.2.2}", src, clear s acc.2.2)
    else
      let d := capture s src
      let dst := apply s acc.2.2 d
      let d2 := if modified s dst then showDl s (capture s dst) else "-"
      let obs := if observable s src d then "" else "!unobservable"
      (acc.1 ++ s!" {t.1}:{showDl s d}{obs}|{d2}|{showSt s src}|{showSt s dst}", src, dst))
    ("direct", fresh s, fresh s)
  r.1

def step (d : DS) (ws : List String) : DS × String :=
  match ws with
  | ["case", n] => ({}, s!"case {n}")
  | ["schema", t] =>
      match parseSchema t.toList with
      | some (s, []) => ({ sch := some ⟨s, {}⟩ }, "ok")
      | _ => (d, "err:schema")
  | ["tick", c, t] =>
      match d.sch with
      | none => (d, "err:schema")
      | some ⟨s, r⟩ =>
        match c.toNat? with
        | none => (d, "err:order")
        | some cyc =>
          if r.ticks.any (fun p => cyc ≤ p.1) || r.touches.any (fun p => cyc < p.1) then (d, "err:order") else
          match parseDl s t.toList with
          | some (dl, []) => ({ sch := some ⟨s, { r with ticks := r.ticks ++ [(cyc, dl)] }⟩ }, "ok")
          | _ => (d, "err:parse")
  | ["source", m] =>
      if m != "raw" && m != "delta" then (d, "bad-op") else
      match d.sch with
      | none => (d, "err:schema")
      | some ⟨s, r⟩ =>
          if !r.ticks.isEmpty || !r.touches.isEmpty then (d, "err:order")
          else ({ sch := some ⟨s, { r with raw := m == "raw" }⟩ }, "ok")
  | ["touch", c, i] =>
      match d.sch with
      | none => (d, "err:schema")
      | some ⟨s, r⟩ =>
          let dynTop := match s with
            | .tsld _ => true
            | _ => false
          if !r.raw || !dynTop then (d, "err:mode") else
          match c.toNat?, i.toNat? with
          | some cyc, some idx =>
              if idx ≥ DYN_MAX then (d, "err:parse")
              else if r.ticks.any (fun p => cyc ≤ p.1) || r.touches.any (fun p => cyc < p.1) then (d, "err:order")
              else ({ sch := some ⟨s, { r with touches := r.touches ++ [(cyc, idx)] }⟩ }, "ok")
          | _, _ => (d, "err:parse")
  | ["run"] =>
      match d.sch with
      | none => (d, "err:schema")
      | some ⟨s, r⟩ =>
          let res : Buffer s × St s × List (Nat × St s) :=
            if r.raw then rawRecord (rawScript r.ticks r.touches)
            else
              let rr := replayRecord (seedOf r.ticks)
              (rr.1, rr.2, replayProbe (seedOf r.ticks))
          ({ sch := some ⟨s, { r with run1 := some res, run2 := none }⟩ }, showBuf s "rec1" res.1)
  | ["rerun"] =>
      match d.sch with
      | some ⟨s, r⟩ =>
        (match r.run1 with
         | some r1 =>
            let rr := replayRecord r1.1
            let res : Buffer s × St s × List (Nat × St s) := (rr.1, rr.2, replayProbe r1.1)
            ({ sch := some ⟨s, { r with run2 := some res }⟩ }, showBuf s "rec2" res.1)
         | none => (d, "err:norun"))
      | none => (d, "err:norun")
  | ["final"] =>
      match d.sch with
      | some ⟨s, r⟩ =>
        (match r.run1, r.run2 with
         | some r1, some r2 => (d, s!"val1={showSt s r1.2.1} val2={showSt s r2.2.1}")
         | _, _ => (d, "err:norun"))
      | none => (d, "err:norun")
  | ["states"] =>
      match d.sch with
      | some ⟨_, r⟩ =>
        (match r.run1, r.run2 with
         | some r1, some r2 => (d, showStates r1.2.2 r2.2.2)
         | _, _ => (d, "err:norun"))
      | none => (d, "err:norun")
  | ["direct"] =>
      match d.sch with
      | none => (d, "err:schema")
      | some ⟨_, r⟩ => (d, if r.raw then directRaw (rawScript r.ticks r.touches) else direct r.ticks)
  | ["record"] =>
      match d.sch with
      | none => (d, "err:schema")
      | some ⟨s, r⟩ =>
          let res := if r.raw then rawRecordSparse (rawScript r.ticks r.touches) else recordSparse (seedOf r.ticks)
          ({ sch := some ⟨s, { r with srun1 := some res, srun2 := none }⟩ }, showRec s "srec" res.1)
  | ["asof"] =>
      match d.sch with
      | some ⟨_, r⟩ =>
        (match r.srun1 with
         | some r1 => (d, showAsof r1.1 r1.2)
         | none => (d, "err:norun"))
      | none => (d, "err:norun")
  | ["onetime"] =>
      match d.sch with
      | some ⟨_, r⟩ =>
        (match r.srun1 with
         | some r1 => (d, showOneTime r1.1)
         | none => (d, "err:norun"))
      | none => (d, "err:norun")
  | ["replay"] =>
      match d.sch with
      | some ⟨s, r⟩ =>
        (match r.srun1 with
         | some r1 =>
            let res := replaySparse r1.1
            ({ sch := some ⟨s, { r with srun2 := some res }⟩ }, showRec s "srec2" res.1)
         | none => (d, "err:norun"))
      | none => (d, "err:norun")
  | ["values"] =>
      match d.sch with
      | some ⟨_, r⟩ =>
        (match r.srun1, r.srun2 with
         | some r1, some r2 => (d, showVals r1.2 r2.2)
         | _, _ => (d, "err:norun"))
      | none => (d, "err:norun")
  | [] => (d, "")
  | _ => (d, "bad-op")

def main : IO Unit := run ({} : DS) step
