import HgVerif.Model.Engine
import HgVerif.Driver.Proto
import HgVerif.Model.Extracted
import HgVerif.Model.Rank
/-! Model driver for the engine: same line protocol as `harness/drv_engine.cpp`.
    Parses the textual program, elaborates it into `Engine.CProg` (instances, resolved input
    bindings, subscriptions) and prints `Engine.runProg`. -/
open HgVerif.Engine HgVerif.Driver
open HgVerif.NodeSched (Tag)

structure Stmt where
  lbl : Nat
  kind : String
  args : List String
deriving Repr

structure SubDef where
  arity : Nat := 0
  body : List Stmt := []
  out : String := "-"
deriving Repr

structure PS where
  startT : Nat := 1
  endT : Nat := 100
  cleanup : Bool := true
  ticks : List (Nat × List (Nat × Int)) := []
  scripts : List (Nat × List (List SOp)) := []
  faults : List (Nat × List (Char × Nat)) := []
  subs : List (Nat × SubDef) := []
  root : List Stmt := []
  cur : Option Nat := none          -- sub-graph definition being filled
  fixedResume : Bool := HgVerif.Extracted.resumeChecksFailed   -- the model follows the code (translator)

def tagOfStr (s : String) : Tag :=
  match s with
  | "a" => 1 | "b" => 2 | "c" => 3 | _ => 0

def parseInt (s : String) : Option Int :=
  if s.startsWith "-" then (s.drop 1).toString.toNat?.map (fun n => - (Int.ofNat n)) else s.toNat?.map Int.ofNat

def parseOp (t : String) : Option SOp :=
  if t == "-" then none else
  let c := t.front
  let rest := (t.drop 1).toString
  let parts := rest.splitOn ":"
  let num := (parts.getD 0 "")
  let tag := tagOfStr (parts.getD 1 "")
  match c with
  | 's' => some (.sd (num.toNat?.getD 0) tag)
  | 'S' => some (.sa (num.toNat?.getD 0) tag)
  | 'u' => some (.ut tag)
  | 'U' => some .u1
  | 'p' => some (.pt tag)
  | 'r' => some .rs
  | 'o' => some (.emit ((parseInt num).getD 0))
  | 'x' => some .throw
  | 'k' => some (.kick num)
  | _ => none

def splitSemi (ws : List String) : List (List String) :=
  let rec go : List String → List String → List (List String) → List (List String)
    | [], cur, acc => (acc ++ [cur])
    | w :: rest, cur, acc => if w == ";" then go rest [] (acc ++ [cur]) else go rest (cur ++ [w]) acc
  go ws [] []

/-! ### elaboration -/
structure Tgt where
  inst : Nat
  idx : Nat
  port : Port := .main
  via : Option (Nat × Nat) := none     -- the nested node (instance, index) whose output forwards this target
deriving Repr

structure Elab where
  insts : List CInst := []
  subs : List Sub := []
  capt : List (Nat × Nat) := []          -- nodes with error capture activated
  err : Bool := false

def envGet (env : List (String × Tgt)) (k : String) : Option Tgt := (env.find? (·.1 == k)).map (·.2)

def argRef (env : List (String × Tgt)) (a : String) (unchecked : Bool := false) : Option InRef :=
  let passive := a.startsWith "~"
  let key := if passive then (a.drop 1).toString else a
  (envGet env key).map fun t => { inst := t.inst, idx := t.idx, port := t.port, passive := passive, unchecked := unchecked,
                                  boundary := key.startsWith "$",
                                  rankIdx := none }

/-- the node of instance `inst` that a consumer of target `t` ranks after -/
def rankOf (inst : Nat) (t : Tgt) : Option Nat :=
  match t.via with
  | some (vi, vj) => if vi == inst then some vj else (if t.inst == inst then some t.idx else none)
  | none => if t.inst == inst then some t.idx else none

def addNode (e : Elab) (inst : Nat) (n : CNode) : Elab × Nat :=
  let ci := e.insts.getD inst { nodes := [] }
  let idx := ci.nodes.length
  let subs := n.ins.filter (fun r => !r.passive) |>.map fun r =>
    ({ inst := r.inst, idx := r.idx, port := r.port, sinst := inst, sidx := idx } : Sub)
  ({ e with insts := e.insts.set inst { ci with nodes := ci.nodes ++ [n] }, subs := e.subs ++ subs }, idx)

def shiftArg (off : Nat) (a : String) : String :=
  let passive := a.startsWith "~"
  let key := if passive then (a.drop 1).toString else a
  let key' := if key.startsWith "$" then key else match key.toNat? with
    | some n => toString (n + off)
    | none => key
  (if passive then "~" else "") ++ key'

/-- elaborate a statement list into instance `inst`; returns the environment (label → target) -/
partial def elabStmts (ps : PS) (inst : Nat) (stmts : List Stmt) (env : List (String × Tgt)) (e : Elab)
    (fbs : List (Nat × Nat)) : Elab × List (String × Tgt) :=
  match stmts with
  | [] => (e, env)
  | st :: rest =>
    let key := toString st.lbl
    let a (i : Nat) (u : Bool := false) : Option InRef :=
      let tok := st.args.getD i ""
      let key := if tok.startsWith "~" then (tok.drop 1).toString else tok
      (argRef env tok u).map fun r => { r with rankIdx := (envGet env key).bind (rankOf inst) }
    let num (i : Nat) : Nat := ((st.args.getD i "0").toNat?).getD 0
    let simple (k : Kind) (ins : List (Option InRef)) (hasOut : Bool := true) :=
      if ins.any Option.isNone then ({ e with err := true }, env)
      else
        let (e', idx) := addNode e inst { lbl := key, kind := k, ins := ins.filterMap id }
        elabStmts ps inst rest (if hasOut then (key, ⟨inst, idx, .main, none⟩) :: env else env) e' fbs
    match st.kind with
    | "const" => simple (.const ((parseInt (st.args.getD 0 "0")).getD 0)) []
    | "src" => simple (.src (num 0)) []
    | "add" => simple .add [a 0, a 1]
    | "addk" =>
      -- same definition + same scalar + same inputs: the wiring interns value-producing nodes
      (match a 1, a 2 with
       | some r1, some r2 =>
         let lblK := st.args.getD 0 "0"
         let ci := e.insts.getD inst { nodes := [] }
         let same (n : CNode) : Bool :=
           (match n.kind with | .add => true | _ => false) && n.lbl == lblK && n.ins.length == 2 &&
           (n.ins.zip [r1, r2]).all (fun (x, y) => x.inst == y.inst && x.idx == y.idx && x.passive == y.passive)
         (match ci.nodes.findIdx? same with
          | some j => elabStmts ps inst rest ((key, ⟨inst, j, .main, none⟩) :: env) e fbs
          | none =>
            let (e', idx) := addNode e inst { lbl := lblK, kind := .add, ins := [r1, r2] }
            elabStmts ps inst rest ((key, ⟨inst, idx, .main, none⟩) :: env) e' fbs)
       | _, _ => ({ e with err := true }, env))
    | "sinkk" =>
      (match a 1 with
       | some r =>
         let (e', _) := addNode e inst { lbl := st.args.getD 0 "0", kind := .sink, ins := [r] }
         elabStmts ps inst rest env e' fbs
       | none => ({ e with err := true }, env))
    | "acc" => simple .acc [a 0]
    | "pass" => simple .pass [a 0]
    | "gate" | "ngate" =>   -- ngate: the same node built as a native node (generic readiness gate of node.cpp)
      let f := st.args.getD 2 "VV"
      simple .gate [a 0 (f.front == 'U'), a 1 ((f.drop 1).toString.front == 'U')]
    | "gate3" =>   -- three inputs; flags = 3 validity chars + 3 activity chars (P: the SIGNATURE declares the input passive)
      let f := (st.args.getD 3 "VVVAAA").toList
      let ch (i : Nat) : Char := f.getD i 'V'
      let sigp (i : Nat) (r : Option InRef) : Option InRef := r.map fun x => { x with passive := x.passive || ch (3 + i) == 'P' }
      simple .gate [sigp 0 (a 0 (ch 0 == 'U')), sigp 1 (a 1 (ch 1 == 'U')), sigp 2 (a 2 (ch 2 == 'U'))]
    | "nscript" =>   -- native script node: two inputs, both REQUIRED valid (the second usually wired passive)
      simple (.script (num 0)) [a 1, a 2]
    | "script" => if st.args.length ≥ 2 then simple (.script (num 0)) [a 1 true] else simple (.script (num 0)) []
    | "sscript" =>   -- script node whose type declares schedule_on_start
      let (e', idx) := addNode e inst { lbl := key, kind := .script (num 0), ins := [], sos := true }
      elabStmts ps inst rest ((key, ⟨inst, idx, .main, none⟩) :: env) e' fbs
    | "sink" => simple .sink [a 0] false
    | "thrower" => simple (.thrower (num 0)) [a 1]
    | "probe" => simple .probe [(a 0 true).map fun r => { r with passive := true }] false
    | "tryout" =>
      (match envGet env ("try:" ++ st.args.getD 0 "") with
       | some t => simple .tryout [some { inst := t.inst, idx := t.idx, port := .bundle, unchecked := true, rankIdx := rankOf inst t }]
       | none => ({ e with err := true }, env))
    | "tryerr" =>
      (match envGet env ("try:" ++ st.args.getD 0 "") with
       | some t => simple .tryerr [some { inst := t.inst, idx := t.idx, port := .bundle, unchecked := true, rankIdx := rankOf inst t }]
       | none => ({ e with err := true }, env))
    | "errts" =>
      (match a 0 with
       | some r =>
         let e1 := { e with capt := (r.inst, r.idx) :: e.capt }
         let (e', idx) := addNode e1 inst { lbl := key, kind := .errmsg, ins := [{ r with port := .err, passive := false }] }
         elabStmts ps inst rest ((key, ⟨inst, idx, .main, none⟩) :: env) e' fbs
       | none => ({ e with err := true }, env))
    | "errtsv" =>   -- errtsv a depth values : exception_time_series with explicit ErrorCaptureOptions
      (match a 0 with
       | some r =>
         let e1 := { e with capt := (r.inst, r.idx) :: e.capt }
         let hasIns := !(((e.insts.getD r.inst { nodes := [] }).nodes.getD r.idx { lbl := "", kind := .sink }).ins.isEmpty)
         let v := num 2 != 0 && num 1 != 0 && hasIns
         let (e', idx) := addNode e1 inst { lbl := key, kind := .errmsgv v, ins := [{ r with port := .err, passive := false }] }
         elabStmts ps inst rest ((key, ⟨inst, idx, .main, none⟩) :: env) e' fbs
       | none => ({ e with err := true }, env))
    | "fbsrc" =>
      let init := if st.args.length ≥ 2 then parseInt (st.args.getD 1 "0") else none
      let (e', idx) := addNode e inst { lbl := "#feedback_source", kind := .fbsrc init }
      elabStmts ps inst rest ((key, ⟨inst, idx, .main, none⟩) :: env) e' ((num 0, idx) :: fbs)
    | "fbbind" =>
      (match (fbs.find? (·.1 == num 0)), a 1 with
       | some (_, sidx), some r =>
         let (e', _) := addNode e inst { lbl := "#feedback_sink", kind := .fbsink sidx, ins := [r] }
         elabStmts ps inst rest env e' fbs
       | _, _ => ({ e with err := true }, env))
    | "nested" | "tryx" =>
      let tr := st.kind == "tryx"
      (match (ps.subs.find? (·.1 == num 0)) with
       | none => ({ e with err := true }, env)
       | some (_, sd) =>
         let args := (List.range sd.arity).map fun i => a (1 + i)
         if args.any Option.isNone then ({ e with err := true }, env) else
         let args := args.filterMap id
         -- the nested node itself (active on every argument)
         let child := e.insts.length
         let ci := e.insts.getD inst { nodes := [] }
         let idx := ci.nodes.length
         let path := ci.path ++ key ++ "/"
         let e1 : Elab := { e with insts := e.insts ++ [{ nodes := [], parent := some (inst, idx), path := path }] }
         let (e2, _) := addNode e1 inst { lbl := key, kind := .nested child tr none, ins := args.map fun r => { r with passive := false } }
         -- the child body sees its parameters as the caller's sources (bindings, not copies)
         let cenv : List (String × Tgt) := (List.range sd.arity).zip args |>.map fun (i, r) =>
           ("$" ++ toString i, ⟨r.inst, r.idx, r.port, none⟩)
         let (e3, cenv') := elabStmts ps child sd.body cenv e2 []
         let outT := if sd.out == "-" then none else envGet cenv' sd.out
         if tr then
           -- consumers read the try node's bundle; the `out` field is forwarded from the child's output
           let outRef : Option InRef := outT.map fun t => { inst := t.inst, idx := t.idx, port := t.port }
           let ci3 := e3.insts.getD inst { nodes := [] }
           let nn := ci3.nodes.getD idx { lbl := key, kind := .sink }
           let e4 := { e3 with insts := e3.insts.set inst { ci3 with nodes := ci3.nodes.set idx { nn with kind := .nested child true outRef } } }
           elabStmts ps inst rest (("try:" ++ key, ⟨inst, idx, .bundle, none⟩) :: env) e4 fbs
         else
           let env' := match outT with
             | some t => (key, { t with via := some (inst, idx) }) :: env
             | none => env
           elabStmts ps inst rest env' e3 fbs)
    | "inline" =>
      (match (ps.subs.find? (·.1 == num 0)) with
       | none => ({ e with err := true }, env)
       | some (_, sd) =>
         let off := 1000 * st.lbl
         let args := (List.range sd.arity).map fun i => envGet env (let s := st.args.getD (1 + i) ""; if s.startsWith "~" then (s.drop 1).toString else s)
         if args.any Option.isNone then ({ e with err := true }, env) else
         let cenv : List (String × Tgt) := (List.range sd.arity).zip (args.filterMap id) |>.map fun (i, t) => ("$" ++ toString i, t)
         let body := sd.body.map fun s =>
           let args' := match s.kind with
             | "add" | "gate" | "ngate" => (s.args.take 2).map (shiftArg off) ++ s.args.drop 2
             | "gate3" => (s.args.take 3).map (shiftArg off) ++ s.args.drop 3
             | "nscript" => s.args.take 1 ++ (s.args.drop 1).map (shiftArg off)
             | "acc" | "pass" | "sink" | "probe" => s.args.map (shiftArg off)
             | "thrower" => (s.args.take 1) ++ (s.args.drop 1).map (shiftArg off)
             | "script" => (s.args.take 1) ++ (s.args.drop 1).map (shiftArg off)
             | _ => s.args
           ({ lbl := s.lbl + off, kind := s.kind, args := args' } : Stmt)
         let (e1, cenv') := elabStmts ps inst body cenv e fbs
         let env' := if sd.out == "-" then env else match envGet cenv' (shiftArg off sd.out) with
           | some t => (key, t) :: env
           | none => env
         -- inlined nodes stay visible under their shifted labels for later statements
         elabStmts ps inst rest (env' ++ cenv'.filter (fun kv => !kv.1.startsWith "$")) e1 fbs)
    | _ => ({ e with err := true }, env)

/-- the rank pass (`Model/Rank.lean`, the model of `build_ranked_graph`) applied to every instance:
    returns for each instance the ranked order (list of statement-order indices) -/
def rankOrders (insts : List CInst) : Option (List (List Nat)) :=
  (List.range insts.length).mapM fun i =>
    let ci := insts.getD i { nodes := [] }
    let w : HgVerif.Rank.Wiring := ci.nodes.map fun n =>
      { inputs := n.ins.filterMap (fun r => r.rankIdx.map (fun k => (k, true))) }
    match HgVerif.Rank.kahn w with
    | .ok order => some order
    | .error _ => none

def permOf (order : List Nat) (old : Nat) : Nat := order.idxOf old

def compile (ps : PS) : Option CProg :=
  let e0 : Elab := { insts := [{ nodes := [] }] }
  let (e, _) := elabStmts ps 0 ps.root [] e0 []
  if e.err then none else
  let insts0 := e.insts.mapIdx fun i ci =>
    { ci with nodes := ci.nodes.mapIdx fun j n => if e.capt.any (fun c => c.1 == i && c.2 == j) then { n with captures := true } else n }
  match rankOrders insts0 with
  | none => none
  | some orders =>
    let pm (inst idx : Nat) : Nat := permOf (orders.getD inst []) idx
    let fixRef (r : InRef) : InRef := { r with idx := pm r.inst r.idx }
    let insts := insts0.mapIdx fun i ci =>
      let ranked := (orders.getD i []).map fun old =>
        let n := ci.nodes.getD old { lbl := "?", kind := .sink }
        let kind' := match n.kind with
          | .fbsink src => Kind.fbsink (pm i src)
          | .nested c tr o => Kind.nested c tr (o.map fixRef)
          | k => k
        { n with ins := n.ins.map fixRef, kind := kind' }
      -- feedback nodes have no program label: they are named by their rank position
      let named := ranked.mapIdx fun j n => if n.lbl.startsWith "#feedback" then { n with lbl := s!"{n.lbl}:{j}" } else n
      { ci with nodes := named, parent := ci.parent.map fun (pi, pj) => (pi, pm pi pj) }
    let subs := e.subs.map fun sb => { sb with idx := pm sb.inst sb.idx, sidx := pm sb.sinst sb.sidx }
    some { insts := insts, subs := subs, startT := ps.startT, endT := ps.endT, cleanup := ps.cleanup,
           ticks := ps.ticks, scripts := ps.scripts, faults := ps.faults, fixedResume := ps.fixedResume }

def addStmt (ps : PS) (s : Stmt) : PS :=
  match ps.cur with
  | none => { ps with root := ps.root ++ [s] }
  | some sid => { ps with subs := ps.subs.map fun (k, sd) => if k == sid then (k, { sd with body := sd.body ++ [s] }) else (k, sd) }

def step (ps : PS) (ws : List String) : PS × String :=
  match ws with
  | ["case", n] => ({}, s!"case {n}")
  | ["reset"] => ({}, "ok")
  | "cfg" :: s :: e :: rest =>
    ({ ps with startT := s.toNat?.getD 1, endT := e.toNat?.getD 100, cleanup := !(rest.contains "cleanup=0") }, "ok")
  | "ticks" :: id :: rest =>
    let ts := rest.filterMap fun w => match w.splitOn ":" with
      | [t, v] => match t.toNat?, parseInt v with
        | some t, some v => some (t, v)
        | _, _ => none
      | _ => none
    ({ ps with ticks := ps.ticks ++ [(id.toNat?.getD 0, ts)] }, "ok")
  | "script" :: id :: rest =>
    ({ ps with scripts := ps.scripts ++ [(id.toNat?.getD 0, (splitSemi rest).map fun g => g.filterMap parseOp)] }, "ok")
  | "faults" :: id :: rest =>
    let fs := rest.filterMap fun w => ((w.drop 1).toString.toNat?).map fun n => (w.front, n)
    ({ ps with faults := ps.faults ++ [(id.toNat?.getD 0, fs)] }, "ok")
  | ["sub", sid, ar] =>
    let k := sid.toNat?.getD 0
    ({ ps with subs := ps.subs ++ [(k, { arity := ar.toNat?.getD 0 })], cur := some k }, "ok")
  | ["endsub", out] =>
    (match ps.cur with
     | none => (ps, "bad-op")
     | some sid => ({ ps with cur := none, subs := ps.subs.map fun (k, sd) => if k == sid then (k, { sd with out := out }) else (k, sd) }, "ok"))
  | "node" :: lbl :: kind :: args =>
    (match lbl.toNat? with
     | some l => (addStmt ps { lbl := l, kind := kind, args := args }, "ok")
     | none => (ps, "bad-op"))
  | ["run"] =>
    (match compile ps with
     | some p => (ps, " | ".intercalate (runProg p 400))
     | none => (ps, "build-err other"))
  | ["rerun", _] =>
    -- the model is a function of the program: every further run from the same recipe is the same run
    (match compile ps with
     | some _ => (ps, "reuse-same")
     | none => (ps, "build-err other"))
  | ["runpar", _] => (ps, "par-same")
  | ["fixed", v] => ({ ps with fixedResume := v == "1" }, "ok")
  | [] => (ps, "")
  | w :: _ => if w.startsWith "#" then (ps, "#") else (ps, "bad-op")

def main : IO Unit := run ({} : PS) step
