import HgVerif.Model.TrackBind
import HgVerif.Model.KeySet
import HgVerif.Driver.Proto
/-! Model driver for the C04 `track-bind` stream: same line protocol as `harness/drv_trackbind.cpp`.
Two outputs of one schema (`ts` / `tss` / `tsd`), 1-3 inputs; the link of every input is
`TrackBind.Link`, stepped by `TrackBind.stepL` (`bindImpl` for bind / bindS / rebind / rebindS), the
producers' records by `TrackBind.stepP`; flags through `cValid / cModified / cLmt / cChildModified`, the
delta views through `rawAdded / rawRemoved / prevPublished`.  Dictionaries (`tsd`, nested `tsdn`): every mutation is
a sequence of `KeySet.Prim` steps; `KeySet.ticks / stamps` decide which of the two records (the dictionary's, its
key set's - producer endpoints `o` and `o + 2`) is stamped; key-set inputs are `Link`s bound to endpoint `o + 2`. -/
open HgVerif.TrackBind HgVerif.KeySet HgVerif.Driver

/-- an inner dictionary of the nested schema -/
structure Inner where
  coll : Coll := {}
  d : Nat := 0
  k : Nat := 0
  vals : List (Int × Int) := []
  C : List (Int × Nat) := []
deriving Inhabited

structure DS where
  have_ : Bool := false
  kind : Nat := 0                                  -- 0 ts, 1 tss, 2 tsd, 3 tsdn
  Ls : Array Nat := #[0, 0, 0, 0]                  -- outputs 0, 1; their key-set endpoints 2, 3
  klinks : Array Link := #[]                       -- the key-set inputs (tsd / tsdn)
  inner : List ((Nat × Int) × Inner) := []         -- tsdn: the inner dictionary under (output, outer key)
  pub : Array (List Int) := #[[], []]              -- tsdn: outer keys whose child has been published
  pend : Array (List Int) := #[[], []]             -- tsdn: outer keys erased in the current delta window
  Cs : List ((Nat × Int) × Nat) := []
  colls : Array Coll := #[{}, {}]
  tsv : Array Int := #[0, 0]
  dv : Array (List (Int × Int)) := #[[], []]
  links : Array Link := #[]

def DS.prod (d : DS) : Prod :=
  ⟨fun o => d.Ls.getD o 0, fun o key => ((d.Cs.lookup (o, key)).getD 0)⟩

def DS.structural (d : DS) : Bool := d.kind != 0

def isNat (s : String) : Bool := !s.isEmpty && s.all Char.isDigit && s.length ≤ 15
def isInt (s : String) : Bool := if s.startsWith "-" then isNat (s.drop 1).toString else isNat s
/-- a cycle time: a natural other than MIN_DT -/
def isTime (s : String) : Bool := isNat s && s.toNat! != 0

def sortI (l : List Int) : List Int := l.mergeSort (fun a b => a ≤ b)
def showL (l : List String) : String := "[" ++ ",".intercalate l ++ "]"
def showI (l : List Int) : String := showL ((sortI l).map toString)

def flagStr (valid modif : Bool) (lmt : Nat) : String := s!"{b2s valid}{b2s modif}/{lmt}"

/-- a producer tick: every link sees it, the producers' records move -/
def tick (d : DS) (o : Nat) (c : Option Int) (t : Nat) : DS :=
  let P := d.prod
  let e := Ev.tick o c t
  let P' := stepP P e
  let Cs := match c with
    | some key => ((o, key), P'.C o key) :: d.Cs.filter (fun x => x.1 != (o, key))
    | none => d.Cs
  { d with Ls := #[P'.L 0, P'.L 1, P'.L 2, P'.L 3], Cs := Cs, links := d.links.map (fun ln => stepL d.structural P ln e),
           klinks := d.klinks.map (fun ln => stepL true P ln e) }

/-- the two records and the live keys of the dictionary in output `o` -/
def DS.dk (d : DS) (o : Nat) : DK := { d := d.Ls.getD o 0, k := d.Ls.getD (o + 2) 0, keys := (d.colls.getD o {}).cur }

/-- the record side of one primitive step of dictionary `o` (decided on the state `dk` BEFORE the step): the
dictionary endpoint `o` (with the written child, if any) and the key-set endpoint `o + 2` -/
def prim (d : DS) (dk : DK) (o : Nat) (p : Prim) (t : Nat) (child : Option Int := none) : DS :=
  let d1 := if stamps dk p then tick d (o + 2) none t else d
  if ticks dk p then tick d1 o child t
  else match child with
    | some _ => tick d1 o child t      -- unreachable: a child write always ticks
    | none => d1

/-- `has_published_structural_state(previous target, t)` -/
def hasPublished (d : DS) (p t : Nat) : Bool :=
  let L := d.Ls.getD p 0
  let c := d.colls.getD p {}
  if L != t && L != 0 then true
  else
    let modNow := L == t
    (c.cur.any fun e => !(modNow && c.add.contains e)) || !c.rem.isEmpty

def dumpProducer (d : DS) (o t : Nat) : String :=
  let P := d.prod
  let c := d.colls.getD o {}
  let valid := decide (pValid P o)
  let modif := decide (pModified P o t)
  let fl := flagStr valid modif (P.L o)
  match d.kind with
  | 0 => fl ++ "/" ++ (if valid then toString (d.tsv.getD o 0) else "-")
  | 1 => fl ++ "/" ++ showI c.cur ++ "/+" ++ showI (if modif then c.add else []) ++ "/-" ++ showI (if modif then c.rem else [])
  | _ =>
    let kids := (sortI c.cur).map fun key =>
      if d.kind == 3 then
        let inn := (d.inner.lookup (o, key)).getD {}
        let gk := (sortI inn.coll.cur).map fun k2 =>
          let gl := (inn.C.lookup k2).getD 0
          s!"{k2}=" ++ flagStr (gl != 0) (t != 0 && gl == t) gl ++ "/" ++
            (if gl != 0 then toString ((inn.vals.lookup k2).getD 0) else "-")
        s!"{key}=" ++ flagStr (inn.d != 0) (t != 0 && inn.d == t) inn.d ++ "/K" ++
          flagStr (inn.k != 0) (t != 0 && inn.k == t) inn.k ++ "/" ++ showL gk
      else
      let cl := P.C o key
      s!"{key}=" ++ flagStr (cl != 0) (decide (pChildModified P o key t)) cl ++ "/" ++
        (if cl != 0 then toString (((d.dv.getD o []).lookup key).getD 0) else "-")
    let sm := t != 0 && c.dt == t
    let ks := P.L (o + 2)
    let km := t != 0 && ks == t
    fl ++ "/" ++ showL kids ++ "/~" ++ showI (if modif then c.md else []) ++ "/+" ++ showI (if sm then c.add else []) ++
      "/-" ++ showI (if sm then c.rem else []) ++
      "/K" ++ flagStr (ks != 0) km ks ++ "/+" ++ showI (if km then c.add else []) ++ "/-" ++ showI (if km then c.rem else [])

def dumpKeySetConsumer (d : DS) (ln : Link) (t : Nat) : String :=
  let P := d.prod
  let modif := decide (cModified P ln t)
  let fl := flagStr (decide (cValid P ln)) modif (cLmt P ln)
  match ln.tgt with
  | none => "-: " ++ fl
  | some e =>
    let o := e - 2
    let c := d.colls.getD o {}
    s!"{o}: " ++ fl ++ "/" ++ showI c.cur ++ "/+" ++ showI (if modif then rawAdded ln t c [] else []) ++
      "/-" ++ showI (if modif then rawRemoved ln t c none else [])

def dumpConsumer (d : DS) (ln : Link) (t : Nat) : String :=
  let P := d.prod
  let valid := decide (cValid P ln)
  let modif := decide (cModified P ln t)
  let fl := flagStr valid modif (cLmt P ln)
  match ln.tgt with
  | none => "-: " ++ fl
  | some o =>
    let c := d.colls.getD o {}
    let pub : Option (List Int) := ln.prevView.map fun p => prevPublished (d.colls.getD p {}) (P.L p) ln.tt
    let body :=
      match d.kind with
      | 0 => fl ++ "/" ++ (if valid then toString (d.tsv.getD o 0) else "-")
      | 1 =>
        fl ++ "/" ++ showI c.cur ++ "/+" ++ showI (if modif then rawAdded ln t c (pub.getD []) else []) ++
          "/-" ++ showI (if modif then rawRemoved ln t c pub else [])
      | _ =>
        let kids := (sortI c.cur).map fun key =>
          let cl := P.C o key
          s!"{key}=" ++ flagStr (cl != 0) (decide (cChildModified P ln key t)) cl ++ "/" ++
            (if cl != 0 then toString (((d.dv.getD o []).lookup key).getD 0) else "-")
        -- `TSDInputView::modified_keys`: `modified()` gate, then `data_view().modified_keys(t)` of the wrapper / the target
        let mk : List Int :=
          if !modif then []
          else if decide (ln.useRaw t) then
            (if ln.k == t then (if decide ln.sampled then c.cur else c.md) else [])
          else (if P.L o == t then c.md else [])
        -- `TSDInputView::structure_modified`
        let sm : Bool := t != 0 &&
          (decide (ln.sampled ∧ ln.tt = t) ||
            (if decide (ln.useRaw t) then decide (ln.active ∧ ln.tt = t) || c.dt == t else c.dt == t))
        fl ++ "/" ++ showL kids ++ "/~" ++ showI mk ++ "/+" ++ showI (if sm then rawAdded ln t c (pub.getD []) else []) ++
          "/-" ++ showI (if sm then rawRemoved ln t c pub else [])
    s!"{o}: " ++ body

def dumpLine (d : DS) (t : Nat) : String :=
  let os := (List.range 2).map fun o => s!"o{o}: " ++ dumpProducer d o t
  let is := (d.links.toList.zipIdx).map fun (ln, i) => s!"i{i}>" ++ dumpConsumer d ln t
  let ks := (d.klinks.toList.zipIdx).map fun (ln, i) => s!"k{i}>" ++ dumpKeySetConsumer d ln t
  " | ".intercalate (os ++ is ++ ks)

/-! ### flat dictionaries: every mutation as `KeySet.Prim` steps -/

/-- `TSDDataMutationView::set(key, v)`: `at(key)` (insert_key), then the child write -/
def dictSet (d : DS) (o t : Nat) (key v : Int) : DS :=
  let dk := d.dk o
  let (c1, _) := (d.colls.getD o {}).insert key t
  let c2 := c1.markModified key t
  let d1 := { d with colls := d.colls.set! o c2, dv := d.dv.set! o ((key, v) :: (d.dv.getD o []).filter (·.1 != key)) }
  let d2 := prim d1 dk o (.at key) t
  prim d2 (dkStep dk (.at key) t) o (.childTick key) t (some key)

/-- `TSDDataMutationView::erase(key)`; a non-changing erase goes through `touch()` (dictionary ticks; key set iff never valid) -/
def dictErase (d : DS) (o t : Nat) (key : Int) : DS × Bool :=
  let dk := d.dk o
  let (c', ch) := (d.colls.getD o {}).remove key t
  let d1 := { d with colls := d.colls.set! o c', dv := d.dv.set! o ((d.dv.getD o []).filter (·.1 != key)) }
  (prim d1 dk o (.erase key) t, ch)

/-- `TSDDataMutationView::touch()` -/
def dictTouch (d : DS) (o t : Nat) : DS :=
  let dk := d.dk o
  prim { d with colls := d.colls.set! o ((d.colls.getD o {}).prepare t) } dk o .touch t

/-- `apply_delta(out, <empty delta>)`: nothing at all on a valid dictionary, `touch()` otherwise -/
def dictEmpty (d : DS) (o t : Nat) : DS := if d.Ls.getD o 0 != 0 then d else dictTouch d o t

def parseItems (s : String) : Option (List (Int × Int)) :=
  if s == "-" then some [] else
  let items := s.splitOn ","
  let parsed := items.map fun it =>
    match it.splitOn ":" with
    | [a, b] => if isInt a && isInt b then some (a.toInt!, b.toInt!) else none
    | _ => none
  if parsed.any Option.isNone then none else
  let l := parsed.filterMap id
  if (l.map (·.1)).eraseDups.length != l.length then none else some l

/-! ### nested dictionaries -/

def DS.inn (d : DS) (o : Nat) (k1 : Int) : Inner := (d.inner.lookup (o, k1)).getD {}
def DS.setInn (d : DS) (o : Nat) (k1 : Int) (i : Inner) : DS :=
  { d with inner := ((o, k1), i) :: d.inner.filter (fun x => x.1 != (o, k1)) }

/-- `prepare_delta` of the OUTER dictionary: a newer time rolls the window and drops the pending-erase slots -/
def outerPrepare (d : DS) (o t : Nat) : DS :=
  let c := d.colls.getD o {}
  if t ≤ c.dt then d else
  let gone := d.pend.getD o []
  { d with colls := d.colls.set! o (c.prepare t), pend := d.pend.set! o [],
           inner := d.inner.filter (fun x => !(x.1.1 == o && gone.contains x.1.2)) }

/-- outer `mutation.at(k1)`: `insert_key` (a new key has a not-yet-valid child: no added mark yet) -/
def outerAt (d : DS) (o t : Nat) (k1 : Int) : DS :=
  let d := outerPrepare d o t
  let dk := d.dk o
  let c := d.colls.getD o {}
  if c.cur.contains k1 then d else
  let resurrect := (d.pend.getD o []).contains k1
  let inn := if resurrect then d.inn o k1 else {}
  let wasRemoved := c.rem.contains k1
  let published := wasRemoved || inn.d != 0
  let c1 : Coll := { c with cur := c.cur ++ [k1], rem := c.rem.filter (· != k1),
                            add := if !wasRemoved && inn.d != 0 then c.add ++ [k1] else c.add,
                            md := if published && inn.d == t && !c.md.contains k1 then c.md ++ [k1] else c.md }
  let d0 := d.setInn o k1 inn
  let pend' := (d.pend.getD o []).filter (fun x => x != k1)
  let pub' := if published then k1 :: (d.pub.getD o []) else (d.pub.getD o []).filter (fun x => x != k1)
  let d1 := { d0 with colls := d.colls.set! o c1, pend := d.pend.set! o pend', pub := d.pub.set! o pub' }
  prim d1 dk o (.at k1) t

/-- the inner dictionary under `k1` ticked (its `record_modified` succeeded): `record_child_modified` of the outer -/
def outerChildTick (d : DS) (o t : Nat) (k1 : Int) : DS :=
  let d := outerPrepare d o t
  let dk := d.dk o
  let c := d.colls.getD o {}
  let isPub := (d.pub.getD o []).contains k1
  let c1 : Coll :=
    if isPub then c
    else if c.rem.contains k1 then { c with rem := c.rem.filter (· != k1) } else { c with add := c.add ++ [k1] }
  let c2 : Coll := if c1.md.contains k1 then c1 else { c1 with md := c1.md ++ [k1] }
  let d1 := { d with colls := d.colls.set! o c2, pub := d.pub.set! o (if isPub then d.pub.getD o [] else k1 :: d.pub.getD o []) }
  prim d1 dk o (.childTick k1) t (some k1)

/-- one primitive step of the inner dictionary; the outer is told when the inner record moves -/
def innerPrim (d : DS) (o t : Nat) (k1 : Int) (p : Prim) (f : Coll → Coll) (gc : Option (Int × Int) := none) : DS :=
  let inn := d.inn o k1
  let dk : DK := { d := inn.d, k := inn.k, keys := inn.coll.cur }
  let dk' := dkStep dk p t
  let inn1 : Inner := { inn with coll := f inn.coll, d := dk'.d, k := dk'.k }
  let inn2 : Inner := match gc with
    | some (k2, v) => { inn1 with vals := (k2, v) :: inn1.vals.filter (·.1 != k2),
                                  C := (k2, record ((inn1.C.lookup k2).getD 0) t) :: inn1.C.filter (·.1 != k2),
                                  d := record inn1.d t }
    | none => inn1
  let d1 := d.setInn o k1 inn2
  if inn2.d != inn.d then outerChildTick d1 o t k1 else d1

/-- outer `erase(k1)` of the nested schema: the slot stays pending (with its inner dictionary) until the window rolls -/
def outerDel (d : DS) (o t : Nat) (key : Int) : DS × Bool :=
  let d0 := outerPrepare d o t
  let live := (d0.colls.getD o {}).cur.contains key
  let (d1, ch) := dictErase d0 o t key
  let d2 := if live then { d1 with pend := d1.pend.set! o (key :: d1.pend.getD o []),
                                   pub := d1.pub.set! o ((d1.pub.getD o []).filter (fun x => x != key)) } else d1
  (d2, ch)

/-- `TSDDataMutationView::clear()`: the live keys are collected, `touch()`, then `erase` of each (`KeySet.clearPrims`) -/
def dictClear (d : DS) (o t : Nat) : DS :=
  let keys := (d.colls.getD o {}).cur
  let d0 := if d.kind == 3 then outerPrepare d o t else d
  let d1 := dictTouch d0 o t
  keys.foldl (fun acc key => if d.kind == 3 then (outerDel acc o t key).1 else (dictErase acc o t key).1) d1

def stepD (d : DS) (ws : List String) : DS × String :=
  match ws with
  | ["case", n] => ({}, s!"case {n}")
  | ["schema", s, k] =>
    if !isNat k then (d, "bad-op") else
    let k := k.toNat!
    if k < 1 || k > 3 then (d, "bad-op") else
    match (["ts", "tss", "tsd", "tsdn"].idxOf? s) with
    | some kind => ({ have_ := true, kind := kind, links := Array.replicate k {},
                      klinks := if kind ≥ 2 then Array.replicate k {} else #[] }, "ok")
    | none => (d, "bad-op")
  | [op, i, o, t] =>
    if !d.have_ then (d, "bad-op") else
    if (op == "bind" || op == "bindS" || op == "rebind" || op == "rebindS") && d.kind != 3 then
      if !isNat i || !isNat o || !isTime t then (d, "bad-op") else
      let (i, o, t) := (i.toNat!, o.toNat!, t.toNat!)
      match d.links[i]? with
      | none => (d, "bad-op")
      | some ln =>
        if o ≥ 2 || (ln.tgt.isSome != op.startsWith "r") then (d, "bad-op") else
        let sampled := op.endsWith "S"
        let pp := match ln.tgt with | some p => hasPublished d p t | none => false
        ({ d with links := d.links.set! i (stepL d.structural d.prod ln (.bind o t sampled pp)) }, "ok")
    else if op == "bindK" && d.kind ≥ 2 then
      if !isNat i || !isNat o || !isTime t then (d, "bad-op") else
      let (i, o, t) := (i.toNat!, o.toNat!, t.toNat!)
      match d.klinks[i]? with
      | none => (d, "bad-op")
      | some ln =>
        if o ≥ 2 || ln.tgt.isSome then (d, "bad-op") else
        ({ d with klinks := d.klinks.set! i (stepL true d.prod ln (.bind (o + 2) t false false)) }, "ok")
    else if op == "w" && d.kind == 0 then
      -- here the three operands are <o> <t> <v>
      let (o, t, v) := (i, o, t)
      if !isNat o || !isTime t || !isInt v then (d, "bad-op") else
      let (o, t) := (o.toNat!, t.toNat!)
      if o ≥ 2 then (d, "bad-op") else
      ({ tick d o none t with tsv := d.tsv.set! o v.toInt! }, "ok")
    else if (op == "add" || op == "rem") && d.kind == 1 then
      let (o, t, e) := (i, o, t)
      if !isNat o || !isTime t || !isInt e then (d, "bad-op") else
      let (o, t, e) := (o.toNat!, t.toNat!, e.toInt!)
      if o ≥ 2 then (d, "bad-op") else
      let c := d.colls.getD o {}
      let (c', ch) := if op == "add" then c.insert e t else c.remove e t
      let d1 := { d with colls := d.colls.set! o c' }
      -- a non-changing add / remove still TOUCHES the collection (`touch_impl` -> `mark_modified`)
      (tick d1 o none t, b2s ch)
    else if op == "del" && d.kind == 2 then
      let (o, t, key) := (i, o, t)
      if !isNat o || !isTime t || !isInt key then (d, "bad-op") else
      let (o, t, key) := (o.toNat!, t.toNat!, key.toInt!)
      if o ≥ 2 then (d, "bad-op") else
      let (d1, ch) := dictErase d o t key
      (d1, b2s ch)
    else if op == "del" && d.kind == 3 then
      let (o, t, key) := (i, o, t)
      if !isNat o || !isTime t || !isInt key then (d, "bad-op") else
      let (o, t, key) := (o.toNat!, t.toNat!, key.toInt!)
      if o ≥ 2 then (d, "bad-op") else
      let (d2, ch) := outerDel d o t key
      (d2, b2s ch)
    else if op == "setall" && d.kind == 2 then
      let (o, t, m) := (i, o, t)
      if !isNat o || !isTime t then (d, "bad-op") else
      let (o, t) := (o.toNat!, t.toNat!)
      if o ≥ 2 then (d, "bad-op") else
      match parseItems m with
      | none => (d, "bad-op")
      | some items =>
        -- `copy_value_from`: newly_touched = !modified(t); touch(); set every item; erase every other live key
        let newly := d.Ls.getD o 0 != t
        let d1 := dictTouch d o t
        let d2 := items.foldl (fun acc (kv : Int × Int) => dictSet acc o t kv.1 kv.2) d1
        let gone := ((d2.colls.getD o {}).cur).filter (fun key => !(items.map (·.1)).contains key)
        let d3 := gone.foldl (fun acc key => (dictErase acc o t key).1) d2
        (d3, b2s newly)
    else if (op == "ntouch" || op == "nempty") && d.kind == 3 then
      let (o, t, k1) := (i, o, t)
      if !isNat o || !isTime t || !isInt k1 then (d, "bad-op") else
      let (o, t, k1) := (o.toNat!, t.toNat!, k1.toInt!)
      if o ≥ 2 then (d, "bad-op") else
      let d1 := outerAt d o t k1
      if op == "nempty" && (d1.inn o k1).d != 0 then (d1, "ok") else
      (innerPrim d1 o t k1 .touch (fun c => c.prepare t), "ok")
    else (d, "bad-op")
  | [op, o, t] =>
    if !d.have_ then (d, "bad-op") else
    if op == "unbind" && d.kind != 3 then
      let i := o
      if !isNat i || !isTime t then (d, "bad-op") else
      let (i, t) := (i.toNat!, t.toNat!)
      match d.links[i]? with
      | none => (d, "bad-op")
      | some ln =>
        if ln.tgt.isNone then (d, "bad-op") else
        ({ d with links := d.links.set! i (stepL d.structural d.prod ln (.unbind t)) }, "ok")
    else if (op == "touch" || op == "empty" || op == "clear") && d.kind ≥ 2 then
      if !isNat o || !isTime t then (d, "bad-op") else
      let (o, t) := (o.toNat!, t.toNat!)
      if o ≥ 2 then (d, "bad-op") else
      if op == "empty" then (dictEmpty d o t, "ok") else
      if op == "clear" then (dictClear d o t, "ok") else
      let d0 := if d.kind == 3 then outerPrepare d o t else d
      (dictTouch d0 o t, "ok")
    else (d, "bad-op")
  | ["set", o, t, key, v] =>
    if !d.have_ || d.kind != 2 || !isNat o || !isTime t || !isInt key || !isInt v then (d, "bad-op") else
    let (o, t, key, v) := (o.toNat!, t.toNat!, key.toInt!, v.toInt!)
    if o ≥ 2 then (d, "bad-op") else
    (dictSet d o t key v, "ok")
  | ["ndel", o, t, k1, k2] =>
    if !d.have_ || d.kind != 3 || !isNat o || !isTime t || !isInt k1 || !isInt k2 then (d, "bad-op") else
    let (o, t, k1, k2) := (o.toNat!, t.toNat!, k1.toInt!, k2.toInt!)
    if o ≥ 2 then (d, "bad-op") else
    if !(d.colls.getD o {}).cur.contains k1 then (d, "-") else
    let d1 := outerAt d o t k1
    let ch := ((d1.inn o k1).coll.cur).contains k2
    (innerPrim d1 o t k1 (.erase k2) (fun c => (c.remove k2 t).1), b2s ch)
  | ["nset", o, t, k1, k2, v] =>
    if !d.have_ || d.kind != 3 || !isNat o || !isTime t || !isInt k1 || !isInt k2 || !isInt v then (d, "bad-op") else
    let (o, t, k1, k2, v) := (o.toNat!, t.toNat!, k1.toInt!, k2.toInt!, v.toInt!)
    if o ≥ 2 then (d, "bad-op") else
    let d1 := outerAt d o t k1
    let d2 := innerPrim d1 o t k1 (.at k2) (fun c => ((c.insert k2 t).1).markModified k2 t)
    (innerPrim d2 o t k1 (.childTick k2) id (some (k2, v)), "ok")
  | ["dump", t] =>
    if !d.have_ || !isTime t then (d, "bad-op") else (d, dumpLine d t.toNat!)
  | [] => (d, "")
  | _ => (d, "bad-op")

def main : IO Unit := run ({} : DS) stepD
