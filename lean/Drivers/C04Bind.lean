import HgVerif.Model.TrackBind
import HgVerif.Driver.Proto
/-! Model driver for the C04 `track-bind` stream: same line protocol as `harness/drv_trackbind.cpp`.
Two outputs of one schema (`ts` / `tss` / `tsd`), 1-3 inputs; the link of every input is
`TrackBind.Link`, stepped by `TrackBind.stepL` (`bindImpl` for bind / bindS / rebind / rebindS), the
producers' records by `TrackBind.stepP`; flags through `cValid / cModified / cLmt / cChildModified`, the
delta views through `rawAdded / rawRemoved / prevPublished`. -/
open HgVerif.TrackBind HgVerif.Driver

structure DS where
  have_ : Bool := false
  kind : Nat := 0                                  -- 0 ts, 1 tss, 2 tsd
  Ls : Array Nat := #[0, 0]
  Cs : List ((Nat × Int) × Nat) := []
  colls : Array Coll := #[{}, {}]
  tsv : Array Int := #[0, 0]
  dv : Array (List (Int × Int)) := #[[], []]
  links : Array Link := #[]

def DS.prod (d : DS) : Prod :=
  ⟨fun o => d.Ls.getD o 0, fun o key => ((d.Cs.lookup (o, key)).getD 0)⟩

def DS.structural (d : DS) : Bool := d.kind != 0

def isNat (s : String) : Bool := !s.isEmpty && s.all Char.isDigit && s.length ≤ 15
def isInt (s : String) : Bool := if s.startsWith "-" then isNat (s.drop 1).toString else isNat s
/-- a cycle time: a natural other than MIN_DT -/
def isTime (s : String) : Bool := isNat s && s.toNat! != 0

def sortI (l : List Int) : List Int := l.mergeSort (fun a b => a ≤ b)
def showL (l : List String) : String := "[" ++ ",".intercalate l ++ "]"
def showI (l : List Int) : String := showL ((sortI l).map toString)

def flagStr (valid modif : Bool) (lmt : Nat) : String := s!"{b2s valid}{b2s modif}/{lmt}"

/-- a producer tick: every link sees it, the producers' records move -/
def tick (d : DS) (o : Nat) (c : Option Int) (t : Nat) : DS :=
  let P := d.prod
  let e := Ev.tick o c t
  let P' := stepP P e
  let Cs := match c with
    | some key => ((o, key), P'.C o key) :: d.Cs.filter (fun x => x.1 != (o, key))
    | none => d.Cs
  { d with Ls := #[P'.L 0, P'.L 1], Cs := Cs, links := d.links.map (fun ln => stepL d.structural P ln e) }

/-- `has_published_structural_state(previous target, t)` -/
def hasPublished (d : DS) (p t : Nat) : Bool :=
  let L := d.Ls.getD p 0
  let c := d.colls.getD p {}
  if L != t && L != 0 then true
  else
    let modNow := L == t
    (c.cur.any fun e => !(modNow && c.add.contains e)) || !c.rem.isEmpty

def dumpProducer (d : DS) (o t : Nat) : String :=
  let P := d.prod
  let c := d.colls.getD o {}
  let valid := decide (pValid P o)
  let modif := decide (pModified P o t)
  let fl := flagStr valid modif (P.L o)
  match d.kind with
  | 0 => fl ++ "/" ++ (if valid then toString (d.tsv.getD o 0) else "-")
  | 1 => fl ++ "/" ++ showI c.cur ++ "/+" ++ showI (if modif then c.add else []) ++ "/-" ++ showI (if modif then c.rem else [])
  | _ =>
    let kids := (sortI c.cur).map fun key =>
      let cl := P.C o key
      s!"{key}=" ++ flagStr (cl != 0) (decide (pChildModified P o key t)) cl ++ "/" ++
        (if cl != 0 then toString (((d.dv.getD o []).lookup key).getD 0) else "-")
    let sm := t != 0 && c.dt == t
    fl ++ "/" ++ showL kids ++ "/~" ++ showI (if modif then c.md else []) ++ "/+" ++ showI (if sm then c.add else []) ++
      "/-" ++ showI (if sm then c.rem else [])

def dumpConsumer (d : DS) (ln : Link) (t : Nat) : String :=
  let P := d.prod
  let valid := decide (cValid P ln)
  let modif := decide (cModified P ln t)
  let fl := flagStr valid modif (cLmt P ln)
  match ln.tgt with
  | none => "-: " ++ fl
  | some o =>
    let c := d.colls.getD o {}
    let pub : Option (List Int) := ln.prevView.map fun p => prevPublished (d.colls.getD p {}) (P.L p) ln.tt
    let body :=
      match d.kind with
      | 0 => fl ++ "/" ++ (if valid then toString (d.tsv.getD o 0) else "-")
      | 1 =>
        fl ++ "/" ++ showI c.cur ++ "/+" ++ showI (if modif then rawAdded ln t c (pub.getD []) else []) ++
          "/-" ++ showI (if modif then rawRemoved ln t c pub else [])
      | _ =>
        let kids := (sortI c.cur).map fun key =>
          let cl := P.C o key
          s!"{key}=" ++ flagStr (cl != 0) (decide (cChildModified P ln key t)) cl ++ "/" ++
            (if cl != 0 then toString (((d.dv.getD o []).lookup key).getD 0) else "-")
        -- `TSDInputView::modified_keys`: `modified()` gate, then `data_view().modified_keys(t)` of the wrapper / the target
        let mk : List Int :=
          if !modif then []
          else if decide (ln.useRaw t) then
            (if ln.k == t then (if decide ln.sampled then c.cur else c.md) else [])
          else (if P.L o == t then c.md else [])
        -- `TSDInputView::structure_modified`
        let sm : Bool := t != 0 &&
          (decide (ln.sampled ∧ ln.tt = t) ||
            (if decide (ln.useRaw t) then decide (ln.active ∧ ln.tt = t) || c.dt == t else c.dt == t))
        fl ++ "/" ++ showL kids ++ "/~" ++ showI mk ++ "/+" ++ showI (if sm then rawAdded ln t c (pub.getD []) else []) ++
          "/-" ++ showI (if sm then rawRemoved ln t c pub else [])
    s!"{o}: " ++ body

def dumpLine (d : DS) (t : Nat) : String :=
  let os := (List.range 2).map fun o => s!"o{o}: " ++ dumpProducer d o t
  let is := (d.links.toList.zipIdx).map fun (ln, i) => s!"i{i}>" ++ dumpConsumer d ln t
  " | ".intercalate (os ++ is)

def stepD (d : DS) (ws : List String) : DS × String :=
  match ws with
  | ["case", n] => ({}, s!"case {n}")
  | ["schema", s, k] =>
    if !isNat k then (d, "bad-op") else
    let k := k.toNat!
    if k < 1 || k > 3 then (d, "bad-op") else
    match (["ts", "tss", "tsd"].idxOf? s) with
    | some kind => ({ have_ := true, kind := kind, links := Array.replicate k {} }, "ok")
    | none => (d, "bad-op")
  | [op, i, o, t] =>
    if !d.have_ then (d, "bad-op") else
    if op == "bind" || op == "bindS" || op == "rebind" || op == "rebindS" then
      if !isNat i || !isNat o || !isTime t then (d, "bad-op") else
      let (i, o, t) := (i.toNat!, o.toNat!, t.toNat!)
      match d.links[i]? with
      | none => (d, "bad-op")
      | some ln =>
        if o ≥ 2 || (ln.tgt.isSome != op.startsWith "r") then (d, "bad-op") else
        let sampled := op.endsWith "S"
        let pp := match ln.tgt with | some p => hasPublished d p t | none => false
        ({ d with links := d.links.set! i (stepL d.structural d.prod ln (.bind o t sampled pp)) }, "ok")
    else if op == "w" && d.kind == 0 then
      -- here the three operands are <o> <t> <v>
      let (o, t, v) := (i, o, t)
      if !isNat o || !isTime t || !isInt v then (d, "bad-op") else
      let (o, t) := (o.toNat!, t.toNat!)
      if o ≥ 2 then (d, "bad-op") else
      ({ tick d o none t with tsv := d.tsv.set! o v.toInt! }, "ok")
    else if (op == "add" || op == "rem") && d.kind == 1 then
      let (o, t, e) := (i, o, t)
      if !isNat o || !isTime t || !isInt e then (d, "bad-op") else
      let (o, t, e) := (o.toNat!, t.toNat!, e.toInt!)
      if o ≥ 2 then (d, "bad-op") else
      let c := d.colls.getD o {}
      let (c', ch) := if op == "add" then c.insert e t else c.remove e t
      let d1 := { d with colls := d.colls.set! o c' }
      -- a non-changing add / remove / erase still TOUCHES the collection (`touch_impl` -> `mark_modified`)
      (tick d1 o none t, b2s ch)
    else if op == "del" && d.kind == 2 then
      let (o, t, key) := (i, o, t)
      if !isNat o || !isTime t || !isInt key then (d, "bad-op") else
      let (o, t, key) := (o.toNat!, t.toNat!, key.toInt!)
      if o ≥ 2 then (d, "bad-op") else
      let (c', ch) := (d.colls.getD o {}).remove key t
      let d1 := { d with colls := d.colls.set! o c', dv := d.dv.set! o ((d.dv.getD o []).filter (·.1 != key)) }
      -- a non-changing add / remove / erase still TOUCHES the collection (`touch_impl` -> `mark_modified`)
      (tick d1 o none t, b2s ch)
    else (d, "bad-op")
  | ["set", o, t, key, v] =>
    if !d.have_ || d.kind != 2 || !isNat o || !isTime t || !isInt key || !isInt v then (d, "bad-op") else
    let (o, t, key, v) := (o.toNat!, t.toNat!, key.toInt!, v.toInt!)
    if o ≥ 2 then (d, "bad-op") else
    let (c1, _) := (d.colls.getD o {}).insert key t
    let c2 := c1.markModified key t
    let d1 := { d with colls := d.colls.set! o c2, dv := d.dv.set! o ((key, v) :: (d.dv.getD o []).filter (·.1 != key)) }
    (tick d1 o (some key) t, "ok")
  | ["unbind", i, t] =>
    if !d.have_ || !isNat i || !isTime t then (d, "bad-op") else
    let (i, t) := (i.toNat!, t.toNat!)
    match d.links[i]? with
    | none => (d, "bad-op")
    | some ln =>
      if ln.tgt.isNone then (d, "bad-op") else
      ({ d with links := d.links.set! i (stepL d.structural d.prod ln (.unbind t)) }, "ok")
  | ["dump", t] =>
    if !d.have_ || !isTime t then (d, "bad-op") else (d, dumpLine d t.toNat!)
  | [] => (d, "")
  | _ => (d, "bad-op")

def main : IO Unit := run ({} : DS) stepD
