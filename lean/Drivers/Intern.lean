import HgVerif.Model.InternKey
import HgVerif.Driver.Proto
/-!
Model driver for the direct interning stream of C06: same line protocol as `harness/drv_intern.cpp`.

Every declaration is one `HgVerif.InternKey.step` (`Model/InternKey.lean`): the input labels are resolved
to the nodes they were interned to, and `HgVerif.Intern.addNode` (`Model/Intern.lean`) is asked for the
key `(defn, resolved inputs)`.  The concrete key mirrors `InstanceKey` of `graph_wiring.cpp` for the
programs of this protocol:

* `defn = (definition, scalar)` — `InstanceKey::def` and `InstanceKey::scalars` (one `Int` scalar; the
  resolved `WiringNodeSchema` is a function of the definition here, every node being concrete),
* one entry per peered source of the inputs, in slot order, `(producer node, Att)`:
  * producer node — `SourceKey::peered_node`, the node the producer declaration was interned to,
  * `Att.slot`    — `InputKey::target_path = {slot}`,
  * `Att.child`   — position inside a structural source (`SourceKey::structural_children`), `none` for a
                    peered input (`SourceKey::kind`),
  * `Att.path`    — `SourceKey::peered_path`,     `Att.err` — `SourceKey::peered_output_kind`,
  * `Att.passive` — `InputKey::passive`,          `Att.rank` — `InputKey::rank_dependency`.

`Wiring::add_node` calls `NodeBuilder::with_passive_inputs` before the table is consulted; it throws
"passive would deactivate every input" when every input slot is passive: `allPassive`.
-/
open HgVerif.Intern HgVerif.InternKey HgVerif.Driver

structure Att where
  slot : Nat
  child : Option Nat
  path : List Nat
  err : Bool
  passive : Bool
  rank : Bool
  deriving DecidableEq

abbrev Defn := String × Nat
abbrev D := LDecl String Defn Att

inductive Ty where
  | ts | tsl | tsb | tsErr
  deriving DecidableEq

structure DS where
  live : Bool := true                                   -- false once `finish` consumed the wiring
  ls : LSt String Defn Att := {}                        -- interning table + label ↦ node
  tys : List (String × Ty) := []                        -- type of the port a label denotes
  used : List String := []                              -- every label declared so far
  insts : List (Nat × String × List (Nat × Att)) := []  -- created instances: id, first label, resolved inputs
  seen : List Nat := []                                 -- value-node ids in first-seen order

def isLabel (s : String) : Bool :=
  s ≠ "" && s.toList.all fun c => ('a' ≤ c && c ≤ 'z') || ('0' ≤ c && c ≤ '9') || c = '_'

def toNatStrict (s : String) : Option Nat :=
  let cs := s.toList
  if cs.isEmpty || cs.length > 9 || !(cs.all fun c => '0' ≤ c && c ≤ '9') then none
  else some (cs.foldl (fun acc c => acc * 10 + (c.toNat - '0'.toNat)) 0)

def tyOf (d : DS) (l : String) : Option Ty := (d.tys.find? (·.1 = l)).map (·.2)

/-- one peered source as written: producer label, sub-path, error output -/
structure Elem where
  lbl : String
  path : List Nat
  err : Bool

/-- `<lbl>` | `<lbl>.<0|1>` | `<lbl>!`  →  the source and the type of the port -/
def parseElem (d : DS) (cs : List Char) : Option (Elem × Ty) :=
  let whole := (tyOf d (String.ofList cs)).map fun ty => (⟨String.ofList cs, [], false⟩, if ty = .tsErr then .ts else ty)
  match cs.reverse with
  | '!' :: r =>
    let l := String.ofList r.reverse
    match tyOf d l with
    | some ty => if ty = .tsErr then some (⟨l, [], true⟩, .ts) else none
    | none => none
  | c :: '.' :: r =>
    if (c = '0' || c = '1') && !r.isEmpty then
      let l := String.ofList r.reverse
      match tyOf d l with
      | some ty => if ty = .tsl || ty = .tsb then some (⟨l, [if c = '0' then 0 else 1], false⟩, .ts) else none
      | none => none
    else whole
  | _ => whole

/-- one input slot as written -/
structure Inp where
  elems : List Elem        -- one peered source, or the two children of a structural source
  structural : Bool
  passive : Bool
  rank : Bool
  okTsl : Bool             -- acceptable for a `TSL<TS<Int>,2>` input
  okTs : Bool              -- acceptable for a `TS<Int>` input

/-- `[~][^]<body>` -/
def parseInput (d : DS) (t : String) : Option Inp :=
  let cs := t.toList
  let (passive, cs) := match cs with | '~' :: r => (true, r) | _ => (false, cs)
  let (free, cs) := match cs with | '^' :: r => (true, r) | _ => (false, cs)
  let single := (parseElem d cs).map fun (e, ty) => (⟨[e], false, passive, !free, ty = .tsl, ty = .ts⟩ : Inp)
  match cs with
  | '[' :: rest =>
    if !rest.isEmpty && rest.getLast? = some ']' then
      if passive then none else
      match (String.ofList rest.dropLast).splitOn "," with
      | [a, b] =>
        match parseElem d a.toList, parseElem d b.toList with
        | some (ea, .ts), some (eb, .ts) => some ⟨[ea, eb], true, false, !free, true, false⟩
        | _, _ => none
      | _ => none
    else single
  | _ => single

/-- the `(label, Att)` entries of input slot `slot` -/
def entries (slot : Nat) (i : Inp) : List (String × Att) :=
  (i.elems.zipIdx).map fun (e, j) =>
    (e.lbl, ⟨slot, if i.structural then some j else none, e.path, e.err, i.passive, i.rank⟩)

/-- arity and whether the (single) input is a `TSL`; `none` for an unknown definition -/
def defInfo (sink : Bool) (defn : String) : Option (Nat × Bool) :=
  match sink, defn with
  | false, "f1" => some (1, false)
  | false, "g1" => some (1, false)
  | false, "f2" => some (2, false)
  | false, "g2" => some (2, false)
  | false, "t1" => some (1, true)
  | true, "k0" => some (0, false)   -- output-less node without time-series inputs
  | true, "k1" => some (1, false)
  | true, "k2" => some (2, false)
  | _, _ => none

/-- `NodeBuilder::with_passive_inputs`: every input slot would become passive -/
def allPassive (ins : List Inp) : Bool := !ins.isEmpty && ins.all (·.passive)

/-- dense first-seen number of a value node -/
def number (d : DS) (id : Nat) : DS × String :=
  let i := d.seen.idxOf id
  if i < d.seen.length then (d, s!"n{i}") else ({ d with seen := d.seen ++ [id] }, s!"n{d.seen.length}")

/-- one `Wiring::add_node` -/
def declare (d : DS) (decl : D) : DS × Nat :=
  let r := step d.ls decl
  let created := r.1.st.next != d.ls.st.next
  ({ d with ls := r.1, used := decl.lbl :: d.used,
            insts := if created then d.insts ++ [(r.2, decl.lbl, resolve d.ls.env decl.ins)] else d.insts }, r.2)

def nameOf (d : DS) (id : Nat) : String :=
  match d.insts.find? (·.1 = id) with
  | some i => i.2.1
  | none => "?"

def edgesOf (d : DS) : List String :=
  d.insts.flatMap fun (_, lbl, rins) =>
    rins.map fun (src, a) =>
      nameOf d src ++ String.join (a.path.map fun i => s!"@{i}") ++ (if a.err then "!" else "") ++
        s!">{lbl}.{a.slot}" ++ (match a.child with | some j => s!".{j}" | none => "")

def finishLine (d : DS) : String :=
  let es := (edgesOf d).mergeSort fun a b => decide (a ≤ b)
  s!"nodes={d.ls.st.next} edges={",".intercalate es}"

def stepLine (d : DS) (ws : List String) : DS × String :=
  match ws with
  | ["case", n] => ({}, s!"case {n}")
  | ["reset"] => ({}, "ok")
  | ["src", lbl, kind, k] =>
    let ty : Option Ty := match kind with
      | "s" => some .ts | "p" => some .tsl | "b" => some .tsb | "e" => some .tsErr | _ => none
    match ty, toNatStrict k with
    | some ty, some k =>
      if !d.live || !isLabel lbl || d.used.contains lbl then (d, "bad-op") else
      let (d, id) := declare d { lbl := lbl, defn := ("src-" ++ kind, k), ins := [], sink := false }
      number { d with tys := (lbl, ty) :: d.tys } id
    | _, _ => (d, "bad-op")
  | op :: lbl :: defn :: k :: ins =>
    if op != "node" && op != "sink" then (d, "bad-op") else
    let sink := op == "sink"
    match defInfo sink defn, toNatStrict k with
    | some (arity, wantsTsl), some k =>
      if !d.live || ins.length != arity || !isLabel lbl || d.used.contains lbl then (d, "bad-op") else
      let parsed := ins.map (parseInput d)
      if parsed.any (·.isNone) then (d, "bad-op") else
      let parsed := parsed.filterMap id
      if parsed.any (fun i => if wantsTsl then !i.okTsl else !i.okTs) then (d, "bad-op") else
      if allPassive parsed then (d, "err") else
      let es := (parsed.zipIdx).flatMap fun (i, slot) => entries slot i
      let (d, id) := declare d { lbl := lbl, defn := (defn, k), ins := es, sink := sink }
      if sink then (d, "sink") else number { d with tys := (lbl, .ts) :: d.tys } id
    | _, _ => (d, "bad-op")
  | ["finish"] => if !d.live then (d, "bad-op") else ({ d with live := false, tys := [] }, finishLine d)
  | [] => (d, "")
  | _ => (d, "bad-op")

def main : IO Unit := run ({} : DS) stepLine
