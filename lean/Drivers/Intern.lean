import HgVerif.Model.InternKey
import HgVerif.Driver.Proto
/-!
Model driver for the direct interning stream of C06: same line protocol as `harness/drv_intern.cpp`.

Every declaration is one `HgVerif.InternKey.stepS` (`Model/InternKey.lean`): the input labels are resolved
to the nodes they were interned to, and `HgVerif.Intern.addNode` (`Model/Intern.lean`) is asked for the
key `((defn, schema), resolved inputs)`.  The concrete key mirrors `InstanceKey` of `graph_wiring.cpp` for
the programs of this protocol:

* `defn = (definition, scalar)` — `InstanceKey::def` and `InstanceKey::scalars` (one scalar, `Int` except for `gs:f`, whose
  `Float` scalar is told apart from the `Int` of `gs:i` by the resolved scalar SCHEMA `k:float` / `k:int`); the typed
  call `q:<t>` and the by-name call `qn:<t>` reach `add_node` with the same definition (`typeid(Quote)`),
* `schema` — `InstanceKey::schema`, the resolved `WiringNodeSchema` (`schemaOf`): for the concrete definitions a
  function of the definition; for `ec` / `r` the input (and output) schema follows the port type; for `q` / `qn`
  the OUTPUT schema is the requested type and nothing else in the key depends on it.  A declaration takes part
  in interning iff `schema.output` is present (`SDecl.interns`),
* one entry per peered source of the inputs, in slot order, `(producer node, Att)`:
  * producer node — `SourceKey::peered_node`, the node the producer declaration was interned to,
  * `Att.slot`    — `InputKey::target_path = {slot}`,
  * `Att.child`   — position inside a structural source (`SourceKey::structural_children`), `none` for a
                    peered input (`SourceKey::kind`),
  * `Att.path`    — `SourceKey::peered_path`,     `Att.err` — `SourceKey::peered_output_kind`,
  * `Att.passive` — `InputKey::passive`,          `Att.rank` — `InputKey::rank_dependency`.

`Wiring::add_node` calls `NodeBuilder::with_passive_inputs` before the table is consulted; it throws
"passive would deactivate every input" when every input slot is passive: `allPassive`.
-/
open HgVerif.Intern HgVerif.InternKey HgVerif.Driver

structure Att where
  slot : Nat
  child : Option Nat
  path : List Nat
  err : Bool
  passive : Bool
  rank : Bool
  deriving DecidableEq

abbrev Defn := String × Nat
abbrev D := SDecl String Defn String Att

inductive Ty where
  | ts | tsl | tsb | tsErr | tsF | tsB
  deriving DecidableEq

/-- a recorded / computed value of the one simulation cycle: `h n` is the float `n + 0.5` -/
inductive Val where
  | i (n : Nat) | h (n : Nat) | b (v : Bool)

def Val.str : Val → String
  | .i n => toString n
  | .h n => s!"{n}.5"
  | .b v => if v then "true" else "false"

def Val.nat : Val → Nat
  | .i n => n
  | .h n => n
  | .b _ => 0

def tyName : Ty → String
  | .ts => "TS[int]" | .tsErr => "TS[int]" | .tsF => "TS[float]" | .tsB => "TS[bool]"
  | .tsl => "TSL[TS[int],2]" | .tsb => "TSB[a:TS[int],b:TS[int]]"

def tyCode : Ty → String
  | .ts => "i" | .tsErr => "i" | .tsF => "f" | .tsB => "b" | .tsl => "l" | .tsb => "s"

structure DS where
  live : Bool := true                                   -- false once `finish` consumed the wiring
  ls : LSt String (Defn × Schema String) Att := {}      -- interning table + label ↦ node
  vals : List (String × Option Val) := []               -- what a label's declaration computes in the one cycle
  recs : List (String × Option Val) := []               -- recorder label, what it saw
  rankFree : Bool := false                              -- a rank-free input was declared: `run` is refused
  tys : List (String × Ty) := []                        -- type of the port a label denotes
  used : List String := []                              -- every label declared so far
  insts : List (Nat × String × List (Nat × Att)) := []  -- created instances: id, first label, resolved inputs
  seen : List Nat := []                                 -- value-node ids in first-seen order

def isLabel (s : String) : Bool :=
  s ≠ "" && s.toList.all fun c => ('a' ≤ c && c ≤ 'z') || ('0' ≤ c && c ≤ '9') || c = '_'

def toNatStrict (s : String) : Option Nat :=
  let cs := s.toList
  if cs.isEmpty || cs.length > 9 || !(cs.all fun c => '0' ≤ c && c ≤ '9') then none
  else some (cs.foldl (fun acc c => acc * 10 + (c.toNat - '0'.toNat)) 0)

def tyOf (d : DS) (l : String) : Option Ty := (d.tys.find? (·.1 = l)).map (·.2)

/-- one peered source as written: producer label, sub-path, error output -/
structure Elem where
  lbl : String
  path : List Nat
  err : Bool

/-- `<lbl>` | `<lbl>.<0|1>` | `<lbl>!`  →  the source and the type of the port -/
def parseElem (d : DS) (cs : List Char) : Option (Elem × Ty) :=
  let whole := (tyOf d (String.ofList cs)).map fun ty => (⟨String.ofList cs, [], false⟩, if ty = .tsErr then Ty.ts else ty)
  match cs.reverse with
  | '!' :: r =>
    let l := String.ofList r.reverse
    match tyOf d l with
    | some ty => if ty = .tsErr then some (⟨l, [], true⟩, .ts) else none
    | none => none
  | c :: '.' :: r =>
    if (c = '0' || c = '1') && !r.isEmpty then
      let l := String.ofList r.reverse
      match tyOf d l with
      | some ty => if ty = .tsl || ty = .tsb then some (⟨l, [if c = '0' then 0 else 1], false⟩, .ts) else none
      | none => none
    else whole
  | _ => whole

/-- one input slot as written -/
structure Inp where
  elems : List Elem        -- one peered source, or the two children of a structural source
  structural : Bool
  passive : Bool
  rank : Bool
  okTsl : Bool             -- acceptable for a `TSL<TS<Int>,2>` input
  okTs : Bool              -- acceptable for a `TS<Int>` input
  ty : Ty                  -- type of the port (of the whole structural source: `tsl`)

/-- `[~][^]<body>` -/
def parseInput (d : DS) (t : String) : Option Inp :=
  let cs := t.toList
  let (passive, cs) := match cs with | '~' :: r => (true, r) | _ => (false, cs)
  let (free, cs) := match cs with | '^' :: r => (true, r) | _ => (false, cs)
  let single := (parseElem d cs).map fun (e, ty) => (⟨[e], false, passive, !free, ty = .tsl, ty = .ts, ty⟩ : Inp)
  match cs with
  | '[' :: rest =>
    if !rest.isEmpty && rest.getLast? = some ']' then
      if passive then none else
      match (String.ofList rest.dropLast).splitOn "," with
      | [a, b] =>
        match parseElem d a.toList, parseElem d b.toList with
        | some (ea, .ts), some (eb, .ts) => some ⟨[ea, eb], true, false, !free, true, false, .tsl⟩
        | _, _ => none
      | _ => none
    else single
  | _ => single

/-- the `(label, Att)` entries of input slot `slot` -/
def entries (slot : Nat) (i : Inp) : List (String × Att) :=
  (i.elems.zipIdx).map fun (e, j) =>
    (e.lbl, ⟨slot, if i.structural then some j else none, e.path, e.err, i.passive, i.rank⟩)

structure DefInfo where
  arity : Nat
  wantsTsl : Bool := false          -- the (single) input is a `TSL`
  anyTs : Bool := false             -- generic input: a TS<Int> / TS<Float> / TS<Bool> port
  generic : Bool := false           -- no explicit-`WiringInputRef` form: `^` is rejected
  name : String                     -- the definition as `InstanceKey::def` sees it
  req : Option Ty := none           -- requested output type (output-only type variable)
  scalarTy : String := "int"        -- resolved type of the scalar `k` (`gs:<t>`: the type of the scalar value)

def reqTy : String → Option Ty
  | "i" => some .ts | "f" => some .tsF | "b" => some .tsB | _ => none

/-- `none` for an unknown definition -/
def defInfo (sink : Bool) (defn : String) : Option DefInfo :=
  match sink, defn with
  | false, "f1" => some { arity := 1, name := "f1" }
  | false, "g1" => some { arity := 1, name := "g1" }
  | false, "f2" => some { arity := 2, name := "f2" }
  | false, "g2" => some { arity := 2, name := "g2" }
  | false, "t1" => some { arity := 1, wantsTsl := true, name := "t1" }
  | false, "ec" => some { arity := 1, anyTs := true, generic := true, name := "ec" }
  | true, "k0" => some { arity := 0, name := "k0" }   -- output-less node without time-series inputs
  | true, "k1" => some { arity := 1, name := "k1" }
  | true, "k2" => some { arity := 2, name := "k2" }
  | true, "r" => some { arity := 1, anyTs := true, generic := true, name := "r" }
  | false, _ =>
    -- the typed (`q:<t>`) and the by-name (`qn:<t>`) call of ONE definition
    match defn.splitOn ":" with
    | [c, t] => if c = "q" || c = "qn" then (reqTy t).map fun ty => { arity := 1, generic := true, name := "q", req := some ty }
                else if c = "gs" && (t = "i" || t = "f") then
                  some { arity := 1, generic := true, name := "gs", scalarTy := if t = "f" then "float" else "int" }
                else none
    | _ => none
  | _, _ => none

/-- the resolved `WiringNodeSchema` of a node / sink declaration (schemas by their printed form) -/
def schemaOf (sink : Bool) (info : DefInfo) (ins : List Inp) : Schema String :=
  let input := if ins.isEmpty then none
    else some (",".intercalate ((ins.zip ["a", "b"]).map fun (i, n) => s!"{n}:{tyName i.ty}"))
  let output := if sink then none else
    match info.req with
    | some t => some (tyName t)
    | none => if info.anyTs then (ins.head?.map fun i => tyName i.ty) else some "TS[int]"
  { input := input, output := output,
    scalar := some (if info.name = "r" then "k:int,id:int" else "k:" ++ info.scalarTy) }

def srcSchema (kind : String) (ty : Ty) : Schema String :=
  if kind = "e" then { output := some (tyName ty), errorOutput := some "TS[int]" }   -- native builder: no scalar schema
  else { output := some (tyName ty), scalar := some "k:int" }

/-- what the port a label denotes carried in the one cycle (`none`: it never ticked) -/
def valOf (d : DS) (l : String) : Option Val := ((d.vals.find? (·.1 = l)).map (·.2)).join

def elemVal (d : DS) (e : Elem) : Option Val := if e.err then none else valOf d e.lbl

/-- a node evaluates in the start cycle iff every input is valid; a structural TSL is valid when a child is -/
def nodeVal (d : DS) (info : DefInfo) (k : Nat) (ins : List Inp) : Option Val :=
  if !(ins.all fun i => i.elems.any fun e => (elemVal d e).isSome) then none else
  let arg (n : Nat) : Val := (((ins[n]?).bind fun i => i.elems.head?).bind (elemVal d)).getD (.i 0)
  match info.name, info.req with
  | "f1", _ => some (.i ((arg 0).nat + k))
  | "g1", _ => some (.i ((arg 0).nat + k))
  | "f2", _ => some (.i ((arg 0).nat + (arg 1).nat + k))
  | "g2", _ => some (.i ((arg 0).nat + (arg 1).nat + k))
  | "t1", _ => some (.i k)
  | "gs", _ => some (.i ((arg 0).nat + k + (if info.scalarTy = "float" then 1000 else 0)))
  | "ec", _ => some (arg 0)
  | "r", _ => some (arg 0)
  | "q", some .tsF => some (.h ((arg 0).nat + k))
  | "q", some .tsB => some (.b (((arg 0).nat + k) % 2 == 1))
  | "q", _ => some (.i (3 * (arg 0).nat + k + 1))
  | _, _ => none

/-- `NodeBuilder::with_passive_inputs`: every input slot would become passive -/
def allPassive (ins : List Inp) : Bool := !ins.isEmpty && ins.all (·.passive)

/-- dense first-seen number of a value node -/
def number (d : DS) (id : Nat) (ty : Ty) : DS × String :=
  let i := d.seen.idxOf id
  if i < d.seen.length then (d, s!"n{i}:{tyCode ty}") else ({ d with seen := d.seen ++ [id] }, s!"n{d.seen.length}:{tyCode ty}")

/-- one `Wiring::add_node` -/
def declare (d : DS) (decl : D) : DS × Nat :=
  let r := stepS d.ls decl
  let created := r.1.st.next != d.ls.st.next
  ({ d with ls := r.1, used := decl.lbl :: d.used,
            insts := if created then d.insts ++ [(r.2, decl.lbl, resolve d.ls.env decl.ins)] else d.insts }, r.2)

def nameOf (d : DS) (id : Nat) : String :=
  match d.insts.find? (·.1 = id) with
  | some i => i.2.1
  | none => "?"

def edgesOf (d : DS) : List String :=
  d.insts.flatMap fun (_, lbl, rins) =>
    rins.map fun (src, a) =>
      nameOf d src ++ String.join (a.path.map fun i => s!"@{i}") ++ (if a.err then "!" else "") ++
        s!">{lbl}.{a.slot}" ++ (match a.child with | some j => s!".{j}" | none => "")

def finishLine (d : DS) : String :=
  let es := (edgesOf d).mergeSort fun a b => decide (a ≤ b)
  s!"nodes={d.ls.st.next} edges={",".intercalate es}"

def runLine (d : DS) : String :=
  let rs := (d.recs.map fun (l, v) => l ++ ":" ++ (match v with | some v => v.str | none => "")).mergeSort
    fun a b => decide (a ≤ b)
  finishLine d ++ " rec=" ++ ";".intercalate rs

def stepLine (d : DS) (ws : List String) : DS × String :=
  match ws with
  | ["case", n] => ({}, s!"case {n}")
  | ["reset"] => ({}, "ok")
  | ["src", lbl, kind, k] =>
    let ty : Option Ty := match kind with
      | "s" => some .ts | "p" => some .tsl | "b" => some .tsb | "e" => some .tsErr | _ => none
    match ty, toNatStrict k with
    | some ty, some k =>
      if !d.live || !isLabel lbl || d.used.contains lbl then (d, "bad-op") else
      let (d, id) := declare d { lbl := lbl, defn := ("src-" ++ kind, k), schema := srcSchema kind ty, ins := [] }
      number { d with tys := (lbl, ty) :: d.tys, vals := (lbl, if kind = "e" then none else some (.i k)) :: d.vals } id ty
    | _, _ => (d, "bad-op")
  | op :: lbl :: defn :: k :: ins =>
    if op != "node" && op != "sink" then (d, "bad-op") else
    let sink := op == "sink"
    match defInfo sink defn, toNatStrict k with
    | some info, some k =>
      if !d.live || ins.length != info.arity || !isLabel lbl || d.used.contains lbl then (d, "bad-op") else
      let parsed := ins.map (parseInput d)
      if parsed.any (·.isNone) then (d, "bad-op") else
      let parsed := parsed.filterMap id
      if parsed.any (fun i => if info.wantsTsl then !i.okTsl
                              else if info.anyTs then i.structural || !(i.ty = .ts || i.ty = .tsF || i.ty = .tsB)
                              else !i.okTs) then (d, "bad-op") else
      if info.generic && parsed.any (fun i => !i.rank) then (d, "bad-op") else
      if allPassive parsed then (d, "err") else
      let es := (parsed.zipIdx).flatMap fun (i, slot) => entries slot i
      let v := nodeVal d info k parsed
      let (d, id) := declare d { lbl := lbl, defn := (info.name, k), schema := schemaOf sink info parsed, ins := es }
      let d := { d with rankFree := d.rankFree || parsed.any (fun i => !i.rank) }
      if sink then ((if info.name = "r" then { d with recs := d.recs ++ [(lbl, v)] } else d), "sink") else
      let ty : Ty := match info.req with
        | some t => t
        | none => if info.anyTs then ((parsed.head?.map (·.ty)).getD .ts) else .ts
      number { d with tys := (lbl, ty) :: d.tys, vals := (lbl, v) :: d.vals } id ty
    | _, _ => (d, "bad-op")
  | ["finish"] => if !d.live then (d, "bad-op") else ({ d with live := false, tys := [] }, finishLine d)
  | ["run"] => if !d.live || d.rankFree then (d, "bad-op") else ({ d with live := false, tys := [] }, runLine d)
  | [] => (d, "")
  | _ => (d, "bad-op")

def main : IO Unit := run ({} : DS) stepLine
