import HgVerif.Model.Intern
import HgVerif.Driver.Proto
/-!
Model driver for the direct interning stream of C06: same line protocol as `harness/drv_intern.cpp`.

The interning table is `HgVerif.Intern.addNode` (`Model/Intern.lean`) instantiated with a concrete key
that mirrors `InstanceKey` of `graph_wiring.cpp` for the programs of this protocol:

* `Key.defn`    — `InstanceKey::def` (the node definition; the resolved `WiringNodeSchema` is a function
                   of the definition here, every node being concrete),
* `Key.scalar`  — `InstanceKey::scalars` (one `Int` scalar),
* `Key.inputs`  — `InstanceKey::inputs`, in slot order (`InputKey::target_path = {slot}`), each with
  * `Src.peer`   — `SourceKey{kind = Peered, peered_node, peered_path, peered_output_kind}`
                   (the producer is the *node id* the producer declaration was interned to),
  * `Src.struct` — `SourceKey{kind = Structural, structural_children}` (children are peered here),
  * `passive`    — `InputKey::passive` (`arg_tag == Passive` of the usage),
  * `rank`       — `InputKey::rank_dependency`.

`Wiring::add_node` calls `NodeBuilder::with_passive_inputs` before the table is consulted; it throws
"passive would deactivate every input" when every input slot is passive: modelled by `allPassive`.
-/
open HgVerif.Intern HgVerif.Driver

structure PSrc where
  node : Nat
  path : List Nat
  err : Bool            -- GraphEdgeSourceKind::ErrorOutput (else Output)
  deriving DecidableEq

inductive Src where
  | peer (p : PSrc)
  | struct (cs : List PSrc)
  deriving DecidableEq

structure InKey where
  src : Src
  passive : Bool
  rank : Bool
  deriving DecidableEq

structure Key where
  defn : String
  scalar : Nat
  inputs : List InKey
  deriving DecidableEq

inductive Ty where
  | ts | tsl | tsb | tsErr
  deriving DecidableEq

structure Ent where
  id : Nat
  ty : Ty

structure DS where
  live : Bool := true                                  -- false once `finish` consumed the wiring
  st : St Key := {}
  ents : List (String × Ent) := []                     -- labels that denote an output port
  used : List String := []                             -- every label declared so far
  insts : List (Nat × String × List InKey) := []       -- created instances: id, first label, inputs
  seen : List Nat := []                                -- value-node ids in first-seen order

def isLabel (s : String) : Bool :=
  s ≠ "" && s.toList.all fun c => ('a' ≤ c && c ≤ 'z') || ('0' ≤ c && c ≤ '9') || c = '_'

def toNatStrict (s : String) : Option Nat :=
  let cs := s.toList
  if cs.isEmpty || cs.length > 9 || !(cs.all fun c => '0' ≤ c && c ≤ '9') then none
  else some (cs.foldl (fun acc c => acc * 10 + (c.toNat - '0'.toNat)) 0)

def findEnt (d : DS) (l : String) : Option Ent := (d.ents.find? (·.1 = l)).map (·.2)

/-- `<lbl>` | `<lbl>.<0|1>` | `<lbl>!`  →  the peered source and the type of the port -/
def parseElem (d : DS) (cs : List Char) : Option (PSrc × Ty) :=
  match cs.reverse with
  | '!' :: r =>
    match findEnt d (String.ofList r.reverse) with
    | some e => if e.ty = .tsErr then some (⟨e.id, [], true⟩, .ts) else none
    | none => none
  | c :: '.' :: r =>
    if (c = '0' || c = '1') && !r.isEmpty then
      match findEnt d (String.ofList r.reverse) with
      | some e => if e.ty = .tsl || e.ty = .tsb then some (⟨e.id, [if c = '0' then 0 else 1], false⟩, .ts) else none
      | none => none
    else (findEnt d (String.ofList cs)).map fun e => (⟨e.id, [], false⟩, if e.ty = .tsErr then .ts else e.ty)
  | _ => (findEnt d (String.ofList cs)).map fun e => (⟨e.id, [], false⟩, if e.ty = .tsErr then .ts else e.ty)

/-- `[~][^]<body>`: the input key and whether it is acceptable for a `TSL` input / a `TS` input -/
def parseInput (d : DS) (t : String) : Option (InKey × Bool × Bool) :=
  let cs := t.toList
  let (passive, cs) := match cs with | '~' :: r => (true, r) | _ => (false, cs)
  let (free, cs) := match cs with | '^' :: r => (true, r) | _ => (false, cs)
  match cs with
  | '[' :: rest =>
    if !rest.isEmpty && rest.getLast? = some ']' then
      if passive then none else
      match (String.ofList rest.dropLast).splitOn "," with
      | [a, b] =>
        match parseElem d a.toList, parseElem d b.toList with
        | some (pa, .ts), some (pb, .ts) => some (⟨.struct [pa, pb], false, !free⟩, true, false)
        | _, _ => none
      | _ => none
    else (parseElem d cs).map fun (p, ty) => (⟨.peer p, passive, !free⟩, ty = .tsl, ty = .ts)
  | _ => (parseElem d cs).map fun (p, ty) => (⟨.peer p, passive, !free⟩, ty = .tsl, ty = .ts)

/-- arity and whether the (single) input is a `TSL`; `none` for an unknown definition -/
def defInfo (sink : Bool) (defn : String) : Option (Nat × Bool) :=
  match sink, defn with
  | false, "f1" => some (1, false)
  | false, "g1" => some (1, false)
  | false, "f2" => some (2, false)
  | false, "g2" => some (2, false)
  | false, "t1" => some (1, true)
  | true, "k1" => some (1, false)
  | true, "k2" => some (2, false)
  | _, _ => none

/-- `NodeBuilder::with_passive_inputs`: every input slot would become passive -/
def allPassive (ins : List InKey) : Bool := !ins.isEmpty && ins.all (·.passive)

/-- dense first-seen number of a value node -/
def number (d : DS) (id : Nat) : DS × String :=
  let i := d.seen.idxOf id
  if i < d.seen.length then (d, s!"n{i}") else ({ d with seen := d.seen ++ [id] }, s!"n{d.seen.length}")

/-- one `Wiring::add_node` -/
def declare (d : DS) (lbl : String) (key : Key) (sink : Bool) : DS × Nat :=
  let r := addNode d.st { key := key, sink := sink }
  let created := r.1.next != d.st.next
  ({ d with st := r.1, used := lbl :: d.used,
            insts := if created then d.insts ++ [(r.2, lbl, key.inputs)] else d.insts }, r.2)

def nameOf (d : DS) (id : Nat) : String :=
  match d.insts.find? (·.1 = id) with
  | some i => i.2.1
  | none => "?"

def psrcStr (d : DS) (p : PSrc) : String :=
  nameOf d p.node ++ String.join (p.path.map fun i => s!"@{i}") ++ (if p.err then "!" else "")

def edgesOf (d : DS) : List String :=
  d.insts.flatMap fun (_, lbl, ins) =>
    (ins.zipIdx).flatMap fun (ik, slot) =>
      match ik.src with
      | .peer p => [s!"{psrcStr d p}>{lbl}.{slot}"]
      | .struct cs => (cs.zipIdx).map fun (c, j) => s!"{psrcStr d c}>{lbl}.{slot}.{j}"

def finishLine (d : DS) : String :=
  let es := (edgesOf d).mergeSort fun a b => decide (a ≤ b)
  s!"nodes={d.st.next} edges={",".intercalate es}"

def step (d : DS) (ws : List String) : DS × String :=
  match ws with
  | ["case", n] => ({}, s!"case {n}")
  | ["reset"] => ({}, "ok")
  | ["src", lbl, kind, k] =>
    let ty : Option Ty := match kind with
      | "s" => some .ts | "p" => some .tsl | "b" => some .tsb | "e" => some .tsErr | _ => none
    match ty, toNatStrict k with
    | some ty, some k =>
      if !d.live || !isLabel lbl || d.used.contains lbl then (d, "bad-op") else
      let (d, id) := declare d lbl ⟨"src-" ++ kind, k, []⟩ false
      number { d with ents := (lbl, ⟨id, ty⟩) :: d.ents } id
    | _, _ => (d, "bad-op")
  | op :: lbl :: defn :: k :: ins =>
    if op != "node" && op != "sink" then (d, "bad-op") else
    let sink := op == "sink"
    match defInfo sink defn, toNatStrict k with
    | some (arity, wantsTsl), some k =>
      if !d.live || ins.length != arity || !isLabel lbl || d.used.contains lbl then (d, "bad-op") else
      let parsed := ins.map (parseInput d)
      if parsed.any (·.isNone) then (d, "bad-op") else
      let parsed := parsed.filterMap id
      if parsed.any (fun (_, okTsl, okTs) => if wantsTsl then !okTsl else !okTs) then (d, "bad-op") else
      let keys := parsed.map (·.1)
      if allPassive keys then (d, "err") else
      let (d, id) := declare d lbl ⟨defn, k, keys⟩ sink
      if sink then (d, "sink") else number { d with ents := (lbl, ⟨id, .ts⟩) :: d.ents } id
    | _, _ => (d, "bad-op")
  | ["finish"] => if !d.live then (d, "bad-op") else ({ d with live := false, ents := [] }, finishLine d)
  | [] => (d, "")
  | _ => (d, "bad-op")

def main : IO Unit := run ({} : DS) step
