import HgVerif.Model.NestShape
import HgVerif.Model.Capture
import HgVerif.Model.BoundaryKey
import HgVerif.Model.NestRef
import HgVerif.Model.BoundaryPath
import HgVerif.Driver.Proto
/-! Model driver for the structured-boundary stream of C09: same line protocol as `harness/drv_nestshape.cpp`.
    The body vocabulary (rules, gate, timer) is interpreted here into the per-cycle writes of the body; the forwarding
    of those writes to the outer output is `HgVerif.NestShape.cycleTree` (the model the theorems are about). -/
open HgVerif.NestShape HgVerif.Driver

structure Rule where
  trig : Char := 'N'
  tj : Nat := 0
  val : Char := 'k'
  vj : Int := 0

/-- the tree of a `P<tree>@<views>` argument: schema + how the outer argument is assembled -/
inductive PT where
  | leaf                                              -- `s`: a scalar writer
  | node (kind : Char) (peered : Bool) (kids : List PT)   -- `l[..]` / `b[..]` structural, `L[..]` / `B[..]` one peered writer

partial def PT.leaves : PT → Nat
  | .leaf => 1
  | .node _ _ ks => (ks.map PT.leaves).foldl (· + ·) 0

partial def PT.sig : PT → String
  | .leaf => "s"
  | .node k _ ks => String.singleton k ++ "[" ++ String.join (ks.map PT.sig) ++ "]"

partial def PT.at? : PT → List Nat → Option PT
  | t, [] => some t
  | .leaf, _ :: _ => none
  | .node _ _ ks, i :: r => match ks[i]? with
    | some k => k.at? r
    | none => none

structure Def where
  res : String
  args : String
  style : String
  timer : Char          -- '0' none, 'e' armed at the first evaluation, 's' armed in start
  tOff : Nat
  tPer : Nat
  rules : List Rule
  chans : Nat           -- history columns (channels of the outer writers)
  bch : Nat             -- input channels of the body
  ptree : Option PT := none              -- P<tree>@<views>: the structured parameter ..
  pviews : List (List Nat) := []         -- .. and the projection paths of the body's views
  gateN : Nat := 0                       -- P kind: the body channels of the first view (the gate)

structure DS where
  d : Option Def := none
  hist : List (List (Option Int)) := []     -- newest last

def natOfChars (cs : List Char) : Option Nat :=
  if cs.isEmpty || !cs.all Char.isDigit then none
  else some (cs.foldl (fun a c => a * 10 + (c.toNat - '0'.toNat)) 0)

def intOfChars : List Char → Option Int
  | '-' :: r => (natOfChars r).map (fun n => -(Int.ofNat n))
  | r => (natOfChars r).map Int.ofNat

def leavesOf : String → Nat
  | "ts" => 1 | "b2" => 2 | "b3" => 3 | "b4" => 4 | "l2" => 2 | "l3" => 3 | "l4" => 4 | "bl" => 3 | "lb" => 4 | _ => 0

def chansOf : String → Nat
  | "s1" => 1 | "s2" => 2 | "s3" => 3 | "ab" => 2 | "al" => 2 | "bs" => 3
  | "cf" => 2 | "cr" => 2 | "cl" => 2 | "cs" => 1 | "cn" => 2 | "xf" => 2 | "sc" => 3 | "rs" => 3
  | a => if a.length == 3 then 2 else 0

/-- twins on the elements of one structured parameter: form (tl tb il ib t2) + twin code (i e m k) -/
def twinForm (args : String) : String := if args.length == 3 then String.ofList (args.toList.take 2) else ""
def twinCode (args : String) : Char := if args.length == 3 then args.toList.getD 2 ' ' else ' '
def isTwin (args : String) : Bool := args.length == 3

/-- the body's inputs are captured outer ports (no declared argument) -/
def captured (args : String) : Bool := ["cf", "cr", "cl", "cs", "cn", "xf"].contains args

def pairs : List String :=
  ["ts:s1", "ts:ab", "b2:s2", "b2:ab", "b2:bs", "b3:s3", "b3:s1", "b4:s2", "b4:al", "l2:s1", "l2:al",
   "l3:s2", "l3:bs", "l4:s1", "l4:s3", "bl:s2", "bl:ab", "lb:s2", "lb:al",
   "ts:cf", "ts:cr", "ts:cl", "ts:cs", "ts:cn", "ts:xf", "b2:cf", "b2:cr", "b2:cl", "b2:cs", "b2:cn", "b2:xf",
   "l3:cf", "l3:cr", "l3:cl", "l3:cs", "l3:cn", "l3:xf", "b3:sc",
   "l3:tli", "l3:tle", "l3:tlm", "l3:tlk", "l3:tbi", "l3:tbe", "l3:tbm", "l3:tbk", "l3:ili", "l3:ile", "l3:ilm",
   "l3:ilk", "l3:ibi", "l3:ibe", "l3:ibm", "l3:ibk", "l3:t2i", "l3:t2e", "l3:t2m", "l3:t2k",
   "l2:tli", "l2:tle", "l2:ili", "l2:ile", "b2:tbi", "b2:tbe", "b2:ibi", "b2:ibe", "ts:rs"]

def chanIdx (c : Char) (chans : Nat) : Option Nat :=
  if c.isDigit && c.toNat - '0'.toNat < 8 && c.toNat - '0'.toNat < chans then some (c.toNat - '0'.toNat) else none

def parseVal (chans : Nat) (r : Rule) : List Char → Option Rule
  | ['x', c] => (chanIdx c chans).map fun j => { r with val := 'x', vj := Int.ofNat j }
  | ['n'] => some { r with val := 'n' }
  | ['a'] => some { r with val := 'a' }
  | 'k' :: rest =>
    match intOfChars rest with
    | some v => if -99 ≤ v && v ≤ 9999 then some { r with val := 'k', vj := v } else none
    | none => none
  | _ => none

def parseRule (chans : Nat) (s : String) : Option Rule :=
  match s.toList with
  | 'K' :: c :: rest => (chanIdx c chans).bind fun j => parseVal chans { trig := 'K', tj := j } rest
  | 'O' :: c :: rest => (chanIdx c chans).bind fun j => parseVal chans { trig := 'O', tj := j } rest
  | 'A' :: rest => parseVal chans { trig := 'A' } rest
  | 'F' :: rest => parseVal chans { trig := 'F' } rest
  | 'T' :: rest => parseVal chans { trig := 'T' } rest
  | 'N' :: rest => parseVal chans { trig := 'N' } rest
  | _ => none

def parseTimer (s : String) : Option (Char × Nat × Nat) :=
  if s == "t0" then some ('0', 0, 1) else
  match s.toList with
  | 'e' :: rest =>
    match natOfChars rest with
    | some p => if 1 ≤ p && p ≤ 9 then some ('e', 0, p) else none
    | none => none
  | 's' :: rest =>
    let a := rest.takeWhile (· != ',')
    let b := (rest.dropWhile (· != ',')).drop 1
    if a.length == rest.length then none else
    match natOfChars a, natOfChars b with
    | some o, some p => if o ≤ 9 && 1 ≤ p && p ≤ 9 then some ('s', o, p) else none
    | _, _ => none
  | _ => none

def passOk (res args : String) : Bool :=
  if isTwin args then res != "l3" && twinForm args != "t2" else
  (res == "ts" && (args.startsWith "s" || captured args)) || (res == "b2" && (args == "ab" || args == "bs")) || (res == "l2" && args == "al")

/-! one structured parameter assembled to any depth (`P<tree>@<views>`) -/

/-- recursive descent over the tree syntax; inside a peered structure only lower case is accepted -/
partial def parsePT (inPeered : Bool) : List Char → Option (PT × List Char)
  | 's' :: r => some (.leaf, r)
  | c :: '[' :: r =>
    let lc := c.toLower
    if (lc != 'l' && lc != 'b') || (inPeered && c != lc) then none else
    let peered := inPeered || c != lc
    let rec kids (acc : List PT) (r : List Char) : Option (List PT × List Char) :=
      match r with
      | ']' :: r' => some (acc, r')
      | [] => none
      | _ => match parsePT peered r with
        | some (k, r') => kids (acc ++ [k]) r'
        | none => none
    match kids [] r with
    | some (ks, r') => if ks.isEmpty || ks.length > 3 then none else some (.node lc peered ks, r')
    | none => none
  | _ => none

def pathSigs : List String :=
  ["l[sss]", "b[ss]", "l[l[ss]l[ss]]", "b[l[ss]s]", "b[sl[ss]]", "l[b[ss]b[ss]b[ss]]", "b[l[sss]b[ss]s]",
   "l[l[l[ss]l[ss]]l[l[ss]l[ss]]]", "b[l[b[ss]b[ss]]sl[sss]]", "b[b[l[sss]]l[l[s]l[s]]]"]

def parseView (v : String) : Option (List Nat) :=
  if v == "w" then some [] else
  let cs := v.toList
  if cs.isEmpty || cs.length % 2 == 0 then none else
  let ok := (List.range cs.length).all fun k =>
    let c := cs.getD k ' '
    if k % 2 == 0 then c.isDigit && c.toNat - '0'.toNat ≤ 2 else c == '.'
  if !ok then none else
  some ((List.range cs.length).filterMap fun k => if k % 2 == 0 then some ((cs.getD k '0').toNat - '0'.toNat) else none)

/-- the view lists one rule body node can consume -/
def viewsOk (views : List (List Nat)) (sigs : List String) : Bool :=
  let small := ["l[ss]", "b[ss]"]
  if sigs.isEmpty || sigs.length > 3 then false else
  if sigs.all (· == "s") then true else
  match sigs, views with
  | [a], [p] => a == "l[ss]" || a == "b[ss]" || a == "l[sss]" || p.isEmpty
  | [a, b], _ => (small.contains a && b == "s") || (a == "s" && small.contains b)
  | _, _ => false

/-- (tree, views) -/
def parsePArgs (a : String) : Option (PT × List (List Nat)) :=
  match a.toList with
  | 'P' :: rest =>
    let tcs := rest.takeWhile (· != '@')
    let vcs := (rest.dropWhile (· != '@')).drop 1
    if tcs.length == rest.length || a.length < 4 then none else
    match parsePT false tcs with
    | some (t, []) =>
      if !pathSigs.contains t.sig then none else
      let vs := (String.ofList vcs).splitOn ","
      let ps := vs.map parseView
      if ps.any (·.isNone) then none else
      let views := ps.filterMap id
      let subs := views.map t.at?
      if subs.any (·.isNone) then none else
      if !viewsOk views ((subs.filterMap id).map PT.sig) then none else some (t, views)
    | _ => none
  | _ => none

def parseDef (ws : List String) : Option Def :=
  match ws with
  | _ :: res :: args :: style :: timer :: rules =>
    if args.startsWith "P" then
      match parsePArgs args, parseTimer timer with
      | some (t, views), some (tm, o, p) =>
        let bch := ((views.filterMap t.at?).map PT.leaves).foldl (· + ·) 0
        if res != "l3" || style != "node" || t.leaves > 8 || bch > 8 || rules.length != 3 then none else
        let rs := rules.map (parseRule bch)
        if rs.any (·.isNone) then none else
        some { res := res, args := args, style := style, timer := tm, tOff := o, tPer := p, rules := rs.filterMap id,
               chans := t.leaves, bch := bch, ptree := some t, pviews := views,
               gateN := ((views.head?.bind t.at?).map PT.leaves).getD 0 }
      | _, _ => none
    else
    let nl := leavesOf res
    let ch := chansOf args
    if nl == 0 || ch == 0 || !pairs.contains (res ++ ":" ++ args) then none else
    if !["node", "sink", "proj", "pass", "comp"].contains style then none else
    if style == "pass" && !passOk res args then none else
    if style == "comp" && (!["b2", "b3", "b4", "l2", "l3", "l4"].contains res || captured args || args == "sc" || isTwin args || args == "rs") then none else
    if args == "rs" && style != "node" then none else
    let bch := if args == "cs" then 2 else ch
    match parseTimer timer with
    | none => none
    | some (tm, o, p) =>
      if rules.length != nl then none else
      let rs := rules.map (parseRule bch)
      if rs.any (·.isNone) then none else
      some { res := res, args := args, style := style, timer := tm, tOff := o, tPer := p, rules := rs.filterMap id, chans := ch, bch := bch }
  | _ => none

def parseRow (chans : Nat) (ws : List String) : Option (List (Option Int)) :=
  if ws.length != chans then none else
  let r := ws.map fun w => if w == "-" then some none else
    match intOfChars w.toList with
    | some v => if -999 ≤ v && v ≤ 999 then some (some v) else none
    | none => none
  if r.any (·.isNone) then none else some (r.filterMap id)

/-! captured outer ports: which history column a body input finally reads.  The outer writers are wiring nodes
    0, 1, ..; a captured port is (node, path); the child input is bound through `HgVerif.Capture.boundThrough` over
    one capture table per nesting level (the inlined wiring reads the named port directly). -/
open HgVerif.Capture in
def capPorts (args : String) : List PortId :=
  let f (n i : Nat) : PortId := { node := n, path := [i], kind := 0, schema := 1 }
  match args with
  | "cf" => [f 0 0, f 0 1]
  | "xf" => [f 0 0, f 0 1]
  | "cl" => [f 0 0, f 0 1]
  | "cr" => [f 0 1, f 0 0]
  | "cs" => [f 0 0, f 0 0]
  | "cn" => [f 0 0, f 1 0]
  | "sc" => [f 1 0, f 1 1]
  | _ => []

/-- first history column written by outer writer node `n` -/
def writerBase (args : String) (n : Nat) : Nat :=
  match args with
  | "cn" => n
  | "sc" => n          -- node 0: the declared scalar (column 0), node 1: the bundle writer (columns 1, 2)
  | _ => 0

open HgVerif.Capture in
def portColumn (args : String) (p : PortId) : Nat := writerBase args p.node + p.path.headD 0

/-! `P<tree>@<views>`: the outer argument as a source tree of `HgVerif.BoundaryPath` (a writer node is named by its
    first history column); which column every body channel reads is decided by the model
    (`HgVerif.BoundaryPath.bodyInput`: mirror the parameter `D` levels down with `boundaryShape`, project the view,
    bind level by level outwards). -/
instance : Inhabited HgVerif.BoundaryPath.Src := ⟨.null⟩

open HgVerif.BoundaryPath in
partial def ptSrc : PT → Nat → Src × Nat
  | .leaf, base => (.peered base [], base + 1)
  | .node k true ks, base => (.peered base [], base + (PT.node k true ks).leaves)
  | .node _ false ks, base =>
    let r := ks.foldl (fun (acc : List Src × Nat) k => let x := ptSrc k acc.2; (acc.1 ++ [x.1], x.2)) ([], base)
    (.struct (Forest.ofList r.1), r.2)

/-- the writers: (first column, output schema) -/
partial def ptWriters : PT → Nat → List (Nat × PT) × Nat
  | .leaf, base => ([(base, .leaf)], base + 1)
  | .node k true ks, base => ([(base, .node k true ks)], base + (PT.node k true ks).leaves)
  | .node _ false ks, base =>
    ks.foldl (fun (acc : List (Nat × PT) × Nat) k => let x := ptWriters k acc.2; (acc.1 ++ x.1, x.2)) ([], base)

/-- offset of the scalar leaf at `path` of a writer's output schema -/
partial def ptOffset : PT → List Nat → Option Nat
  | .leaf, [] => some 0
  | .node _ _ ks, i :: r =>
    match ks[i]? with
    | some k => (ptOffset k r).map (· + ((ks.take i).map PT.leaves).foldl (· + ·) 0)
    | none => none
  | _, _ => none

open HgVerif.BoundaryPath in
/-- the history column of every scalar leaf of a bound body input of schema `sch` -/
partial def leafCols (writers : List (Nat × PT)) (r : Src) : PT → List (Option Nat)
  | .leaf =>
    match r with
    | .peered n p => [((writers.find? (·.1 == n)).bind fun w => ptOffset w.2 p).map (· + n)]
    | _ => [none]
  | .node _ _ ks => ((List.range ks.length).map fun i => leafCols writers (project r i) (ks.getD i .leaf)).flatten

open HgVerif.BoundaryPath in
def pathRow (t : PT) (views : List (List Nat)) (D : Nat) (row : List (Option Int)) : List (Option Int) :=
  let o := (ptSrc t 0).1
  let writers := (ptWriters t 0).1
  let cols := (views.map fun q => leafCols writers (bodyInput o 0 D q) ((t.at? q).getD .leaf)).flatten
  cols.map fun c => match c with
    | some k => (row[k]?).getD none
    | none => none

/-- the row the body sees (one entry per body input) from the row of history columns, at nesting depth `D` -/
def bodyRow (df : Def) (D : Nat) (row : List (Option Int)) : List (Option Int) :=
  let args := df.args
  match df.ptree with
  | some t => pathRow t df.pviews D row
  | none =>
  let ports := capPorts args
  if ports.isEmpty then row else
  let levels := List.replicate D ports
  let cols := ports.map fun p =>
    match HgVerif.Capture.boundThrough levels p with
    | some q => some (portColumn args q)
    | none => none
  let capt := cols.map fun c => match c with
    | some k => (row[k]?).getD none
    | none => none
  if args == "sc" then [(row[0]?).getD none] ++ capt else capt

/-! the body: state and one time step -/
structure BS where
  vals : List (Option Int)      -- current value per channel
  evaluated : Bool := false
  acc : Int := 0
  counts : List Nat
  armed : Option Nat := none

def nth {α} (l : List α) (i : Nat) (d : α) : α := (l[i]?).getD d

/-- (is an engine cycle, writes per leaf) at time `t` with channel ticks `row` -/
def bodyStep (df : Def) (t : Nat) (row : List (Option Int)) (s : BS) (forced : Bool := false) : BS × Bool × List (Option Int) :=
  let nl := df.rules.length
  let vals := (List.range df.bch).map fun j => match nth row j none with
    | some v => some v
    | none => nth s.vals j none
  let anyTick := row.any (·.isSome)
  if df.style == "pass" then
    -- no body: the result is the first argument (its leaves are the argument's channels), or, for a capturing
    -- sub-graph, the second captured port
    let base := if captured df.args && !isTwin df.args then 1 else 0
    ({ s with vals := vals }, anyTick, (List.range nl).map fun i => nth row (base + i) none) else
  let due := s.armed == some t
  let gate := if ["ab", "al", "bs"].contains df.args then (nth vals 0 none).isSome || (nth vals 1 none).isSome
              else if df.gateN > 0 then (List.range df.gateN).any fun j => (nth vals j none).isSome
              else (nth vals 0 none).isSome
  -- `forced`: the body node was scheduled by the sampled-initialisation step of a late start although nothing ticked
  let ev := (anyTick || due || forced) && gate
  if !ev then ({ s with vals := vals, armed := if due then none else s.armed }, anyTick || due || forced, List.replicate nl none) else
  let first := !s.evaluated
  let acc := s.acc + (row.foldl (fun a x => a + x.getD 0) 0)
  let ticks := (List.range nl).map fun i =>
    let r := nth df.rules i {}
    match r.trig with
    | 'A' => anyTick
    | 'K' => (nth row r.tj none).isSome
    | 'O' => match nth row r.tj none with
      | some v => v % 2 != 0
      | none => false
    | 'F' => first
    | 'T' => due
    | _ => false
  let counts := (List.range nl).map fun i => nth s.counts i 0 + (if nth ticks i false then 1 else 0)
  let writes := (List.range nl).map fun i =>
    if !nth ticks i false then none else
    let r := nth df.rules i {}
    some (match r.val with
      | 'x' => (nth vals r.vj.toNat none).getD 0
      | 'n' => Int.ofNat (nth counts i 0)
      | 'a' => acc
      | _ => r.vj)
  let armed := if df.timer != '0' && (due || (first && df.timer == 'e')) then some (t + df.tPer) else (if due then none else s.armed)
  ({ vals := vals, evaluated := true, acc := acc, counts := counts, armed := armed }, true, writes)

/-- keep the function-valued state small: after every cycle the state is read out into a table (levels `0..D`,
    leaves `< L`) and the next cycle runs on the function rebuilt from it (pointwise the same on that domain).
    NB `thaw` takes the evaluated table as an argument: a definition that RETURNS a function is compiled with the
    function's argument as an extra parameter, so a table built inside it would be rebuilt on every application. -/
def snapshot (D L : Nat) (tr : Tree) : List (Term × List Link) :=
  (List.range L).map fun i =>
    let c := tr i
    (c.term, (List.range (D + 1)).map c.links)

def thawLinks (ls : List Link) (k : Nat) : Link := (ls[k]?).getD {}

def thaw (tbl : List (Term × List Link)) (i : Nat) : Chain :=
  match tbl[i]? with
  | some (tm, ls) => { term := tm, links := thawLinks ls }
  | none => {}

def showLeaves (xs : List (Nat × String)) : String := "{" ++ ",".intercalate (xs.map (·.2)) ++ "}"

/-! twins: the two body inputs are the outputs of two twin nodes, each reading one element of the structured
    parameter.  WHICH element a twin reads in the compiled child is decided by the interning model
    (`HgVerif.BoundaryKey.servedByWith sourceKeyFor`: the node that serves a request has the inputs of the first request
    with the same key); inlined the sources are peered outputs. -/
open HgVerif.BoundaryKey in
def twinReqs (args : String) (D : Nat) : List Req :=
  let form := twinForm args
  let code := twinCode args
  (List.range 2).map fun j =>
    let ident := code == 'i' || (code == 'm' && j == 0)
    let k := if ident then 0 else if code == 'k' && j == 1 then 3 else 2
    let src : Src :=
      if D == 0 then (if form == "tl" || form == "tb" then .peered 0 [j] 0 1 else .peered j [] 0 1)
      else (if form == "t2" then .declared j [] 1 else .declared 0 [j] 1)
    { defn := if ident then 1 else 2, scalars := k, inputs := [(src, [0])] }

open HgVerif.BoundaryKey in
def srcColumn : Src → Nat
  | .peered n p _ _ => n + p.headD 0
  | .declared a p _ => a + p.headD 0
  | .captured i p _ => i + p.headD 0

open HgVerif.BoundaryKey in
/-- (history column, is-echo, delay) of the twin that feeds body input `j` -/
def twinPlan (args : String) (D : Nat) : List (Nat × Bool × Nat) :=
  let rs := twinReqs args D
  rs.map fun r =>
    let served := (servedByWith sourceKeyFor rs r).getD r
    let col := match served.inputs with
      | (src, _) :: _ => srcColumn src
      | [] => 0
    (col, served.defn == 2, served.scalars)

/-- one step of the twins: pending echoes (due time, value) per body input -/
def twinStep (plan : List (Nat × Bool × Nat)) (t : Nat) (row : List (Option Int)) (pend : List (Option (Nat × Int))) :
    List (Option Int) × List (Option (Nat × Int)) :=
  let r := (List.range plan.length).map fun j =>
    let (col, echo, k) := nth plan j (0, false, 0)
    let x := nth row col none
    let p := nth pend j none
    if !echo then (x, none) else
    match x with
    | some v => (some v, some (t + k, v + 100))
    | none =>
      match p with
      | some (due, e) => if due == t then (some e, none) else (none, p)
      | none => (none, none)
  (r.map (·.1), r.map (·.2))

/-- a REF-producing terminal exposed as a plain result: columns pick, lhs, rhs (`HgVerif.NestRef`) -/
def runRef (hist : List (List (Option Int))) (D : Nat) : String := Id.run do
  let mut c : HgVerif.NestRef.Chain := HgVerif.NestRef.start D 1
  let mut cycs : List String := []
  let mut entries : List String := []
  let mut t := 1
  for row in hist do
    if row.any (·.isSome) then
      cycs := cycs ++ [toString t]
      let ws := ((List.range 2).filterMap fun i => (nth row (i + 1) none).map fun v => (i, v))
      let pick := (nth row 0 none).map fun v => if v != 0 then 1 else 0
      c := HgVerif.NestRef.cycle D { t := t, ws := ws, pick := pick } c
      if HgVerif.NestRef.outerMod D t c then
        let d := match HgVerif.NestRef.outerDelta D t c with
          | some v => s!"0={v}"
          | none => ""
        let v := match HgVerif.NestRef.outerVal D c with
          | some v => s!"0={v}"
          | none => ""
        let g := if HgVerif.NestRef.outerGhost D t c then "0" else ""
        entries := entries ++ [s!"{t} d=\{{d}} v=\{{v}} g=\{{g}}"]
    t := t + 1
  return " | ".intercalate (["ok cyc=" ++ ",".intercalate cycs] ++ entries)

/-- `startAt = some k`: the sub-graph lives in a switch_ branch selected at cycle `k` (late start); `D = 0` there means
    inlined in the branch, whose boundary inputs are bound SAMPLED (every valid argument reads as modified at `k`);
    a nested_ node binds its inputs plain and only schedules the consumers. -/
def runMode (df : Def) (hist : List (List (Option Int))) (D : Nat) (startAt : Option Nat := none) : String := Id.run do
  if df.args == "rs" then return runRef hist D
  let L := df.rules.length
  let comp := df.style == "comp"
  let pre := df.style == "pass"
  let t0 := startAt.getD 1
  let twins := isTwin df.args && !pre
  let plan := if twins then twinPlan df.args D else []
  -- a pass-through of a STRUCTURAL {a, b} argument: the ParentInput binding finds no bound output on the non-peered
  -- outer input position and clears the forwarding tree (HgVerif.BoundaryKey.parentInputSource): nothing is forwarded
  let unbound := pre && isTwin df.args && D ≥ 1 &&
    (HgVerif.BoundaryKey.parentInputSource (if (twinForm df.args).startsWith "i" then .structuralInitializer else .peeredOutput)).isNone
  let mut bs : BS := { vals := List.replicate df.bch none, counts := List.replicate L 0,
                       armed := if df.timer == 's' && df.style != "pass" && 1 + df.tOff ≥ t0 then some (1 + df.tOff) else none }
  let mut pend : List (Option (Nat × Int)) := [none, none]
  let mut tr : Tree := thaw (snapshot D L (startTree comp D L t0))
  let mut cycs : List String := []
  let mut entries : List String := []
  let mut t := 1
  for row in hist do
    if t < t0 then
      -- before the branch exists: the arguments only accumulate their values
      bs := { bs with vals := (List.range df.bch).map fun j => match nth row j none with
        | some v => some v
        | none => nth bs.vals j none }
      if row.any (·.isSome) then cycs := cycs ++ [toString t]
      t := t + 1
      continue
    let mut brow0 := bodyRow df D row
    if twins then
      let r := twinStep plan t row pend
      pend := r.2
      brow0 := r.1
    let late := startAt.isSome && t == t0
    let valsNow := (List.range df.bch).map fun j => match nth brow0 j none with
      | some v => some v
      | none => nth bs.vals j none
    let forced := late && valsNow.any (·.isSome)
    let brow := if late && D == 0 then valsNow else brow0
    let (bs', isCyc1, writes) := bodyStep df t brow bs forced
    bs := bs'
    -- P kind: every history column is a leaf of the ONE argument: a tick the body does not read is still an engine
    -- cycle (and, nested, an evaluation of the nested node)
    let isCyc0 := isCyc1 || (df.ptree.isSome && row.any (·.isSome))
    let isCyc := isCyc0 && !unbound
    if (isCyc0 || late) && !isCyc0 then cycs := cycs ++ [toString t]
    if isCyc0 && unbound then cycs := cycs ++ [toString t]
    if isCyc then
      cycs := cycs ++ [toString t]
      let cy : Cycle := { t := t, pre := pre, w := fun i => nth writes i none }
      tr := thaw (snapshot D L (cycleTree comp D L cy tr))
      let leaves := List.range L
      if leaves.any (fun i => outerMod D t (tr i)) then
        let d := leaves.filterMap fun i => (outerDelta D t (tr i)).map fun v => (i, s!"{i}={v}")
        let v := leaves.filterMap fun i => (outerVal D (tr i)).map fun v => (i, s!"{i}={v}")
        let g := leaves.filterMap fun i => if outerGhost D t (tr i) then some (i, s!"{i}") else none
        entries := entries ++ [s!"{t} d={showLeaves d} v={showLeaves v} g={showLeaves g}"]
    t := t + 1
  return " | ".intercalate (["ok cyc=" ++ ",".intercalate cycs] ++ entries)

/-- (depth, late start cycle) -/
def parseMode (df : Def) (nhist : Nat) (m : String) : Option (Nat × Option Nat) :=
  match m with
  | "inl" => some (0, none) | "n1" => some (1, none) | "n2" => some (2, none) | "n3" => some (3, none)
  | "n4" => some (4, none) | "nw" => some (2, none)
  | _ =>
    match m.toList with
    | 's' :: d :: '@' :: rest =>
      match natOfChars rest with
      | some k =>
        if d.isDigit && d.toNat - '0'.toNat ≤ 2 && 1 ≤ k && k ≤ nhist &&
           ["ts:s1", "b2:s2", "l3:s2", "b3:s3"].contains (df.res ++ ":" ++ df.args) &&
           ["node", "sink", "proj"].contains df.style
        then some (d.toNat - '0'.toNat, some k) else none
      | none => none
    | _ => none

def step (s : DS) (ws : List String) : DS × String :=
  match ws with
  | ["case", n] => ({}, s!"case {n}")
  | "def" :: _ =>
    if s.d.isSome || !s.hist.isEmpty then (s, "bad-op") else
    match parseDef ws with
    | some df => ({ s with d := some df }, s!"ok leaves={df.rules.length} chans={df.chans}")
    | none => (s, "bad-op")
  | "c" :: rest =>
    match s.d with
    | none => (s, "bad-op")
    | some df =>
      if s.hist.length ≥ 64 then (s, "bad-op") else
      match parseRow df.chans rest with
      | some row => ({ s with hist := s.hist ++ [row] }, "ok")
      | none => (s, "bad-op")
  | ["run", m] =>
    match s.d with
    | some df =>
      if s.hist.isEmpty then (s, "bad-op") else
      match parseMode df s.hist.length m with
      | some (D, st) => (s, runMode df s.hist D st)
      | none => (s, "bad-op")
    | none => (s, "bad-op")
  | [] => (s, "")
  | _ => (s, "bad-op")

def main : IO Unit := run ({} : DS) step
