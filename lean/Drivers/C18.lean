import HgVerif.Model.NodeSched
import HgVerif.Driver.Proto
/-! Model driver for C18: same line protocol as `harness/drv_nodesched.cpp`. -/
open HgVerif.NodeSched HgVerif.Driver

structure DS where
  ns : NS := {}
  now : Time := 1
  started : Bool := true

def tagOf (s : String) : Tag :=
  match s with
  | "a" => 1 | "b" => 2 | "c" => 3 | _ => 0

def tagName (t : Tag) : String :=
  match t with
  | 1 => "a" | 2 => "b" | 3 => "c" | _ => "-"

def qline (d : DS) : String :=
  let per := [1, 2, 3].map fun t =>
    s!" {tagName t}={b2s (hasTag d.ns t)},{tagTime d.ns t 0},{b2s (tagIsScheduledNow d.ns t d.now)}"
  s!"next={nextScheduledTime d.ns} is={b2s (isScheduled d.ns)} now={b2s (isScheduledNow d.ns d.now)}" ++ String.join per

def insSorted (p : Tag × Time) : List (Tag × Time) → List (Tag × Time)
  | [] => [p]
  | x :: xs => if p.1 < x.1 then p :: x :: xs else x :: insSorted p xs

def dumpline (d : DS) : String :=
  let evs := String.join (d.ns.events.map fun e => s!"({e.1},{tagName e.2})")
  let tags := String.join ((d.ns.tags.foldl (fun acc p => insSorted p acc) []).map fun p => s!"{tagName p.1}:{p.2};")
  s!"events={evs} tags={tags}"

def step (d : DS) (ws : List String) : DS × String :=
  match ws with
  | ["case", n] => ({}, s!"case {n}")
  | ["view", t, st] => match t.toNat? with
      | some t => ({ d with now := t, started := st == "1" }, "ok")
      | none => (d, "bad-op")
  | ["sched", w, tag] => match w.toNat? with
      | some w => ({ d with ns := (schedule d.ns d.now d.started w (tagOf tag)).1 }, "ok")
      | none => (d, "bad-op")
  | ["schedd", dl, tag] => match dl.toNat? with
      | some dl => ({ d with ns := (schedule d.ns d.now d.started (d.now + dl) (tagOf tag)).1 }, "ok")
      | none => (d, "bad-op")
  | ["unsched", tag] => ({ d with ns := unscheduleTag d.ns (tagOf tag) }, "ok")
  | ["unsched1"] => ({ d with ns := unscheduleFirst d.ns }, "ok")
  | ["reset"] => ({ d with ns := reset d.ns }, "ok")
  | ["advance"] => ({ d with ns := (advance d.ns d.now).1 }, "ok")
  | ["pop", tag, dflt] => match dflt.toNat? with
      | some df => let r := popTag d.ns (tagOf tag) df; ({ d with ns := r.1 }, toString r.2)
      | none => (d, "bad-op")
  | ["q"] => (d, qline d)
  | ["dump"] => (d, dumpline d)
  | [] => (d, "")
  | _ => (d, "bad-op")

def main : IO Unit := run ({} : DS) step
