import HgVerif.Model.DynLifecycle
import HgVerif.Model.DynLifeReduceZ
import HgVerif.Model.Slots
import HgVerif.Model.Reduce
import HgVerif.Driver.Proto
/-! Model driver for the dynamic-children stream of C14: same line protocol as `harness/drv_dynlife.cpp`.

The lifecycle itself (`DynLife.run` / `DynLife.swRun`: child start / stop / evaluate loops, the map
node's entries, reconciliation, parent stop, release) is the definition the theorems of
`Props/C14Dyn.lean` are about.  The driver adds the surrounding graph only: the replayed dictionary
and its slot store (the C05 model `Slots.TSD`: which slot a key gets, when a removed slot is erased),
which children an input tick makes due, and the fault plan of the probe nodes as `Hooks`.

`lake env lean --run Drivers/C14Dyn.lean [current] [rz]` : `current` selects the `remove_all_entries`
loop without the first-exception recorder (the tree before fixes/c14_map_stop.patch); `rz` runs the zero-less `reduce`
kind through the pointer-table model of `Model/DynLifeReduceZ.lean` as well (kind `reducez` always uses it). -/
open HgVerif.DynLife HgVerif.Driver

structure Plan where
  fs : List Nat := []                    -- start hook calls that throw
  fe : List (Int × Nat × Nat) := []      -- (key, probe, n): the n-th evaluation throws
  fx : List (Int × Nat) := []            -- (key, probe): the stop hook throws

/-- user state of the hooks: the counters of the harness probes -/
structure U where
  startCalls : Nat := 0
  evals : List ((Int × Nat) × Nat) := []

def evalCount (l : List ((Int × Nat) × Nat)) (k : Int) (i : Nat) : Nat :=
  match l.find? (fun p => p.1.1 == k && p.1.2 == i) with
  | some p => p.2
  | none => 0

def setEvalCount (l : List ((Int × Nat) × Nat)) (k : Int) (i : Nat) (v : Nat) : List ((Int × Nat) × Nat) :=
  ((k, i), v) :: l.filter (fun p => !(p.1.1 == k && p.1.2 == i))

def nodeName (c : Cid) (i : Nat) : String := s!"{c.key}#{c.gen}.{i}"

def hooksOf (p : Plan) : Hooks U :=
  { start := fun c i u =>
      let call := u.startCalls + 1
      ({ u with startCalls := call }, if p.fs.contains call then some s!"start:{nodeName c i}" else none)
    stop := fun c i u =>
      (u, if p.fx.any (fun q => q.1 == c.key && q.2 == i) then some s!"stop:{nodeName c i}" else none)
    eval := fun c i u =>
      let n := evalCount u.evals c.key i + 1
      ({ u with evals := setEvalCount u.evals c.key i n },
       if p.fe.any (fun q => q.1 == c.key && q.2.1 == i && q.2.2 == n) then some s!"evaluate:{nodeName c i}" else none) }

/-! ## printing -/

def showEv : Ev → String
  | .g .sB c => s!"G<{c.key}#{c.gen}"
  | .g .sA c => s!"G>{c.key}#{c.gen}"
  | .g .sF c => s!"G!{c.key}#{c.gen}"
  | .g .xB c => s!"H<{c.key}#{c.gen}"
  | .g .xA c => s!"H>{c.key}#{c.gen}"
  | .g .xF c => s!"H!{c.key}#{c.gen}"
  | .n .sB c i => s!"s<{nodeName c i}"
  | .n .sA c i => s!"s>{nodeName c i}"
  | .n .sF c i => s!"s!{nodeName c i}"
  | .n .xB c i => s!"x<{nodeName c i}"
  | .n .xA c i => s!"x>{nodeName c i}"
  | .n .xF c i => s!"x!{nodeName c i}"
  | .n .hS c i => s!"ps:{nodeName c i}"
  | .n .hSf c i => s!"ps!{nodeName c i}"
  | .n .hX c i => s!"px:{nodeName c i}"
  | .n .hXf c i => s!"px!{nodeName c i}"
  | .n .hE c i => s!"pe:{nodeName c i}"
  | .n .hEf c i => s!"pe!{nodeName c i}"
  | .cyc k => s!"@{k}"
  | .stopping => "@stop"
  | .returned => "@ret"

def showEvs (l : List Ev) : String := if l.isEmpty then "-" else " ".intercalate (l.map showEv)

def isMark : Ev → Bool
  | .cyc _ => true | .stopping => true | .returned => true | _ => false

/-- events after the mark `m` up to the next mark -/
def section_ (t : List Ev) (m : Ev) : List Ev :=
  ((t.dropWhile (· != m)).drop 1).takeWhile (fun e => !isMark e)

def hasMark (t : List Ev) (m : Ev) : Bool := t.contains m

/-- counters of the harness: (started, stopped, double, live) over a trace -/
def counters (t : List Ev) : Nat × Nat × Nat × Nat :=
  let started := t.filterMap fun | .n .hS c i => some (c, i) | _ => none
  let stops := t.filterMap fun | .n .hX c i => some (c, i) | .n .hXf c i => some (c, i) | _ => none
  let stoppedN := (started.filter fun x => stops.contains x).length
  let dedup := stops.foldl (fun acc x => if acc.contains x then acc else acc ++ [x]) ([] : List (Cid × Nat))
  let doubleN := (dedup.filter fun x => (stops.filter (· == x)).length > 1).length
  let live := t.foldl (fun (acc : List (Cid × Nat)) e =>
    match e with
    | .n .sA c i => if acc.contains (c, i) then acc else acc ++ [(c, i)]
    | .n .xB c i => acc.filter (· != (c, i))
    | _ => acc) []
  (started.length, stoppedN, doubleN, live.length)

def resText (err : Option String) (cycleErr : Bool) : String :=
  match err with
  | none => "ok"
  | some m => s!"err:{if cycleErr then "evaluate" else "stop"}/{m}"

/-! ## the surrounding graph -/

inductive Op where
  | add (k : Int) | del (k : Int) | sel (k : Int) | tickX
deriving Repr

structure DS where
  isSwitch : Bool := false
  isReduce : Bool := false
  hasZero : Bool := false           -- reducez: reduce_ with an explicit scalar zero (a const: it ticks in the first cycle)
  fwd : Bool := false               -- switchb / switchl: the switch output forwards to the branch terminal
  n : Nat := 1
  cleanup : Bool := true
  plan : Plan := {}
  cfgBad : Bool := false
  cycles : List (List Op) := []     -- pending history (in order)

def insertSorted (x : Int) : List Int → List Int
  | [] => [x]
  | y :: ys => if x ≤ y then x :: y :: ys else y :: insertSorted x ys
def sortInts (l : List Int) : List Int := l.foldl (fun acc x => insertSorted x acc) []
def dedupInts (l : List Int) : List Int := l.foldl (fun acc x => if acc.contains x then acc else acc ++ [x]) []

def insertSlot (x : Nat × Int) : List (Nat × Int) → List (Nat × Int)
  | [] => [x]
  | y :: ys => if x.1 ≤ y.1 then x :: y :: ys else y :: insertSlot x ys
def sortSlots (l : List (Nat × Int)) : List (Nat × Int) := l.foldl (fun acc x => insertSlot x acc) []

open HgVerif.Slots in
/-- the key history as the map node sees it: the replay node applies `removed` then `modified` (ascending keys) -/
def mapInputs (cycles : List (List Op)) : List CycleIn :=
  let step := fun (acc : TSD × List Int × Int × Nat × List CycleIn) (ops : List Op) =>
    let (x, present, v, idx, out) := acc
    let t := idx + 1
    -- normalisation of the harness: `+k` sets a new value, `-k` of an absent key is dropped
    let r := ops.foldl (fun (a : List Int × List Int × List Int) o =>
      match o with
      | .add k => (a.1, if a.2.1.contains k then a.2.1 else a.2.1 ++ [k], if a.2.2.contains k then a.2.2 else a.2.2 ++ [k])
      | .del k => if a.2.2.contains k then (a.1 ++ [k], a.2.1, a.2.2.filter (· != k)) else a
      | _ => a) (([] : List Int), ([] : List Int), present)
    let removedKeys := r.1
    let plusKeys := sortInts r.2.1
    let present' := r.2.2
    if removedKeys.isEmpty && plusKeys.isEmpty then (x, present', v, idx + 1, out ++ [{ active := false }])
    else
      let pendingBefore := (List.range x.keys.cap).filter fun i => (sget x.keys.slots i).st == .pending
      let removedSlots := removedKeys.filterMap fun k => (findLive x.keys.slots k).map fun s => (s, k)
      let x1 := removedKeys.foldl (fun y k => (y.erase t k).1) x
      let x2 := plusKeys.foldl (fun (yv : TSD × Int) k => (yv.1.set t k (yv.2 + 1), yv.2 + 1)) (x1, v)
      let y := x2.1
      let slotOf := fun k => (findLive y.keys.slots k).map fun s => (s, k)
      let addedKeys := plusKeys.filter fun k => !present.contains k
      let live := (List.range y.keys.cap).filterMap fun i =>
        let s := sget y.keys.slots i
        if s.st == .live then some (i, s.key) else none
      let I : CycleIn :=
        { active := true, erased := pendingBefore, cap := y.keys.cap, valid := true
          modified := !removedKeys.isEmpty || !addedKeys.isEmpty
          live := live
          removed := (sortSlots removedSlots).map (·.1)
          added := sortSlots (addedKeys.filterMap slotOf)
          ticked := (sortSlots (plusKeys.filterMap slotOf)).map (·.1) }
      (y, present', x2.2, idx + 1, out ++ [I])
  (cycles.foldl step (({} : TSD), ([] : List Int), (0 : Int), 0, ([] : List CycleIn))).2.2.2.2

/-- descending insertion without duplicates -/
def insertDescU (x : Nat) : List Nat → List Nat
  | [] => [x]
  | y :: ys => if y < x then x :: y :: ys else if y = x then y :: ys else y :: insertDescU x ys

/-- `append_leaf_path`: the ancestors of a dense leaf that hold a live combiner -/
def livePath (cap : Nat) (comb : List Bool) (leaf : Nat) : List Nat :=
  (HgVerif.Reduce.pathFrom comb.length (HgVerif.Reduce.internalCount cap + leaf)).filter fun p => comb[p]? == some true

open HgVerif.Slots HgVerif.Reduce in
/-- the key history as the reduce node sees it (no zero input): leaf bookkeeping and tree shape by the C11 model,
    the order of the removed / added / modified keys by the slot store of the replayed dictionary -/
def redInputs (cycles : List (List Op)) : List RedIn :=
  let step := fun (acc : TSD × List Int × Int × Nat × Tree Int × List RedIn) (ops : List Op) =>
    let (x, present, v, idx, tr, out) := acc
    let t := idx + 1
    let r := ops.foldl (fun (a : List Int × List Int × List Int) o =>
      match o with
      | .add k => (a.1, if a.2.1.contains k then a.2.1 else a.2.1 ++ [k], if a.2.2.contains k then a.2.2 else a.2.2 ++ [k])
      | .del k => if a.2.2.contains k then (a.1 ++ [k], a.2.1, a.2.2.filter (· != k)) else a
      | _ => a) (([] : List Int), ([] : List Int), present)
    let removedKeys := r.1
    let plusKeys := sortInts r.2.1
    let present' := r.2.2
    if removedKeys.isEmpty && plusKeys.isEmpty then (x, present', v, idx + 1, tr, out ++ [{ active := false }])
    else
      let removedSlots := removedKeys.filterMap fun k => (findLive x.keys.slots k).map fun s => (s, k)
      let x1 := removedKeys.foldl (fun y k => (y.erase t k).1) x
      let x2 := plusKeys.foldl (fun (yv : TSD × Int) k => (yv.1.set t k (yv.2 + 1), yv.2 + 1)) (x1, v)
      let y := x2.1
      let slotOf := fun k => (findLive y.keys.slots k).map fun s => (s, k)
      let removedOrd := (sortSlots removedSlots).map (·.2)                      -- removed chain (ascending slots)
      let modifiedOrd := (sortSlots (plusKeys.filterMap slotOf)).map (·.2)     -- modified chain, added keys included
      let liveOrd := (List.range y.keys.cap).filterMap fun i =>
        let s := sget y.keys.slots i
        if s.st == .live then some s.key else none
      -- `reduce_reconcile`
      let full := !tr.primed
      let rl := reconcileLeaves { tr with structLeaves := [] } full removedOrd (if full then liveOrd else modifiedOrd)
      let t1 : Tree Int := { rl.1 with primed := true }
      let fullStructure := !tr.published || !tr.primed
      let rebuilt := rl.2 || !tr.published
      if !rebuilt then
        let ev := (modifiedOrd.filterMap fun k => leafOf t1.keys k).foldl
          (fun acc leaf => (livePath t1.cap t1.combiners leaf).foldl (fun a p => insertDescU p a) acc) []
        (y, present', x2.2, idx + 1, t1, out ++ [{ active := true, ticked := ev.map fun p => 2 * p + t1.bank }])
      else
        -- `rebuild_structure`
        let live := t1.keys.length
        let capacity := max t1.cap (if live > 0 then bitCeil live else 0)
        let bankChanged := capacity != t1.cap
        let oldBank := t1.bank
        let retiredShape := if bankChanged then livePositions t1.combiners else []
        let comb0 := if bankChanged then List.replicate (if capacity > 1 then capacity - 1 else 0) false else t1.combiners
        let bank := if bankChanged then 1 - t1.bank else t1.bank
        let fullS := fullStructure || bankChanged
        let positions := if fullS then allPositionsDesc comb0.length
                         else structuralPositions capacity comb0.length t1.structLeaves
        let ph := positions.foldl (phase1Step false capacity live) { comb := comb0 }
        let t2 : Tree Int := { t1 with cap := capacity, combiners := ph.comb, bank := bank, published := true }
        -- `prepare_reduce_evaluation_positions`: the structural positions that hold a combiner and the paths of the
        -- modified leaves; every one of them is due (a created combiner samples, a re-pointed one samples, a tick cascades)
        let ev0 := (positions.filter fun p => ph.comb[p]? == some true).foldl (fun a p => insertDescU p a) []
        let ev := (modifiedOrd.filterMap fun k => leafOf t2.keys k).foldl
          (fun acc leaf => (livePath t2.cap t2.combiners leaf).foldl (fun a p => insertDescU p a) acc) ev0
        let I : RedIn :=
          { active := true
            create := ph.created.reverse.map fun p => 2 * p + bank
            retire := (ph.retired.reverse.map fun p => 2 * p + bank) ++ retiredShape.map fun p => 2 * p + oldBank
            ticked := ev.map fun p => 2 * p + bank }
        (y, present', x2.2, idx + 1, t2, out ++ [I])
  (cycles.foldl step (({} : TSD), ([] : List Int), (0 : Int), 0, ({} : Tree Int), ([] : List RedIn))).2.2.2.2.2

open HgVerif.Slots HgVerif.Reduce in
/-- the key history as the reduce node of `Model/DynLifeReduceZ.lean` sees it: the leaf bookkeeping of `reduce_reconcile`
    (C11 model) gives the live count, the structural and the modified leaves; the tree itself (capacity, banks, pointer
    table, created / set-aside / retired combiners) is the model's business.  With a zero (a `const` node) the node is also
    evaluated in the first engine cycle, where the zero ticks, whatever the collection does. -/
def rzInputs (hasZero : Bool) (cycles : List (List Op)) : List RzIn :=
  let step := fun (acc : TSD × List Int × Int × Nat × Tree Int × List RzIn) (ops : List Op) =>
    let (x, present, v, idx, tr, out) := acc
    let t := idx + 1
    let r := ops.foldl (fun (a : List Int × List Int × List Int) o =>
      match o with
      | .add k => (a.1, if a.2.1.contains k then a.2.1 else a.2.1 ++ [k], if a.2.2.contains k then a.2.2 else a.2.2 ++ [k])
      | .del k => if a.2.2.contains k then (a.1 ++ [k], a.2.1, a.2.2.filter (· != k)) else a
      | _ => a) (([] : List Int), ([] : List Int), present)
    let removedKeys := r.1
    let plusKeys := sortInts r.2.1
    let present' := r.2.2
    let zeroEvent := hasZero && idx == 0
    if removedKeys.isEmpty && plusKeys.isEmpty then
      if zeroEvent then
        -- the collection input is not valid yet: no leaf reconciliation; `!published` forces the (full) rebuild
        (x, present', v, idx + 1, { tr with published := true },
         out ++ [{ active := true, structural := false, live := tr.keys.length, full := true, zeroEvent := true }])
      else (x, present', v, idx + 1, tr, out ++ [{ active := false }])
    else
      let x1 := removedKeys.foldl (fun y k => (y.erase t k).1) x
      let removedSlots := removedKeys.filterMap fun k => (findLive x.keys.slots k).map fun s => (s, k)
      let x2 := plusKeys.foldl (fun (yv : TSD × Int) k => (yv.1.set t k (yv.2 + 1), yv.2 + 1)) (x1, v)
      let y := x2.1
      let slotOf := fun k => (findLive y.keys.slots k).map fun s => (s, k)
      let removedOrd := (sortSlots removedSlots).map (·.2)
      let modifiedOrd := (sortSlots (plusKeys.filterMap slotOf)).map (·.2)
      let liveOrd := (List.range y.keys.cap).filterMap fun i =>
        let s := sget y.keys.slots i
        if s.st == .live then some s.key else none
      let full := !tr.primed
      let rl := reconcileLeaves { tr with structLeaves := [] } full removedOrd (if full then liveOrd else modifiedOrd)
      let t1 : Tree Int := { rl.1 with primed := true, published := true }
      let I : RzIn :=
        { active := true, structural := rl.2, live := t1.keys.length, full := !tr.published || !tr.primed
          structLeaves := t1.structLeaves, modLeaves := modifiedOrd.filterMap fun k => leafOf t1.keys k
          zeroEvent := zeroEvent }
      (y, present', x2.2, idx + 1, t1, out ++ [I])
  (cycles.foldl step (({} : TSD), ([] : List Int), (0 : Int), 0, ({} : Tree Int), ([] : List RzIn))).2.2.2.2.2

def swInputs (cycles : List (List Op)) : List SwIn :=
  cycles.map fun ops =>
    let key := ops.foldl (fun (a : Option Int) o => match o with | .sel k => some k | _ => a) none
    let any := ops.any fun | .sel _ => true | .tickX => true | _ => false
    { active := any, key := key, ticked := any }

/-- the answer lines of one history: one per cycle, then the `run` line -/
def runHistory (d : DS) (recorder : Bool) (rzAll : Bool := false) : List String :=
  let nc := d.cycles.length
  if d.cfgBad then List.replicate (nc + 1) "err:harness" else
  let cfg : Cfg := { n := d.n, cleanup := d.cleanup, recorder := recorder, fwd := d.fwd }
  let h := hooksOf d.plan
  let (tRet, tFin, err, cycErr) :=
    if d.isSwitch then
      let r := swRun cfg h (swInputs d.cycles) {}
      (r.ret.w.tr, r.fin.w.tr, r.err, (swRunCycles cfg h (swInputs d.cycles) 0 { w := { u := {} } }).2.isSome)
    else if d.isReduce && (d.hasZero || rzAll) then
      let c : RzCfg := { base := cfg, hasZero := d.hasZero }
      let r := rzRun c h (rzInputs d.hasZero d.cycles) {}
      (r.ret.m.w.tr, r.fin.w.tr, r.err, (rzRunCycles c h (rzInputs d.hasZero d.cycles) 0 { m := { w := { u := {} } } }).2.isSome)
    else if d.isReduce then
      let r := redRun cfg h (redInputs d.cycles) {}
      (r.ret.w.tr, r.fin.w.tr, r.err, (redRunCycles cfg h (redInputs d.cycles) 0 { m := { w := { u := {} } } }).2.isSome)
    else
      let r := run cfg h (mapInputs d.cycles) {}
      (r.ret.w.tr, r.fin.w.tr, r.err, (runCycles cfg h (mapInputs d.cycles) 0 { w := { u := {} } }).2.isSome)
  -- the last cycle that began
  let lastCyc := (List.range nc).foldl (fun a k => if hasMark tRet (.cyc k) then k else a) 0
  let cycLines := (List.range nc).map fun k =>
    if cycErr && k > lastCyc then "dead" else showEvs (section_ tRet (.cyc k))
  let cr := counters tRet
  let cf := counters tFin
  let rel := tFin.drop tRet.length
  cycLines ++ [s!"res={resText err cycErr} stop={showEvs (section_ tRet .stopping)} ret={cr.1}/{cr.2.1}/{cr.2.2.2}" ++
               s!" rel={showEvs rel} fin={cf.1}/{cf.2.1}/{cf.2.2.1}/{cf.2.2.2}"]

def parseOp (isSwitch : Bool) (t : String) : Option Op :=
  if !isSwitch && t.length ≥ 2 && t.startsWith "+" then (t.drop 1).toString.toInt?.map Op.add
  else if !isSwitch && t.length ≥ 2 && t.startsWith "-" then (t.drop 1).toString.toInt?.map Op.del
  else if isSwitch && t.length ≥ 2 && t.startsWith "=" then (t.drop 1).toString.toInt?.map Op.sel
  else if isSwitch && t == "~" then some Op.tickX
  else none

def parseOps (isSwitch : Bool) : List String → Option (List Op)
  | [] => some []
  | t :: rest => do
    let o ← parseOp isSwitch t
    let r ← parseOps isSwitch rest
    pure (o :: r)

def flush (d : DS) (recorder : Nat) (withRun : Bool) : DS × List String :=
  if d.cycles.isEmpty && !withRun then (d, [])
  else
    let lines := runHistory d (recorder % 2 == 1) (recorder / 2 == 1)
    ({ d with cycles := [] }, if withRun then lines else lines.take d.cycles.length)

def step (recorder : Nat) (d : DS) (ws : List String) : DS × List String :=
  match ws with
  | ["case", n] =>
    let (_, out) := flush d recorder false
    ({}, out ++ [s!"case {n}"])
  | ["cfg", kind, n, c] =>
    let (d1, out) := flush d recorder false
    let sw := kind == "switch" || kind == "switchb" || kind == "switchl"
    let ok := (kind == "map" || sw || kind == "reduce" || kind == "reducez") && (n == "1" || n == "2" || n == "3") && (c == "0" || c == "1")
    if ok then ({ d1 with isSwitch := sw, fwd := sw && kind != "switch", isReduce := kind == "reduce" || kind == "reducez", hasZero := kind == "reducez", n := n.toNat!, cleanup := c == "1", cfgBad := false }, out ++ ["ok"])
    else ({ d1 with cfgBad := true }, out ++ ["bad-op"])
  | ["fs", k] =>
    let (d1, out) := flush d recorder false
    match k.toNat? with
    | some v => if v ≥ 1 then ({ d1 with plan := { d1.plan with fs := d1.plan.fs ++ [v] } }, out ++ ["ok"]) else (d1, out ++ ["bad-op"])
    | none => (d1, out ++ ["bad-op"])
  | ["fe", k, i, n] =>
    let (d1, out) := flush d recorder false
    match k.toInt?, i.toNat?, n.toNat? with
    | some k, some i, some n =>
      if i ≤ 2 && n ≥ 1 then ({ d1 with plan := { d1.plan with fe := d1.plan.fe ++ [(k, i, n)] } }, out ++ ["ok"])
      else (d1, out ++ ["bad-op"])
    | _, _, _ => (d1, out ++ ["bad-op"])
  | ["fx", k, i] =>
    let (d1, out) := flush d recorder false
    match k.toInt?, i.toNat? with
    | some k, some i =>
      if i ≤ 2 then ({ d1 with plan := { d1.plan with fx := d1.plan.fx ++ [(k, i)] } }, out ++ ["ok"])
      else (d1, out ++ ["bad-op"])
    | _, _ => (d1, out ++ ["bad-op"])
  | "c" :: rest =>
    match parseOps d.isSwitch rest with
    | some ops =>
      let adds := ops.filterMap fun | .add k => some k | _ => none
      let dels := ops.filterMap fun | .del k => some k | _ => none
      if adds.any (fun k => dels.contains k) then
        let (d1, out) := flush d recorder false
        (d1, out ++ ["bad-op"])
      else ({ d with cycles := d.cycles ++ [ops] }, [])
    | none =>
      let (d1, out) := flush d recorder false
      (d1, out ++ ["bad-op"])
  | ["run"] => flush d recorder true
  | [] =>
    let (d1, out) := flush d recorder false
    (d1, out ++ [""])
  | _ =>
    let (d1, out) := flush d recorder false
    (d1, out ++ ["bad-op"])

partial def loop (h out : IO.FS.Stream) (recorder : Nat) (d : DS) : IO Unit := do
  let line ← h.getLine
  if line.isEmpty then
    let (_, o) := flush d recorder false
    for l in o do out.putStrLn l
    out.flush
    return ()
  let (d', o) := step recorder d (words line)
  for l in o do out.putStrLn l
  loop h out recorder d'

def main (args : List String) : IO Unit := do
  -- bit 0: the repaired `remove_all_entries` loop, bit 1: `reduce` through the pointer-table model too
  let recorder : Nat := (if args.contains "current" then 0 else 1) + (if args.contains "rz" then 2 else 0)
  loop (← IO.getStdin) (← IO.getStdout) recorder {}
