import HgVerif.Model.GState
import HgVerif.Driver.Proto
/-! Model driver for the C07 global-state isolation stream: same line protocol as `harness/drv_gstate.cpp`. -/
open HgVerif.GState HgVerif.Driver

def showTrace (t : Trace) : String :=
  "[" ++ " ".intercalate (t.map fun p => s!"{p.1}:{p.2}") ++ "]"

def showErr : Err → String
  | .logic => "err:logic"
  | .other => "err:other"

def showObs : Except Err (List Trace) → String
  | .error e => showErr e
  | .ok ts => " ".intercalate (ts.map showTrace)

def parseInt (s : String) : Option Int :=
  if s.startsWith "+" then none else s.toInt?

def parseItems : List String → Option (List (Option Int))
  | [] => some []
  | "_" :: rest => (parseItems rest).map (none :: ·)
  | w :: rest => match parseInt w, parseItems rest with
    | some v, some r => some (some v :: r)
    | _, _ => none

def parsePairs : List String → Option (List (Nat × Int))
  | [] => some []
  | w :: rest =>
    match w.splitOn ":" with
    | [c, v] => match c.toNat?, parseInt v, parsePairs rest with
      | some c, some v, some r => some ((c, v) :: r)
      | _, _, _ => none
    | _ => none

def hasComma (s : String) : Bool := s.contains ','

def parseGraph (name key : String) : Option Graph :=
  match name with
  | "inc" => if hasComma key then none else some (gInc key)
  | "mul10" => if hasComma key then none else some (gMul10 key)
  | "acc" => if hasComma key then none else some (gAcc key)
  | "pinc" => if hasComma key then none else some (gPinc key)
  | "two" => match key.splitOn "," with
    | [k1, k2] => if k1 == "" || k2 == "" || k1 == k2 then none else some (gTwo k1 k2)
    | _ => none
  | _ => none

def parseLayout : String → Option Layout
  | "dense" => some .dense
  | "sparse" => some .sparse
  | _ => none

def showBuf : Buf → String
  | .any xs => s!"A{xs.length}" ++ showTrace (enumSome 0 xs)
  | .dense xs => s!"D{xs.length}" ++ showTrace (enumSome 0 xs)
  | .sparse xs => s!"S{xs.length}" ++ showTrace xs

def insSorted (p : String × Buf) : List (String × Buf) → List (String × Buf)
  | [] => [p]
  | x :: xs => if p.1 < x.1 then p :: x :: xs else x :: insSorted p xs

def showState (s : GState) : String :=
  let sorted := s.foldl (fun acc p => insSorted p acc) []
  "{" ++ " ".intercalate (sorted.map fun p => p.1 ++ "=" ++ showBuf p.2) ++ "}"

def step (p : Proc) (ws : List String) : Proc × String :=
  match ws with
  | ["case", n] => ({}, s!"case {n}")
  | ["ctx", "none"] => ({ p with sel := none }, "ok")
  | ["ctx", "new", c] =>
    if c == "none" || (p.ctxs.lookup c).isSome then (p, "bad-op")
    else ({ p with ctxs := (c, []) :: p.ctxs, sel := some c }, "ok")
  | ["ctx", "sel", c] =>
    if (p.ctxs.lookup c).isSome then ({ p with sel := some c }, "ok") else (p, "bad-op")
  | "run" :: gname :: lay :: key :: inputs =>
    match parseLayout lay, parseGraph gname key, parseItems inputs with
    | some lay, some g, some inp =>
      let r := p.run g lay inp
      (r.1, showObs r.2)
    | _, _, _ => (p, "bad-op")
  | ["reuse", k] =>
    match k.toNat?, p.builder with
    | some k, some _ =>
      if k == 0 || k > 8 then (p, "bad-op")
      else
        let r := p.reuse k
        -- the C++ loop stops at the first exception and prints only its class
        match r.2.find? (fun o => match o with | .error _ => true | .ok _ => false) with
        | some o => (r.1, showObs o)
        | none => (r.1, " | ".intercalate (r.2.map showObs))
    | _, _ => (p, "bad-op")
  | "seed" :: key :: "any" :: items =>
    match parseItems items with
    | some xs => let r := p.seed key (.any xs); (r.1, if r.2 then "ok" else "noop")
    | none => (p, "bad-op")
  | "seed" :: key :: "dense" :: items =>
    match parseItems items with
    | some xs => let r := p.seed key (.dense xs); (r.1, if r.2 then "ok" else "noop")
    | none => (p, "bad-op")
  | "seed" :: key :: "sparse" :: items =>
    match parsePairs items with
    | some xs => let r := p.seed key (.sparse xs); (r.1, if r.2 then "ok" else "noop")
    | none => (p, "bad-op")
  | ["copyback"] => let r := p.copyback; (r.1, if r.2 then "ok" else "noop")
  | ["dump"] =>
    match p.selected with
    | some s => (p, showState s)
    | none => (p, "none")
  | [] => (p, "")
  | _ => (p, "bad-op")

def main : IO Unit := run ({} : Proc) step
