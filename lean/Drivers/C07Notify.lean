import HgVerif.Model.Notify
import HgVerif.Driver.Proto
/-! Model driver for the C07 notification / failed-run reuse stream: same line protocol as `harness/drv_notify.cpp`.
The model is the code as written (`BufMode.localBatch`); `thread` runs start from a thread that has run nothing, the
other runs of a case share the case's evaluation thread. -/
open HgVerif.Notify HgVerif.Driver

def maxId : Nat := 31
def maxTime : Nat := 40

/-- canonical numerals of at most `maxLen` digits -/
def parseNatC (maxLen : Nat) (cs : List Char) : Option Nat :=
  if cs.isEmpty || cs.length > maxLen then none
  else if cs.length > 1 && cs.head? == some '0' then none
  else if cs.all Char.isDigit then some (cs.foldl (fun n c => n * 10 + (c.toNat - '0'.toNat)) 0)
  else none

/-- `b<id>` / `a<id>` -/
def parseReg (cs : List Char) : Option Lbl :=
  match cs with
  | k :: ds =>
    if k == 'b' || k == 'a' then
      match parseNatC 3 ds with
      | some v => if v > maxId then none else some { before := k == 'b', id := v }
      | none => none
    else none
  | [] => none

def parseAct (allowThrow : Bool) (throwChar : Char) (w : String) : Option Act :=
  let cs := w.toList
  if cs == [throwChar] then (if allowThrow then some .throw else none)
  else (parseReg cs).map .reg

inductive Sect where
  | start | ticks | stop | defs
deriving DecidableEq

def Sect.rank : Sect → Nat
  | .start => 0 | .ticks => 1 | .stop => 2 | .defs => 3

structure PState where
  r : Recipe := {}
  sect : Sect := .start
  seenV : Bool := false

def parseDefItems (id : Nat) : List String → Option (List Act)
  | [] => some []
  | w :: rest =>
    match parseAct true '!' w, parseDefItems id rest with
    | some a, some as =>
      match a with
      | .reg l => if l.id ≤ id then none else some (a :: as)
      | .throw => some (a :: as)
    | _, _ => none

def addToLastTick (ticks : List Tick) (a : Act) : List Tick :=
  match ticks.reverse with
  | [] => []
  | k :: ks => (({ k with acts := k.acts ++ [a] }) :: ks).reverse

def parseTok (p : PState) (w : String) : Option PState :=
  let cs := w.toList
  if w == "nc" then
    if p.sect != .start || p.r.noCleanup || !p.r.startRegs.isEmpty then none
    else some { p with r := { p.r with noCleanup := true } }
  else if cs.head? == some 'v' then
    match parseNatC 6 (cs.drop 1) with
    | some v =>
      if p.sect != .start || p.seenV || p.r.noCleanup || !p.r.startRegs.isEmpty then none
      else some { p with seenV := true, r := { p.r with base := v } }
    | none => none
  else if cs.head? == some 't' then
    match parseNatC 6 (cs.drop 1) with
    | some t =>
      if p.sect.rank > Sect.ticks.rank || t < 1 || t > maxTime then none
      else
        match p.r.ticks.getLast? with
        | some k => if k.time ≥ t then none
                    else some { p with sect := .ticks, r := { p.r with ticks := p.r.ticks ++ [{ time := t, acts := [] }] } }
        | none => some { p with sect := .ticks, r := { p.r with ticks := p.r.ticks ++ [{ time := t, acts := [] }] } }
    | none => none
  else if w == "stop" then
    if p.sect.rank ≥ Sect.stop.rank then none else some { p with sect := .stop }
  else if cs.head? == some 'd' then
    match w.splitOn "=" with
    | [l, rhs] =>
      match parseNatC 6 (l.toList.drop 1) with
      | some id =>
        if id > maxId || (p.r.defs.lookup id).isSome then none
        else
          match parseDefItems id (rhs.splitOn ",") with
          | some acts => some { p with sect := .defs, r := { p.r with defs := p.r.defs ++ [(id, acts)] } }
          | none => none
      | none => none
    | _ => none
  else if p.sect == .defs then none
  else
    match parseAct (p.sect == .ticks) 'x' w with
    | some a =>
      match p.sect, a with
      | .start, .reg l => some { p with r := { p.r with startRegs := p.r.startRegs ++ [l] } }
      | .ticks, a => some { p with r := { p.r with ticks := addToLastTick p.r.ticks a } }
      | .stop, .reg l => some { p with r := { p.r with stopRegs := p.r.stopRegs ++ [l] } }
      | _, _ => none
    | none => none

def parseRecipe (ws : List String) : Option Recipe :=
  (ws.foldl (fun acc w => acc.bind fun p => parseTok p w) (some ({} : PState))).map (·.r)

def showCb (l : Lbl) : String := (if l.before then "b" else "a") ++ toString l.id

def showEv : Ev → String
  | .start => "S"
  | .eval t => s!"E{t}"
  | .nodeThrow => "X"
  | .sink t v => s!"K{t}={v}"
  | .fire cb => showCb cb
  | .noteThrow => "!"
  | .stop => "P"

def showErr : Err → String
  | .note cb => "err:note:" ++ showCb cb
  | .node t => s!"err:node:{t}"
  | .loop => "err:loop"

def showTrace (t : Trace) : String :=
  " ".intercalate (t.log.map showEv ++ [match t.result with | none => "ok" | some e => showErr e])

structure DState where
  /-- the evaluation thread of the current case (a new one per `case` line) -/
  main : Thread := {}
  /-- the recipe of the builder made by the last `run` -/
  builder : Option Recipe := none

def execute (s : DState) (fresh : Bool) (r : Recipe) : DState × String :=
  if fresh then ({ s with builder := some r }, showTrace (runExec .localBatch r {}).2)
  else
    let o := runExec .localBatch r s.main
    ({ s with main := o.1, builder := some r }, showTrace o.2)

def stepRun (s : DState) (fresh : Bool) (ws : List String) : DState × String :=
  match ws with
  | "run" :: rest =>
    match parseRecipe rest with
    | some r => execute s fresh r
    | none => (s, "bad-op")
  | ["again"] =>
    match s.builder with
    | some r => execute s fresh r
    | none => (s, "bad-op")
  | _ => (s, "bad-op")

def step (s : DState) (ws : List String) : DState × String :=
  match ws with
  | [] => (s, "")
  | ["case", n] => ({ main := {}, builder := none }, s!"case {n}")
  | "thread" :: rest => stepRun s true rest
  | _ => stepRun s false ws

def main : IO Unit := run ({} : DState) step
