import HgVerif.Model.SwitchColl
import HgVerif.Driver.Proto
/-! Model driver for the collection-output stream of C12: same line protocol as
`harness/drv_switchcoll.cpp`.

The switch node and the collection (`cycle`, `keyPhase`, `activate`, `evalPhase`, `Coll.*`) are the
model the theorems of `Props/C12Coll.lean` are about; the driver adds only the branch vocabulary of
the harness as concrete `Branch` values over one state record, the parsing and the printing. -/
open HgVerif.SwitchColl HgVerif.Driver

structure St where
  n : Int := 0
  prev : Option Int := none
  started : Bool := false

def plain (name : String) (f : St → Int → Int → St × List Op) : Branch St :=
  { name := name, usesKey := false, unchecked := false, init := {}, step := f }

def branchOf (name : String) : Option (Branch St) :=
  match name with
  | "acc" => some (plain "acc" fun s _ x => (s, [.put x (10 * x)]))
  | "neg" => some (plain "neg" fun s _ x => (s, [.put (-x) (10 * x)]))
  | "win" => some (plain "win" fun s _ x =>
      let n := s.n + 1
      ({ s with n := n, prev := some x },
       [Op.put x n] ++ (match s.prev with | some p => [Op.del p] | none => [])))
  | "cnt" => some (plain "cnt" fun s _ _ => let n := s.n + 1; ({ s with n := n }, [.put (n % 4) n]))
  | "evens" => some (plain "evens" fun s _ x => (s, if x % 2 == 0 then [.put x x] else []))
  | "fixed" => some { name := "fixed", usesKey := false, unchecked := true, init := {},
                      step := fun s _ x =>
                        if s.started then (s, [.del x])
                        else ({ s with started := true }, [.put 1 10, .put 2 20, .put 3 30]) }
  | "kacc" => some { name := "kacc", usesKey := true, unchecked := false, init := {},
                     step := fun s k x => (s, [.put (100 * k + x) k]) }
  | "last" => some (plain "last" fun s _ x => (s, [.clr, .put x (10 * x)]))
  | _ => none

/-- a `TSS<Int>` output: the value of a `put` is not part of the element -/
def asSet (b : Branch St) : Branch St :=
  { b with step := fun s k x =>
      let r := b.step s k x
      (r.1, r.2.map fun o => match o with | .put k _ => .put k 0 | o => o) }

structure DS where
  cfg : Cfg St := { cases := [], dflt := none, reload := false }
  dict : Bool := false
  bad : Bool := true
  sw : SW St := {}
  now : Nat := 1            -- MIN_ST

def canonInt (s : String) : Option Int :=
  match s.toInt? with
  | some v => if toString v == s then some v else none
  | none => none

def shaped (dict : Bool) (b : Branch St) : Branch St := if dict then b else asSet b

def parseCases (dict : Bool) : List String → Option (List (Int × Branch St))
  | [] => some []
  | w :: rest =>
    match w.splitOn "=" with
    | [k, b] => do
      let kv ← canonInt k
      let br ← branchOf b
      let r ← parseCases dict rest
      if r.any (fun c => c.1 == kv) then none
      pure ((kv, shaped dict br) :: r)
    | _ => none

def parseCfg (ws : List String) : Option (Bool × Cfg St) :=
  match ws with
  | sh :: rl :: df :: cs => do
    let dict ← if sh == "tss" then some false else if sh == "tsd" then some true else none
    let reload ← if rl == "0" then some false else if rl == "1" then some true else none
    let dflt ← if df == "-" then some none else
      match branchOf df with
      | some br => some (some (shaped dict br))
      | none => none
    let cases ← parseCases dict cs
    if cases.isEmpty && dflt.isNone then none
    pure (dict, { cases := cases, dflt := dflt, reload := reload })
  | _ => none

def parseCyc : List String → CycIn → Option CycIn
  | [], c => some c
  | n :: v :: rest, c => do
    let val ← canonInt v
    if n == "k" && c.key.isNone then parseCyc rest { c with key := some val }
    else if n == "x" && c.x.isNone then parseCyc rest { c with x := some val }
    else none
  | _, _ => none

def showEv : Event → String
  | .start g name => s!"S{g}:{name}"
  | .stop g => s!"X{g}"

def showEvs (l : List Event) : String := if l.isEmpty then "-" else ",".intercalate (l.map showEv)

def sorted (l : List (Int × String)) : String :=
  "[" ++ ",".intercalate ((l.mergeSort fun a b => decide (a.1 ≤ b.1)).map (·.2)) ++ "]"

def showKeys (l : List Int) : String := sorted (l.map fun k => (k, toString k))

def showItems (dict : Bool) (l : List (Int × Int)) : String :=
  sorted (l.map fun p => (p.1, if dict then s!"{p.1}:{p.2}" else toString p.1))

def showOut (dict : Bool) (c : Coll) (t : Nat) : String :=
  let val := showItems dict c.items
  let a := showKeys (c.addedAt t)
  let r := showKeys (c.removedAt t)
  let mi := if dict then showItems true (c.modifiedItemsAt t) else "[]"
  let inp := if c.modifiedAt t then s!"{val}/{a}/{r}/{mi}" else "-"
  s!"o={b2s c.valid}{b2s (c.modifiedAt t)} val={val} a={a} r={r} mi={mi} in={inp}"

def fresh (d : DS) : DS := { d with sw := {}, now := 1 }

def cycleLine (d : DS) (c : CycIn) : DS × String :=
  if d.bad then (d, "err:invalid-argument") else
  if d.sw.dead then ({ d with now := d.now + 1 }, "dead") else
  let o := cycle d.cfg d.sw d.now c
  let d' := { d with sw := o.sw, now := d.now + 1 }
  if o.err then (d', s!"err:no-branch ev={showEvs o.events}")
  else (d', s!"{showOut d.dict o.sw.out d.now} ev={showEvs o.events}")

def step (d : DS) (ws : List String) : DS × String :=
  match ws with
  | ["case", n] => ({}, s!"case {n}")
  | "cfg" :: rest =>
    if rest.length < 3 then (fresh d, "bad-op") else
    match parseCfg rest with
    | some (dict, cfg) => ({ cfg := cfg, dict := dict, bad := false }, "ok")
    | none => ({ (fresh d) with bad := true }, "bad-op")
  | "c" :: rest =>
    match parseCyc rest {} with
    | some c => cycleLine d c
    | none => (fresh d, "bad-op")
  | ["run"] =>
    if d.bad then (fresh d, "err:invalid-argument")
    else (fresh d, s!"end ev={showEvs (shutdown d.sw)}")
  | [] => (fresh d, "")
  | _ => (fresh d, "bad-op")

def main : IO Unit := run ({} : DS) step
