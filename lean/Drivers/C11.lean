import HgVerif.Model.Reduce
import HgVerif.Model.ReduceInc
import HgVerif.Model.Slots
import HgVerif.Driver.Proto
/-! Model driver for C11: same line protocol as `harness/drv_reduce.cpp`.

One evaluation of the reduce node is `ReduceInc.cycleL` (operator combiners `add` / `max`: lifted
kernel) or `ReduceInc.cycleG` (`node` / `graph`: a combiner child graph) — the definitions the theorems
of `Props/C11Inc.lean` are about; their structural part is `Reduce.evalStructure`
(`Props/C11.lean`).  The published value is the cached root (`rootVal`), `ev=` the operand pairs of
the combiner evaluations of the cycle (what the logging node combiner of the harness records).  The
driver adds only the bookkeeping of the surrounding graph: the replayed source collection (for a TSD
the slot store of `Model/Slots.lean`, the C05 model, because the node visits removed / added /
modified keys in SLOT order), the zero input, and which cycles tick. -/
open HgVerif.Reduce HgVerif.ReduceInc HgVerif.Driver

inductive ZeroCfg where
  | none | ts | const (v : Int)

structure Cfg where
  kind : String := "tsd"      -- tsd | dtsl | tsl
  size : Nat := 0
  comb : String := "add"
  zero : ZeroCfg := .none

structure DS where
  cfg : Cfg := {}
  bad : Bool := false
  lst : LSt Int Int := {}
  gst : GSt Int Int := {}
  tsd : HgVerif.Slots.TSD := {}
  src : List (Int × Int) := []
  zeroVal : Option Int := none
  collTicked : Bool := false
  cycle : Nat := 0
  out : Option Int := none
  tail : String := " n=- comb=- ngc=-"

def combFn (c : String) : Int → Int → Int :=
  match c with
  | "node" => fun a b => a + b + 100
  | "max" => fun a b => if a < b then b else a
  | _ => fun a b => a + b

def srcGet (src : List (Int × Int)) (k : Int) : Option Int := (src.find? (·.1 == k)).map (·.2)
def srcSet (src : List (Int × Int)) (k v : Int) : List (Int × Int) := src.filter (·.1 != k) ++ [(k, v)]
def srcDel (src : List (Int × Int)) (k : Int) : List (Int × Int) := src.filter (·.1 != k)

inductive Op where
  | set (k v : Int) | del (k : Int) | tick | z (v : Int)

def parseOps : List String → Option (List Op)
  | [] => some []
  | "set" :: k :: v :: rest => do
      let k ← k.toInt?; let v ← v.toInt?; let r ← parseOps rest; pure (.set k v :: r)
  | "del" :: k :: rest => do let k ← k.toInt?; let r ← parseOps rest; pure (.del k :: r)
  | "z" :: v :: rest => do let v ← v.toInt?; let r ← parseOps rest; pure (.z v :: r)
  | "tick" :: rest => do let r ← parseOps rest; pure (.tick :: r)
  | _ => none

def hasZero (c : Cfg) : Bool := match c.zero with | .none => false | _ => true
def isList (c : Cfg) : Bool := c.kind != "tsd"
/-- fixed TSL + lifted scalar kernel + no zero -> `reduce_lifted_tsl` (one node, no tree) -/
def liftedPath (c : Cfg) : Bool :=
  c.kind == "tsl" && !hasZero c && (c.comb == "add" || c.comb == "max")
/-- fixed TSL has no live-time-series-zero overload -/
def unresolvable (c : Cfg) : Bool := c.kind == "tsl" && (match c.zero with | .ts => true | _ => false)

def showOut (o : Option Int) : String := match o with | some v => toString v | none => "none"

def reset (d : DS) : DS := { cfg := d.cfg, bad := d.bad }

/-- combiner child graph (`node`, `graph`) or lifted scalar kernel (`add`, `max`) -/
def genericPath (c : Cfg) : Bool := c.comb == "node" || c.comb == "graph"

def insertSorted (x : Int × Int) : List (Int × Int) → List (Int × Int)
  | [] => [x]
  | y :: ys => if x.1 < y.1 || (x.1 == y.1 && x.2 ≤ y.2) then x :: y :: ys else y :: insertSorted x ys

def showEvals (c : Cfg) (evs : List (Int × Int)) : String :=
  if c.comb != "node" then " ev=-"
  else
    let sorted := evs.foldl (fun acc e => insertSorted e acc) []
    " ev=[" ++ ",".intercalate (sorted.map fun e => s!"{e.1}:{e.2}") ++ "]"

def insertKeySorted (x : Int) : List Int → List Int
  | [] => [x]
  | y :: ys => if x ≤ y then x :: y :: ys else y :: insertKeySorted x ys

def cycleStep (d : DS) (ops : List Op) : DS × String :=
  if d.bad then (d, "err:invalid-argument") else
  if unresolvable d.cfg then (d, "err:resolution") else
  let cfg := d.cfg
  let list := isList cfg
  let f := combFn cfg.comb
  -- what ticks this cycle
  let sets := ops.filterMap fun o => match o with | .set k v => some (k, v) | _ => none
  let dels := if list then [] else ops.filterMap fun o => match o with | .del k => some k | _ => none
  let effectiveDel := dels.any fun k => (srcGet d.src k).isSome
  -- an empty delta (`tick`, removal of a key that is not live) does not tick the replayed collection
  let collTick := !sets.isEmpty || effectiveDel
  let zTick := match cfg.zero with
    | .ts => ops.any fun o => match o with | .z _ => true | _ => false
    | .const _ => d.cycle == 0
    | .none => false
  let zeroVal := match cfg.zero with
    | .ts => ops.foldl (fun acc o => match o with | .z v => some v | _ => acc) d.zeroVal
    | .const v => some v
    | .none => none
  let src1 := dels.foldl srcDel d.src
  let src2 := sets.foldl (fun s kv => srcSet s kv.1 kv.2) src1
  let evaluated := collTick || zTick
  let hz := hasZero cfg
  if liftedPath cfg then
    let items := (List.range cfg.size).map fun i => srcGet src2 (Int.ofNat i)
    let out := if collTick then liftedTslEval f items else d.out
    let tick := collTick && out.isSome
    let rec_ := if tick then showOut out else "-"
    let tail := " n=- comb=- ngc=-"
    ({ d with src := src2, zeroVal := zeroVal, collTicked := d.collTicked || collTick, cycle := d.cycle + 1,
              out := out, tail := tail },
     s!"rec={rec_} out={showOut out} mod={b2s tick}{tail} ev=-")
  else
    let collTicked := d.collTicked || collTick
    let available := list || collTicked
    let now := d.cycle + 1
    -- the replayed collection: `apply_delta_tsd` erases the removed keys, then writes the modified items in
    -- the order of the delta's map (ascending key), then touches; a TSL writes the modified indices
    let setKeys := (sets.map (·.1)).foldl (fun acc k => if acc.contains k then acc else insertKeySorted k acc) []
    let tsd := if list || !collTick then d.tsd else
      let t1 := dels.foldl (fun x k => (x.erase now k).1) d.tsd
      let t2 := setKeys.foldl (fun x k => x.set now k ((srcGet src2 k).getD 0)) t1
      t2.touchOp now
    let primed := if genericPath cfg then d.gst.tree.primed else d.lst.tree.primed
    -- removed / added / modified keys in slot order; a full reconcile sees every valid element
    let removed := if list || !collTick then [] else tsd.removedAt now
    let modifiedKeys := if !collTick then [] else if list then setKeys else (tsd.modifiedItemsAt now).map (·.1)
    let addedKeys := if list || !collTick then [] else tsd.addedAt now
    let allValid := if list then (src2.map (·.1)).foldl (fun acc k => insertKeySorted k acc) [] else tsd.validKeys
    let present := if !primed then allValid else addedKeys ++ modifiedKeys
    let inp : CycleIn Int Int :=
      { now := now, available := available, collEvent := collTick, zeroEvent := zTick, removed := removed,
        present := present, ticked := modifiedKeys, src := srcGet src2, zero := zeroVal }
    let (lst, gst, tree, out, evs) :=
      if !evaluated then
        let tree := if genericPath cfg then d.gst.tree else d.lst.tree
        let st : LSt Int Int := if genericPath cfg then d.gst.toL else d.lst
        (d.lst, d.gst, tree, (if tree.published then rootVal hz zeroVal (srcGet src2) st else none), [])
      else if genericPath cfg then
        let r := cycleG f hz d.gst inp
        (d.lst, r.st, r.st.tree, r.out, r.evals)
      else
        let r := cycleL f hz d.lst inp
        (r.st, d.gst, r.st.tree, r.out, [])
    let n := tree.keys.length
    let tick := evaluated && out.isSome && (!sets.isEmpty || effectiveDel || (zTick && n ≤ 1))
    let mod := tick || (evaluated && d.out.isSome && out.isNone)
    let rec_ := if tick then showOut out else "-"
    let tail := s!" n={n} comb={combinerCount tree} ngc={nestedGraphCount tree}"
    ({ d with lst := lst, gst := gst, tsd := tsd, src := src2, zeroVal := zeroVal, collTicked := collTicked,
              cycle := d.cycle + 1, out := out, tail := tail },
     s!"rec={rec_} out={showOut out} mod={b2s mod}{tail}{showEvals cfg evs}")

def parseCfg (k c z : String) : Option Cfg := do
  let (kind, size) ←
    if k == "tsd" || k == "dtsl" then some (k, 0)
    else if k.startsWith "tsl" then
      match (k.drop 3).toNat? with
      | some n => if 1 ≤ n && n ≤ 64 then some ("tsl", n) else none
      | none => none
    else none
  let comb ← if c == "add" || c == "graph" || c == "node" || c == "max" then some c else none
  let zero ← if z == "none" then some ZeroCfg.none else if z == "ts" then some ZeroCfg.ts
             else (z.toInt?).map ZeroCfg.const
  pure { kind := kind, size := size, comb := comb, zero := zero }

def step (d : DS) (ws : List String) : DS × String :=
  match ws with
  | ["case", n] => ({}, s!"case {n}")
  | ["cfg", k, c, z] =>
    match parseCfg k c z with
    | some cfg => ({ cfg := cfg }, "ok")
    | none => ({ cfg := d.cfg, bad := true }, "bad-op")
  | "c" :: rest =>
    match parseOps rest with
    | some ops => cycleStep d ops
    | none => (reset d, "bad-op")
  | ["run"] =>
    if d.bad then (reset d, "err:invalid-argument")
    else if unresolvable d.cfg then (reset d, "err:resolution")
    else (reset d, s!"end out={showOut d.out}{d.tail}")
  | [] => (reset d, "")
  | _ => (reset d, "bad-op")

def main : IO Unit := run ({} : DS) step
