import HgVerif.Model.Reduce
import HgVerif.Model.ReduceInc
import HgVerif.Model.ReduceKeyed
import HgVerif.Model.Slots
import HgVerif.Driver.Proto
/-! Model driver for C11: same line protocol as `harness/drv_reduce.cpp`.

One evaluation of the reduce node is `ReduceInc.cycleL` (operator combiners `add` / `max`: lifted
kernel) or `ReduceInc.cycleG` (`node` / `graph`: a combiner child graph) — the definitions the theorems
of `Props/C11Inc.lean` are about; their structural part is `Reduce.evalStructure`
(`Props/C11.lean`).  The published value is the cached root (`rootVal`), `ev=` the operand pairs of
the combiner evaluations of the cycle (what the logging node combiner of the harness records).  The
driver adds only the bookkeeping of the surrounding graph: the replayed source collection (for a TSD
the slot store of `Model/Slots.lean`, the C05 model, because the node visits removed / added /
modified keys in SLOT order), the zero input, and which cycles tick.

Kinds with the suffix `:s` (elements and result `TSS<Int>`, combiner set union) run
`ReduceKeyed.cycleK` — `cycleG` with `unionL` plus the keyed publication (`beginKeyed` / `finishPub`) the
theorems of `Props/C11Keyed.lean` are about; the line shows the published DELTA (`rec=`) and value. -/
open HgVerif.Reduce HgVerif.ReduceInc HgVerif.ReduceKeyed HgVerif.Driver

inductive ZeroCfg where
  | none | ts | const (v : Int)

structure Cfg where
  kind : String := "tsd"      -- tsd | dtsl | tsl
  elem : String := "i"        -- i: TS<Int>; s: TSS<Int> (keyed result); d: TSD<Int,TS<Int>> (not modelled)
  zeroSet : List Int := []    -- the scalar zero of a :s kind
  size : Nat := 0
  comb : String := "add"
  zero : ZeroCfg := .none

structure DS where
  cfg : Cfg := {}
  bad : Bool := false
  lst : LSt Int Int := {}
  gst : GSt Int Int := {}
  tsd : HgVerif.Slots.TSD := {}
  src : List (Int × Int) := []
  zeroVal : Option Int := none
  collTicked : Bool := false
  cycle : Nat := 0
  out : Option Int := none
  tail : String := " n=- comb=- ngc=-"
  -- keyed kinds
  kst : KSt Int Int := {}
  ksrc : List (Int × List Int) := []
  kzero : Option (List Int) := none
  kout : String := "none"

def combFn (c : String) : Int → Int → Int :=
  match c with
  | "node" => fun a b => a + b + 100
  | "max" => fun a b => if a < b then b else a
  | _ => fun a b => a + b

def srcGet (src : List (Int × Int)) (k : Int) : Option Int := (src.find? (·.1 == k)).map (·.2)
def srcSet (src : List (Int × Int)) (k v : Int) : List (Int × Int) := src.filter (·.1 != k) ++ [(k, v)]
def srcDel (src : List (Int × Int)) (k : Int) : List (Int × Int) := src.filter (·.1 != k)

inductive Op where
  | set (k v : Int) | del (k : Int) | tick | z (v : Int)
  | kset (k : Int) (v : List Int) | kz (v : List Int)

/-- ascending, duplicate-free -/
def insertUniq (x : Int) : List Int → List Int
  | [] => [x]
  | y :: ys => if x < y then x :: y :: ys else if x == y then y :: ys else y :: insertUniq x ys
def canonSet (l : List Int) : List Int := l.foldl (fun acc x => insertUniq x acc) []

/-- "1,2,3" | "-" -/
def parseSetTok (t : String) : Option (List Int) :=
  if t == "-" then some []
  else (t.splitOn ",").foldl (fun acc w => do let a ← acc; let v ← w.toInt?; pure (a ++ [v])) (some []) |>.map canonSet

def parseKOps : List String → Option (List Op)
  | [] => some []
  | "set" :: k :: v :: rest => do
      let k ← k.toInt?; let v ← parseSetTok v; let r ← parseKOps rest; pure (.kset k v :: r)
  | "del" :: k :: rest => do let k ← k.toInt?; let r ← parseKOps rest; pure (.del k :: r)
  | "z" :: v :: rest => do let v ← parseSetTok v; let r ← parseKOps rest; pure (.kz v :: r)
  | "tick" :: rest => do let r ← parseKOps rest; pure (.tick :: r)
  | _ => none

def showSet (l : List Int) : String := "[" ++ ",".intercalate ((canonSet l).map toString) ++ "]"

def parseOps : List String → Option (List Op)
  | [] => some []
  | "set" :: k :: v :: rest => do
      let k ← k.toInt?; let v ← v.toInt?; let r ← parseOps rest; pure (.set k v :: r)
  | "del" :: k :: rest => do let k ← k.toInt?; let r ← parseOps rest; pure (.del k :: r)
  | "z" :: v :: rest => do let v ← v.toInt?; let r ← parseOps rest; pure (.z v :: r)
  | "tick" :: rest => do let r ← parseOps rest; pure (.tick :: r)
  | _ => none

def hasZero (c : Cfg) : Bool := match c.zero with | .none => false | _ => true
def isList (c : Cfg) : Bool := c.kind != "tsd"
/-- fixed TSL + lifted scalar kernel + no zero -> `reduce_lifted_tsl` (one node, no tree) -/
def liftedPath (c : Cfg) : Bool :=
  c.kind == "tsl" && !hasZero c && (c.comb == "add" || c.comb == "max")
/-- fixed TSL has no live-time-series-zero overload -/
def unresolvable (c : Cfg) : Bool := c.kind == "tsl" && (match c.zero with | .ts => true | _ => false)

def showOut (o : Option Int) : String := match o with | some v => toString v | none => "none"

def reset (d : DS) : DS := { cfg := d.cfg, bad := d.bad }

/-- combiner child graph (`node`, `graph`) or lifted scalar kernel (`add`, `max`) -/
def genericPath (c : Cfg) : Bool := c.comb == "node" || c.comb == "graph"

def insertSorted (x : Int × Int) : List (Int × Int) → List (Int × Int)
  | [] => [x]
  | y :: ys => if x.1 < y.1 || (x.1 == y.1 && x.2 ≤ y.2) then x :: y :: ys else y :: insertSorted x ys

def showEvals (c : Cfg) (evs : List (Int × Int)) : String :=
  if c.comb != "node" then " ev=-"
  else
    let sorted := evs.foldl (fun acc e => insertSorted e acc) []
    " ev=[" ++ ",".intercalate (sorted.map fun e => s!"{e.1}:{e.2}") ++ "]"

def insertKeySorted (x : Int) : List Int → List Int
  | [] => [x]
  | y :: ys => if x ≤ y then x :: y :: ys else y :: insertKeySorted x ys

def cycleStep (d : DS) (ops : List Op) : DS × String :=
  if d.bad then (d, "err:invalid-argument") else
  if unresolvable d.cfg then (d, "err:resolution") else
  let cfg := d.cfg
  let list := isList cfg
  let f := combFn cfg.comb
  -- what ticks this cycle
  let sets := ops.filterMap fun o => match o with | .set k v => some (k, v) | _ => none
  let dels := if list then [] else ops.filterMap fun o => match o with | .del k => some k | _ => none
  let effectiveDel := dels.any fun k => (srcGet d.src k).isSome
  -- an empty delta (`tick`, removal of a key that is not live) does not tick the replayed collection
  let collTick := !sets.isEmpty || effectiveDel
  let zTick := match cfg.zero with
    | .ts => ops.any fun o => match o with | .z _ => true | _ => false
    | .const _ => d.cycle == 0
    | .none => false
  let zeroVal := match cfg.zero with
    | .ts => ops.foldl (fun acc o => match o with | .z v => some v | _ => acc) d.zeroVal
    | .const v => some v
    | .none => none
  let src1 := dels.foldl srcDel d.src
  let src2 := sets.foldl (fun s kv => srcSet s kv.1 kv.2) src1
  let evaluated := collTick || zTick
  let hz := hasZero cfg
  if liftedPath cfg then
    let items := (List.range cfg.size).map fun i => srcGet src2 (Int.ofNat i)
    let out := if collTick then liftedTslEval f items else d.out
    let tick := collTick && out.isSome
    let rec_ := if tick then showOut out else "-"
    let tail := " n=- comb=- ngc=-"
    ({ d with src := src2, zeroVal := zeroVal, collTicked := d.collTicked || collTick, cycle := d.cycle + 1,
              out := out, tail := tail },
     s!"rec={rec_} out={showOut out} mod={b2s tick}{tail} ev=-")
  else
    let collTicked := d.collTicked || collTick
    let available := list || collTicked
    let now := d.cycle + 1
    -- the replayed collection: `apply_delta_tsd` erases the removed keys, then writes the modified items in
    -- the order of the delta's map (ascending key), then touches; a TSL writes the modified indices
    let setKeys := (sets.map (·.1)).foldl (fun acc k => if acc.contains k then acc else insertKeySorted k acc) []
    let tsd := if list || !collTick then d.tsd else
      let t1 := dels.foldl (fun x k => (x.erase now k).1) d.tsd
      let t2 := setKeys.foldl (fun x k => x.set now k ((srcGet src2 k).getD 0)) t1
      t2.touchOp now
    let primed := if genericPath cfg then d.gst.tree.primed else d.lst.tree.primed
    -- removed / added / modified keys in slot order; a full reconcile sees every valid element
    let removed := if list || !collTick then [] else tsd.removedAt now
    let modifiedKeys := if !collTick then [] else if list then setKeys else (tsd.modifiedItemsAt now).map (·.1)
    let addedKeys := if list || !collTick then [] else tsd.addedAt now
    let allValid := if list then (src2.map (·.1)).foldl (fun acc k => insertKeySorted k acc) [] else tsd.validKeys
    let present := if !primed then allValid else addedKeys ++ modifiedKeys
    let inp : CycleIn Int Int :=
      { now := now, available := available, collEvent := collTick, zeroEvent := zTick, removed := removed,
        present := present, ticked := modifiedKeys, src := srcGet src2, zero := zeroVal }
    let (lst, gst, tree, out, evs) :=
      if !evaluated then
        let tree := if genericPath cfg then d.gst.tree else d.lst.tree
        let st : LSt Int Int := if genericPath cfg then d.gst.toL else d.lst
        (d.lst, d.gst, tree, (if tree.published then rootVal hz zeroVal (srcGet src2) st else none), [])
      else if genericPath cfg then
        let r := cycleG f hz d.gst inp
        (d.lst, r.st, r.st.tree, r.out, r.evals)
      else
        let r := cycleL f hz d.lst inp
        (r.st, d.gst, r.st.tree, r.out, [])
    let n := tree.keys.length
    let tick := evaluated && out.isSome && (!sets.isEmpty || effectiveDel || (zTick && n ≤ 1))
    let mod := tick || (evaluated && d.out.isSome && out.isNone)
    let rec_ := if tick then showOut out else "-"
    let tail := s!" n={n} comb={combinerCount tree} ngc={nestedGraphCount tree}"
    ({ d with lst := lst, gst := gst, tsd := tsd, src := src2, zeroVal := zeroVal, collTicked := collTicked,
              cycle := d.cycle + 1, out := out, tail := tail },
     s!"rec={rec_} out={showOut out} mod={b2s mod}{tail}{showEvals cfg evs}")

def ksrcGet (src : List (Int × List Int)) (k : Int) : Option (List Int) := (src.find? (·.1 == k)).map (·.2)
def ksrcSet (src : List (Int × List Int)) (k : Int) (v : List Int) : List (Int × List Int) :=
  src.filter (·.1 != k) ++ [(k, v)]

/-- one engine cycle of a `:s` kind -/
def kcycleStep (d : DS) (ops : List Op) : DS × String :=
  if d.bad then (d, "err:invalid-argument") else
  if d.cfg.kind == "tsl" && (match d.cfg.zero with | .ts => true | _ => false) then (d, "err:resolution") else
  if d.cfg.elem != "s" then (d, "err:unmodelled") else
  let cfg := d.cfg
  let list := cfg.kind != "tsd"
  let sets := ops.filterMap fun o => match o with | .kset k v => some (k, v) | _ => none
  let dels := if list then [] else ops.filterMap fun o => match o with | .del k => some k | _ => none
  let effectiveDel := dels.any fun k => (ksrcGet d.ksrc k).isSome
  -- a list element replayed with an empty set delta ticks nothing; a TSD ticks on every applied delta
  let collTick := if list then sets.any (fun kv => ksrcGet d.ksrc kv.1 != some kv.2) else (!sets.isEmpty || effectiveDel)
  -- the live zero: a `z` op replays the difference to the zero's previous value
  let zNew := match cfg.zero with
    | .ts => ops.foldl (fun acc o => match o with | .kz v => some v | _ => acc) d.kzero
    | .const _ => some cfg.zeroSet
    | .none => none
  -- an empty set delta replayed into a VALID zero is no tick
  let zTick := match cfg.zero with
    | .ts => (ops.any fun o => match o with | .kz _ => true | _ => false) && zNew != d.kzero
    | .const _ => d.cycle == 0
    | .none => false
  let zOld := (d.kzero).getD []
  let zDelta := match zNew with | some v => (diffL v zOld, diffL zOld v) | none => ([], [])
  let src1 := dels.foldl (fun s k => s.filter (·.1 != k)) d.ksrc
  let src2 := sets.foldl (fun s kv => ksrcSet s kv.1 kv.2) src1
  -- the element of a key ticks when it is new or its value changes (an empty element delta is no tick)
  let changedKeys := (sets.filter fun kv => ksrcGet d.ksrc kv.1 != ksrcGet src2 kv.1).map (·.1)
  let setKeys := changedKeys.foldl (fun acc k => if acc.contains k then acc else insertKeySorted k acc) []
  let hz := hasZero cfg
  let collTicked := d.collTicked || collTick
  let available := list || collTicked
  let now := d.cycle + 1
  let tsd := if list || !collTick then d.tsd else
    let t1 := dels.foldl (fun x k => (x.erase now k).1) d.tsd
    let t2 := setKeys.foldl (fun x k => x.set now k 0) t1
    t2.touchOp now
  let primed := d.kst.g.tree.primed
  let removed := if list || !collTick then [] else tsd.removedAt now
  let modifiedKeys := if !collTick then [] else if list then setKeys else (tsd.modifiedItemsAt now).map (·.1)
  let addedKeys := if list || !collTick then [] else tsd.addedAt now
  let allValid := if list then (src2.map (·.1)).foldl (fun acc k => insertKeySorted k acc) [] else tsd.validKeys
  let present := if !primed then allValid else addedKeys ++ modifiedKeys
  let inp : CycleIn Int (List Int) :=
    { now := now, available := available, collEvent := collTick, zeroEvent := zTick, removed := removed,
      present := present, ticked := modifiedKeys, src := ksrcGet src2, zero := zNew }
  let kin : KIn Int Int :=
    { inp := inp
      srcOld := ksrcGet d.ksrc
      elemDelta := fun k =>
        let o := (ksrcGet d.ksrc k).getD []
        let n := (ksrcGet src2 k).getD []
        (diffL n o, diffL o n)
      zeroDelta := zDelta }
  let r := if collTick || zTick then cycleK true hz d.kst kin else idleK hz d.kst kin
  let tree := r.st.g.tree
  let o := r.obs
  let rec_ := if o.valid && o.modified then "{added=" ++ showSet o.added ++ ";removed=" ++ showSet o.removed ++ "}" else "-"
  let out := if o.valid then showSet o.value else "none"
  let tail := s!" n={tree.keys.length} comb={combinerCount tree} ngc={nestedGraphCount tree}"
  ({ d with kst := r.st, ksrc := src2, kzero := zNew, tsd := tsd, collTicked := collTicked, cycle := d.cycle + 1,
            kout := out, tail := tail },
   s!"rec={rec_} out={out} mod={b2s o.modified}{tail} ev=-")

def parseCfg (k0 c z : String) : Option Cfg := do
  let (k, elem) ←
    if k0.endsWith ":s" then some (String.ofList (k0.toList.take (k0.length - 2)), "s")
    else if k0.endsWith ":d" then some (String.ofList (k0.toList.take (k0.length - 2)), "d")
    else some (k0, "i")
  let (kind, size) ←
    if k == "tsd" || k == "dtsl" then some (k, 0)
    else if k.startsWith "tsl" then
      match (k.drop 3).toNat? with
      | some n => if 1 ≤ n && n ≤ 64 && elem != "d" then some ("tsl", n) else none
      | none => none
    else none
  let comb ← if elem == "i" && (c == "add" || c == "graph" || c == "node" || c == "max") then some c
             else if elem != "i" && (c == "union" || c == "ugraph") then some c else none
  let (zero, zeroSet) ←
    if z == "none" then some (ZeroCfg.none, [])
    else if z == "ts" then some (ZeroCfg.ts, [])
    else if elem == "s" && z.startsWith "e" then
      (parseSetTok (if z.length > 1 then String.ofList (z.toList.drop 1) else "-")).map fun l => (ZeroCfg.const 0, l)
    else if elem == "i" then (z.toInt?).map fun v => (ZeroCfg.const v, [])
    else none
  pure { kind := kind, elem := elem, zeroSet := zeroSet, size := size, comb := comb, zero := zero }

def step (d : DS) (ws : List String) : DS × String :=
  match ws with
  | ["case", n] => ({}, s!"case {n}")
  | ["cfg", k, c, z] =>
    match parseCfg k c z with
    | some cfg => ({ cfg := cfg }, "ok")
    | none => ({ cfg := d.cfg, bad := true }, "bad-op")
  | "c" :: rest =>
    if d.cfg.elem != "i" then
      match parseKOps rest with
      | some ops => kcycleStep d ops
      | none => (reset d, "bad-op")
    else
    match parseOps rest with
    | some ops => cycleStep d ops
    | none => (reset d, "bad-op")
  | ["run"] =>
    if d.bad then (reset d, "err:invalid-argument")
    else if unresolvable d.cfg then (reset d, "err:resolution")
    else if d.cfg.elem == "d" then (reset d, "err:unmodelled")
    else if d.cfg.elem == "s" then (reset d, s!"end out={d.kout}{d.tail}")
    else (reset d, s!"end out={showOut d.out}{d.tail}")
  | [] => (reset d, "")
  | _ => (reset d, "bad-op")

def main : IO Unit := run ({} : DS) step
