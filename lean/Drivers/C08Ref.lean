import HgVerif.Model.FeedbackRef
import HgVerif.Driver.Proto
/-! Model driver for the REF-selected-producer stream of C08 (`fbshape-ref`): same line protocol as the `sel` / `swc`
    modes of `harness/drv_fbshape.cpp`.  Every `c` line is answered at once.

    The rule by which `evaluate_feedback_sink` obtains the delta it stores is the driver's first argument:
    `asbuilt` (default; in-place copy of `delta_value()` when it has a value, else `capture_delta`) or `difference`
    (the link-aware tick, after fix `fixes/c08_ref_feedback.patch`); `tools/props/c08shape.py` reads which of the two
    the source under test has. -/
open HgVerif.FeedbackShape HgVerif.FeedbackRef HgVerif.Driver

structure DS where
  shape : String := ""
  cfg : Cfg := {}
  npos : Nat := 0
  n : Nat := 0               -- accepted `c` lines
  st : St := {}

def natOfChars (cs : List Char) : Option Nat :=
  if cs.isEmpty || !cs.all Char.isDigit then none
  else some (cs.foldl (fun a c => a * 10 + (c.toNat - '0'.toNat)) 0)

def intOfChars : List Char → Option Int
  | '-' :: r => (natOfChars r).map (fun n => -(Int.ofNat n))
  | r => (natOfChars r).map Int.ofNat

inductive Tok where
  | set (p : Nat) (v : Int)
  | add (p : Nat)
  | rem (p : Nat)

def Tok.pos : Tok → Nat
  | .set p _ => p
  | .add p => p
  | .rem p => p

def parseTok (s : String) : Option Tok :=
  match s.toList with
  | '+' :: r => (natOfChars r).map Tok.add
  | '-' :: r => (natOfChars r).map Tok.rem
  | cs =>
    let l := cs.takeWhile (· != '=')
    let r := (cs.dropWhile (· != '=')).drop 1
    if l.length == cs.length then none else
    match natOfChars l, intOfChars r with
    | some p, some v => some (Tok.set p v)
    | _, _ => none

def tokOk (k : Kind) (npos : Nat) : Tok → Bool
  | .set p _ => (k == .fix && p < npos) || k == .dict
  | .add _ => k == .set
  | .rem _ => k == .set || k == .dict

def distinct : List Nat → Bool
  | [] => true
  | a :: r => !r.contains a && distinct r

def parseWrites (k : Kind) (npos : Nat) (text : String) : Option Delta :=
  let toks := (text.splitOn ",").map parseTok
  if toks.any (·.isNone) then none else
  let ts := toks.filterMap id
  if ts.isEmpty || !ts.all (tokOk k npos) || !distinct (ts.map Tok.pos) then none else
  some { mods := ts.filterMap (fun t => match t with
                                | .set p v => some (p, v)
                                | .add p => some (p, 0)
                                | .rem _ => none),
         rems := ts.filterMap (fun t => match t with
                                | .rem p => some p
                                | _ => none) }

def showDelta (k : Kind) (d : Delta) : String :=
  let ms := d.mods.map fun e => (e.1, if k == .set then s!"+{e.1}" else s!"{e.1}={e.2}")
  let rs := d.rems.map fun p => (p, s!"-{p}")
  let toks := (ms ++ rs).mergeSort (fun a b => a.1 ≤ b.1)
  "{" ++ ",".intercalate (toks.map (·.2)) ++ "}"

def showVal (k : Kind) (v : Val) : String :=
  if !v.valid then "invalid" else
  let toks := v.items.map fun e => if k == .set then s!"{e.1}" else s!"{e.1}={e.2}"
  "{" ++ ",".intercalate toks ++ "}"

/-- parts of a `c` line in the order `s=a|s=b`, `a=<writes>`, `b=<writes>` -/
def parseParts (k : Kind) (npos : Nat) : Nat → In → List String → Option In
  | _, acc, [] => some acc
  | stage, acc, t :: rest =>
    if t == "s=a" || t == "s=b" then
      if stage < 1 then parseParts k npos 1 { acc with sel := some (t == "s=a") } rest else none
    else
      match t.toList with
      | 'a' :: '=' :: r =>
        if stage < 2 && !r.isEmpty then
          match parseWrites k npos (String.ofList r) with
          | some d => parseParts k npos 2 { acc with a := some d } rest
          | none => none
        else none
      | 'b' :: '=' :: r =>
        if stage < 3 && !r.isEmpty then
          match parseWrites k npos (String.ofList r) with
          | some d => parseParts k npos 3 { acc with b := some d } rest
          | none => none
        else none
      | _ => none

def cycleLine (d : DS) (i : In) : DS × String :=
  let t := 1 + d.n
  -- `if_then_else` (not `switch_`) is evaluated once at the start time (its REF inputs are sampled at start): the engine
  -- runs a cycle at the start time even when the script is idle there
  let ran := runs t d.st i || (t == 1 && !d.cfg.sw)
  let r := step d.cfg t d.st i
  let d' := { d with n := d.n + 1, st := r.1 }
  if !ran then (d', s!"t={t} cyc=0 w=- r=- v=- pv=-") else
  let k := d.cfg.kind
  let (ws, pvs) := match r.2.w with
    | some x => (showDelta k x, showVal k r.2.pv)
    | none => ("-", "-")
  let (rs, vs) := match r.2.r with
    | some x => (showDelta k x, showVal k r.2.rv)
    | none => ("-", "-")
  (d', s!"t={t} cyc=1 w={ws} r={rs} v={vs} pv={pvs}")

def shapeInfo : String → Option (Kind × Nat × Bool)
  | "tss" => some (.set, 0, false)
  | "tsd" => some (.dict, 0, false)
  | "tsb2" => some (.fix, 2, true)
  | "tsl2" => some (.fix, 2, false)
  | _ => none

def step' (cap : Capture) (d : DS) (ws : List String) : DS × String :=
  match ws with
  | ["case", n] => ({}, s!"case {n}")
  | ["shape", s, mode] =>
    if d.shape != "" || d.n != 0 then (d, "bad-op") else
    match shapeInfo s with
    | none => (d, "bad-op")
    | some (k, np, bun) =>
      if mode == "sel" || (mode == "swc" && k != .fix) then
        ({ d with shape := s, cfg := { kind := k, bundle := bun, sw := mode == "swc", cap := cap }, npos := np }, "ok")
      else (d, "bad-op")
  | "c" :: rest =>
    if d.shape == "" || rest.isEmpty || rest.length > 3 then (d, "bad-op") else
    if rest == ["-"] then cycleLine d {} else
    match parseParts d.cfg.kind d.npos 0 {} rest with
    | some i => cycleLine d i
    | none => (d, "bad-op")
  | ["run"] =>
    if d.shape == "" || d.n == 0 then (d, "bad-op") else ({}, "ok extra=0")
  | [] => (d, "")
  | _ => (d, "bad-op")

def main (args : List String) : IO Unit :=
  run ({} : DS) (step' (if args.contains "difference" then .difference else .asBuilt))
