import HgVerif.Model.BodyKey
import HgVerif.Driver.Proto
/-!
Model driver for the body-key stream of C06: same line protocol as `harness/drv_bodykey.cpp`.

`run` wires the statements of the current statement order with `HgVerif.BodyKey.runB` (`Model/BodyKey.lean`): every
statement first imports its captured inputs (`captureIns`: `Wiring::capture_outer_source`, local index = position in the
capture table), then `Wiring::add_node` is asked with the key as coded (`SAttr`: kind, peered path, `boundary_arg` =
declared argument index or LOCAL capture index, `boundary_path`, `captured_boundary`, slot); every created node computes
from the sources it is wired to, captured boundary sources bound through the final capture table.  `ids` = the nodes the
value declarations denote, `nrec` = what every recorder (a sink) sees.

The inlined reference (`iids`, `irec`) is the same statement list wired into the parent: the sources are the outputs of
the parent's feed nodes (labels `$k` / `@k`), plain `InternKey.wireL` / `wireV` on `(slot, path)` attributes.

A port carries a stream: per engine cycle the value it ticked with.  A node ticks in a cycle iff one of its inputs ticks
and all of them are valid; f1 = a + k, g1 = 2a + k, f2 = 10a + b + k, g2 = 3a - b + k; a recorder sees its input.
-/
open HgVerif.Intern HgVerif.InternKey HgVerif.BodyKey HgVerif.Driver

abbrev Strm := List (Option Int)
abbrev Defn := String × Int
abbrev D := BDecl String Defn Nat

structure DS where
  haveBody : Bool := false
  haveIn : Bool := false
  ran : Bool := false
  sig : List Char := []
  caps : List Char := []
  hist : List Strm := []          -- per input channel
  pre : List Nat := []
  decls : List D := []              -- the current statement order
  used : List String := []
  values : List String := []

def isLabel (s : String) : Bool :=
  match s.toList with
  | [] => false
  | c :: r => s.length ≤ 12 && ('a' ≤ c && c ≤ 'z') &&
      r.all fun c => ('a' ≤ c && c ≤ 'z') || ('0' ≤ c && c ≤ '9') || c = '_'

/-- optional '-' then 1-6 digits -/
def toInt (s : String) : Option Int :=
  let (neg, ds) := match s.toList with | '-' :: r => (true, r) | cs => (false, cs)
  if ds.isEmpty || ds.length > 6 || !(ds.all fun c => '0' ≤ c && c ≤ '9') then none
  else
    let n : Nat := ds.foldl (fun acc c => acc * 10 + (c.toNat - '0'.toNat)) 0
    some (if neg then -(n : Int) else (n : Int))

def shapeOk (cs : List Char) (lo : Nat) : Bool := lo ≤ cs.length && cs.length ≤ 3 && cs.all fun c => c = 's' || c = 'l'

def sigs : List String := ["s", "l", "ss", "sl", "ls", "ll", "sss", "ssl", "sls", "lss"]

def width (c : Char) : Nat := if c = 's' then 1 else 2

/-- first channel of argument / captured port `k` of a shape -/
def baseOf (shape : List Char) (k : Nat) : Nat := ((shape.take k).map width).sum

def digit (c : Char) : Option Nat := if '0' ≤ c && c ≤ '2' then some (c.toNat - '0'.toNat) else none

/-- `$<k>[.<i>]` | `@<k>[.<i>]` | `<lbl>` -/
def parseSrc (d : DS) (t : String) : Option (Src String Nat) :=
  let boundary (shape : List Char) (mk : Nat → List Nat → Src String Nat) (rest : List Char) : Option (Src String Nat) :=
    match rest with
    | [c] => (digit c).bind fun k => if shape[k]? = some 's' then some (mk k []) else none
    | [c, '.', e] => (digit c).bind fun k =>
        if (e = '0' || e = '1') && shape[k]? = some 'l' then some (mk k [if e = '0' then 0 else 1]) else none
    | _ => none
  match t.toList with
  | '$' :: rest => boundary d.sig Src.arg rest
  | '@' :: rest => boundary d.caps Src.cap rest
  | _ => if d.values.contains t then some (Src.out t []) else none

/-- per channel `v,v,-,v` -/
def parseChan (t : String) : Option Strm :=
  let toks := t.splitOn ","
  let vs := toks.map fun x => if x = "-" then some (none : Option Int) else (toInt x).map some
  if vs.any (·.isNone) then none else
  let col := vs.filterMap id
  if col.isEmpty || col.length > 8 then none else some col

/-! ### streams -/

def cycles (d : DS) : Nat := (d.hist.head?.map (·.length)).getD 0

def lastBy (s : Strm) (t : Nat) : Option Int := ((s.take (t + 1)).reverse.findSome? id)

/-- a node: ticks iff an input ticks and all inputs are valid -/
def evalFn (T : Nat) (g : List Int → Int) (ins : List Strm) : Strm :=
  (List.range T).map fun t =>
    let cur := ins.map fun s => lastBy s t
    if (ins.any fun s => (s[t]?.join).isSome) && cur.all (·.isSome) then some (g (cur.map (·.getD 0))) else none

def fnOf (T : Nat) (f : Defn) (ins : List Strm) : Strm :=
  let k := f.2
  match f.1, ins with
  | "f1", [_] => evalFn T (fun v => v.headD 0 + k) ins
  | "g1", [_] => evalFn T (fun v => 2 * v.headD 0 + k) ins
  | "f2", [_, _] => evalFn T (fun v => 10 * v.headD 0 + (v.getD 1 0) + k) ins
  | "g2", [_, _] => evalFn T (fun v => 3 * v.headD 0 - (v.getD 1 0) + k) ins
  | "rec", [a] => a
  | _, _ => List.replicate T none

def chanOf (d : DS) (shape : List Char) (off k : Nat) (path : List Nat) : Strm :=
  (d.hist[off + baseOf shape k + path.headD 0]?).getD (List.replicate (cycles d) none)

/-- what the parent feeds into the declared arguments and publishes as captured ports -/
def feedsOf (d : DS) : Feeds Defn Nat Strm :=
  { fn := fnOf (cycles d),
    argV := fun k path => chanOf d d.sig 0 k path,
    capV := fun p path => chanOf d d.caps (baseOf d.sig d.sig.length) p path,
    none := List.replicate (cycles d) none }

/-! ### the inlined reference: the statements wired into the parent -/

abbrev IAttr := Nat × List Nat        -- slot, sub-path of the producer's output

def inlEntries : Nat → List (Src String Nat) → List (String × IAttr)
  | _, [] => []
  | n, .arg k path :: r => (s!"${k}", (n, path)) :: inlEntries (n + 1) r
  | n, .cap p path :: r => (s!"@{p}", (n, path)) :: inlEntries (n + 1) r
  | n, .out l path :: r => (l, (n, path)) :: inlEntries (n + 1) r

def inlProg (d : DS) : List (LDecl String Defn IAttr) :=
  (List.range d.sig.length).map (fun k => { lbl := s!"${k}", defn := ("arg-feed", (k : Int)), ins := [] }) ++
  (List.range d.caps.length).map (fun k => { lbl := s!"@{k}", defn := ("cap-feed", (k : Int)), ins := [] }) ++
  d.decls.map fun b => { lbl := b.lbl, defn := b.defn, ins := inlEntries 0 b.ins, sink := b.sink }

/-- a port of the parent carries one stream per leaf -/
def inlAlg (d : DS) (f : Defn) (ins : List (List Strm × IAttr)) : List Strm :=
  let leaves (shape : List Char) (off : Nat) (k : Nat) : List Strm :=
    (List.range (width (shape.getD k 's'))).map fun j => chanOf d shape off k [j]
  match f.1 with
  | "arg-feed" => leaves d.sig 0 f.2.toNat
  | "cap-feed" => leaves d.caps (baseOf d.sig d.sig.length) f.2.toNat
  | _ => [fnOf (cycles d) f (ins.map fun q => (q.1[q.2.2.headD 0]?).getD (List.replicate (cycles d) none))]

/-! ### output -/

def dense (ids : List (String × Nat)) : String :=
  let step (acc : List Nat × List String) (p : String × Nat) : List Nat × List String :=
    let i := acc.1.idxOf p.2
    if i < acc.1.length then (acc.1, acc.2 ++ [s!"{p.1}:{i}"]) else (acc.1 ++ [p.2], acc.2 ++ [s!"{p.1}:{acc.1.length}"])
  ",".intercalate (ids.foldl step ([], [])).2

def showStream (s : Strm) : String :=
  "/".intercalate (s.map fun v => match v with | some x => toString x | none => "-")

def showRecs (rows : List (String × Strm)) : String :=
  ";".intercalate ((rows.map fun r => r.1 ++ ":" ++ showStream r.2).mergeSort fun a b => decide (a ≤ b))

def runLine (d : DS) : String :=
  let valueLbls := (d.decls.filter (!·.sink)).map (·.lbl)
  -- nested: the body as a compiled child wiring
  let r := runB (feedsOf d) d.pre d.decls
  let ids := valueLbls.map fun l => (l, (get r.ls.env (some l)).getD 0)
  let nrec := (r.obs.filter (·.1.sink)).map fun e => (e.1.lbl.getD "?", e.2)
  -- inlined: the same statements in the parent wiring
  let ri := wireV (inlAlg d) [] ({} : VSt String Defn IAttr (List Strm)) (inlProg d)
  let iids := valueLbls.map fun l => (l, (get ri.ls.env l).getD 0)
  let irec := (ri.obs.filter (·.1.sink)).map fun e => (e.1.lbl, e.2.headD [])
  s!"ids={dense ids} iids={dense iids} nrec={showRecs nrec} irec={showRecs irec}"

def freshOrder (d : DS) : DS := { d with pre := [], decls := [], used := [], values := [], ran := false }

def stepLine (d : DS) (ws : List String) : DS × String :=
  match ws with
  | [] => (d, "")
  | ["case", n] => ({}, s!"case {n}")
  | "body" :: rest =>
    match rest with
    | [sig, caps] =>
      if d.haveBody then (d, "bad-op") else
      let cs := if caps = "-" then [] else caps.toList
      if !sigs.contains sig || !(cs.isEmpty || shapeOk cs 1) || caps = "" then (d, "bad-op")
      else ({ d with haveBody := true, sig := sig.toList, caps := cs }, "ok")
    | _ => (d, "bad-op")
  | "in" :: toks =>
    if !d.haveBody || d.haveIn then (d, "bad-op") else
    let chans := ((d.sig ++ d.caps).map width).sum
    if toks.length != chans then (d, "bad-op") else
    let cols := toks.map parseChan
    if cols.any (·.isNone) then (d, "bad-op") else
    let cols := cols.filterMap id
    match cols with
    | [] => (d, "bad-op")
    | c0 :: _ =>
      if cols.any (fun c => c.length != c0.length) then (d, "bad-op")
      else ({ d with haveIn := true, hist := cols }, "ok")
  | "pre" :: toks =>
    if !d.haveIn || d.ran || !d.decls.isEmpty || !d.pre.isEmpty || toks.isEmpty then (d, "bad-op") else
    let ks := toks.map fun t => match t.toList with
      | ['@', c] => (digit c).bind fun k => if k < d.caps.length then some k else none
      | _ => none
    if ks.any (·.isNone) then (d, "bad-op") else ({ d with pre := ks.filterMap id }, "ok")
  | "rec" :: rest =>
    if !d.haveIn || d.ran then (d, "bad-op") else
    match rest with
    | [lbl, src] =>
      if !isLabel lbl || d.used.contains lbl || d.decls.length ≥ 24 then (d, "bad-op") else
      match parseSrc d src with
      | some s => ({ d with used := lbl :: d.used,
                            decls := d.decls ++ [{ lbl := lbl, defn := ("rec", 0), ins := [s], sink := true }] }, "ok")
      | none => (d, "bad-op")
    | _ => (d, "bad-op")
  | "node" :: rest =>
    if !d.haveIn || d.ran then (d, "bad-op") else
    match rest with
    | lbl :: defn :: k :: srcs =>
      if srcs.isEmpty then (d, "bad-op") else
      let arity := if defn = "f1" || defn = "g1" then 1 else if defn = "f2" || defn = "g2" then 2 else 0
      match toInt k with
      | some k =>
        if arity = 0 || srcs.length != arity then (d, "bad-op") else
        if !isLabel lbl || d.used.contains lbl || d.decls.length ≥ 24 then (d, "bad-op") else
        let ps := srcs.map (parseSrc d)
        if ps.any (·.isNone) then (d, "bad-op") else
        ({ d with used := lbl :: d.used, values := lbl :: d.values,
                  decls := d.decls ++ [{ lbl := lbl, defn := (defn, k), ins := ps.filterMap id }] }, "ok")
      | none => (d, "bad-op")
    | _ => (d, "bad-op")
  | ["run"] => if !d.haveIn || d.ran then (d, "bad-op") else ({ d with ran := true }, runLine d)
  | ["reset"] => if !d.haveIn then (d, "bad-op") else (freshOrder d, "ok")
  | _ => (d, "bad-op")

def main : IO Unit := run ({} : DS) stepLine
