import HgVerif.Model.MapNodeRef
/-!
Helper lemmas for `Props/C10Ref.lean`.

The owned output dictionary keeps one delta window for all slots (`roll`), everything else is per slot.
`refCycle_slot`: after normalising with `roll now` (which changes nothing once any recording operation of
the cycle has happened) the slot of key `j` after a whole cycle is `slotCycle I j` of the (rolled) slot
before — a function of `j`'s OWN events only, in the order the map node produces them.  The property
theorems are then statements about one slot.
-/
namespace HgVerif.MapNodeRef

set_option linter.unusedSectionVars false

variable {κ ο : Type} [DecidableEq κ]

/-! ## slot-level operations -/

def clearS (s : Slot ο) : Slot ο := if s.live then { s with val := none } else s

def markS (now : Nat) (s : Slot ο) : Slot ο := if s.lm = now then s else recSlot { s with lm := now }

def bindS (now : Nat) (v : ο) (s : Slot ο) : Slot ο := if s.live then markS now { s with val := some v } else s

def applyS (now : Nat) (s : Slot ο) : RefOp ο → Slot ο
  | .clear => clearS s
  | .bind v => bindS now v s

def finalizeS (now : Nat) (s : Slot ο) : Slot ο :=
  if s.live && (s.lm != 0 && s.lm == now) then recSlot s else s

def evalS (now : Nat) (s : Slot ο) (ops : List (RefOp ο)) : Slot ο := finalizeS now (ops.foldl (applyS now) s)

def insertS (now : Nat) (s : Slot ο) : Slot ο :=
  if s.live then s else
  let s1 : Slot ο := if s.removed then { s with live := true, removed := false, pub := true } else { live := true }
  if s1.pub && s1.lm == now then { s1 with modified := true } else s1

def removeS (s : Slot ο) : Slot ο :=
  if !s.live then s else
  if s.pub then
    if s.added then { s with live := false, val := none, modified := false, pub := false, added := false }
    else { s with live := false, val := none, modified := false, pub := false, removed := true }
  else { s with live := false, val := none, modified := false }

/-- everything that happens to the slot of key `j` in one cycle, in the map node's order -/
def slotCycle (I : RefIn κ ο) (j : κ) (s : Slot ο) : Slot ο :=
  let s1 := I.pre.foldl (fun s kv => if kv.1 = j then bindS I.now kv.2 s else s) s
  let s2 := I.removed.foldl (fun s k => if k = j then removeS s else s) s1
  let s3 := I.added.foldl (fun s k => if k = j then insertS I.now s else s) s2
  I.evals.foldl (fun s ko => if ko.1 = j then evalS I.now s ko.2 else s) s3

/-! ## roll -/

@[simp] theorem upd_slot (d : D κ ο) (k j : κ) (s : Slot ο) : (upd d k s).slot j = if j = k then s else d.slot j := rfl
@[simp] theorem upd_dt (d : D κ ο) (k : κ) (s : Slot ο) : (upd d k s).dt = d.dt := rfl

theorem rollSlot_idem (s : Slot ο) : rollSlot (rollSlot s) = rollSlot s := by
  unfold rollSlot; cases h : s.live <;> simp

theorem roll_of_le {now : Nat} {d : D κ ο} (h : now ≤ d.dt) : roll now d = d := by
  unfold roll; simp [h]

theorem roll_dt (now : Nat) (d : D κ ο) : (roll now d).dt = max d.dt now := by
  unfold roll; split
  · omega
  · show now = max d.dt now; omega

theorem roll_dt_ge (now : Nat) (d : D κ ο) : now ≤ (roll now d).dt := by rw [roll_dt]; omega

theorem roll_roll (now : Nat) (d : D κ ο) : roll now (roll now d) = roll now d := roll_of_le (roll_dt_ge now d)

theorem roll_slot (now : Nat) (d : D κ ο) (j : κ) :
    (roll now d).slot j = if now ≤ d.dt then d.slot j else rollSlot (d.slot j) := by
  unfold roll; split <;> rfl

/-- the slot as every recording operation of the cycle at `now` sees it -/
def nslot (now : Nat) (d : D κ ο) (j : κ) : Slot ο := (roll now d).slot j

theorem nslot_roll (now : Nat) (d : D κ ο) (j : κ) : nslot now (roll now d) j = nslot now d j := by
  unfold nslot; rw [roll_roll]

theorem nslot_of_le {now : Nat} {d : D κ ο} (h : now ≤ d.dt) (j : κ) : nslot now d j = d.slot j := by
  unfold nslot; rw [roll_of_le h]

theorem nslot_upd_of_le {now : Nat} {d : D κ ο} (h : now ≤ d.dt) (k j : κ) (s : Slot ο) :
    nslot now (upd d k s) j = if j = k then s else nslot now d j := by
  rw [nslot_of_le (by simpa using h), nslot_of_le h]; rfl

/-- an un-rolled per-slot update of a LIVE slot commutes with the roll when the update commutes with `rollSlot` -/
theorem nslot_upd_comm (now : Nat) (d : D κ ο) (k j : κ) (f : Slot ο → Slot ο) (hl : (d.slot k).live = true)
    (hf : ∀ s : Slot ο, s.live = true → rollSlot (f s) = f (rollSlot s)) :
    nslot now (upd d k (f (d.slot k))) j = if j = k then f (nslot now d k) else nslot now d j := by
  unfold nslot
  rw [roll_slot, roll_slot, roll_slot]
  simp only [upd_dt, upd_slot]
  by_cases hjk : j = k
  · subst hjk; simp only [if_true]; split
    · rfl
    · exact hf _ hl
  · simp only [hjk, if_false]

theorem nslot_tm (now x : Nat) (d : D κ ο) (j : κ) : nslot now { d with tm := x } j = nslot now d j := by
  unfold nslot roll; split <;> rfl

theorem nslot_live (now : Nat) (d : D κ ο) (j : κ) : (nslot now d j).live = (d.slot j).live := by
  unfold nslot; rw [roll_slot]; split
  · rfl
  · unfold rollSlot; cases h : (d.slot j).live <;> simp

theorem nslot_lm_of_live (now : Nat) (d : D κ ο) (j : κ) (h : (d.slot j).live = true) :
    (nslot now d j).lm = (d.slot j).lm := by
  unfold nslot; rw [roll_slot]; split
  · rfl
  · unfold rollSlot; simp [h]

/-! ## every operation of the model acts on one slot of the normalised state -/

theorem notifyChild_nslot (now : Nat) (d : D κ ο) (k j : κ) :
    nslot now (notifyChild now d k) j =
      if j = k then (if (nslot now d k).live then recSlot (nslot now d k) else nslot now d k) else nslot now d j := by
  unfold notifyChild
  simp only
  rw [nslot_tm, nslot_live]
  cases hl : (d.slot k).live with
  | false =>
    simp only [Bool.false_eq_true, if_false]
    by_cases hjk : j = k
    · subst hjk; simp
    · simp [hjk]
  | true =>
    simp only [if_true]
    rw [nslot_upd_of_le (roll_dt_ge now d), nslot_roll]
    rfl

theorem markS_comm (now : Nat) (s : Slot ο) (h : s.live = true) :
    rollSlot ({ s with lm := now } : Slot ο) = { rollSlot s with lm := now } := by
  unfold rollSlot; simp [h]

theorem mark_nslot (now : Nat) (d : D κ ο) (k j : κ) (hl : (d.slot k).live = true) :
    nslot now (mark now d k) j = if j = k then markS now (nslot now d k) else nslot now d j := by
  unfold mark markS
  rw [nslot_lm_of_live now d k hl]
  by_cases hlm : (d.slot k).lm = now
  · simp only [hlm, if_true]
    by_cases hjk : j = k
    · subst hjk; simp
    · simp [hjk]
  · simp only [hlm, if_false]
    rw [notifyChild_nslot]
    have hc := nslot_upd_comm now d k k (fun s => { s with lm := now }) hl (fun s hs => markS_comm now s hs)
    have hcj := nslot_upd_comm now d k j (fun s => { s with lm := now }) hl (fun s hs => markS_comm now s hs)
    simp only at hc hcj
    rw [hc, hcj]
    by_cases hjk : j = k
    · subst hjk
      simp only [if_true]
      have : (nslot now d j).live = true := by rw [nslot_live]; exact hl
      simp [this]
    · simp [hjk]

theorem clearS_live {s : Slot ο} (h : s.live = true) : clearS s = { s with val := none } := by
  unfold clearS; simp [h]
theorem clearS_dead {s : Slot ο} (h : s.live = false) : clearS s = s := by
  unfold clearS; simp [h]
theorem bindS_live {now : Nat} {v : ο} {s : Slot ο} (h : s.live = true) :
    bindS now v s = markS now { s with val := some v } := by
  unfold bindS; simp [h]
theorem bindS_dead {now : Nat} {v : ο} {s : Slot ο} (h : s.live = false) : bindS now v s = s := by
  unfold bindS; simp [h]

theorem applyOp_nslot (now : Nat) (d : D κ ο) (k j : κ) (o : RefOp ο) :
    nslot now (applyOp now d k o) j = if j = k then applyS now (nslot now d k) o else nslot now d j := by
  have hnl := nslot_live now d k
  cases o with
  | clear =>
    simp only [applyOp, applyS]
    by_cases hl : (d.slot k).live = true
    · rw [if_pos hl]
      rw [hl] at hnl
      rw [clearS_live hnl]
      exact nslot_upd_comm now d k j (fun s => { s with val := none }) hl
        (fun s hs => by unfold rollSlot; simp [hs])
    · rw [if_neg hl]
      have hl' : (d.slot k).live = false := by simpa using hl
      rw [hl'] at hnl
      rw [clearS_dead hnl]
      by_cases hjk : j = k
      · subst hjk; simp
      · simp [hjk]
  | bind v =>
    simp only [applyOp, applyS]
    by_cases hl : (d.slot k).live = true
    · rw [if_pos hl]
      rw [hl] at hnl
      rw [bindS_live hnl]
      have hl' : ((upd d k { (d.slot k) with val := some v }).slot k).live = true := by simp [hl]
      rw [mark_nslot now _ k j hl']
      have hc := nslot_upd_comm now d k k (fun s => { s with val := some v }) hl
        (fun s hs => by unfold rollSlot; simp [hs])
      have hcj := nslot_upd_comm now d k j (fun s => { s with val := some v }) hl
        (fun s hs => by unfold rollSlot; simp [hs])
      rw [if_pos rfl] at hc
      by_cases hjk : j = k
      · subst hjk; simp only [↓reduceIte]; exact congrArg (markS now) hc
      · simp only [hjk, ↓reduceIte] at hcj ⊢; exact hcj
    · rw [if_neg hl]
      have hl' : (d.slot k).live = false := by simpa using hl
      rw [hl'] at hnl
      rw [bindS_dead hnl]
      by_cases hjk : j = k
      · subst hjk; simp
      · simp [hjk]

theorem finalize_nslot (now : Nat) (d : D κ ο) (k j : κ) :
    nslot now (finalize now d k) j = if j = k then finalizeS now (nslot now d k) else nslot now d j := by
  unfold finalize finalizeS
  simp only
  rw [nslot_live]
  cases hl : (d.slot k).live with
  | false =>
    simp only [Bool.false_and, Bool.false_eq_true, if_false]
    by_cases hjk : j = k
    · subst hjk; simp
    · simp [hjk]
  | true =>
    rw [nslot_lm_of_live now d k hl]
    simp only [Bool.true_and]
    by_cases hc : ((d.slot k).lm != 0 && (d.slot k).lm == now) = true
    · simp only [hc, if_true]
      rw [notifyChild_nslot]
      have : (nslot now d k).live = true := by rw [nslot_live]; exact hl
      simp [this]
    · simp only [hc]
      by_cases hjk : j = k
      · subst hjk; simp
      · simp [hjk]

theorem insertKey_nslot (now : Nat) (d : D κ ο) (k j : κ) :
    nslot now (insertKey now d k) j = if j = k then insertS now (nslot now d k) else nslot now d j := by
  unfold insertKey insertS
  simp only
  show nslot now (if (nslot now d k).live = true then roll now d else _) j = _
  cases hl : (nslot now d k).live with
  | true =>
    simp only [if_true]
    rw [nslot_roll]
    by_cases hjk : j = k
    · subst hjk; simp
    · simp [hjk]
  | false =>
    simp only [Bool.false_eq_true, if_false]
    rw [nslot_tm, nslot_upd_of_le (roll_dt_ge now d), nslot_roll]
    rfl

theorem removeKey_nslot (now : Nat) (d : D κ ο) (k j : κ) :
    nslot now (removeKey now d k) j = if j = k then removeS (nslot now d k) else nslot now d j := by
  unfold removeKey removeS
  simp only
  show nslot now (if (!(nslot now d k).live) = true then roll now d else _) j = _
  cases hl : (nslot now d k).live with
  | false =>
    simp only [Bool.not_false, if_true]
    rw [nslot_roll]
    by_cases hjk : j = k
    · subst hjk; simp
    · simp [hjk]
  | true =>
    simp only [Bool.not_true, Bool.false_eq_true, if_false]
    rw [nslot_tm, nslot_upd_of_le (roll_dt_ge now d), nslot_roll]
    rfl

theorem foldl_const {α β : Type} (l : List α) (a : β) : l.foldl (fun s _ => s) a = a := by
  induction l with
  | nil => rfl
  | cons x xs ih => simpa using ih

theorem foldl_nslot {α : Type} (now : Nat) (j : κ) (F : D κ ο → α → D κ ο) (G : Slot ο → α → Slot ο)
    (h : ∀ d x, nslot now (F d x) j = G (nslot now d j) x) (l : List α) (d : D κ ο) :
    nslot now (l.foldl F d) j = l.foldl G (nslot now d j) := by
  induction l generalizing d with
  | nil => rfl
  | cons x xs ih => simp only [List.foldl_cons]; rw [ih, h]

theorem evalKey_nslot (now : Nat) (d : D κ ο) (ko : κ × List (RefOp ο)) (j : κ) :
    nslot now (evalKey now d ko) j = if ko.1 = j then evalS now (nslot now d j) ko.2 else nslot now d j := by
  unfold evalKey evalS
  rw [finalize_nslot]
  by_cases hjk : j = ko.1
  · subst hjk
    simp only [if_true]
    rw [foldl_nslot now ko.1 (fun d o => applyOp now d ko.1 o) (applyS now)]
    intro d x; rw [applyOp_nslot]; simp
  · have hkj : ¬ ko.1 = j := fun h => hjk h.symm
    simp only [hjk, hkj, if_false]
    rw [foldl_nslot now j (fun d o => applyOp now d ko.1 o) (fun s _ => s)]
    · exact foldl_const _ _
    · intro d x; rw [applyOp_nslot]; simp [hjk]

/-- the slot of key `j` after a whole cycle depends on `j`'s own events only -/
theorem refCycle_slot (I : RefIn κ ο) (d : D κ ο) (j : κ) :
    nslot I.now (refCycle I d) j = slotCycle I j (nslot I.now d j) := by
  unfold refCycle slotCycle
  simp only
  rw [foldl_nslot I.now j (evalKey I.now) (fun s ko => if ko.1 = j then evalS I.now s ko.2 else s)
        (fun d x => evalKey_nslot I.now d x j),
      foldl_nslot I.now j (insertKey I.now) (fun s k => if k = j then insertS I.now s else s)
        (fun d x => by rw [insertKey_nslot]; by_cases h : j = x <;> simp [h, eq_comm]),
      foldl_nslot I.now j (removeKey I.now) (fun s k => if k = j then removeS s else s)
        (fun d x => by rw [removeKey_nslot]; by_cases h : j = x <;> simp [h, eq_comm]),
      foldl_nslot I.now j (fun (d : D κ ο) (kv : κ × ο) => applyOp I.now d kv.1 (RefOp.bind kv.2))
        (fun (s : Slot ο) (kv : κ × ο) => if kv.1 = j then bindS I.now kv.2 s else s)
        (fun d x => by rw [applyOp_nslot]; by_cases h : j = x.1 <;> simp [h, eq_comm, applyS])]

end HgVerif.MapNodeRef

namespace HgVerif.MapNodeRef

set_option linter.unusedSectionVars false
set_option linter.unusedSimpArgs false

variable {κ ο : Type} [DecidableEq κ]

/-! ## one slot -/

/-- the published bit says exactly "live and the element has a current value" -/
def tracksS (s : Slot ο) : Prop := s.pub = (s.live && s.val.isSome)

/-- the delta bits are the net change of the published bit since the window opened (`p0`) -/
def bitsS (p0 : Bool) (s : Slot ο) : Prop := s.removed = (p0 && !s.pub) ∧ s.added = (!p0 && s.pub)

@[simp] theorem recSlot_live (s : Slot ο) : (recSlot s).live = s.live := by
  unfold recSlot; split <;> split <;> (try split) <;> rfl
@[simp] theorem recSlot_lm (s : Slot ο) : (recSlot s).lm = s.lm := by
  unfold recSlot; split <;> split <;> (try split) <;> rfl
@[simp] theorem recSlot_val (s : Slot ο) : (recSlot s).val = s.val := by
  unfold recSlot; split <;> split <;> (try split) <;> rfl
theorem recSlot_pub (s : Slot ο) : (recSlot s).pub = s.val.isSome := by
  unfold recSlot
  cases hv : s.val <;> cases hp : s.pub <;> cases ha : s.added <;> cases hr : s.removed <;> simp
theorem recSlot_modified (s : Slot ο) : (recSlot s).modified = s.val.isSome := by
  unfold recSlot
  cases hv : s.val <;> cases hp : s.pub <;> cases ha : s.added <;> cases hr : s.removed <;> simp
theorem recSlot_bits (p0 : Bool) (s : Slot ο) (h : bitsS p0 s) : bitsS p0 (recSlot s) := by
  unfold bitsS at *
  unfold recSlot
  cases p0 <;> cases hv : s.val <;> cases hp : s.pub <;> cases ha : s.added <;> cases hr : s.removed <;> simp_all
theorem recSlot_tracks (s : Slot ο) (h : s.live = true) : tracksS (recSlot s) := by
  unfold tracksS; rw [recSlot_pub]; simp [h]


/-- the per-slot invariant of a cycle at `now`: `p0` — the slot was published when the delta window opened,
    `H1` — a source tick reached the live slot before the node ran, `R` — the key is removed in this cycle -/
structure Psi (now : Nat) (p0 : Bool) (H1 R : Prop) (s : Slot ο) : Prop where
  tr : tracksS s
  lm : s.lm ≤ now
  a : s.pub = true → s.lm = now ∨ p0 = true
  b : H1 → s.lm = now ∨ s.pub = false
  c : s.removed = true → s.live = true ∨ R
  bits : bitsS p0 s
  m : s.added = true → s.modified = true
  md : s.lm = now → s.live = true → s.modified = s.val.isSome

theorem Psi.mono {now : Nat} {p0 : Bool} {H1 H1' R : Prop} {s : Slot ο} (h : Psi now p0 H1 R s)
    (hb : H1' → s.lm = now ∨ s.pub = false) : Psi now p0 H1' R s :=
  ⟨h.tr, h.lm, h.a, hb, h.c, h.bits, h.m, h.md⟩

theorem recSlot_m (p0 : Bool) (s : Slot ο) (h : bitsS p0 s) : (recSlot s).added = true → (recSlot s).modified = true := by
  unfold bitsS at h
  unfold recSlot
  cases p0 <;> cases hv : s.val <;> cases hp : s.pub <;> cases ha : s.added <;> cases hr : s.removed <;> simp_all

theorem foldl_inv {α β : Type} (P : β → Prop) (f : β → α → β) (l : List α) (a : β) (h0 : P a)
    (hs : ∀ b x, x ∈ l → P b → P (f b x)) : P (l.foldl f a) := by
  induction l generalizing a with
  | nil => exact h0
  | cons x xs ih =>
    simp only [List.foldl_cons]
    exact ih _ (hs a x (List.mem_cons_self ..) h0) (fun b y hy hb => hs b y (List.mem_cons_of_mem _ hy) hb)

/-! ### `bindS` (a tick through the current route, or a sampled re-target / a write) -/

theorem bindS_live_eq (now : Nat) (v : ο) (s : Slot ο) : (bindS now v s).live = s.live := by
  unfold bindS markS
  by_cases hl : s.live = true
  · simp only [hl, if_true]; split
    · rfl
    · simp [hl]
  · simp [hl]

theorem bindS_lm (now : Nat) (v : ο) (s : Slot ο) (hl : s.live = true) : (bindS now v s).lm = now := by
  unfold bindS markS
  simp only [hl, if_true]; split
  · assumption
  · simp

theorem bindS_lm_keep (now : Nat) (v : ο) (s : Slot ο) (h : s.lm = now) : (bindS now v s).lm = now := by
  by_cases hl : s.live = true
  · exact bindS_lm now v s hl
  · unfold bindS; simp [hl, h]

theorem bindS_val (now : Nat) (v : ο) (s : Slot ο) (hl : s.live = true) : (bindS now v s).val = some v := by
  unfold bindS markS
  simp only [hl, if_true]; split
  · rfl
  · simp

/-- in the notification phase (no reference has been emptied yet in this cycle) -/
theorem bindS_Psi {now : Nat} {p0 : Bool} {R : Prop} {s : Slot ο} (v : ο) (h : Psi now p0 False R s)
    (hx : s.lm = now → s.live = true → s.pub = true) :
    Psi now p0 False R (bindS now v s) ∧
      ((bindS now v s).lm = now → (bindS now v s).live = true → (bindS now v s).pub = true) := by
  by_cases hl : s.live = true
  · rw [bindS_live hl]
    unfold markS
    by_cases hlm : s.lm = now
    · rw [if_pos (by exact hlm)]
      have hp := hx hlm hl
      refine ⟨⟨?_, ?_, ?_, ?_, ?_, ?_, ?_, ?_⟩, ?_⟩
      · show s.pub = (s.live && (some v).isSome); simp [hp, hl]
      · exact h.lm
      · intro _; left; exact hlm
      · intro hf; exact hf.elim
      · intro _; left; exact hl
      · exact h.bits
      · exact h.m
      · intro _ _
        show s.modified = (some v).isSome
        have h1 := h.md hlm hl
        have h2 := h.tr
        unfold tracksS at h2
        rw [hp, hl] at h2
        rw [h1]; simpa using h2.symm
      · intro _ _; exact hp
    · rw [if_neg (by exact hlm)]
      refine ⟨⟨?_, ?_, ?_, ?_, ?_, ?_, ?_, ?_⟩, ?_⟩
      · exact recSlot_tracks _ hl
      · rw [recSlot_lm]; exact Nat.le_refl _
      · intro _; left; rw [recSlot_lm]
      · intro hf; exact hf.elim
      · intro _; left; rw [recSlot_live]; exact hl
      · exact recSlot_bits p0 _ h.bits
      · intro _; rw [recSlot_modified]; rfl
      · intro _ _; rw [recSlot_modified, recSlot_val]
      · intro _ _; rw [recSlot_pub]; rfl
  · have hl' : s.live = false := by simpa using hl
    rw [bindS_dead hl']; exact ⟨h, hx⟩

/-! ### `removeS`, `insertS` -/

theorem removeS_Psi {now : Nat} {p0 : Bool} {H1 R : Prop} {s : Slot ο} (h : Psi now p0 H1 R s) (hR : R) :
    Psi now p0 H1 R (removeS s) := by
  obtain ⟨htr, hlm, ha, hb, hc, hbits, hm, hmd⟩ := h
  obtain ⟨live, val, lm, pub, added, removed, modified⟩ := s
  unfold tracksS at htr
  unfold bitsS at hbits
  simp only at htr hlm ha hb hc hbits hm hmd
  unfold removeS
  cases live with
  | false => exact ⟨htr, hlm, ha, hb, hc, hbits, hm, hmd⟩
  | true =>
    cases pub with
    | false =>
      refine ⟨?_, hlm, ?_, ?_, ?_, ?_, ?_, ?_⟩
      · show false = (false && _); rfl
      · intro hq; cases hq
      · intro _; right; rfl
      · intro _; right; exact hR
      · exact hbits
      · intro hq
        have : added = false := by have := hbits.2; simpa using this
        rw [this] at hq; cases hq
      · intro _ hq; cases hq
    | true =>
      cases added with
      | true =>
        refine ⟨?_, hlm, ?_, ?_, ?_, ?_, ?_, ?_⟩
        · show false = (false && _); rfl
        · intro hq; cases hq
        · intro _; right; rfl
        · intro _; right; exact hR
        · show removed = (p0 && !false) ∧ false = (!p0 && false)
          revert hbits; cases p0 <;> cases removed <;> decide
        · intro hq; cases hq
        · intro _ hq; cases hq
      | false =>
        refine ⟨?_, hlm, ?_, ?_, ?_, ?_, ?_, ?_⟩
        · show false = (false && _); rfl
        · intro hq; cases hq
        · intro _; right; rfl
        · intro _; right; exact hR
        · show true = (p0 && !false) ∧ false = (!p0 && false)
          revert hbits; cases p0 <;> cases removed <;> decide
        · intro hq; cases hq
        · intro _ hq; cases hq

theorem insertS_Psi {now : Nat} {p0 : Bool} {H1 R : Prop} {s : Slot ο} (h0 : now ≠ 0) (h : Psi now p0 H1 R s) (hR : ¬ R) :
    Psi now p0 H1 R (insertS now s) := by
  by_cases hl : s.live = true
  · have : insertS now s = s := by unfold insertS; rw [if_pos hl]
    rw [this]; exact h
  · have hl' : s.live = false := by simpa using hl
    have hr : s.removed = false := by
      cases hr : s.removed with
      | false => rfl
      | true =>
        rcases h.c hr with h1 | h1
        · rw [hl'] at h1; cases h1
        · exact (hR h1).elim
    have hp : s.pub = false := by have := h.tr; unfold tracksS at this; simpa [hl'] using this
    have hb := h.bits
    unfold bitsS at hb
    rw [hr, hp] at hb
    have : insertS now s = { live := true } := by
      unfold insertS; rw [if_neg hl]; simp [hr]
    rw [this]
    refine ⟨?_, ?_, ?_, ?_, ?_, ?_, ?_, ?_⟩
    · show false = (true && (none : Option ο).isSome); rfl
    · exact Nat.zero_le _
    · intro hq; cases hq
    · intro _; right; rfl
    · intro hq; cases hq
    · show false = (p0 && !false) ∧ false = (!p0 && false)
      obtain ⟨h1, _⟩ := hb
      revert h1; cases p0 <;> decide
    · intro hq; cases hq
    · intro hq _; exact (h0 hq.symm).elim

/-! ### one child evaluation: the operations, then `finalize` -/

theorem applyS_dead (now : Nat) (s : Slot ο) (o : RefOp ο) (hl : s.live = false) : applyS now s o = s := by
  cases o with
  | clear => exact clearS_dead hl
  | bind v => exact bindS_dead hl

theorem applyS_live (now : Nat) (s : Slot ο) (o : RefOp ο) : (applyS now s o).live = s.live := by
  cases o with
  | clear =>
    show (clearS s).live = s.live
    unfold clearS; split <;> rfl
  | bind v => exact bindS_live_eq now v s

theorem foldl_applyS_dead (now : Nat) (s : Slot ο) (ops : List (RefOp ο)) (hl : s.live = false) :
    ops.foldl (applyS now) s = s := by
  induction ops with
  | nil => rfl
  | cons o os ih => simp only [List.foldl_cons]; rw [applyS_dead now s o hl]; exact ih

/-- what survives the operations of an evaluation whatever they are -/
structure Theta (now : Nat) (p0 : Bool) (s : Slot ο) : Prop where
  live : s.live = true
  lm : s.lm ≤ now
  bits : bitsS p0 s
  m : s.added = true → s.modified = true

theorem applyS_Theta {now : Nat} {p0 : Bool} {s : Slot ο} (o : RefOp ο) (h : Theta now p0 s) :
    Theta now p0 (applyS now s o) := by
  obtain ⟨hl, hlm, hb, hm⟩ := h
  cases o with
  | clear =>
    rw [show applyS now s .clear = clearS s from rfl, clearS_live hl]
    exact ⟨hl, hlm, hb, hm⟩
  | bind v =>
    rw [show applyS now s (.bind v) = bindS now v s from rfl]
    refine ⟨by rw [bindS_live_eq]; exact hl, by rw [bindS_lm now v s hl]; exact Nat.le_refl _, ?_, ?_⟩
    · rw [bindS_live hl]; unfold markS
      split
      · exact hb
      · exact recSlot_bits p0 _ hb
    · rw [bindS_live hl]; unfold markS
      split
      · exact hm
      · exact recSlot_m p0 _ hb

theorem foldl_applyS_lm (now : Nat) (ops : List (RefOp ο)) (s : Slot ο) (hl : s.live = true)
    (h : (∃ v, RefOp.bind v ∈ ops) ∨ s.lm = now) : (ops.foldl (applyS now) s).lm = now := by
  induction ops generalizing s with
  | nil =>
    rcases h with ⟨v, hv⟩ | h
    · cases hv
    · exact h
  | cons o os ih =>
    simp only [List.foldl_cons]
    apply ih _ (by rw [applyS_live]; exact hl)
    cases o with
    | bind w => right; exact bindS_lm now w s hl
    | clear =>
      rcases h with ⟨v, hv⟩ | h
      · left
        rcases List.mem_cons.mp hv with h1 | h1
        · cases h1
        · exact ⟨v, h1⟩
      · right
        rw [show applyS now s .clear = clearS s from rfl, clearS_live hl]; exact h

theorem foldl_applyS_clear (now : Nat) (ops : List (RefOp ο)) (s : Slot ο) (hl : s.live = true)
    (h : ∀ o ∈ ops, o = RefOp.clear) :
    ops.foldl (applyS now) s = if ops = [] then s else { s with val := none } := by
  induction ops generalizing s with
  | nil => rfl
  | cons o os ih =>
    have ho : o = RefOp.clear := h o (List.mem_cons_self ..)
    subst ho
    simp only [List.foldl_cons, List.cons_ne_nil, reduceCtorEq, if_false]
    rw [show applyS now s .clear = clearS s from rfl, clearS_live hl]
    rw [ih _ (by exact hl) (fun o ho => h o (List.mem_cons_of_mem _ ho))]
    split <;> rfl

theorem ops_clear_or_bind (ops : List (RefOp ο)) : (∀ o ∈ ops, o = RefOp.clear) ∨ (∃ v, RefOp.bind v ∈ ops) := by
  induction ops with
  | nil => left; intro o ho; cases ho
  | cons o os ih =>
    cases o with
    | bind v => right; exact ⟨v, List.mem_cons_self ..⟩
    | clear =>
      rcases ih with h | ⟨v, hv⟩
      · left; intro o ho
        rcases List.mem_cons.mp ho with h1 | h1
        · exact h1
        · exact h o h1
      · right; exact ⟨v, List.mem_cons_of_mem _ hv⟩

theorem finalizeS_fire (now : Nat) (s : Slot ο) (hl : s.live = true) (hlm : s.lm = now) (h0 : now ≠ 0) :
    finalizeS now s = recSlot s := by
  unfold finalizeS; simp [hl, hlm, h0]

theorem finalizeS_skip (now : Nat) (s : Slot ο) (h : s.live = false ∨ s.lm ≠ now) : finalizeS now s = s := by
  unfold finalizeS
  rcases h with h | h
  · simp [h]
  · simp [h]

/-- `evalS` keeps the slot invariant provided an evaluation that ONLY empties the reference of a slot that was
    published when the window opened happens in a cycle in which the element ticked before (`H1`) -/
theorem evalS_Psi {now : Nat} {p0 : Bool} {H1 R : Prop} {s : Slot ο} (ops : List (RefOp ο)) (h0 : now ≠ 0)
    (h : Psi now p0 H1 R s)
    (hloud : (∀ o ∈ ops, o = RefOp.clear) → ops ≠ [] → p0 = true → H1) :
    Psi now p0 H1 R (evalS now s ops) := by
  unfold evalS
  cases hl : s.live with
  | false =>
    rw [foldl_applyS_dead now s ops hl, finalizeS_skip now s (Or.inl hl)]; exact h
  | true =>
    have hth : Theta now p0 (ops.foldl (applyS now) s) :=
      foldl_inv (Theta now p0) (applyS now) ops s ⟨hl, h.lm, h.bits, h.m⟩ (fun b x _ hb => applyS_Theta x hb)
    by_cases hlm : (ops.foldl (applyS now) s).lm = now
    · rw [finalizeS_fire now _ hth.live hlm h0]
      refine ⟨recSlot_tracks _ hth.live, by simp [hlm], ?_, ?_, ?_, recSlot_bits p0 _ hth.bits,
              recSlot_m p0 _ hth.bits, ?_⟩
      · intro _; left; simp [hlm]
      · intro _; left; simp [hlm]
      · intro _; left; simp [hth.live]
      · intro _ _; rw [recSlot_modified, recSlot_val]
    · rw [finalizeS_skip now _ (Or.inr hlm)]
      rcases ops_clear_or_bind ops with hc | hb
      · have hne : s.lm ≠ now := fun he => hlm (foldl_applyS_lm now ops s hl (Or.inr he))
        rw [foldl_applyS_clear now ops s hl hc]
        by_cases hnil : ops = []
        · simp only [hnil, if_true]; exact h
        · simp only [hnil, if_false]
          have hp : s.pub = false := by
            cases hp : s.pub with
            | false => rfl
            | true =>
              rcases h.a hp with h1 | h1
              · exact (hne h1).elim
              · rcases h.b (hloud hc hnil h1) with h2 | h2
                · exact (hne h2).elim
                · rw [hp] at h2; cases h2
          refine ⟨?_, h.lm, ?_, h.b, h.c, h.bits, h.m, ?_⟩
          · unfold tracksS; simp [hp]
          · intro hq; simp [hp] at hq
          · intro hq _; exact (hne hq).elim
      · exact (hlm (foldl_applyS_lm now ops s hl (Or.inl hb))).elim


/-! ## one slot through a whole cycle -/

theorem pre_hit (now : Nat) (j : κ) (l : List (κ × ο)) (s : Slot ο) (hl : s.live = true)
    (h : (∃ v, (j, v) ∈ l) ∨ s.lm = now) :
    (l.foldl (fun s kv => if kv.1 = j then bindS now kv.2 s else s) s).lm = now := by
  induction l generalizing s with
  | nil =>
    rcases h with ⟨v, hv⟩ | h
    · cases hv
    · exact h
  | cons x xs ih =>
    simp only [List.foldl_cons]
    by_cases hx : x.1 = j
    · rw [if_pos hx]
      exact ih _ (by rw [bindS_live_eq]; exact hl) (Or.inr (bindS_lm now x.2 s hl))
    · rw [if_neg hx]
      apply ih _ hl
      rcases h with ⟨v, hv⟩ | h
      · rcases List.mem_cons.mp hv with h1 | h1
        · exact (hx (by rw [← h1])).elim
        · exact Or.inl ⟨v, h1⟩
      · exact Or.inr h

theorem pre_live (now : Nat) (j : κ) (l : List (κ × ο)) (s : Slot ο) :
    (l.foldl (fun s kv => if kv.1 = j then bindS now kv.2 s else s) s).live = s.live := by
  induction l generalizing s with
  | nil => rfl
  | cons x xs ih =>
    simp only [List.foldl_cons]
    rw [ih]
    split
    · exact bindS_live_eq now x.2 s
    · rfl

/-- the slot invariant after everything that happens to key `j` in a cycle -/
theorem slotCycle_Psi (I : RefIn κ ο) (j : κ) (s : Slot ο) (h0 : I.now ≠ 0)
    (hs : tracksS s) (hlm : s.lm < I.now) (hrem : s.removed = false) (hadd : s.added = false)
    (hAR : j ∈ I.added → j ∉ I.removed)
    (hloud : ∀ ko ∈ I.evals, ko.1 = j → (∀ o ∈ ko.2, o = RefOp.clear) → ko.2 ≠ [] → s.pub = true →
      ∃ v, (j, v) ∈ I.pre) :
    Psi I.now s.pub ((∃ v, (j, v) ∈ I.pre) ∧ s.live = true) (j ∈ I.removed) (slotCycle I j s) := by
  unfold slotCycle
  simp only
  -- phase 1: notifications
  have hinit : Psi I.now s.pub False (j ∈ I.removed) s := by
    refine ⟨hs, Nat.le_of_lt hlm, fun hp => Or.inr hp, fun hf => hf.elim, ?_, ⟨?_, ?_⟩, ?_, ?_⟩
    · intro hr; rw [hrem] at hr; cases hr
    · rw [hrem]; cases s.pub <;> rfl
    · rw [hadd]; cases s.pub <;> rfl
    · intro ha; rw [hadd] at ha; cases ha
    · intro he; exact (Nat.ne_of_lt hlm he).elim
  have h1 : Psi I.now s.pub False (j ∈ I.removed)
        (I.pre.foldl (fun s kv => if kv.1 = j then bindS I.now kv.2 s else s) s) ∧ _ :=
    foldl_inv (fun s' => Psi I.now s.pub False (j ∈ I.removed) s' ∧ (s'.lm = I.now → s'.live = true → s'.pub = true))
      (fun s kv => if kv.1 = j then bindS I.now kv.2 s else s) I.pre s
      ⟨hinit, fun he => (Nat.ne_of_lt hlm he).elim⟩
      (fun b x _ hb => by
        by_cases hx : x.1 = j
        · rw [if_pos hx]; exact bindS_Psi x.2 hb.1 hb.2
        · rw [if_neg hx]; exact hb)
  have h1' := h1.1.mono (H1' := (∃ v, (j, v) ∈ I.pre) ∧ s.live = true)
    (fun hh => Or.inl (pre_hit I.now j I.pre s hh.2 (Or.inl hh.1)))
  -- phase 2: removals
  have h2 := foldl_inv (Psi I.now s.pub ((∃ v, (j, v) ∈ I.pre) ∧ s.live = true) (j ∈ I.removed))
    (fun s k => if k = j then removeS s else s) I.removed _ h1'
    (fun b x hx hb => by
      by_cases hxj : x = j
      · rw [if_pos hxj]; exact removeS_Psi hb (by rw [← hxj]; exact hx)
      · rw [if_neg hxj]; exact hb)
  -- phase 3: created entries
  have h3 := foldl_inv (Psi I.now s.pub ((∃ v, (j, v) ∈ I.pre) ∧ s.live = true) (j ∈ I.removed))
    (fun s k => if k = j then insertS I.now s else s) I.added _ h2
    (fun b x hx hb => by
      by_cases hxj : x = j
      · rw [if_pos hxj]; exact insertS_Psi h0 hb (hAR (by rw [← hxj]; exact hx))
      · rw [if_neg hxj]; exact hb)
  -- phase 4: child evaluations
  exact foldl_inv (Psi I.now s.pub ((∃ v, (j, v) ∈ I.pre) ∧ s.live = true) (j ∈ I.removed))
    (fun s ko => if ko.1 = j then evalS I.now s ko.2 else s) I.evals _ h3
    (fun b x hx hb => by
      by_cases hxj : x.1 = j
      · rw [if_pos hxj]
        refine evalS_Psi x.2 h0 hb (fun hc hne hp => ⟨hloud x hx hxj hc hne hp, ?_⟩)
        have := hs; unfold tracksS at this; rw [hp] at this
        cases hl : s.live with
        | true => rfl
        | false => rw [hl] at this; simp at this
      · rw [if_neg hxj]; exact hb)

/-- a key without any event in the cycle keeps its slot -/
theorem slotCycle_frame (I : RefIn κ ο) (j : κ) (s : Slot ο)
    (h1 : ∀ kv ∈ I.pre, kv.1 ≠ j) (h2 : j ∉ I.removed) (h3 : j ∉ I.added) (h4 : ∀ ko ∈ I.evals, ko.1 ≠ j) :
    slotCycle I j s = s := by
  unfold slotCycle
  simp only
  have e1 : I.pre.foldl (fun s kv => if kv.1 = j then bindS I.now kv.2 s else s) s = s :=
    foldl_inv (fun s' => s' = s) _ I.pre s rfl (fun b x hx hb => by rw [if_neg (h1 x hx)]; exact hb)
  have e2 : I.removed.foldl (fun s k => if k = j then removeS s else s) s = s :=
    foldl_inv (fun s' => s' = s) _ I.removed s rfl
      (fun b x hx hb => by rw [if_neg (fun h => h2 (by rw [← h]; exact hx))]; exact hb)
  have e3 : I.added.foldl (fun s k => if k = j then insertS I.now s else s) s = s :=
    foldl_inv (fun s' => s' = s) _ I.added s rfl
      (fun b x hx hb => by rw [if_neg (fun h => h3 (by rw [← h]; exact hx))]; exact hb)
  have e4 : I.evals.foldl (fun s ko => if ko.1 = j then evalS I.now s ko.2 else s) s = s :=
    foldl_inv (fun s' => s' = s) _ I.evals s rfl (fun b x hx hb => by rw [if_neg (h4 x hx)]; exact hb)
  rw [e1, e2, e3, e4]

/-! ## the delta window only moves forward to `now` -/

theorem notifyChild_dt (now : Nat) (d : D κ ο) (k : κ) : (notifyChild now d k).dt ≤ max d.dt now := by
  unfold notifyChild; simp only; split
  · show (roll now d).dt ≤ _; rw [roll_dt]; exact Nat.le_refl _
  · show d.dt ≤ _; omega

theorem mark_dt (now : Nat) (d : D κ ο) (k : κ) : (mark now d k).dt ≤ max d.dt now := by
  unfold mark; split
  · omega
  · exact notifyChild_dt now _ k

theorem applyOp_dt (now : Nat) (d : D κ ο) (k : κ) (o : RefOp ο) : (applyOp now d k o).dt ≤ max d.dt now := by
  cases o with
  | clear => simp only [applyOp]; split <;> (show d.dt ≤ _; omega)
  | bind v =>
    simp only [applyOp]; split
    · exact mark_dt now _ k
    · omega

theorem finalize_dt (now : Nat) (d : D κ ο) (k : κ) : (finalize now d k).dt ≤ max d.dt now := by
  unfold finalize; simp only; split
  · exact notifyChild_dt now d k
  · omega

theorem insertKey_dt (now : Nat) (d : D κ ο) (k : κ) : (insertKey now d k).dt ≤ max d.dt now := by
  unfold insertKey; simp only; split
  · rw [roll_dt]; exact Nat.le_refl _
  · show (roll now d).dt ≤ _; rw [roll_dt]; exact Nat.le_refl _

theorem removeKey_dt (now : Nat) (d : D κ ο) (k : κ) : (removeKey now d k).dt ≤ max d.dt now := by
  unfold removeKey; simp only; split
  · rw [roll_dt]; exact Nat.le_refl _
  · show (roll now d).dt ≤ _; rw [roll_dt]; exact Nat.le_refl _

theorem foldl_dt {α : Type} (now : Nat) (F : D κ ο → α → D κ ο) (hF : ∀ d x, (F d x).dt ≤ max d.dt now)
    (l : List α) (d : D κ ο) : (l.foldl F d).dt ≤ max d.dt now := by
  induction l generalizing d with
  | nil => show d.dt ≤ _; omega
  | cons x xs ih =>
    simp only [List.foldl_cons]
    have h1 := ih (F d x)
    have h2 := hF d x
    omega

theorem evalKey_dt (now : Nat) (d : D κ ο) (ko : κ × List (RefOp ο)) : (evalKey now d ko).dt ≤ max d.dt now := by
  unfold evalKey
  have h1 := finalize_dt now (ko.2.foldl (fun d o => applyOp now d ko.1 o) d) ko.1
  have h2 := foldl_dt now (fun d o => applyOp now d ko.1 o) (fun d x => applyOp_dt now d ko.1 x) ko.2 d
  omega

theorem refCycle_dt (I : RefIn κ ο) (d : D κ ο) : (refCycle I d).dt ≤ max d.dt I.now := by
  unfold refCycle
  simp only
  have h1 := foldl_dt I.now (fun (d : D κ ο) (kv : κ × ο) => applyOp I.now d kv.1 (RefOp.bind kv.2))
    (fun d x => applyOp_dt I.now d x.1 _) I.pre d
  have h2 := foldl_dt I.now (removeKey I.now) (fun d x => removeKey_dt I.now d x) I.removed
    (I.pre.foldl (fun (d : D κ ο) (kv : κ × ο) => applyOp I.now d kv.1 (RefOp.bind kv.2)) d)
  have h3 := foldl_dt I.now (insertKey I.now) (fun d x => insertKey_dt I.now d x) I.added
    (I.removed.foldl (removeKey I.now) (I.pre.foldl (fun (d : D κ ο) (kv : κ × ο) => applyOp I.now d kv.1 (RefOp.bind kv.2)) d))
  have h4 := foldl_dt I.now (evalKey I.now) (fun d x => evalKey_dt I.now d x) I.evals
    (I.added.foldl (insertKey I.now) (I.removed.foldl (removeKey I.now)
      (I.pre.foldl (fun (d : D κ ο) (kv : κ × ο) => applyOp I.now d kv.1 (RefOp.bind kv.2)) d)))
  omega

/-! ## observables through the normalised slot -/

theorem nslot_cases (now : Nat) (d : D κ ο) (j : κ) (h : d.dt ≤ now) :
    (d.dt = now ∧ nslot now d j = d.slot j) ∨ (d.dt < now ∧ nslot now d j = rollSlot (d.slot j)) := by
  unfold nslot; rw [roll_slot]
  by_cases h' : now ≤ d.dt
  · left; exact ⟨by omega, by rw [if_pos h']⟩
  · right; exact ⟨by omega, by rw [if_neg h']⟩

theorem rollSlot_live_fields (s : Slot ο) (h : s.live = true) :
    (rollSlot s).live = true ∧ (rollSlot s).val = s.val ∧ (rollSlot s).lm = s.lm ∧ (rollSlot s).pub = s.pub ∧
    (rollSlot s).added = false ∧ (rollSlot s).removed = false ∧ (rollSlot s).modified = false := by
  unfold rollSlot; simp [h]

theorem rollSlot_dead (s : Slot ο) (h : s.live = false) : rollSlot s = {} := by
  unfold rollSlot; simp [h]

theorem inOut_nslot (now : Nat) (d : D κ ο) (j : κ) :
    inOut d j = ((nslot now d j).live && (nslot now d j).pub) := by
  unfold inOut nslot; rw [roll_slot]; split
  · rfl
  · cases hl : (d.slot j).live with
    | true => obtain ⟨h1, _, _, h4, _⟩ := rollSlot_live_fields _ hl; rw [h1, h4]
    | false => rw [rollSlot_dead _ hl]; rfl

theorem val_nslot (now : Nat) (d : D κ ο) (j : κ) (hl : (d.slot j).live = true) :
    (nslot now d j).val = (d.slot j).val := by
  unfold nslot; rw [roll_slot]; split
  · rfl
  · exact (rollSlot_live_fields _ hl).2.1

theorem isRemoved_nslot (now : Nat) (d : D κ ο) (j : κ) (h : d.dt ≤ now) :
    isRemoved d now j = (nslot now d j).removed := by
  unfold isRemoved
  rcases nslot_cases now d j h with ⟨h1, h2⟩ | ⟨h1, h2⟩
  · rw [h2]; simp [h1]
  · rw [h2]
    have : (d.dt == now) = false := by simp; omega
    rw [this]
    cases hl : (d.slot j).live with
    | true => rw [(rollSlot_live_fields _ hl).2.2.2.2.2.1]; rfl
    | false => rw [rollSlot_dead _ hl]; rfl

theorem isAdded_nslot (now : Nat) (d : D κ ο) (j : κ) (h : d.dt ≤ now) :
    isAdded d now j = ((nslot now d j).live && (nslot now d j).added) := by
  unfold isAdded
  rcases nslot_cases now d j h with ⟨h1, h2⟩ | ⟨h1, h2⟩
  · rw [h2]; simp [h1]
  · rw [h2]
    have : (d.dt == now) = false := by simp; omega
    rw [this]
    cases hl : (d.slot j).live with
    | true => obtain ⟨_, _, _, _, h5, _⟩ := rollSlot_live_fields _ hl; rw [h5]; simp
    | false => rw [rollSlot_dead _ hl]; rfl

theorem modifiedVal_nslot (now : Nat) (d : D κ ο) (j : κ) (h : d.dt ≤ now) :
    modifiedVal d now j =
      if (nslot now d j).live && (nslot now d j).modified then (nslot now d j).val else none := by
  unfold modifiedVal
  rcases nslot_cases now d j h with ⟨h1, h2⟩ | ⟨h1, h2⟩
  · rw [h2]; simp [h1]
  · rw [h2]
    have : (d.dt == now) = false := by simp; omega
    rw [this]
    cases hl : (d.slot j).live with
    | true => obtain ⟨_, _, _, _, _, _, h7⟩ := rollSlot_live_fields _ hl; rw [h7]; simp
    | false => rw [rollSlot_dead _ hl]; rfl

end HgVerif.MapNodeRef
