import HgVerif.Model.Slots
/-!
Helper lemmas for C05, tick-window part: the ring buffer of `SizeTSWindowStorage` refines a list.
-/
namespace HgVerif.Slots
local notation "Time" => Nat

/-- representation invariant of the ring buffer: `capacity_ = period_ > 0`, and `head_` only moves once
    the window is full -/
structure Win.WF (w : Win) : Prop where
  len : w.buf.length = w.period
  pos : 0 < w.period
  size_le : w.size ≤ w.period
  head_lt : w.head < w.period
  head_zero : w.size < w.period → w.head = 0

/-- logical content, oldest first -/
def Win.items (w : Win) : List (Int × Time) := (List.range w.size).map w.elemAt

theorem Win.values_eq (w : Win) : w.values = w.items.map (·.1) := by
  simp [Win.values, Win.items, List.map_map, Function.comp_def]

theorem Win.times_eq (w : Win) : w.times = w.items.map (·.2) := by
  simp [Win.times, Win.items, List.map_map, Function.comp_def]

theorem Win.WF_init {p m : Nat} (hp : 0 < p) : (Win.init p m).WF :=
  ⟨by simp [Win.init], hp, by simp [Win.init], by simpa [Win.init] using hp, fun _ => rfl⟩

theorem Win.items_init (p m : Nat) : (Win.init p m).items = [] := by simp [Win.items, Win.init]

theorem add_mod_ne_self {h j n : Nat} (hh : h < n) (h1 : 0 < j) (h2 : j < n) : (h + j) % n ≠ h := by
  by_cases hlt : h + j < n
  · rw [Nat.mod_eq_of_lt hlt]; omega
  · have : (h + j) % n = h + j - n := by
      rw [Nat.mod_eq_sub_mod (by omega), Nat.mod_eq_of_lt (by omega)]
    rw [this]; omega

theorem getD_set_pair (l : List (Int × Time)) (i j : Nat) (a : Int × Time) :
    (l.set i a).getD j (0, 0) = if i = j ∧ j < l.length then a else l.getD j (0, 0) := by
  simp only [List.getD_eq_getElem?_getD, List.getElem?_set]
  by_cases hij : i = j
  · subst hij
    by_cases hl : i < l.length
    · simp [hl]
    · simp [hl]
  · simp [hij]

/-- appending while there is room -/
theorem Win.push_append {w : Win} (h : w.WF) (hlt : w.size < w.period) (v : Int) (t : Time) :
    (w.pushRaw v t).WF ∧ (w.pushRaw v t).items = w.items ++ [(v, t)] ∧
    (w.pushRaw v t).evicted = w.evicted ∧ (w.pushRaw v t).evictedTime = w.evictedTime ∧
    (w.pushRaw v t).period = w.period ∧ (w.pushRaw v t).minPeriod = w.minPeriod ∧ (w.pushRaw v t).lmt = w.lmt := by
  have hz := h.head_zero hlt
  have e : w.pushRaw v t =
      { w with buf := w.buf.set ((w.head + w.size) % w.period) (v, t), size := w.size + 1 } := by
    unfold Win.pushRaw; simp only [hlt, ↓reduceIte]
  rw [e]
  refine ⟨⟨by simp [h.len], h.pos, by simp only; omega, h.head_lt, ?_⟩, ?_, rfl, rfl, rfl, rfl, rfl⟩
  · intro _; exact hz
  · simp only [Win.items, List.range_succ, List.map_append, List.map_cons, List.map_nil]
    have hsm : w.size % w.period = w.size := Nat.mod_eq_of_lt hlt
    congr 1
    · apply List.map_congr_left
      intro i hi
      have hi' : i < w.size := List.mem_range.mp hi
      have hi2 : i % w.period = i := Nat.mod_eq_of_lt (by omega)
      simp only [Win.elemAt, getD_set_pair, hz, Nat.zero_add, hsm, hi2]
      have hne : ¬ (w.size = i ∧ i < w.buf.length) := by omega
      rw [if_neg hne]
    · simp only [Win.elemAt, getD_set_pair, hz, Nat.zero_add, hsm, List.cons.injEq, and_true]
      simp [h.len, hlt]

/-- overwriting the oldest element of a full window -/
theorem Win.push_full {w : Win} (h : w.WF) (hfull : w.size = w.period) (v : Int) (t : Time) :
    (w.pushRaw v t).WF ∧ (w.pushRaw v t).items = w.items.tail ++ [(v, t)] ∧
    (w.pushRaw v t).evicted = w.items.head?.map (·.1) ∧ (w.pushRaw v t).evictedTime = t ∧
    (w.pushRaw v t).period = w.period ∧ (w.pushRaw v t).minPeriod = w.minPeriod ∧ (w.pushRaw v t).lmt = w.lmt := by
  have hn := h.pos
  have hh := h.head_lt
  have hnot : ¬ w.size < w.period := by omega
  have e : w.pushRaw v t =
      { w with evicted := some (w.buf.getD w.head (0, 0)).1, evictedTime := t
               buf := w.buf.set w.head (v, t), head := (w.head + 1) % w.period } := by
    unfold Win.pushRaw; simp only [hnot, ↓reduceIte]
  rw [e]
  refine ⟨⟨by simp [h.len], h.pos, by simp only; omega, Nat.mod_lt _ hn, ?_⟩, ?_, ?_, rfl, rfl, rfl, rfl⟩
  · intro hc; simp only at hc; omega
  · apply List.ext_getElem
    · simp [Win.items]; omega
    · intro i h1 h2
      have hi : i < w.period := by simpa [Win.items, hfull] using h1
      simp only [Win.items, List.getElem_map, List.getElem_range, Win.elemAt, getD_set_pair, h.len]
      have hidx : ((w.head + 1) % w.period + i) % w.period = (w.head + (i + 1)) % w.period := by
        rw [Nat.mod_add_mod]; congr 1; omega
      rw [hidx]
      by_cases hlast : i + 1 = w.period
      · -- the newest element
        have : (w.head + (i + 1)) % w.period = w.head := by
          rw [hlast, Nat.add_mod_right, Nat.mod_eq_of_lt hh]
        rw [this]
        simp only [true_and, hh, ↓reduceIte]
        rw [List.getElem_append_right (by simp; omega)]
        simp
      · have hne := add_mod_ne_self (h := w.head) (j := i + 1) (n := w.period) hh (by omega) (by omega)
        have : ¬ (w.head = (w.head + (i + 1)) % w.period ∧ (w.head + (i + 1)) % w.period < w.period) :=
          fun e => hne e.1.symm
        simp only [this, ↓reduceIte]
        rw [List.getElem_append_left (by simp; omega)]
        simp [Win.elemAt]
  · simp only [Win.items, hfull]
    cases hp : w.period with
    | zero => omega
    | succ n =>
      simp [List.range_succ_eq_map, Win.elemAt, hp]
      rw [Nat.mod_eq_of_lt (by omega)]

theorem Win.clear_spec {w : Win} (h : w.WF) (t : Time) :
    (w.clearRaw t).WF ∧ (w.clearRaw t).items = [] ∧ (w.clearRaw t).period = w.period ∧
    (w.clearRaw t).minPeriod = w.minPeriod := by
  unfold Win.clearRaw
  refine ⟨⟨h.len, h.pos, by simp, by simpa using h.pos, fun _ => rfl⟩, by simp [Win.items], rfl, rfl⟩

/-- the last `n` elements -/
def lastN {α : Type} (n : Nat) (l : List α) : List α := l.drop (l.length - n)

theorem lastN_snoc_lt {α : Type} {n : Nat} {l : List α} (a : α) (h : l.length < n) :
    lastN n (l ++ [a]) = lastN n l ++ [a] := by
  unfold lastN
  have h1 : (l ++ [a]).length - n = 0 := by simp; omega
  have h2 : l.length - n = 0 := by omega
  rw [h1, h2]; simp

theorem lastN_snoc_ge {α : Type} {n : Nat} {l : List α} (a : α) (hn : 0 < n) (h : n ≤ l.length) :
    lastN n (l ++ [a]) = (lastN n l).tail ++ [a] := by
  unfold lastN
  have h1 : (l ++ [a]).length - n = (l.length - n) + 1 := by simp; omega
  rw [h1, List.drop_append_of_le_length (by omega), List.tail_drop]

theorem length_lastN {α : Type} (n : Nat) (l : List α) : (lastN n l).length = min l.length n := by
  simp [lastN]; omega

theorem head?_lastN {α : Type} {n : Nat} {l : List α} (_h : n ≤ l.length) (_hn : 0 < n) :
    (lastN n l).head? = l[l.length - n]? := by
  simp [lastN, List.head?_drop]

end HgVerif.Slots
