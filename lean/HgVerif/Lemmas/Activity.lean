import HgVerif.Model.Activity
/-! Helper lemmas for `Props/C03Activity.lean`: the activity trie with its prune loop, and the target-link
flags, both refine "a set of active positions"; the tree invariant is preserved. -/
namespace HgVerif.Activity

theorem any_congr_mem {α : Type} {l : List α} {f g : α → Bool} (h : ∀ a ∈ l, f a = g a) : l.any f = l.any g := by
  induction l with
  | nil => rfl
  | cons x xs ih =>
    simp only [List.any_cons]
    rw [h x List.mem_cons_self, ih fun a ha => h a (List.mem_cons_of_mem _ ha)]

/-! ## prefixes -/

theorem mem_prefixes {q p : Path} : q ∈ prefixes p ↔ q <+: p := by
  induction p generalizing q with
  | nil => simp [prefixes]
  | cons x xs ih =>
    simp only [prefixes, List.mem_cons, List.mem_map]
    constructor
    · rintro (rfl | ⟨r, hr, rfl⟩)
      · exact List.nil_prefix
      · exact (List.cons_prefix_cons).mpr ⟨rfl, ih.mp hr⟩
    · intro h
      cases q with
      | nil => exact Or.inl rfl
      | cons y ys =>
        obtain ⟨rfl, h2⟩ := (List.cons_prefix_cons).mp h
        exact Or.inr ⟨ys, ih.mpr h2, rfl⟩

theorem self_mem_prefixes (p : Path) : p ∈ prefixes p := mem_prefixes.mpr (List.prefix_refl p)

theorem prefixes_trans {r q p : Path} (h1 : r ∈ prefixes q) (h2 : q ∈ prefixes p) : r ∈ prefixes p :=
  mem_prefixes.mpr ((mem_prefixes.mp h1).trans (mem_prefixes.mp h2))

theorem isPrefixOf_eq_true {p q : Path} : p.isPrefixOf q = true ↔ p ∈ prefixes q := by
  rw [mem_prefixes]; exact List.isPrefixOf_iff_prefix

/-! ## node membership -/

theorem hasNode_iff {t : Trie} {p : Path} : hasNode t p = true ↔ ∃ b, (p, b) ∈ t := by
  simp only [hasNode, List.any_eq_true, beq_iff_eq]
  constructor
  · rintro ⟨⟨q, b⟩, hm, rfl⟩; exact ⟨b, hm⟩
  · rintro ⟨b, hm⟩; exact ⟨(p, b), hm, rfl⟩

theorem isActive_iff {t : Trie} {p : Path} : isActive t p = true ↔ (p, true) ∈ t := by
  simp only [isActive, List.any_eq_true, Bool.and_eq_true, beq_iff_eq]
  constructor
  · rintro ⟨⟨q, b⟩, hm, rfl, rfl⟩; exact hm
  · intro hm; exact ⟨(p, true), hm, rfl, rfl⟩

theorem hasNode_of_isActive {t : Trie} {p : Path} (h : isActive t p = true) : hasNode t p = true :=
  hasNode_iff.mpr ⟨true, isActive_iff.mp h⟩

/-! ## ensure -/

theorem isActive_ensure (t : Trie) (p q : Path) : isActive (ensure t p) q = isActive t q := by
  unfold ensure
  split
  · rfl
  · simp [isActive]

theorem isActive_foldl_ensure (ps : List Path) (t : Trie) (q : Path) :
    isActive (ps.foldl ensure t) q = isActive t q := by
  induction ps generalizing t with
  | nil => rfl
  | cons x xs ih => simp only [List.foldl_cons]; rw [ih, isActive_ensure]

theorem isActive_ensurePath (t : Trie) (p q : Path) : isActive (ensurePath t p) q = isActive t q :=
  isActive_foldl_ensure _ _ _

theorem mem_ensure {t : Trie} {p : Path} {n : Path × Bool} (h : n ∈ ensure t p) : n ∈ t ∨ n.1 = p := by
  unfold ensure at h
  split at h
  · exact Or.inl h
  · rcases List.mem_cons.mp h with rfl | h
    · exact Or.inr rfl
    · exact Or.inl h

theorem hasNode_ensure_self (t : Trie) (p : Path) : hasNode (ensure t p) p = true := by
  unfold ensure
  split
  · assumption
  · simp [hasNode]

theorem hasNode_ensure_mono {t : Trie} {p q : Path} (h : hasNode t q = true) : hasNode (ensure t p) q = true := by
  unfold ensure
  split
  · exact h
  · simp only [hasNode, List.any_cons, Bool.or_eq_true]; exact Or.inr h

theorem mem_foldl_ensure (ps : List Path) (t : Trie) {n : Path × Bool} (h : n ∈ ps.foldl ensure t) :
    n ∈ t ∨ n.1 ∈ ps := by
  induction ps generalizing t with
  | nil => exact Or.inl h
  | cons x xs ih =>
    rcases ih _ h with h | h
    · rcases mem_ensure h with h | h
      · exact Or.inl h
      · exact Or.inr (h ▸ List.mem_cons_self)
    · exact Or.inr (List.mem_cons_of_mem _ h)

theorem hasNode_foldl_ensure_mono (ps : List Path) (t : Trie) {q : Path} (h : hasNode t q = true) :
    hasNode (ps.foldl ensure t) q = true := by
  induction ps generalizing t with
  | nil => exact h
  | cons x xs ih => exact ih _ (hasNode_ensure_mono h)

theorem hasNode_foldl_ensure_mem (ps : List Path) (t : Trie) {q : Path} (h : q ∈ ps) :
    hasNode (ps.foldl ensure t) q = true := by
  induction ps generalizing t with
  | nil => cases h
  | cons x xs ih =>
    rcases List.mem_cons.mp h with rfl | h
    · simp only [List.foldl_cons]
      exact hasNode_foldl_ensure_mono _ _ (hasNode_ensure_self _ _)
    · exact ih _ h

theorem wf_ensurePath {t : Trie} (h : WF t) (p : Path) : WF (ensurePath t p) := by
  intro n hn q hq
  rcases mem_foldl_ensure _ _ hn with hn | hn
  · exact hasNode_foldl_ensure_mono _ _ (h n hn q hq)
  · exact hasNode_foldl_ensure_mem _ _ (prefixes_trans hq hn)

/-! ## setFlag -/

theorem isActive_setFlag (t : Trie) (p q : Path) (b : Bool) :
    isActive (setFlag t p b) q = if q = p then b else isActive t q := by
  unfold setFlag isActive
  rw [List.any_cons, List.any_filter]
  by_cases h : q = p
  · subst h
    simp only [beq_self_eq_true, Bool.true_and, ↓reduceIte]
    have : (t.any fun a => (a.1 != q) && (a.1 == q && a.2)) = false := by
      rw [List.any_eq_false]
      intro a _
      by_cases h2 : a.1 = q <;> simp [h2]
    rw [this, Bool.or_false]
  · have hpq : (p == q) = false := by simpa using fun e : p = q => h e.symm
    simp only [hpq, Bool.false_and, Bool.false_or, if_neg h]
    congr 1
    funext a
    by_cases h2 : a.1 = q
    · have : a.1 ≠ p := fun e => h (h2 ▸ e)
      simp [h2, h]
    · simp [h2]

theorem mem_setFlag {t : Trie} {p : Path} {b : Bool} {n : Path × Bool} (h : n ∈ setFlag t p b) :
    n = (p, b) ∨ n ∈ t := by
  rcases List.mem_cons.mp h with h | h
  · exact Or.inl h
  · exact Or.inr (List.mem_filter.mp h).1

theorem hasNode_setFlag_self (t : Trie) (p : Path) (b : Bool) : hasNode (setFlag t p b) p = true := by
  simp [hasNode, setFlag]

theorem hasNode_setFlag_mono {t : Trie} {p q : Path} {b : Bool} (h : hasNode t q = true) :
    hasNode (setFlag t p b) q = true := by
  by_cases e : q = p
  · subst e; exact hasNode_setFlag_self _ _ _
  · obtain ⟨c, hc⟩ := hasNode_iff.mp h
    refine hasNode_iff.mpr ⟨c, List.mem_cons_of_mem _ (List.mem_filter.mpr ⟨hc, ?_⟩)⟩
    simpa using e

theorem wf_setFlag {t : Trie} (h : WF t) {p : Path} (hp : ∀ q ∈ prefixes p, hasNode t q = true) (b : Bool) :
    WF (setFlag t p b) := by
  intro n hn q hq
  rcases mem_setFlag hn with rfl | hn
  · exact hasNode_setFlag_mono (hp q hq)
  · exact hasNode_setFlag_mono (h n hn q hq)

/-! ## make_active -/

theorem isActive_makeActive (t : Trie) (p q : Path) :
    isActive (makeActive t p) q = (q == p || isActive t q) := by
  unfold makeActive
  rw [isActive_setFlag, isActive_ensurePath]
  by_cases h : q = p <;> simp [h]

theorem wf_makeActive {t : Trie} (h : WF t) (p : Path) : WF (makeActive t p) :=
  wf_setFlag (wf_ensurePath h p) (fun _ hq => hasNode_foldl_ensure_mem _ _ hq) true

/-! ## the prune loop -/

theorem isActive_eraseSub {t : Trie} {p : Path} (h : hasAnyActive t p = false) (q : Path) :
    isActive (eraseSub t p) q = isActive t q := by
  unfold eraseSub isActive
  rw [List.any_filter]
  unfold hasAnyActive at h
  rw [List.any_eq_false] at h
  apply any_congr_mem
  intro a ha
  have := h a ha
  cases hp : p.isPrefixOf a.1 <;> simp_all

theorem wf_eraseSub {t : Trie} (h : WF t) (p : Path) : WF (eraseSub t p) := by
  intro n hn q hq
  obtain ⟨hn, hnp⟩ := List.mem_filter.mp hn
  obtain ⟨c, hc⟩ := hasNode_iff.mp (h n hn q hq)
  refine hasNode_iff.mpr ⟨c, List.mem_filter.mpr ⟨hc, ?_⟩⟩
  cases hpq : p.isPrefixOf q
  · rfl
  · exfalso
    have : p.isPrefixOf n.1 = true := isPrefixOf_eq_true.mpr (prefixes_trans (isPrefixOf_eq_true.mp hpq) hq)
    simp [this] at hnp

theorem isActive_prune (r : List Nat) (t : Trie) (q : Path) : isActive (prune t r) q = isActive t q := by
  induction r generalizing t with
  | nil =>
    unfold prune
    split
    · rfl
    · rename_i h
      have h : hasAnyActive t [] = false := by simpa using h
      unfold hasAnyActive at h
      rw [List.any_eq_false] at h
      symm
      simp only [isActive, List.any_nil]
      rw [List.any_eq_false]
      intro a ha
      have := h a ha
      simp_all
  | cons s r ih =>
    unfold prune
    split
    · rfl
    · rename_i h
      have h : hasAnyActive t (s :: r).reverse = false := by simpa using h
      rw [ih, isActive_eraseSub h]

theorem wf_nil : WF [] := by intro n hn; cases hn

theorem wf_prune (r : List Nat) {t : Trie} (h : WF t) : WF (prune t r) := by
  induction r generalizing t with
  | nil => unfold prune; split; exact h; exact wf_nil
  | cons s r ih => unfold prune; split; exact h; exact ih (wf_eraseSub h _)

/-! ## make_passive -/

theorem descend_of_isActive {t : Trie} (h : WF t) {p : Path} (ha : isActive t p = true) : descend t p = true := by
  unfold descend
  rw [List.all_eq_true]
  intro q hq
  exact h (p, true) (isActive_iff.mp ha) q hq

theorem isActive_makePassive {t : Trie} (h : WF t) (p q : Path) :
    isActive (makePassive t p) q = (isActive t q && q != p) := by
  unfold makePassive
  split
  · rw [isActive_prune, isActive_setFlag]
    by_cases e : q = p <;> simp [e]
  · rename_i hc
    by_cases e : q = p
    · subst e
      cases ha : isActive t q
      · simp
      · exfalso; apply hc; simp [ha, descend_of_isActive h ha]
    · simp [e]

theorem wf_makePassive {t : Trie} (h : WF t) (p : Path) : WF (makePassive t p) := by
  unfold makePassive
  split
  · rename_i hc
    have ha : isActive t p = true := by
      simp only [Bool.and_eq_true] at hc; exact hc.2
    exact wf_prune _ (wf_setFlag h (fun q hq => h (p, true) (isActive_iff.mp ha) q hq) false)
  · exact h

/-! ## target links -/

theorem isActive_linkMakeActive (l : Trie) (p q : Path) :
    isActive (linkMakeActive l p) q = (q == p || isActive l q) := isActive_makeActive l p q

theorem isActive_linkMakePassive (l : Trie) (p q : Path) :
    isActive (linkMakePassive l p) q = (isActive l q && q != p) := by
  unfold linkMakePassive
  split
  · rw [isActive_setFlag]
    by_cases e : q = p <;> simp [e]
  · rename_i hc
    by_cases e : q = p
    · subst e; simp at hc; simp [hc]
    · simp [e]

/-! ## the probe refines the set-of-positions specification -/

/-- the abstraction: the tree invariant, and `active()` of every position is membership in the set -/
def Abs (cfg : Cfg) (st : St) (a : Path → Bool) : Prop := WF st.trie ∧ ∀ p, active cfg st p = a p

theorem applyCmd_vals (cfg : Cfg) (st : St) (c : Cmd) : (applyCmd cfg st c).vals = st.vals := by
  unfold applyCmd; split <;> rfl

theorem applyCmd_pending (cfg : Cfg) (st : St) (c : Cmd) : (applyCmd cfg st c).pending = st.pending := by
  unfold applyCmd; split <;> rfl

theorem abs_applyCmd {cfg : Cfg} {st : St} {a : Path → Bool} (h : Abs cfg st a) (c : Cmd) :
    Abs cfg (applyCmd cfg st c) (specCmd a c) := by
  obtain ⟨hw, ha⟩ := h
  unfold applyCmd
  by_cases hc : posInTrie cfg c.path = true
  · rw [if_pos hc]
    constructor
    · cases c.act
      · exact wf_makePassive hw _
      · exact wf_makeActive hw _
    · intro p
      have hp := ha p
      unfold active at hp ⊢
      unfold specCmd
      by_cases hpt : posInTrie cfg p = true
      · simp only [hpt, ↓reduceIte] at hp ⊢
        cases hact : c.act
        · simp only [Bool.false_eq_true, ↓reduceIte]; rw [isActive_makePassive hw, hp]
        · simp only [↓reduceIte]; rw [isActive_makeActive, hp]
      · have hne : p ≠ c.path := fun e => hpt (e ▸ hc)
        simp only [hpt, Bool.false_eq_true, ↓reduceIte] at hp ⊢
        rw [hp]
        cases c.act <;> simp [hne]
  · rw [if_neg hc]
    refine ⟨hw, ?_⟩
    intro p
    have hp := ha p
    unfold active at hp ⊢
    unfold specCmd
    by_cases hpt : posInTrie cfg p = true
    · have hne : p ≠ c.path := fun e => hc (e ▸ hpt)
      simp only [hpt, ↓reduceIte] at hp ⊢
      rw [hp]
      cases c.act <;> simp [hne]
    · simp only [hpt, Bool.false_eq_true, ↓reduceIte] at hp ⊢
      cases hact : c.act
      · simp only [Bool.false_eq_true, ↓reduceIte]; rw [isActive_linkMakePassive, hp]
      · simp only [↓reduceIte]; rw [isActive_linkMakeActive, hp]

theorem abs_foldl {cfg : Cfg} (cs : List Cmd) {st : St} {a : Path → Bool} (h : Abs cfg st a) :
    Abs cfg (cs.foldl (applyCmd cfg) st) (cs.foldl specCmd a) := by
  induction cs generalizing st a with
  | nil => exact h
  | cons c cs ih => exact ih (abs_applyCmd h c)

theorem foldl_vals (cfg : Cfg) (cs : List Cmd) (st : St) : (cs.foldl (applyCmd cfg) st).vals = st.vals := by
  induction cs generalizing st with
  | nil => rfl
  | cons c cs ih => simp only [List.foldl_cons]; rw [ih, applyCmd_vals]

theorem foldl_pending (cfg : Cfg) (cs : List Cmd) (st : St) :
    (cs.foldl (applyCmd cfg) st).pending = st.pending := by
  induction cs generalizing st with
  | nil => rfl
  | cons c cs ih => simp only [List.foldl_cons]; rw [ih, applyCmd_pending]

/-- the refinement relation between the model state and the specification state -/
def Rel (cfg : Cfg) (st : St) (s : Spec) : Prop :=
  Abs cfg st s.act ∧ st.vals = s.vals ∧ st.pending = s.pending

theorem scheduled_eq {cfg : Cfg} {st : St} {a : Path → Bool} (h : Abs cfg st a) (ticks : List (Path × Int)) :
    scheduled cfg st ticks = specScheduled cfg a ticks := by
  unfold scheduled specScheduled
  apply any_congr_mem
  intro q _
  rw [h.2]

theorem rel_step {cfg : Cfg} {st : St} {s : Spec} (h : Rel cfg st s) (c : Cycle) :
    Rel cfg (step cfg st c).1 (specStep cfg s c).1 ∧ (step cfg st c).2 = (specStep cfg s c).2 := by
  obtain ⟨ha, hv, hp⟩ := h
  unfold step specStep
  simp only
  rw [scheduled_eq ha, hv, hp]
  split
  · refine ⟨⟨?_, ?_, ?_⟩, rfl⟩
    · exact abs_foldl _ ⟨ha.1, ha.2⟩
    · rw [foldl_vals]
    · rw [foldl_pending]
  · exact ⟨⟨⟨ha.1, ha.2⟩, rfl, rfl⟩, rfl⟩

theorem rel_run {cfg : Cfg} (cs : List Cycle) {st : St} {s : Spec} (h : Rel cfg st s) :
    Rel cfg (run cfg st cs).1 (specRun cfg s cs).1 ∧ (run cfg st cs).2 = (specRun cfg s cs).2 := by
  induction cs generalizing st s with
  | nil => exact ⟨h, rfl⟩
  | cons c cs ih =>
    obtain ⟨h1, h2⟩ := rel_step h c
    obtain ⟨h3, h4⟩ := ih h1
    exact ⟨h3, by simp only [run, specRun]; rw [h2, h4]⟩

theorem rel_start (cfg : Cfg) (init : List Cmd) : Rel cfg (start cfg init) (specStart cfg init) := by
  refine ⟨?_, ?_, ?_⟩
  · exact abs_foldl _ ⟨wf_nil, fun p => by simp [active, isActive]⟩
  · unfold start specStart; rw [foldl_vals]
  · unfold start specStart; rw [foldl_pending]

end HgVerif.Activity
