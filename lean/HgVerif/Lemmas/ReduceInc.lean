import HgVerif.Model.ReduceInc
import HgVerif.Lemmas.Reduce
/-!
Helper lemmas for the incremental part of C11 (`Model/ReduceInc.lean`, theorems in `Props/C11Inc.lean`).

Coordinates as in `Lemmas/Reduce.lean`: in a tree of capacity `2^k` the heap position at depth `d` and
offset `j` is `2^d + j - 1`, its leaf interval is `[j * 2^(k-d), (j+1) * 2^(k-d))`; `slice k d j vs` is
that interval of the list of leaf values.
-/
set_option linter.unusedVariables false
set_option linter.unusedSectionVars false

namespace HgVerif.ReduceInc
open HgVerif.Reduce

/-! ## bridges to `Model/Reduce.lean` -/

section Bridge
variable {κ : Type} [DecidableEq κ]

theorem rebuildInfo_tree (hz : Bool) (now : Nat) (t : Tree κ) (full : Bool) :
    (rebuildInfo hz now t full).tree = rebuild hz now t full := rfl

theorem rebuildCall_eq (hz : Bool) (now : Nat) (t : Tree κ) (available modified : Bool)
    (removed present : List κ) :
    evalReconcile hz now t available modified removed present =
      match rebuildCall hz t available modified removed present with
      | (t1, some full) => rebuild hz now t1 full
      | (t1, none) => t1 := by
  unfold evalReconcile rebuildCall
  simp only
  split
  · split
    · split <;> rfl
    · split <;> rfl
  · split
    · rfl
    · split <;> rfl

end Bridge

/-! ## the leaf values below a position -/

section Slice
variable {α : Type}

/-- the values of the leaves below the heap position `(d, j)` of a tree of capacity `2^k` -/
def slice (k d j : Nat) (vs : List α) : List α := (vs.drop (j * 2 ^ (k - d))).take (2 ^ (k - d))

theorem slice_congr (k d j : Nat) (vs ws : List α)
    (h : ∀ i, j * 2 ^ (k - d) ≤ i → i < (j + 1) * 2 ^ (k - d) → vs[i]? = ws[i]?) :
    slice k d j vs = slice k d j ws := by
  unfold slice
  apply List.ext_getElem?
  intro m
  simp only [List.getElem?_take, List.getElem?_drop]
  split
  · next hm =>
    apply h
    · omega
    · rw [Nat.add_mul]; omega
  · rfl

end Slice

/-! ## reading a child aggregate from the cache -/

section Interval
variable {α : Type}

/-- With the cache right at every needed position from `P` on, the value read for the aggregate of a
    position from `P` on with a non-empty interval is the fold over the live leaves of that interval. -/
theorem aggVal_interval (f : α → α → α) (zero : Option α) (k : Nat) (lv : Nat → Option α) (vs : List α)
    (cache : List (Option α)) (P : Nat)
    (hlv : ∀ i, lv i = vs[i]?)
    (hgood : ∀ d j, d < k → j < 2 ^ d → P ≤ 2 ^ d + j - 1 → (2 * j + 1) * 2 ^ (k - (d + 1)) < vs.length →
      cache[2 ^ d + j - 1]? = some (foldOpt f (slice k d j vs))) :
    ∀ h d j, d + h = k → j < 2 ^ d → j * 2 ^ h < vs.length → P ≤ 2 ^ d + j - 1 →
      aggVal cache zero lv (resolveClosed (2 ^ k) vs.length (2 ^ d + j - 1)) =
        foldOpt f (slice k d j vs) := by
  intro h
  induction h with
  | zero =>
    intro d j hd hj hn hP
    have hdk : d = k := by omega
    subst hdk
    simp only [Nat.pow_zero, Nat.mul_one] at hn
    rw [resolveClosed_eq_spec d d j _ (Nat.le_refl _) hj]
    simp only [Nat.sub_self, Nat.pow_zero, Nat.mul_one]
    have hs : spec j 1 vs.length (2 ^ d + j - 1) = .leaf j := by
      unfold spec
      have h1 : ¬ j ≥ vs.length := by omega
      have h2 : min 1 (vs.length - j) = 1 := by omega
      simp [h1, h2]
    unfold slice
    simp only [Nat.sub_self, Nat.pow_zero, Nat.mul_one]
    rw [hs, take_one_drop vs j hn, foldOpt_singleton]
    simp [aggVal, hlv, hn]
  | succ h ih =>
    intro d j hd hj hn hP
    have hdp := two_pow_pos' d
    have hhp := two_pow_pos' h
    have hspan : 2 ^ (h + 1) = 2 * 2 ^ h := by rw [Nat.pow_succ]; omega
    have hkd : k - d = h + 1 := by omega
    have hkd1 : k - (d + 1) = h := by omega
    have hj2 : 2 * j < 2 ^ (d + 1) := by rw [Nat.pow_succ]; omega
    have hfirst : j * (2 * 2 ^ h) = 2 * j * 2 ^ h := by rw [← Nat.mul_assoc, Nat.mul_comm j 2]
    have hL := resolveClosed_eq_spec k (d + 1) (2 * j) vs.length (by omega) hj2
    rw [hkd1, ← child_left] at hL
    have hPl : P ≤ 2 ^ (d + 1) + 2 * j - 1 := by rw [← child_left]; omega
    have ihL := ih (d + 1) (2 * j) (by omega) hj2
    rw [← child_left] at ihL
    rw [resolveClosed_eq_spec k d j _ (by omega) hj, hkd, hspan, spec_step _ _ _ _ hhp, hfirst]
    rw [hspan, hfirst] at hn
    have hnf : ¬ 2 * j * 2 ^ h ≥ vs.length := by omega
    simp only [hnf, ↓reduceIte]
    by_cases hm : vs.length ≤ 2 * j * 2 ^ h + 2 ^ h
    · -- the right half is empty: the aggregate is the left child's
      simp only [hm, ↓reduceIte]
      rw [← hL, ihL hn (by rw [child_left]; exact hPl)]
      unfold slice
      rw [hkd, hkd1, hspan, hfirst]
      have hlen : (vs.drop (2 * j * 2 ^ h)).length ≤ 2 ^ h := by simp; omega
      rw [List.take_of_length_le hlen, List.take_of_length_le (by omega)]
    · -- both halves are live: a combine point, read from the cache
      simp only [hm, ↓reduceIte]
      have hneed : (2 * j + 1) * 2 ^ (k - (d + 1)) < vs.length := by
        rw [hkd1, Nat.add_mul]; omega
      have := hgood d j (by omega) hj hP hneed
      simp [aggVal, this]

end Interval

/-! ## the evaluation pass -/

section Pass
variable {α : Type}

theorem evalL_length (f : α → α → α) (zero : Option α) (cap n : Nat) (live : Nat → Bool) (lv : Nat → Option α)
    (c : List (Option α)) (p : Nat) : (evalL f zero cap n live lv c p).length = c.length := by
  unfold evalL
  split
  · split <;> simp
  · rfl

theorem evalL_other (f : α → α → α) (zero : Option α) (cap n : Nat) (live : Nat → Bool) (lv : Nat → Option α)
    (c : List (Option α)) (p q : Nat) (h : q ≠ p) : (evalL f zero cap n live lv c p)[q]? = c[q]? := by
  unfold evalL
  split
  · split
    · rw [List.getElem?_set_ne (by omega)]
    · rfl
  · rfl

theorem foldl_evalL_length (f : α → α → α) (zero : Option α) (cap n : Nat) (live : Nat → Bool)
    (lv : Nat → Option α) (cands : List Nat) (c : List (Option α)) :
    (cands.foldl (evalL f zero cap n live lv) c).length = c.length := by
  induction cands generalizing c with
  | nil => rfl
  | cons p ps ih => rw [List.foldl_cons, ih, evalL_length]

/-- a position that is not a candidate keeps its cached value -/
theorem foldl_evalL_other (f : α → α → α) (zero : Option α) (cap n : Nat) (live : Nat → Bool)
    (lv : Nat → Option α) (cands : List Nat) (c : List (Option α)) (q : Nat) (h : q ∉ cands) :
    (cands.foldl (evalL f zero cap n live lv) c)[q]? = c[q]? := by
  induction cands generalizing c with
  | nil => rfl
  | cons p ps ih =>
    rw [List.foldl_cons, ih _ (fun hc => h (List.mem_cons_of_mem _ hc)),
      evalL_other _ _ _ _ _ _ _ _ _ (fun hc => h (by rw [hc]; exact List.mem_cons_self))]

/-- The descending pass: if every position in `S` that is not a candidate already holds its target
    value, and evaluating a candidate of `S` yields its target value whenever every position of `S`
    beyond it holds its target, then after the pass every position of `S` holds its target. -/
theorem pass_generic (E : List (Option α) → Nat → List (Option α)) (S : Nat → Prop) (good : Nat → Option α)
    (hother : ∀ c p q, q ≠ p → (E c p)[q]? = c[q]?) (hlenE : ∀ c p, (E c p).length = c.length) (size : Nat)
    (cands : List Nat) (hdesc : cands.Pairwise (· > ·))
    (heval : ∀ c p, c.length = size → p ∈ cands → S p → (∀ q, q > p → S q → c[q]? = some (good q)) →
      (E c p)[p]? = some (good p))
    (c0 : List (Option α)) (hlen : c0.length = size) (hclean : ∀ q, S q → q ∉ cands → c0[q]? = some (good q)) :
    ∀ q, S q → (cands.foldl E c0)[q]? = some (good q) := by
  induction cands generalizing c0 with
  | nil => intro q hq; exact hclean q hq (by simp)
  | cons p rest ih =>
    rw [List.pairwise_cons] at hdesc
    obtain ⟨hp, hrest⟩ := hdesc
    rw [List.foldl_cons]
    apply ih hrest
    · intro c p' hc hp' hS hq
      exact heval c p' hc (List.mem_cons_of_mem _ hp') hS hq
    · rw [hlenE, hlen]
    · intro q hS hq
      by_cases hqp : q = p
      · subst hqp
        apply heval c0 q hlen List.mem_cons_self hS
        intro q' hgt hS'
        apply hclean q' hS'
        intro hmem
        rcases List.mem_cons.mp hmem with h | h
        · omega
        · have := hp q' h; omega
      · rw [hother c0 p q hqp]
        apply hclean q hS
        intro hmem
        rcases List.mem_cons.mp hmem with h | h
        · exact hqp h
        · exact hq h

end Pass

/-! ## what an evaluated combiner writes -/

section Eval
variable {α : Type}

theorem slice_split (k d j : Nat) (hd : d < k) (vs : List α) :
    slice k d j vs = slice k (d + 1) (2 * j) vs ++ slice k (d + 1) (2 * j + 1) vs := by
  unfold slice
  have hkd : k - d = (k - (d + 1)) + 1 := by omega
  rw [hkd]
  generalize k - (d + 1) = h
  have hspan : 2 ^ (h + 1) = 2 ^ h + 2 ^ h := by rw [Nat.pow_succ]; omega
  have hfirst : j * (2 ^ h + 2 ^ h) = 2 * j * 2 ^ h := by
    rw [Nat.mul_add, Nat.mul_assoc, Nat.mul_comm 2 (j * 2 ^ h)]; omega
  have hfr : (2 * j + 1) * 2 ^ h = 2 * j * 2 ^ h + 2 ^ h := by rw [Nat.add_mul]; simp
  rw [hspan, hfirst, hfr, List.take_add, List.drop_drop]

/-- Evaluating a needed combiner (both halves of its interval hold a live leaf) when every needed
    position beyond it is right writes the fold over its interval. -/
theorem evalL_inner (f : α → α → α) (hf : ∀ a b c, f (f a b) c = f a (f b c)) (zero : Option α) (k : Nat)
    (live : Nat → Bool) (lv : Nat → Option α) (vs : List α) (hlv : ∀ i, lv i = vs[i]?)
    (c : List (Option α)) (hclen : c.length = 2 ^ k - 1)
    (d j : Nat) (hd : d < k) (hj : j < 2 ^ d) (hlive : live (2 ^ d + j - 1) = true)
    (hneed : (2 * j + 1) * 2 ^ (k - (d + 1)) < vs.length)
    (hgood : ∀ d' j', d' < k → j' < 2 ^ d' → 2 ^ d + j - 1 < 2 ^ d' + j' - 1 →
      (2 * j' + 1) * 2 ^ (k - (d' + 1)) < vs.length →
      c[2 ^ d' + j' - 1]? = some (foldOpt f (slice k d' j' vs))) :
    (evalL f zero (2 ^ k) vs.length live lv c (2 ^ d + j - 1))[2 ^ d + j - 1]? =
      some (foldOpt f (slice k d j vs)) := by
  have hdp := two_pow_pos' d
  have hpow : 2 ^ (d + 1) = 2 * 2 ^ d := by rw [Nat.pow_succ]; omega
  have hj2 : 2 * j < 2 ^ (d + 1) := by omega
  have hj3 : 2 * j + 1 < 2 ^ (d + 1) := by omega
  have hlt2 : 2 ^ (d + 1) ≤ 2 ^ k := Nat.pow_le_pow_right (by omega) (by omega)
  have hsp := two_pow_pos' (k - (d + 1))
  have hfr : (2 * j + 1) * 2 ^ (k - (d + 1)) = 2 * j * 2 ^ (k - (d + 1)) + 2 ^ (k - (d + 1)) := by
    rw [Nat.add_mul]; simp
  have hgood' : ∀ d' j', d' < k → j' < 2 ^ d' → 2 ^ d + j - 1 + 1 ≤ 2 ^ d' + j' - 1 →
      (2 * j' + 1) * 2 ^ (k - (d' + 1)) < vs.length →
      c[2 ^ d' + j' - 1]? = some (foldOpt f (slice k d' j' vs)) :=
    fun d' j' h1 h2 h3 h4 => hgood d' j' h1 h2 (by omega) h4
  have hL := aggVal_interval f zero k lv vs c (2 ^ d + j - 1 + 1) hlv hgood' (k - (d + 1)) (d + 1) (2 * j)
    (by omega) hj2 (by omega) (by omega)
  have hR := aggVal_interval f zero k lv vs c (2 ^ d + j - 1 + 1) hlv hgood' (k - (d + 1)) (d + 1) (2 * j + 1)
    (by omega) hj3 (by omega) (by omega)
  rw [← child_left] at hL
  rw [← child_right] at hR
  have hne1 : slice k (d + 1) (2 * j) vs ≠ [] := by
    intro hc; have := congrArg List.length hc
    simp [slice] at this; omega
  have hne2 : slice k (d + 1) (2 * j + 1) vs ≠ [] := by
    intro hc; have := congrArg List.length hc
    simp [slice] at this; omega
  obtain ⟨a, ha⟩ := foldOpt_isSome f _ hne1
  obtain ⟨b, hb⟩ := foldOpt_isSome f _ hne2
  unfold evalL
  simp only [hlive, ↓reduceIte]
  rw [hL, hR, ha, hb]
  simp only
  rw [List.getElem?_set_self (by omega), slice_split k d j hd vs]
  exact congrArg some (foldOpt_append f hf _ _ a b ha hb).symm

/-- level coordinates of a heap position -/
def levelD (p : Nat) : Nat := (p + 1).log2
def levelJ (p : Nat) : Nat := p + 1 - 2 ^ (p + 1).log2

/-- the values of the leaves below heap position `p` of a tree of capacity `2^k` -/
def sliceAt (k p : Nat) (vs : List α) : List α := slice k (levelD p) (levelJ p) vs

theorem level_of_pos (d j : Nat) (hj : j < 2 ^ d) : levelD (2 ^ d + j - 1) = d ∧ levelJ (2 ^ d + j - 1) = j := by
  have hdp := two_pow_pos' d
  have h1 : 2 ^ d + j - 1 + 1 = 2 ^ d + j := by omega
  unfold levelD levelJ
  rw [h1, log2_level d j hj]
  exact ⟨rfl, by omega⟩

theorem sliceAt_pos (k d j : Nat) (hj : j < 2 ^ d) (vs : List α) : sliceAt k (2 ^ d + j - 1) vs = slice k d j vs := by
  unfold sliceAt
  rw [(level_of_pos d j hj).1, (level_of_pos d j hj).2]

theorem pos_lt (k d j : Nat) (hd : d < k) (hj : j < 2 ^ d) : 2 ^ d + j - 1 < 2 ^ k - 1 := by
  have hdp := two_pow_pos' d
  have hlt2 : 2 ^ (d + 1) ≤ 2 ^ k := Nat.pow_le_pow_right (by omega) (by omega)
  rw [Nat.pow_succ] at hlt2
  omega

/-- without the singleton-with-zero rule a combiner is needed exactly when the first leaf of its right
    half is live -/
theorem needed_inner (hz : Bool) (k d j n : Nat) (hd : d < k) (hj : j < 2 ^ d) (hn : ¬ (hz = true ∧ n = 1)) :
    neededAt hz (2 ^ k) n (2 ^ d + j - 1) = decide ((2 * j + 1) * 2 ^ (k - (d + 1)) < n) := by
  rw [neededAt_level hz k d j n hd hj]
  have : (2 ^ d + j - 1 == 0 && hz && n == 1) = false := by
    cases hz
    · simp
    · have : ¬ n = 1 := fun h => hn ⟨rfl, h⟩
      simp [this]
  rw [this]; simp

/-- The evaluation pass of one cycle, two or more leaves (or no zero): if every live combiner that is
    not a candidate holds the fold over its interval, then after the pass every live combiner does. -/
theorem pass_inner (f : α → α → α) (hf : ∀ a b c, f (f a b) c = f a (f b c)) (zero : Option α) (k : Nat)
    (hz : Bool) (live : Nat → Bool) (lv : Nat → Option α) (vs : List α) (hlv : ∀ i, lv i = vs[i]?)
    (hshape : ∀ q, q < 2 ^ k - 1 → live q = neededAt hz (2 ^ k) vs.length q)
    (hn : ¬ (hz = true ∧ vs.length = 1))
    (cands : List Nat) (hdesc : cands.Pairwise (· > ·)) (c0 : List (Option α)) (hlen : c0.length = 2 ^ k - 1)
    (hclean : ∀ q, q < 2 ^ k - 1 → live q = true → q ∉ cands → c0[q]? = some (foldOpt f (sliceAt k q vs))) :
    ∀ q, q < 2 ^ k - 1 → live q = true →
      (cands.foldl (evalL f zero (2 ^ k) vs.length live lv) c0)[q]? = some (foldOpt f (sliceAt k q vs)) := by
  have key := pass_generic (evalL f zero (2 ^ k) vs.length live lv)
    (fun q => q < 2 ^ k - 1 ∧ live q = true) (fun q => foldOpt f (sliceAt k q vs))
    (fun c p q h => evalL_other f zero _ _ live lv c p q h)
    (fun c p => evalL_length f zero _ _ live lv c p) (2 ^ k - 1) cands hdesc ?_ c0 hlen
    (fun q hS hq => hclean q hS.1 hS.2 hq)
  · intro q h1 h2; exact key q ⟨h1, h2⟩
  · intro c p hc _ hS hq
    obtain ⟨hp, hlp⟩ := hS
    obtain ⟨d, j, hj, he⟩ := exists_level p
    have hd := level_depth_le k d j p hp he
    subst he
    have hneed : (2 * j + 1) * 2 ^ (k - (d + 1)) < vs.length := by
      have := hshape _ hp
      rw [hlp, needed_inner hz k d j _ hd hj hn] at this
      simpa using this.symm
    simp only [sliceAt_pos k d j hj]
    apply evalL_inner f hf zero k live lv vs hlv c hc d j hd hj hlp hneed
    intro d' j' hd' hj' hgt hneed'
    have hq' := pos_lt k d' j' hd' hj'
    have hl' : live (2 ^ d' + j' - 1) = true := by
      rw [hshape _ hq', needed_inner hz k d' j' _ hd' hj' hn]
      simpa using hneed'
    have := hq _ hgt ⟨hq', hl'⟩
    rw [this, sliceAt_pos k d' j' hj']

/-- the two children of the root of a singleton tree: the leaf and nothing -/
theorem resolve_single (e : Nat) (he : 1 ≤ e) :
    resolveClosed (2 ^ e) 1 (2 * 0 + 1) = .leaf 0 ∧ resolveClosed (2 ^ e) 1 (2 * 0 + 2) = .empty := by
  constructor
  · have := resolveClosed_eq_spec e 1 0 1 he (by simp)
    simp only [Nat.pow_one, Nat.add_zero, Nat.zero_mul] at this
    rw [show 2 * 0 + 1 = 2 - 1 from rfl, this]
    unfold spec
    have hp := two_pow_pos' (e - 1)
    have : min (2 ^ (e - 1)) (1 - 0) = 1 := by omega
    simp [this]
  · have := resolveClosed_eq_spec e 1 1 1 he (by simp)
    simp only [Nat.pow_one, Nat.one_mul] at this
    rw [show 2 * 0 + 2 = 2 + 1 - 1 from rfl, this]
    have hp := two_pow_pos' (e - 1)
    exact (spec_empty_iff _ _ _ _).mpr (by omega)

/-- the singleton root with a zero: `combine(value, zero)` -/
theorem evalL_single (f : α → α → α) (e : Nat) (he : 1 ≤ e) (live : Nat → Bool) (lv : Nat → Option α)
    (c : List (Option α)) (hclen : 0 < c.length) (hlive : live 0 = true) (v z : α) (hv : lv 0 = some v) :
    (evalL f (some z) (2 ^ e) 1 live lv c 0)[0]? = some (some (f v z)) := by
  obtain ⟨hL, hR⟩ := resolve_single e he
  unfold evalL
  simp only [hlive, ↓reduceIte]
  rw [hL, hR]
  simp only [aggVal, hv]
  rw [List.getElem?_set_self hclen]

end Eval

/-! ## which dense leaves change in a cycle -/

section Moved
variable {κ : Type} [DecidableEq κ]

/-- every dense index whose key differs between the start of the cycle (`keys0`) and now (`keys`) —
    a removed leaf, the hole a moved tail leaf filled, the vacated tail, an appended leaf — has been
    recorded in `structural_leaves` -/
def Moved (keys0 keys : List κ) (sl : List Nat) : Prop := ∀ i, keys0[i]? ≠ keys[i]? → i ∈ sl

theorem Moved.refl (keys : List κ) (sl : List Nat) : Moved keys keys sl := fun i h => absurd rfl h

theorem removeLeafAt_getElem? (keys : List κ) (l : Nat) (hl : l < keys.length) (i : Nat) (hi : i ≠ l)
    (hlast : i ≠ keys.length - 1) : (removeLeafAt keys l)[i]? = keys[i]? := by
  unfold removeLeafAt
  have hget : keys[keys.length - 1]? = some keys[keys.length - 1] := List.getElem?_eq_getElem (by omega)
  simp only [hget]
  rw [List.getElem?_dropLast]
  by_cases hlt : i < keys.length - 1
  · split
    · simp only [List.length_set, hlt, ↓reduceIte]
      rw [List.getElem?_set_ne (by omega)]
    · rfl
  · have hge : keys.length ≤ i := by omega
    have h1 : keys[i]? = none := List.getElem?_eq_none hge
    split <;> simp [hlt, h1]

theorem Moved.removeKey {keys0 : List κ} {t : Tree κ} (h : Moved keys0 t.keys t.structLeaves) (k : κ) :
    Moved keys0 (removeKey t k).keys (removeKey t k).structLeaves := by
  unfold Reduce.removeKey
  cases hl : leafOf t.keys k with
  | none => exact h
  | some leaf =>
    obtain ⟨hi, _⟩ := leafOf_some hl
    intro i hne
    simp only at hne ⊢
    by_cases hll : leaf = t.keys.length - 1
    · simp only [recordRemoved, hll, ne_eq, not_true_eq_false, ↓reduceIte, List.mem_append, List.mem_singleton]
      by_cases h2 : i = t.keys.length - 1
      · exact Or.inr h2
      · rw [removeLeafAt_getElem? t.keys leaf hi i (by omega) h2] at hne
        exact Or.inl (h i hne)
    · simp only [recordRemoved, ne_eq, hll, not_false_eq_true, ↓reduceIte, List.mem_append, List.mem_cons,
        List.not_mem_nil, or_false]
      by_cases h1 : i = leaf
      · exact Or.inr (Or.inl h1)
      · by_cases h2 : i = t.keys.length - 1
        · exact Or.inr (Or.inr h2)
        · rw [removeLeafAt_getElem? t.keys leaf hi i h1 h2] at hne
          exact Or.inl (h i hne)

theorem Moved.addKey {keys0 : List κ} {t : Tree κ} (h : Moved keys0 t.keys t.structLeaves) (k : κ) :
    Moved keys0 (addKey t k).keys (addKey t k).structLeaves := by
  unfold Reduce.addKey
  cases hl : leafOf t.keys k with
  | some leaf => exact h
  | none =>
    intro i hne
    simp only at hne ⊢
    by_cases h1 : i = t.keys.length
    · subst h1; simp
    · have : (t.keys ++ [k])[i]? = t.keys[i]? := by
        by_cases hlt : i < t.keys.length
        · rw [List.getElem?_append_left hlt]
        · rw [List.getElem?_eq_none (by simp; omega), List.getElem?_eq_none (by omega)]
      rw [this] at hne
      simp [h i hne]

theorem Moved.foldl_removeKey {keys0 : List κ} {t : Tree κ} (h : Moved keys0 t.keys t.structLeaves) (ks : List κ) :
    Moved keys0 (ks.foldl Reduce.removeKey t).keys (ks.foldl Reduce.removeKey t).structLeaves := by
  induction ks generalizing t with
  | nil => exact h
  | cons k ks ih => exact ih (h.removeKey k)

theorem Moved.foldl_addKey {keys0 : List κ} {t : Tree κ} (h : Moved keys0 t.keys t.structLeaves) (ks : List κ) :
    Moved keys0 (ks.foldl Reduce.addKey t).keys (ks.foldl Reduce.addKey t).structLeaves := by
  induction ks generalizing t with
  | nil => exact h
  | cons k ks ih => exact ih (h.addKey k)

/-- with distinct keys `key_to_leaf` is the inverse of `dense_to_key` -/
theorem leafOf_getElem {keys : List κ} (hn : keys.Nodup) (i : Nat) (key : κ) (h : keys[i]? = some key) :
    leafOf keys key = some i := by
  have hi : i < keys.length := by
    apply Classical.byContradiction; intro hc
    rw [List.getElem?_eq_none (by omega)] at h; cases h
  rw [List.getElem?_eq_getElem hi] at h
  injection h with h
  subst h
  unfold leafOf
  simp only
  rw [hn.idxOf_getElem i hi]
  simp [hi]

end Moved

/-! ## small list facts -/

section Lists
variable {α : Type}

theorem clearAt_length (c : List (Option α)) (ps : List Nat) : (clearAt c ps).length = c.length := by
  unfold clearAt
  induction ps generalizing c with
  | nil => rfl
  | cons p ps ih => rw [List.foldl_cons, ih]; simp

theorem clearAt_getElem? (c : List (Option α)) (ps : List Nat) (q : Nat) (h : q ∉ ps) :
    (clearAt c ps)[q]? = c[q]? := by
  unfold clearAt
  induction ps generalizing c with
  | nil => rfl
  | cons p ps ih =>
    rw [List.foldl_cons, ih _ (fun hc => h (List.mem_cons_of_mem _ hc))]
    rw [List.getElem?_set_ne]
    intro hc; exact h (by rw [hc]; exact List.mem_cons_self)

/-- the values of the leaves, when every leaf is a valid element -/
theorem vals_getElem? {κ : Type} (src : κ → Option α) (keys : List κ) (h : ∀ k ∈ keys, (src k).isSome) (i : Nat) :
    (keys.filterMap src)[i]? = (keys[i]?).bind src := by
  have h1 := map_eq_map_some_filterMap src keys h
  have h2 : (keys.map src)[i]? = ((keys.filterMap src).map some)[i]? := by rw [h1]
  simp only [List.getElem?_map] at h2
  cases hk : keys[i]? with
  | none =>
    rw [hk] at h2
    cases hv : (keys.filterMap src)[i]? with
    | none => rfl
    | some v => rw [hv] at h2; cases h2
  | some key =>
    rw [hk] at h2
    simp only [Option.map_some, Option.bind_some] at h2 ⊢
    cases hv : (keys.filterMap src)[i]? with
    | none => rw [hv] at h2; cases h2
    | some v => rw [hv] at h2; simp only [Option.map_some] at h2; injection h2 with h2; rw [h2]

theorem vals_length {κ : Type} (src : κ → Option α) (keys : List κ) (h : ∀ k ∈ keys, (src k).isSome) :
    (keys.filterMap src).length = keys.length := by
  have h1 := congrArg List.length (map_eq_map_some_filterMap src keys h)
  simpa using h1.symm

theorem leafVal_vals {κ : Type} (src : κ → Option α) (keys : List κ) (h : ∀ k ∈ keys, (src k).isSome) (i : Nat) :
    leafVal src keys i = (keys.filterMap src)[i]? := by
  rw [vals_getElem? src keys h]
  unfold leafVal
  cases keys[i]? <;> rfl

end Lists

/-! ## phase 1: created and retired positions are visited positions -/

theorem phase1Step_lists (hz : Bool) (cap live : Nat) (s : Phase1) (p : Nat) :
    (∀ q ∈ (phase1Step hz cap live s p).created, q ∈ s.created ∨ q = p) ∧
    (∀ q ∈ (phase1Step hz cap live s p).retired, q ∈ s.retired ∨ q = p) := by
  unfold phase1Step
  simp only
  by_cases hn : neededAt hz cap live p = true
  · split
    · simp only [hn, ↓reduceIte]
      refine ⟨fun q hq => ?_, fun q hq => Or.inl hq⟩
      simp only [List.mem_append, List.mem_singleton] at hq; exact hq
    · simp only [hn, Bool.not_true, Bool.false_eq_true, ↓reduceIte]
      exact ⟨fun q hq => Or.inl hq, fun q hq => Or.inl hq⟩
    · exact ⟨fun q hq => Or.inl hq, fun q hq => Or.inl hq⟩
  · have hn' : neededAt hz cap live p = false := by simpa using hn
    split
    · simp only [hn', Bool.false_eq_true, ↓reduceIte]
      exact ⟨fun q hq => Or.inl hq, fun q hq => Or.inl hq⟩
    · simp only [hn', Bool.not_false, ↓reduceIte]
      refine ⟨fun q hq => Or.inl hq, fun q hq => ?_⟩
      simp only [List.mem_append, List.mem_singleton] at hq; exact hq
    · exact ⟨fun q hq => Or.inl hq, fun q hq => Or.inl hq⟩

theorem phase1_fold_lists (hz : Bool) (cap live : Nat) (ps : List Nat) (s : Phase1) :
    (∀ q ∈ (ps.foldl (phase1Step hz cap live) s).created, q ∈ s.created ∨ q ∈ ps) ∧
    (∀ q ∈ (ps.foldl (phase1Step hz cap live) s).retired, q ∈ s.retired ∨ q ∈ ps) := by
  induction ps generalizing s with
  | nil => exact ⟨fun q hq => Or.inl hq, fun q hq => Or.inl hq⟩
  | cons p ps ih =>
    rw [List.foldl_cons]
    obtain ⟨i1, i2⟩ := ih (phase1Step hz cap live s p)
    obtain ⟨s1, s2⟩ := phase1Step_lists hz cap live s p
    constructor
    · intro q hq
      rcases i1 q hq with h | h
      · rcases s1 q h with h | h
        · exact Or.inl h
        · exact Or.inr (by rw [h]; exact List.mem_cons_self)
      · exact Or.inr (List.mem_cons_of_mem _ h)
    · intro q hq
      rcases i2 q hq with h | h
      · rcases s2 q h with h | h
        · exact Or.inl h
        · exact Or.inr (by rw [h]; exact List.mem_cons_self)
      · exact Or.inr (List.mem_cons_of_mem _ h)

/-! ## the candidate list is a strictly descending set -/

theorem insertDesc_pairwise (x : Nat) (l : List Nat) (h : l.Pairwise (· > ·)) : (insertDesc x l).Pairwise (· > ·) := by
  induction l with
  | nil => simp [insertDesc]
  | cons y ys ih =>
    rw [List.pairwise_cons] at h
    unfold insertDesc
    split
    · next hlt =>
      rw [List.pairwise_cons]
      refine ⟨?_, List.pairwise_cons.mpr h⟩
      intro a ha
      rcases List.mem_cons.mp ha with rfl | ha
      · exact hlt
      · have := h.1 a ha; omega
    · split
      · exact List.pairwise_cons.mpr h
      · next hnlt hne =>
        rw [List.pairwise_cons]
        refine ⟨?_, ih h.2⟩
        intro a ha
        rcases (mem_insertDesc x a ys).mp ha with rfl | ha
        · omega
        · exact h.1 a ha

theorem descSet_pairwise (ps : List Nat) : (descSet ps).Pairwise (· > ·) := by
  unfold descSet
  suffices ∀ init : List Nat, init.Pairwise (· > ·) →
      (ps.foldl (fun acc p => insertDesc p acc) init).Pairwise (· > ·) from this [] List.Pairwise.nil
  induction ps with
  | nil => intro init h; exact h
  | cons p ps ih => intro init h; rw [List.foldl_cons]; exact ih _ (insertDesc_pairwise p init h)

theorem mem_descSet (ps : List Nat) (q : Nat) : q ∈ descSet ps ↔ q ∈ ps := by
  unfold descSet
  rw [mem_foldl_insertDesc]; simp

theorem allPositionsDesc_pairwise (size : Nat) : (allPositionsDesc size).Pairwise (· > ·) := by
  unfold allPositionsDesc
  rw [List.pairwise_reverse]
  exact List.pairwise_lt_range

/-! ## `prepare_reduce_evaluation_positions` -/

section Cands
variable {κ : Type} [DecidableEq κ]

theorem candidates_pairwise (hz : Bool) (t : Tree κ) (positions : Option (List Nat)) (av ce ze : Bool)
    (ticked : List κ) : (candidates hz t positions av ce ze ticked).Pairwise (· > ·) := by
  unfold candidates
  split
  · exact (allPositionsDesc_pairwise _).filter _
  · exact descSet_pairwise _

theorem mem_candidates_full (hz : Bool) (t : Tree κ) (positions : Option (List Nat)) (av ce ze : Bool)
    (ticked : List κ) (hfs : fullScan hz positions.isSome ce ze = true) (q : Nat) :
    q ∈ candidates hz t positions av ce ze ticked ↔ q < t.combiners.length ∧ combLive t.combiners q = true := by
  unfold candidates
  simp only [hfs, ↓reduceIte, List.mem_filter, mem_allPositionsDesc]

/-- the candidate set when the pass is not a full scan: the structural positions that hold a combiner,
    the ancestors holding a combiner of the leaves of the modified slots, the root on a zero tick of a
    singleton -/
theorem mem_candidates (hz : Bool) (t : Tree κ) (positions : Option (List Nat)) (av ce ze : Bool)
    (ticked : List κ) (hfs : fullScan hz positions.isSome ce ze = false) (q : Nat) :
    q ∈ candidates hz t positions av ce ze ticked ↔
      (∃ sp, positions = some sp ∧ q ∈ sp ∧ q < t.combiners.length ∧ combLive t.combiners q = true) ∨
      ((ce && av) = true ∧ ∃ leaf ∈ modifiedLeaves t.keys ticked, q ∈ leafPathLive t.cap t.combiners leaf) ∨
      ((hz && ze && t.keys.length == 1 && !t.combiners.isEmpty && combLive t.combiners 0) = true ∧ q = 0) := by
  unfold candidates
  simp only [hfs, Bool.false_eq_true, ↓reduceIte]
  rw [mem_descSet]
  simp only [List.mem_append]
  constructor
  · rintro ((h | h) | h)
    · left
      cases positions with
      | none => simp at h
      | some sp =>
        simp only [List.mem_filter, Bool.and_eq_true, decide_eq_true_eq] at h
        exact ⟨sp, rfl, h.1, h.2.1, h.2.2⟩
    · right; left
      split at h
      · next hc =>
        rw [mem_foldl_paths] at h
        simp only [List.not_mem_nil, false_or] at h
        exact ⟨hc, h⟩
      · simp at h
    · right; right
      split at h
      · next hc =>
        simp only [List.mem_singleton] at h
        exact ⟨hc, h⟩
      · simp at h
  · rintro (⟨sp, hsp, h1, h2, h3⟩ | ⟨hc, h⟩ | ⟨hc, h⟩)
    · left; left
      subst hsp
      simp only [List.mem_filter, Bool.and_eq_true, decide_eq_true_eq]
      exact ⟨h1, h2, h3⟩
    · left; right
      rw [if_pos hc, mem_foldl_paths]
      exact Or.inr h
    · right
      rw [if_pos hc]
      simp [h]

theorem mem_leafPathLive (cap : Nat) (combiners : List Bool) (leaf q : Nat) :
    q ∈ leafPathLive cap combiners leaf ↔
      q ∈ pathFrom combiners.length (internalCount cap + leaf) ∧ combLive combiners q = true := by
  unfold leafPathLive
  simp only [List.mem_filter]

theorem mem_modifiedLeaves (keys : List κ) (ticked : List κ) (i : Nat) :
    i ∈ modifiedLeaves keys ticked ↔ ∃ key ∈ ticked, leafOf keys key = some i := by
  unfold modifiedLeaves
  simp only [List.mem_filterMap]

end Cands

/-! ## a combiner that is not a candidate saw nothing change below it -/

section Clean
variable {κ α : Type} [DecidableEq κ]

/-- If no recorded structural leaf and no leaf of a modified slot lies below the position `(d, j)`, the
    leaf values below it are the same before and after the cycle. -/
theorem clean_slice (k d j : Nat) (hd : d < k) (hj : j < 2 ^ d)
    (keys0 keys' : List κ) (sl : List Nat) (hmoved : Moved keys0 keys' sl) (hnd : keys'.Nodup)
    (src0 src' : κ → Option α) (ticked : List κ)
    (hv0 : ∀ key ∈ keys0, (src0 key).isSome) (hv' : ∀ key ∈ keys', (src' key).isSome)
    (hsrc : ∀ key ∈ keys', key ∉ ticked → src' key = src0 key)
    (hnotS : 2 ^ d + j - 1 ∉ structuralPositions (2 ^ k) (2 ^ k - 1) sl)
    (hnotT : ∀ key ∈ ticked, ∀ i, leafOf keys' key = some i →
      2 ^ d + j - 1 ∉ pathFrom (2 ^ k - 1) (internalCount (2 ^ k) + i)) :
    slice k d j (keys0.filterMap src0) = slice k d j (keys'.filterMap src') := by
  apply slice_congr
  intro i hlo hhi
  have hpos := pos_lt k d j hd hj
  have hkd : k = d + (k - d) := by omega
  have hanc : 2 ^ d + j - 1 ∈ pathFrom (2 ^ k - 1) (internalCount (2 ^ k) + i) := by
    have := ancestor_mem (2 ^ k - 1) d (k - d) j i (by omega) hj hlo hhi hpos
    rw [← hkd] at this
    exact this
  rw [vals_getElem? src0 keys0 hv0, vals_getElem? src' keys' hv']
  have hsame : keys0[i]? = keys'[i]? := by
    apply Classical.byContradiction
    intro hne
    apply hnotS
    rw [mem_structuralPositions]
    exact ⟨i, hmoved i hne, hanc⟩
  rw [hsame]
  cases hk : keys'[i]? with
  | none => rfl
  | some key =>
    simp only [Option.bind_some]
    have hmem : key ∈ keys' := List.mem_of_getElem? hk
    have hnt : key ∉ ticked := by
      intro ht
      exact hnotT key ht i (leafOf_getElem hnd i key hk) hanc
    exact (hsrc key hmem hnt).symm

end Clean

/-! ## the three kinds of cycle -/

section Kinds
variable {κ : Type} [DecidableEq κ]

/-- `reduce_reconcile` either does not rebuild (the leaves are unchanged), or rebuilds in full, or
    rebuilds incrementally after a sparse reconcile that recorded every changed dense leaf -/
theorem rebuildCall_cases (hz : Bool) (t0 : Tree κ) (hs : Shape hz t0) (a m : Bool) (r p : List κ) :
    ((rebuildCall hz t0 a m r p).2 = none ∧ (rebuildCall hz t0 a m r p).1.keys = t0.keys ∧
      (rebuildCall hz t0 a m r p).1.cap = t0.cap ∧ (rebuildCall hz t0 a m r p).1.combiners = t0.combiners) ∨
    ((rebuildCall hz t0 a m r p).2 = some true ∧ (rebuildCall hz t0 a m r p).1.cap = t0.cap ∧
      (rebuildCall hz t0 a m r p).1.combiners = t0.combiners ∧ (rebuildCall hz t0 a m r p).1.keys.Nodup) ∨
    ((rebuildCall hz t0 a m r p).2 = some false ∧ LeafInv t0 (rebuildCall hz t0 a m r p).1 ∧
      Moved t0.keys (rebuildCall hz t0 a m r p).1.keys (rebuildCall hz t0 a m r p).1.structLeaves) := by
  unfold rebuildCall
  simp only
  by_cases hav : a = true
  · simp only [hav, ↓reduceIte]
    by_cases hpm : (!t0.primed || m) = true
    · simp only [hpm, ↓reduceIte]
      unfold reconcileLeaves
      by_cases hpr : t0.primed = true
      · simp only [hpr, Bool.not_true, Bool.false_eq_true, ↓reduceIte, Bool.or_false]
        have hinv : LeafInv t0 (p.foldl addKey (r.foldl removeKey t0)) :=
          ((LeafInv.refl t0 hs.nodup).foldl_removeKey r).foldl_addKey p
        have hmv : Moved t0.keys (p.foldl addKey (r.foldl removeKey t0)).keys
            (p.foldl addKey (r.foldl removeKey t0)).structLeaves :=
          ((Moved.refl t0.keys t0.structLeaves).foldl_removeKey r).foldl_addKey p
        generalize (p.foldl addKey (r.foldl removeKey t0)) = t2 at *
        split
        · next hcond =>
          by_cases hpub : t0.published = true
          · right; right
            simp only [hpub, Bool.not_true]
            exact ⟨(by first | trivial | rfl), ⟨hinv.cap, hinv.combiners, hinv.published, hinv.nodup, hinv.covers, hinv.quiet⟩, hmv⟩
          · have hpf : t0.published = false := by simpa using hpub
            right; left
            simp only [hpf, Bool.not_false]
            exact ⟨(by first | trivial | rfl), hinv.cap, hinv.combiners, hinv.nodup⟩
        · next hcond =>
          left
          simp only [Bool.or_eq_true, Bool.not_eq_true', not_or, Bool.not_eq_false] at hcond
          have hsl : t2.structLeaves = [] := by
            have := hcond.1
            simpa using this
          exact ⟨(by first | trivial | rfl), hinv.quiet hsl, hinv.cap, hinv.combiners⟩
      · have hpf : t0.primed = false := by simpa using hpr
        simp only [hpf, Bool.not_false, ↓reduceIte, Bool.true_or, Bool.or_true]
        have hinv : LeafInv (clearLeaves t0) (p.foldl addKey (clearLeaves t0)) :=
          (LeafInv.refl (clearLeaves t0) (by simp [clearLeaves])).foldl_addKey p
        right; left
        exact ⟨(by first | trivial | rfl), hinv.cap, hinv.combiners, hinv.nodup⟩
    · simp only [hpm, Bool.false_eq_true, ↓reduceIte]
      split
      · next hpub =>
        have hpf : t0.published = false := by simpa using hpub
        right; left
        simp only [hpf, Bool.not_false]
        exact ⟨(by first | trivial | rfl), (by first | trivial | rfl), (by first | trivial | rfl), hs.nodup⟩
      · left; exact ⟨(by first | trivial | rfl), (by first | trivial | rfl), (by first | trivial | rfl), (by first | trivial | rfl)⟩
  · simp only [hav, Bool.false_eq_true, ↓reduceIte]
    split
    · right; left
      exact ⟨(by first | trivial | rfl), (by first | trivial | rfl), (by first | trivial | rfl), by simp [clearLeaves]⟩
    · split
      · next hpub =>
        have hpf : t0.published = false := by simpa using hpub
        right; left
        simp only [hpf, Bool.not_false]
        exact ⟨(by first | trivial | rfl), (by first | trivial | rfl), (by first | trivial | rfl), hs.nodup⟩
      · left; exact ⟨(by first | trivial | rfl), (by first | trivial | rfl), (by first | trivial | rfl), (by first | trivial | rfl)⟩

/-- a rebuild that visits every position (first publication, unavailable collection, capacity growth
    into the other bank) -/
theorem rebuildInfo_full (hz : Bool) (now : Nat) (t1 : Tree κ) (full : Bool)
    (h : full = true ∨ newCapacity hz t1.cap t1.keys.length ≠ t1.cap) :
    (rebuildInfo hz now t1 full).positions = allPositionsDesc (rebuildInfo hz now t1 full).tree.combiners.length := by
  have hlen := (phase1_fold_comb hz (newCapacity hz t1.cap t1.keys.length) t1.keys.length
    (rebuildPositions hz t1 full) { comb := rebuildComb0 hz t1 }).1
  have hc : (rebuildInfo hz now t1 full).tree.combiners.length = (rebuildComb0 hz t1).length := hlen
  rw [hc]
  show rebuildPositions hz t1 full = _
  unfold rebuildPositions
  have : (full || newCapacity hz t1.cap t1.keys.length != t1.cap) = true := by
    rcases h with h | h
    · simp [h]
    · simp [h]
  simp only [this, ↓reduceIte]

/-- an incremental rebuild inside the current bank: it visits the ancestor paths of the recorded
    structural leaves; combiners are created and retired only there, everything else is untouched -/
theorem rebuildInfo_incr (hz : Bool) (now : Nat) (t1 : Tree κ)
    (hcap : newCapacity hz t1.cap t1.keys.length = t1.cap) :
    (rebuildInfo hz now t1 false).bankChanged = false ∧
    (rebuildInfo hz now t1 false).positions = structuralPositions t1.cap t1.combiners.length t1.structLeaves ∧
    (rebuildInfo hz now t1 false).tree.cap = t1.cap ∧
    (rebuildInfo hz now t1 false).tree.keys = t1.keys ∧
    (rebuildInfo hz now t1 false).tree.combiners.length = t1.combiners.length ∧
    (∀ q ∈ (rebuildInfo hz now t1 false).created, q ∈ (rebuildInfo hz now t1 false).positions) ∧
    (∀ q ∈ (rebuildInfo hz now t1 false).retired, q ∈ (rebuildInfo hz now t1 false).positions) ∧
    (∀ q, q ∉ (rebuildInfo hz now t1 false).positions →
      (rebuildInfo hz now t1 false).tree.combiners[q]? = t1.combiners[q]?) := by
  have hc0 : rebuildComb0 hz t1 = t1.combiners := by unfold rebuildComb0; simp [hcap]
  have hpos : rebuildPositions hz t1 false = structuralPositions t1.cap t1.combiners.length t1.structLeaves := by
    unfold rebuildPositions
    simp [hcap, hc0]
  have hP : (rebuildInfo hz now t1 false).positions = rebuildPositions hz t1 false := rfl
  have hcomb : (rebuildInfo hz now t1 false).tree.combiners =
      ((rebuildPositions hz t1 false).foldl (phase1Step hz (newCapacity hz t1.cap t1.keys.length) t1.keys.length)
        { comb := rebuildComb0 hz t1 }).comb := rfl
  have hcr : (rebuildInfo hz now t1 false).created =
      ((rebuildPositions hz t1 false).foldl (phase1Step hz (newCapacity hz t1.cap t1.keys.length) t1.keys.length)
        { comb := rebuildComb0 hz t1 }).created := rfl
  have hrt : (rebuildInfo hz now t1 false).retired =
      ((rebuildPositions hz t1 false).foldl (phase1Step hz (newCapacity hz t1.cap t1.keys.length) t1.keys.length)
        { comb := rebuildComb0 hz t1 }).retired := rfl
  obtain ⟨hfl, hfq⟩ := phase1_fold_comb hz (newCapacity hz t1.cap t1.keys.length) t1.keys.length
    (rebuildPositions hz t1 false) { comb := rebuildComb0 hz t1 }
  obtain ⟨hl1, hl2⟩ := phase1_fold_lists hz (newCapacity hz t1.cap t1.keys.length) t1.keys.length
    (rebuildPositions hz t1 false) { comb := rebuildComb0 hz t1 }
  refine ⟨?_, ?_, ?_, rfl, ?_, ?_, ?_, ?_⟩
  · show (newCapacity hz t1.cap t1.keys.length != t1.cap) = false
    simp [hcap]
  · rw [hP, hpos]
  · show newCapacity hz t1.cap t1.keys.length = t1.cap
    exact hcap
  · rw [hcomb, hfl, hc0]
  · intro q hq
    rw [hcr] at hq
    rcases hl1 q hq with h | h
    · simp at h
    · rw [hP]; exact h
  · intro q hq
    rw [hrt] at hq
    rcases hl2 q hq with h | h
    · simp at h
    · rw [hP]; exact h
  · intro q hq
    rw [hP] at hq
    rw [hcomb]
    by_cases hlt : q < (rebuildComb0 hz t1).length
    · rw [hfq q hlt, if_neg hq, hc0]
    · have hfl' : ((rebuildPositions hz t1 false).foldl
          (phase1Step hz (newCapacity hz t1.cap t1.keys.length) t1.keys.length)
          { comb := rebuildComb0 hz t1 }).comb.length = (rebuildComb0 hz t1).length := hfl
      rw [List.getElem?_eq_none (by omega), ← hc0, List.getElem?_eq_none (by omega)]

end Kinds

/-! ## the cache invariant: what the cache must hold for a tree -/

section Inv
variable {κ α : Type} [DecidableEq κ]

/-- `cache` is right for the tree `t` and the element values `src`: every live combiner holds the fold
    of the combiner over the leaves below it (two or more leaves, or no zero), the singleton root holds
    `combine(value, zero)` -/
structure Good (f : α → α → α) (hz : Bool) (zero : Option α) (src : κ → Option α) (t : Tree κ)
    (cache : List (Option α)) : Prop where
  len : cache.length = t.combiners.length
  inner : ¬ (hz = true ∧ t.keys.length = 1) → ∀ k, t.cap = 2 ^ k → ∀ q, q < 2 ^ k - 1 →
    combLive t.combiners q = true → cache[q]? = some (foldOpt f (sliceAt k q (t.keys.filterMap src)))
  single : hz = true → ∀ key v z, t.keys = [key] → src key = some v → zero = some z →
    cache[0]? = some (some (f v z))

omit [DecidableEq κ] in
theorem shape_live_eq {hz : Bool} {t : Tree κ} (hs : Shape hz t) (k : Nat) (hk : t.cap = 2 ^ k) (q : Nat)
    (hq : q < 2 ^ k - 1) : combLive t.combiners q = neededAt hz (2 ^ k) t.keys.length q := by
  have := hs.comb_needed q (by rw [hk, internalCount_pow]; exact hq)
  unfold combLive
  rw [this, hk]
  cases neededAt hz (2 ^ k) t.keys.length q <;> rfl

omit [DecidableEq κ] in
/-- a singleton tree with a zero: capacity `2^e`, `e ≥ 1`, and the root combiner is live -/
theorem shape_single_cap {t : Tree κ} (hs : Shape true t) (hn : t.keys.length = 1) :
    ∃ e, 1 ≤ e ∧ t.cap = 2 ^ e ∧ combLive t.combiners 0 = true := by
  have hcap := hs.zero_cap rfl (by omega)
  rcases hs.cap_pow with hc | ⟨e, hc⟩
  · omega
  · have he : 1 ≤ e := by
      apply Classical.byContradiction
      intro h
      have : e = 0 := by omega
      subst this
      simp at hc; omega
    refine ⟨e, he, hc, ?_⟩
    have h2 : 2 ≤ 2 ^ e := by rw [← hc]; exact hcap
    rw [shape_live_eq hs e hc 0 (by omega), hn]
    simp [neededAt]

/-- in a singleton tree only the root can be needed -/
theorem needed_single (hz : Bool) (k q : Nat) (hq : q < 2 ^ k - 1) (h : neededAt hz (2 ^ k) 1 q = true) : q = 0 := by
  obtain ⟨d, j, hj, he⟩ := exists_level q
  have hd := level_depth_le k d j q hq he
  subst he
  rw [neededAt_level hz k d j 1 hd hj] at h
  have hp := two_pow_pos' (k - (d + 1))
  have h2 : ¬ (2 * j + 1) * 2 ^ (k - (d + 1)) < 1 := by
    have : 1 ≤ (2 * j + 1) * 2 ^ (k - (d + 1)) := Nat.mul_pos (by omega) hp
    omega
  simp only [h2, decide_false, Bool.or_false, Bool.and_eq_true, beq_iff_eq] at h
  exact h.1.1

/-- the root is an ancestor of every leaf -/
theorem root_structural (k : Nat) (hk : 1 ≤ k) (sl : List Nat) (m : Nat) (hm : m ∈ sl) (hlt : m < 2 ^ k) :
    0 ∈ structuralPositions (2 ^ k) (2 ^ k - 1) sl := by
  rw [mem_structuralPositions]
  refine ⟨m, hm, ?_⟩
  have h2 : 2 ≤ 2 ^ k := by
    have : k = (k - 1) + 1 := by omega
    rw [this, Nat.pow_succ]; have := two_pow_pos' (k - 1); omega
  have := ancestor_mem (2 ^ k - 1) 0 k 0 m hk (by simp) (by simp) (by simpa using hlt) (by simp; omega)
  simpa using this

/-- The evaluation pass establishes `Good` provided every live combiner that is NOT a candidate already
    holds its target value. -/
theorem pass_good (f : α → α → α) (hf : ∀ a b c, f (f a b) c = f a (f b c)) (hz : Bool) (zero : Option α)
    (src : κ → Option α) (t : Tree κ) (hs : Shape hz t) (hvalid : ∀ key ∈ t.keys, (src key).isSome)
    (cands : List Nat) (hdesc : cands.Pairwise (· > ·)) (c0 : List (Option α))
    (hlen : c0.length = t.combiners.length)
    (hC1 : ¬ (hz = true ∧ t.keys.length = 1) → ∀ k, t.cap = 2 ^ k → ∀ q, q < 2 ^ k - 1 →
      combLive t.combiners q = true → q ∉ cands →
      c0[q]? = some (foldOpt f (sliceAt k q (t.keys.filterMap src))))
    (hC2 : hz = true → ∀ key v z, t.keys = [key] → src key = some v → zero = some z → 0 ∉ cands →
      c0[0]? = some (some (f v z))) :
    Good f hz zero src t (cands.foldl (evalL f (if hz then zero else none) t.cap t.keys.length
      (combLive t.combiners) (leafVal src t.keys)) c0) := by
  refine ⟨?_, ?_, ?_⟩
  · rw [foldl_evalL_length, hlen]
  · intro hn k hk q hq hl
    have hvl := vals_length src t.keys hvalid
    rw [hk, ← hvl]
    apply pass_inner f hf _ k hz (combLive t.combiners) (leafVal src t.keys) (t.keys.filterMap src)
      (leafVal_vals src t.keys hvalid)
    · intro q' hq'
      rw [hvl]; exact shape_live_eq hs k hk q' hq'
    · rw [hvl]; exact hn
    · exact hdesc
    · rw [hlen, hs.comb_len, hk, internalCount_pow]
    · intro q' hq' hl' hnc
      exact hC1 hn k hk q' hq' hl' hnc
    · exact hq
    · exact hl
  · intro hzt key v z hk hv hzs
    subst hzt
    have hn : t.keys.length = 1 := by rw [hk]; rfl
    obtain ⟨e, he, hc, hlive⟩ := shape_single_cap hs hn
    have h2 : 2 ≤ 2 ^ e := by
      have : e = (e - 1) + 1 := by omega
      rw [this, Nat.pow_succ]; have := two_pow_pos' (e - 1); omega
    have hsize : 0 < t.combiners.length := by rw [hs.comb_len, hc, internalCount_pow]; omega
    simp only [↓reduceIte]
    rw [hn, hc, hzs]
    have hlv : leafVal src t.keys 0 = some v := by simp [leafVal, hk, hv]
    exact pass_generic (evalL f (some z) (2 ^ e) 1 (combLive t.combiners) (leafVal src t.keys))
      (fun q => q = 0) (fun _ => some (f v z))
      (fun c p q h => evalL_other f _ _ _ _ _ c p q h) (fun c p => evalL_length f _ _ _ _ _ c p)
      t.combiners.length cands hdesc
      (by
        intro c p hc' _ hp _
        subst hp
        exact evalL_single f e he _ _ c (by omega) hlive v z hlv)
      c0 hlen
      (by
        intro q hq hnc
        subst hq
        exact hC2 rfl key v z hk hv hzs hnc)
      0 rfl

/-- What an incremental (or purely value-driven) cycle guarantees about the tree `t'` and the candidate
    list `cands` it produces from the tree `told`, with `sl` the recorded structural leaves: same
    capacity; every dense leaf whose key changed is recorded; combiners changed only on the recorded
    leaves' ancestor paths; the candidates contain every combiner on those paths, on the paths of the
    leaves of the modified slots, and the singleton root on a zero tick. -/
structure Incr (hz : Bool) (told t' : Tree κ) (cands : List Nat) (ticked : List κ) (zeroEvent : Bool)
    (sl : List Nat) : Prop where
  cap : t'.cap = told.cap
  moved : Moved told.keys t'.keys sl
  covers : Covers told.keys.length t'.keys.length sl
  comb : ∀ q, q ∉ structuralPositions t'.cap t'.combiners.length sl → t'.combiners[q]? = told.combiners[q]?
  cP : ∀ q ∈ structuralPositions t'.cap t'.combiners.length sl, q < t'.combiners.length →
    combLive t'.combiners q = true → q ∈ cands
  cT : ∀ key ∈ ticked, ∀ i, leafOf t'.keys key = some i →
    ∀ q ∈ pathFrom t'.combiners.length (internalCount t'.cap + i), combLive t'.combiners q = true → q ∈ cands
  cZ : hz = true → zeroEvent = true → t'.keys.length = 1 → 0 ∈ cands
  only : ∀ p ∈ cands, p ∈ structuralPositions t'.cap t'.combiners.length sl ∨
    (∃ key ∈ ticked, ∃ i, leafOf t'.keys key = some i ∧ p ∈ pathFrom t'.combiners.length (internalCount t'.cap + i)) ∨
    p = 0

/-- A combiner that is not a candidate of an incremental (or purely value-driven) cycle saw nothing
    change below it: its old cached value is still the right one. -/
theorem clean_core (f : α → α → α) (hz : Bool) (src0 src' : κ → Option α) (zero0 zero' : Option α)
    (told t' : Tree κ) (cacheOld c0 : List (Option α)) (cands sl : List Nat) (ticked : List κ) (zeroEvent : Bool)
    (hsO : Shape hz told) (hvO : ∀ key ∈ told.keys, (src0 key).isSome) (hgO : Good f hz zero0 src0 told cacheOld)
    (hs' : Shape hz t') (hv' : ∀ key ∈ t'.keys, (src' key).isSome)
    (hin : Incr hz told t' cands ticked zeroEvent sl)
    (hc0 : ∀ q, q ∉ structuralPositions t'.cap t'.combiners.length sl → c0[q]? = cacheOld[q]?)
    (hsrc : ∀ key ∈ t'.keys, key ∉ ticked → src' key = src0 key)
    (hzero : zeroEvent = false → zero' = zero0) :
    (¬ (hz = true ∧ t'.keys.length = 1) → ∀ k, t'.cap = 2 ^ k → ∀ q, q < 2 ^ k - 1 →
      combLive t'.combiners q = true → q ∉ cands →
      c0[q]? = some (foldOpt f (sliceAt k q (t'.keys.filterMap src')))) ∧
    (hz = true → ∀ key v z, t'.keys = [key] → src' key = some v → zero' = some z → 0 ∉ cands →
      c0[0]? = some (some (f v z))) := by
  obtain ⟨hcap, hmoved, hcov, hcomb, hcP, hcT, hcZ, _⟩ := hin
  constructor
  · intro hn k hk q hq hl hnc
    have hsize : t'.combiners.length = 2 ^ k - 1 := by rw [hs'.comb_len, hk, internalCount_pow]
    have hqP : q ∉ structuralPositions t'.cap t'.combiners.length sl := fun h => hnc (hcP q h (by omega) hl)
    have hlO : combLive told.combiners q = true := by
      unfold combLive at hl ⊢
      rw [← hcomb q hqP]; exact hl
    have hkO : told.cap = 2 ^ k := by rw [← hcap, hk]
    have h2 : 2 ≤ 2 ^ k := by omega
    have hk1 : 1 ≤ k := by
      apply Classical.byContradiction; intro hc
      have : k = 0 := by omega
      subst this; simp at h2
    rw [hc0 q hqP]
    by_cases hso : hz = true ∧ told.keys.length = 1
    · -- the old tree was a singleton with a zero: only its root was live, and the root is structural
      exfalso
      obtain ⟨hzt, hn0⟩ := hso
      have hq0 : q = 0 := by
        apply needed_single hz k q hq
        rw [← hn0, ← shape_live_eq hsO k hkO q hq]; exact hlO
      subst hq0
      have hn' : t'.keys.length ≠ 1 := fun h => hn ⟨hzt, h⟩
      apply hqP
      rw [hk, hsize]
      by_cases h0 : t'.keys.length = 0
      · exact root_structural k hk1 sl 0 (hcov 0 (Or.inr (by omega))) (by omega)
      · exact root_structural k hk1 sl 1 (hcov 1 (Or.inl (by omega))) (by omega)
    · rw [hgO.inner hso k hkO q hq hlO]
      obtain ⟨d, j, hj, he⟩ := exists_level q
      have hd := level_depth_le k d j q hq he
      subst he
      rw [sliceAt_pos k d j hj, sliceAt_pos k d j hj]
      congr 2
      apply clean_slice k d j hd hj told.keys t'.keys sl hmoved hs'.nodup src0 src' ticked hvO hv' hsrc
      · rw [hk, hsize] at hqP; exact hqP
      · intro key hkt i hi hmem
        apply hnc
        apply hcT key hkt i hi _ _ hl
        rw [hsize, hk]; exact hmem
  · intro hzt key v z hk hv hzs h0
    subst hzt
    have hn : t'.keys.length = 1 := by rw [hk]; rfl
    obtain ⟨e, he, hc, hlive⟩ := shape_single_cap hs' hn
    have h2 : 2 ≤ 2 ^ e := by
      have : e = (e - 1) + 1 := by omega
      rw [this, Nat.pow_succ]; have := two_pow_pos' (e - 1); omega
    have hsize : t'.combiners.length = 2 ^ e - 1 := by rw [hs'.comb_len, hc, internalCount_pow]
    have h0P : 0 ∉ structuralPositions t'.cap t'.combiners.length sl := fun h => h0 (hcP 0 h (by omega) hlive)
    rw [hc, hsize] at h0P
    have hn0 : told.keys.length = 1 := by
      apply Classical.byContradiction; intro hne
      apply h0P
      by_cases h00 : told.keys.length = 0
      · exact root_structural e he sl 0 (hcov 0 (Or.inl (by omega))) (by omega)
      · exact root_structural e he sl 1 (hcov 1 (Or.inr (by omega))) (by omega)
    have hkey0 : told.keys[0]? = t'.keys[0]? := by
      apply Classical.byContradiction; intro hne
      exact h0P (root_structural e he sl 0 (hmoved 0 hne) (by omega))
    have hkO : told.keys = [key] := by
      rw [hk] at hkey0
      match hto : told.keys, hn0 with
      | [x], _ =>
        rw [hto] at hkey0
        simp only [List.getElem?_cons_zero, Option.some.injEq] at hkey0
        rw [hkey0]
    have hroot : 0 ∈ pathFrom t'.combiners.length (internalCount t'.cap + 0) := by
      have := ancestor_mem (2 ^ e - 1) 0 e 0 0 he (by simp) (by simp) (by simp; omega) (by simp; omega)
      rw [hsize, hc]
      simpa using this
    have hnt : key ∉ ticked := by
      intro ht
      apply h0
      apply hcT key ht 0 _ 0 hroot hlive
      rw [hk]; simp [leafOf]
    have hze : zeroEvent = false := by
      cases hzev : zeroEvent with
      | false => rfl
      | true => exact absurd (hcZ rfl hzev hn) h0
    have hv0 : src0 key = some v := by
      rw [← hsrc key (by rw [hk]; simp) hnt]; exact hv
    have hz0 : zero0 = some z := by rw [← hzero hze]; exact hzs
    have h0P' : 0 ∉ structuralPositions t'.cap t'.combiners.length sl := by rw [hc, hsize]; exact h0P
    rw [hc0 0 h0P']
    exact hgO.single rfl key v z hkO hv0 hz0

end Inv

/-! ## the structural part of one cycle -/

section PlanLemmas
variable {κ α : Type} [DecidableEq κ]

theorem plan_none (hz : Bool) (told : Tree κ) (i : CycleIn κ α) (t1 : Tree κ)
    (h : rebuildCall hz { destroyPrevBefore i.now told with structLeaves := [] } i.available i.collEvent
      i.removed i.present = (t1, none)) :
    plan hz told i =
      { tree := t1, rb := none
        cands := candidates hz t1 none i.available i.collEvent i.zeroEvent i.ticked } := by
  unfold plan planWith
  simp only [h, Option.map_none]

theorem plan_some (hz : Bool) (told : Tree κ) (i : CycleIn κ α) (t1 : Tree κ) (full : Bool)
    (h : rebuildCall hz { destroyPrevBefore i.now told with structLeaves := [] } i.available i.collEvent
      i.removed i.present = (t1, some full)) :
    plan hz told i =
      { tree := (rebuildInfo hz i.now t1 full).tree, rb := some (rebuildInfo hz i.now t1 full)
        cands := candidates hz (rebuildInfo hz i.now t1 full).tree (some (rebuildInfo hz i.now t1 full).positions)
          i.available i.collEvent i.zeroEvent i.ticked } := by
  unfold plan planWith
  simp only [h, Option.map_some]

/-- the structural part of a cycle is `Reduce.evalStructure` -/
theorem plan_tree (hz : Bool) (told : Tree κ) (i : CycleIn κ α) :
    (plan hz told i).tree = evalStructure hz i.now told i.available i.collEvent i.removed i.present := by
  unfold evalStructure
  rw [rebuildCall_eq]
  rcases hcall : rebuildCall hz { destroyPrevBefore i.now told with structLeaves := [] } i.available
    i.collEvent i.removed i.present with ⟨t1, call⟩
  cases call with
  | none => rw [plan_none hz told i t1 hcall]
  | some full => rw [plan_some hz told i t1 full hcall]; rfl

theorem plan_shape (hz : Bool) (told : Tree κ) (i : CycleIn κ α) (hs : Shape hz told) :
    Shape hz (plan hz told i).tree := by
  rw [plan_tree]; exact evalStructure_shape hz _ _ _ _ _ _ hs

theorem plan_cands_pairwise (hz : Bool) (told : Tree κ) (i : CycleIn κ α) :
    (plan hz told i).cands.Pairwise (· > ·) := candidates_pairwise _ _ _ _ _ _ _

/-- the zero rule fires for a singleton with a ticked zero -/
theorem zero_candidate (t : Tree κ) (hs : Shape true t) (hn : t.keys.length = 1) :
    (true && true && t.keys.length == 1 && !t.combiners.isEmpty && combLive t.combiners 0) = true := by
  obtain ⟨e, he, hc, hlive⟩ := shape_single_cap hs hn
  have h2 : 2 ≤ 2 ^ e := by
    have : e = (e - 1) + 1 := by omega
    rw [this, Nat.pow_succ]; have := two_pow_pos' (e - 1); omega
  have hsize : 0 < t.combiners.length := by rw [hs.comb_len, hc, internalCount_pow]; omega
  have hne : t.combiners.isEmpty = false := by
    cases hcm : t.combiners with
    | nil => rw [hcm] at hsize; simp at hsize
    | cons _ _ => rfl
  simp [hn, hne, hlive]

/-- what `rebuild_structure` contributes to an incremental cycle -/
def RbIncr (rb : Option (Rebuilt κ)) (t' : Tree κ) (sl : List Nat) : Prop :=
  match rb with
  | none => sl = []
  | some r => r.bankChanged = false ∧ r.positions = structuralPositions t'.cap t'.combiners.length sl ∧
      (∀ q ∈ r.created, q ∈ r.positions) ∧ (∀ q ∈ r.retired, q ∈ r.positions)

/-- what is known about `rebuild_structure` in a cycle whose pass covers every live combiner: it was not
    called and nothing ticked (a wake-up without input event), or it visited every position -/
def RbAll (rb : Option (Rebuilt κ)) (t' : Tree κ) (ticked : List κ) : Prop :=
  match rb with
  | none => ticked = []
  | some r => r.positions = allPositionsDesc t'.combiners.length

/-- THE TWO KINDS OF CYCLE.  Either every live combiner is an evaluation candidate (first publication,
    unavailable collection, capacity growth into the other bank, a wake-up without an input event), or
    the cycle is incremental: `Incr` holds for the recorded structural leaves `sl`. -/
theorem plan_kinds (hz : Bool) (told : Tree κ) (i : CycleIn κ α) (hs : Shape hz told)
    (hev : i.ticked ≠ [] → i.collEvent = true ∧ i.available = true) :
    ((∀ q, q < (plan hz told i).tree.combiners.length → combLive (plan hz told i).tree.combiners q = true →
      q ∈ (plan hz told i).cands) ∧ RbAll (plan hz told i).rb (plan hz told i).tree i.ticked) ∨
    (∃ sl, Incr hz told (plan hz told i).tree (plan hz told i).cands i.ticked i.zeroEvent sl ∧
      RbIncr (plan hz told i).rb (plan hz told i).tree sl ∧
      (plan hz told i).tree.combiners.length = told.combiners.length) := by
  have hshape' := plan_shape hz told i hs
  obtain ⟨e1, e2, e3, _, _⟩ := destroyPrev_fields i.now told
  have hs0 : Shape hz ({ destroyPrevBefore i.now told with structLeaves := [] } : Tree κ) := hs.of_eq e1 e2 e3
  have hcases := rebuildCall_cases hz _ hs0 i.available i.collEvent i.removed i.present
  rcases hcall : rebuildCall hz { destroyPrevBefore i.now told with structLeaves := [] } i.available
    i.collEvent i.removed i.present with ⟨t1, call⟩
  rw [hcall] at hcases
  simp only at hcases
  have hceav : ∀ key, key ∈ i.ticked → (i.collEvent && i.available) = true := by
    intro key hk
    have := hev (fun hc => by rw [hc] at hk; simp at hk)
    simp [this.1, this.2]
  cases call with
  | none =>
    rw [plan_none hz told i t1 hcall] at hshape' ⊢
    simp only at hshape' ⊢
    rcases hcases with ⟨_, hk, hc, hm⟩ | ⟨hx, _⟩ | ⟨hx, _⟩
    · by_cases hfs : fullScan hz (none : Option (List Nat)).isSome i.collEvent i.zeroEvent = true
      · left
        refine ⟨?_, ?_⟩
        · intro q hq hl
          rw [mem_candidates_full hz t1 none _ _ _ _ hfs]
          exact ⟨hq, hl⟩
        · show i.ticked = []
          apply Classical.byContradiction
          intro hne
          have := (hev hne).1
          simp [fullScan, this] at hfs
      · right
        have hfs' : fullScan hz (none : Option (List Nat)).isSome i.collEvent i.zeroEvent = false := by
          simpa using hfs
        have hSP : ∀ q, q ∉ structuralPositions t1.cap t1.combiners.length ([] : List Nat) := by
          intro q hq; rw [mem_structuralPositions] at hq; obtain ⟨_, hm', _⟩ := hq; simp at hm'
        refine ⟨[], ⟨by rw [hc, e2], by rw [hk, e1]; exact Moved.refl _ _,
          by intro m hm'; rw [hk, e1] at hm'; omega, by intro q _; rw [hm, e3],
          by intro q hq; exact absurd hq (hSP q), ?_, ?_, ?_⟩, rfl, by rw [hm, e3]⟩
        · intro key hkt li hli q hq hl
          rw [mem_candidates hz t1 none _ _ _ _ hfs']
          right; left
          refine ⟨hceav key hkt, li, (mem_modifiedLeaves _ _ _).mpr ⟨key, hkt, hli⟩, ?_⟩
          exact (mem_leafPathLive _ _ _ _).mpr ⟨hq, hl⟩
        · intro hzt hze hn
          subst hzt
          rw [mem_candidates true t1 none _ _ _ _ hfs']
          right; right
          refine ⟨?_, rfl⟩
          rw [hze]; exact zero_candidate t1 hshape' hn
        · intro p hp
          rw [mem_candidates hz t1 none _ _ _ _ hfs'] at hp
          rcases hp with ⟨sp, hsp, _⟩ | ⟨_, leaf, hleaf, hq⟩ | ⟨_, h0⟩
          · cases hsp
          · right; left
            obtain ⟨key, hkt, hlf⟩ := (mem_modifiedLeaves _ _ _).mp hleaf
            exact ⟨key, hkt, leaf, hlf, ((mem_leafPathLive _ _ _ _).mp hq).1⟩
          · exact Or.inr (Or.inr h0)
    · cases hx
    · cases hx
  | some full =>
    rw [plan_some hz told i t1 full hcall] at hshape' ⊢
    simp only at hshape' ⊢
    have hfs' : fullScan hz (some (rebuildInfo hz i.now t1 full).positions).isSome i.collEvent i.zeroEvent = false := by
      simp [fullScan]
    by_cases hbig : full = true ∨ newCapacity hz t1.cap t1.keys.length ≠ t1.cap
    · left
      have hpos := rebuildInfo_full hz i.now t1 full hbig
      refine ⟨?_, hpos⟩
      intro q hq hl
      rw [mem_candidates hz _ _ _ _ _ _ hfs']
      left
      exact ⟨_, rfl, by rw [hpos, mem_allPositionsDesc]; exact hq, hq, hl⟩
    · right
      have hfull : full = false := by
        cases full with
        | false => rfl
        | true => exact absurd (Or.inl rfl) hbig
      have hcapeq : newCapacity hz t1.cap t1.keys.length = t1.cap := by
        apply Classical.byContradiction; intro hc; exact hbig (Or.inr hc)
      subst hfull
      obtain ⟨hinv, hmv⟩ : LeafInv ({ destroyPrevBefore i.now told with structLeaves := [] } : Tree κ) t1 ∧
          Moved (destroyPrevBefore i.now told).keys t1.keys t1.structLeaves := by
        rcases hcases with ⟨hx, _⟩ | ⟨hx, _⟩ | ⟨_, h1, h2⟩
        · cases hx
        · cases hx
        · exact ⟨h1, h2⟩
      obtain ⟨rb1, rb2, rb3, rb4, rb5, rb6, rb7, rb8⟩ := rebuildInfo_incr hz i.now t1 hcapeq
      have hSPeq : structuralPositions (rebuildInfo hz i.now t1 false).tree.cap
          (rebuildInfo hz i.now t1 false).tree.combiners.length t1.structLeaves =
          (rebuildInfo hz i.now t1 false).positions := by rw [rb2, rb3, rb5]
      refine ⟨t1.structLeaves, ⟨by rw [rb3, hinv.cap, e2], by rw [rb4, ← e1]; exact hmv,
        by rw [rb4, ← e1]; exact hinv.covers, ?_, ?_, ?_, ?_, ?_⟩, ⟨rb1, hSPeq.symm, rb6, rb7⟩,
        by rw [rb5, hinv.combiners, e3]⟩
      · intro q hq
        rw [hSPeq] at hq
        rw [rb8 q hq, hinv.combiners, e3]
      · intro q hq hqs hl
        rw [hSPeq] at hq
        rw [mem_candidates hz _ _ _ _ _ _ hfs']
        left
        exact ⟨_, rfl, hq, hqs, hl⟩
      · intro key hkt li hli q hq hl
        rw [mem_candidates hz _ _ _ _ _ _ hfs']
        right; left
        refine ⟨hceav key hkt, li, (mem_modifiedLeaves _ _ _).mpr ⟨key, hkt, hli⟩, ?_⟩
        exact (mem_leafPathLive _ _ _ _).mpr ⟨hq, hl⟩
      · intro hzt hze hn
        subst hzt
        rw [mem_candidates true _ _ _ _ _ _ hfs']
        right; right
        refine ⟨?_, rfl⟩
        rw [hze]; exact zero_candidate _ hshape' hn
      · intro p hp
        rw [mem_candidates hz _ _ _ _ _ _ hfs'] at hp
        rcases hp with ⟨sp, hsp, h1, _⟩ | ⟨_, leaf, hleaf, hq⟩ | ⟨_, h0⟩
        · left
          simp only [Option.some.injEq] at hsp
          rw [hSPeq, hsp]; exact h1
        · right; left
          obtain ⟨key, hkt, hlf⟩ := (mem_modifiedLeaves _ _ _).mp hleaf
          exact ⟨key, hkt, leaf, hlf, ((mem_leafPathLive _ _ _ _).mp hq).1⟩
        · exact Or.inr (Or.inr h0)

/-- the outputs of the combiners after `rebuild_structure`, before the evaluation pass -/
def cache0Of (cache : List (Option α)) (rb : Option (Rebuilt κ)) : List (Option α) :=
  match rb with
  | some r => cacheAfterRebuild cache r
  | none => cache

/-- in an incremental cycle the cached outputs off the structural paths are untouched by the rebuild -/
theorem cache0Of_incr (cache : List (Option α)) (rb : Option (Rebuilt κ)) (t' : Tree κ) (sl : List Nat)
    (h : RbIncr rb t' sl) (q : Nat) (hq : q ∉ structuralPositions t'.cap t'.combiners.length sl) :
    (cache0Of cache rb)[q]? = cache[q]? := by
  unfold cache0Of
  cases rb with
  | none => rfl
  | some r =>
    obtain ⟨h1, h2, h3, h4⟩ := h
    rw [← h2] at hq
    simp only
    unfold cacheAfterRebuild
    rw [h1]
    simp only [Bool.false_eq_true, ↓reduceIte]
    rw [clearAt_getElem? _ _ q (fun hc => hq (h3 q hc)), clearAt_getElem? _ _ q (fun hc => hq (h4 q hc))]

theorem cacheAfterRebuild_length (hz : Bool) (now : Nat) (t1 : Tree κ) (full : Bool) (cache : List (Option α))
    (h : cache.length = t1.combiners.length) :
    (cacheAfterRebuild cache (rebuildInfo hz now t1 full)).length = (rebuildInfo hz now t1 full).tree.combiners.length := by
  unfold cacheAfterRebuild
  split
  · simp
  · next hb =>
    rw [clearAt_length, clearAt_length, h]
    have hlen := (phase1_fold_comb hz (newCapacity hz t1.cap t1.keys.length) t1.keys.length
      (rebuildPositions hz t1 full) { comb := rebuildComb0 hz t1 }).1
    have hc : (rebuildInfo hz now t1 full).tree.combiners.length = (rebuildComb0 hz t1).length := hlen
    rw [hc]
    have hbc : (newCapacity hz t1.cap t1.keys.length != t1.cap) = false := by
      have : (rebuildInfo hz now t1 full).bankChanged = (newCapacity hz t1.cap t1.keys.length != t1.cap) := rfl
      rw [← this]; simpa using hb
    unfold rebuildComb0
    simp [hbc]

/-- the cache handed to the evaluation pass has one entry per heap position of the new tree -/
theorem cache0Of_length (hz : Bool) (told : Tree κ) (i : CycleIn κ α) (hs : Shape hz told)
    (cache : List (Option α)) (h : cache.length = told.combiners.length) :
    (cache0Of cache (plan hz told i).rb).length = (plan hz told i).tree.combiners.length := by
  obtain ⟨e1, e2, e3, _, _⟩ := destroyPrev_fields i.now told
  have hs0 : Shape hz ({ destroyPrevBefore i.now told with structLeaves := [] } : Tree κ) := hs.of_eq e1 e2 e3
  have hcases := rebuildCall_cases hz _ hs0 i.available i.collEvent i.removed i.present
  rcases hcall : rebuildCall hz { destroyPrevBefore i.now told with structLeaves := [] } i.available
    i.collEvent i.removed i.present with ⟨t1, call⟩
  rw [hcall] at hcases
  simp only at hcases
  cases call with
  | none =>
    rw [plan_none hz told i t1 hcall]
    rcases hcases with ⟨_, _, _, hm⟩ | ⟨hx, _⟩ | ⟨hx, _⟩
    · simp only [cache0Of]; rw [h, hm, e3]
    · cases hx
    · cases hx
  | some full =>
    rw [plan_some hz told i t1 full hcall]
    have ht1comb : t1.combiners.length = told.combiners.length := by
      rcases hcases with ⟨hx, _⟩ | ⟨_, _, hm, _⟩ | ⟨_, hinv, _⟩
      · cases hx
      · rw [hm, e3]
      · rw [hinv.combiners, e3]
    exact cacheAfterRebuild_length hz i.now t1 full cache (by rw [h, ht1comb])

end PlanLemmas

/-! ## one cycle of the lifted path -/

section Cycle
variable {κ α : Type} [DecidableEq κ]

theorem cycleL_st (f : α → α → α) (hz : Bool) (s : LSt κ α) (i : CycleIn κ α) :
    (cycleL f hz s i).st =
      { tree := (plan hz s.tree i).tree
        cache := (plan hz s.tree i).cands.foldl
          (evalL f (if hz then i.zero else none) (plan hz s.tree i).tree.cap (plan hz s.tree i).tree.keys.length
            (combLive (plan hz s.tree i).tree.combiners) (leafVal i.src (plan hz s.tree i).tree.keys))
          (cache0Of s.cache (plan hz s.tree i).rb) } := rfl

/-- the structural part of a cycle is `Reduce.evalStructure` -/
theorem cycleL_tree (f : α → α → α) (hz : Bool) (s : LSt κ α) (i : CycleIn κ α) :
    (cycleL f hz s i).st.tree = evalStructure hz i.now s.tree i.available i.collEvent i.removed i.present :=
  plan_tree hz s.tree i

/-- the cache invariant of the lifted path: the structural invariant of `Model/Reduce.lean`, every leaf
    is a valid element, and the cache is right (`Good`) -/
structure CacheInv (f : α → α → α) (hz : Bool) (zero : Option α) (src : κ → Option α) (s : LSt κ α) : Prop where
  shape : Shape hz s.tree
  valid : ∀ key ∈ s.tree.keys, (src key).isSome
  good : Good f hz zero src s.tree s.cache

/-- the evaluation pass over the candidates of a cycle establishes `Good` for the new tree -/
theorem plan_pass_good (f : α → α → α) (hf : ∀ a b c, f (f a b) c = f a (f b c)) (hz : Bool)
    (told : Tree κ) (cacheOld : List (Option α)) (i : CycleIn κ α) (src0 : κ → Option α) (zero0 : Option α)
    (hsO : Shape hz told) (hvO : ∀ key ∈ told.keys, (src0 key).isSome) (hgO : Good f hz zero0 src0 told cacheOld)
    (hsrc : ∀ key ∈ (plan hz told i).tree.keys, key ∉ i.ticked → i.src key = src0 key)
    (hzero : i.zeroEvent = false → i.zero = zero0)
    (hvalid : ∀ key ∈ (plan hz told i).tree.keys, (i.src key).isSome)
    (hev : i.ticked ≠ [] → i.collEvent = true ∧ i.available = true) :
    Good f hz i.zero i.src (plan hz told i).tree
      ((plan hz told i).cands.foldl
        (evalL f (if hz then i.zero else none) (plan hz told i).tree.cap (plan hz told i).tree.keys.length
          (combLive (plan hz told i).tree.combiners) (leafVal i.src (plan hz told i).tree.keys))
        (cache0Of cacheOld (plan hz told i).rb)) := by
  have hshape' := plan_shape hz told i hsO
  have hlen0 := cache0Of_length hz told i hsO cacheOld hgO.len
  rcases plan_kinds hz told i hsO hev with ⟨hall, _⟩ | ⟨sl, hin, hrb, _⟩
  · apply pass_good f hf hz i.zero i.src _ hshape' hvalid _ (plan_cands_pairwise hz told i) _ hlen0
    · intro _ k hk2 q hq hl hnc
      exact absurd (hall q (by rw [hshape'.comb_len, hk2, internalCount_pow]; exact hq) hl) hnc
    · intro hzt key v z hkk _ _ hnc
      subst hzt
      obtain ⟨e, he, hce, hlive⟩ := shape_single_cap hshape' (by rw [hkk]; rfl)
      have h2 : 2 ≤ 2 ^ e := by
        have : e = (e - 1) + 1 := by omega
        rw [this, Nat.pow_succ]; have := two_pow_pos' (e - 1); omega
      exact absurd (hall 0 (by rw [hshape'.comb_len, hce, internalCount_pow]; omega) hlive) hnc
  · obtain ⟨C1, C2⟩ := clean_core f hz src0 i.src zero0 i.zero told (plan hz told i).tree cacheOld
      (cache0Of cacheOld (plan hz told i).rb) (plan hz told i).cands sl i.ticked i.zeroEvent
      hsO hvO hgO hshape' hvalid hin (cache0Of_incr cacheOld _ _ sl hrb) hsrc hzero
    exact pass_good f hf hz i.zero i.src _ hshape' hvalid _ (plan_cands_pairwise hz told i) _ hlen0 C1 C2

/-- ONE CYCLE PRESERVES THE CACHE INVARIANT (lifted path).  `src0` / `zero0` are the element and zero
    values the invariant held for before the cycle; `i.src` / `i.zero` the current ones. -/
theorem cacheInv_step' (f : α → α → α) (hf : ∀ a b c, f (f a b) c = f a (f b c)) (hz : Bool) (s : LSt κ α)
    (i : CycleIn κ α) (src0 : κ → Option α) (zero0 : Option α) (h : CacheInv f hz zero0 src0 s)
    (hsrc : ∀ key ∈ (cycleL f hz s i).st.tree.keys, key ∉ i.ticked → i.src key = src0 key)
    (hzero : i.zeroEvent = false → i.zero = zero0)
    (hvalid : ∀ key ∈ (cycleL f hz s i).st.tree.keys, (i.src key).isSome)
    (hev : i.ticked ≠ [] → i.collEvent = true ∧ i.available = true) :
    CacheInv f hz i.zero i.src (cycleL f hz s i).st := by
  rw [cycleL_st] at hsrc hvalid ⊢
  exact ⟨plan_shape hz s.tree i h.shape, hvalid,
    plan_pass_good f hf hz s.tree s.cache i src0 zero0 h.shape h.valid h.good hsrc hzero hvalid hev⟩

end Cycle

/-! ## heap ancestors and leaf intervals -/

/-- every element of the ancestor path is `(pos+1) / 2^t - 1` for some `t ≥ 1` -/
theorem pathFrom_elem (size : Nat) : ∀ (pos q : Nat), q ∈ pathFrom size pos →
    ∃ t, 1 ≤ t ∧ q + 1 = (pos + 1) / 2 ^ t ∧ q < size := by
  intro pos
  induction pos using Nat.strongRecOn with
  | _ pos ih =>
    intro q hq
    rw [pathFrom] at hq
    by_cases h0 : pos = 0
    · simp [h0] at hq
    · simp only [h0, ↓reduceDIte, List.mem_append] at hq
      have hpar : (pos - 1) / 2 + 1 = (pos + 1) / 2 := by omega
      rcases hq with hq | hq
      · split at hq
        · next hlt =>
          simp only [List.mem_singleton] at hq
          subst hq
          exact ⟨1, by omega, by rw [Nat.pow_one]; exact hpar, hlt⟩
        · simp at hq
      · obtain ⟨t, ht, he, hs⟩ := ih ((pos - 1) / 2) (by omega) q hq
        refine ⟨t + 1, by omega, ?_, hs⟩
        rw [he, hpar, Nat.pow_succ, Nat.mul_comm, Nat.div_div_eq_div_mul]

/-- an ancestor of the leaf `m` holds `m` in its interval -/
theorem anc_interval (k d j m q : Nat) (hj : j < 2 ^ d) (hm : m < 2 ^ k) (hq : q = 2 ^ d + j - 1)
    (h : q ∈ pathFrom (2 ^ k - 1) (internalCount (2 ^ k) + m)) :
    d < k ∧ j * 2 ^ (k - d) ≤ m ∧ m < (j + 1) * 2 ^ (k - d) := by
  obtain ⟨t, ht, he, hs⟩ := pathFrom_elem _ _ _ h
  have hdp := two_pow_pos' d
  have hkp := two_pow_pos' k
  have htp := two_pow_pos' t
  rw [internalCount_pow] at he
  have hX : 2 ^ k - 1 + m + 1 = 2 ^ k + m := by omega
  rw [hX] at he
  have hq1 : q + 1 = 2 ^ d + j := by omega
  rw [hq1] at he
  have hdiv := (Nat.div_eq_iff (k := 2 ^ t) (x := 2 ^ k + m) (y := 2 ^ d + j) htp).mp he.symm
  have hlo : (2 ^ d + j) * 2 ^ t ≤ 2 ^ k + m := hdiv.1
  have hhi : 2 ^ k + m < (2 ^ d + j + 1) * 2 ^ t := by
    rw [Nat.add_mul, Nat.one_mul]; omega
  have h1 : 2 ^ (d + t) ≤ 2 ^ k + m := by
    rw [Nat.pow_add]
    exact Nat.le_trans (Nat.mul_le_mul_right _ (by omega)) hlo
  have h2 : 2 ^ k + m < 2 ^ (d + 1 + t) := by
    rw [Nat.pow_add]
    have : (2 ^ d + j + 1) ≤ 2 ^ (d + 1) := by rw [Nat.pow_succ]; omega
    exact Nat.lt_of_lt_of_le hhi (Nat.mul_le_mul_right _ this)
  have h3 : d + t < k + 1 := by
    apply (Nat.pow_lt_pow_iff_right (a := 2) (by omega)).mp
    have : 2 ^ (k + 1) = 2 * 2 ^ k := by rw [Nat.pow_succ]; omega
    omega
  have h4 : k < d + 1 + t := by
    apply (Nat.pow_lt_pow_iff_right (a := 2) (by omega)).mp
    omega
  have hk : k = d + t := by omega
  have hkd : k - d = t := by omega
  rw [hkd]
  have hp : 2 ^ k = 2 ^ d * 2 ^ t := by rw [hk, Nat.pow_add]
  rw [Nat.add_mul] at hlo
  have hhi' : 2 ^ k + m < 2 ^ d * 2 ^ t + (j + 1) * 2 ^ t := by
    have : (2 ^ d + j + 1) * 2 ^ t = 2 ^ d * 2 ^ t + (j + 1) * 2 ^ t := by
      rw [Nat.add_assoc, Nat.add_mul]
    rw [← this]; exact hhi
  refine ⟨by omega, by omega, by omega⟩

/-- the heap ancestors of the leaf `m` are exactly the positions whose interval holds `m` -/
theorem anc_iff_interval (k d j m : Nat) (hd : d < k) (hj : j < 2 ^ d) (hm : m < 2 ^ k) :
    2 ^ d + j - 1 ∈ pathFrom (2 ^ k - 1) (internalCount (2 ^ k) + m) ↔
      j * 2 ^ (k - d) ≤ m ∧ m < (j + 1) * 2 ^ (k - d) := by
  constructor
  · intro h
    exact (anc_interval k d j m _ hj hm rfl h).2
  · intro ⟨hlo, hhi⟩
    have hkd : k = d + (k - d) := by omega
    have := ancestor_mem (2 ^ k - 1) d (k - d) j m (by omega) hj hlo hhi (pos_lt k d j hd hj)
    rw [← hkd] at this
    exact this

/-! ## phase 1 sets aside every combiner that is no longer needed -/

theorem phase1Step_retired_mono (hz : Bool) (cap live : Nat) (s : Phase1) (p q : Nat) (h : q ∈ s.retired) :
    q ∈ (phase1Step hz cap live s p).retired := by
  unfold phase1Step
  simp only
  split
  · split <;> exact h
  · split
    · simp [h]
    · exact h
  · exact h

theorem phase1_fold_retired_mono (hz : Bool) (cap live : Nat) (ps : List Nat) (s : Phase1) (q : Nat)
    (h : q ∈ s.retired) : q ∈ (ps.foldl (phase1Step hz cap live) s).retired := by
  induction ps generalizing s with
  | nil => exact h
  | cons p ps ih => rw [List.foldl_cons]; exact ih _ (phase1Step_retired_mono hz cap live s p q h)

theorem phase1_fold_retired (hz : Bool) (cap live : Nat) (ps : List Nat) (s : Phase1) (q : Nat)
    (hq : q ∈ ps) (hc : s.comb[q]? = some true) (hn : neededAt hz cap live q = false) :
    q ∈ (ps.foldl (phase1Step hz cap live) s).retired := by
  induction ps generalizing s with
  | nil => simp at hq
  | cons p ps ih =>
    rw [List.foldl_cons]
    by_cases hpq : p = q
    · subst hpq
      apply phase1_fold_retired_mono
      unfold phase1Step
      simp only [hc, hn, Bool.not_false, ↓reduceIte]
      simp
    · have hq' : q ∈ ps := by
        rcases List.mem_cons.mp hq with h | h
        · exact absurd h.symm hpq
        · exact h
      apply ih _ hq'
      rw [(phase1Step_comb hz cap live s p).2 q]
      have : ¬ (q = p ∧ p < s.comb.length) := fun h => hpq h.1.symm
      simp only [this, ↓reduceIte]
      exact hc

/-! ## no combiner is lost from sight -/

section NoStale
variable {κ α : Type} [DecidableEq κ]

theorem combLive_iff (l : List Bool) (q : Nat) : combLive l q = true ↔ l[q]? = some true := by
  unfold combLive; simp

theorem mem_livePositions (l : List Bool) (q : Nat) : q ∈ livePositions l ↔ l[q]? = some true := by
  unfold livePositions
  simp only [List.mem_filter, List.mem_range, beq_iff_eq]
  constructor
  · exact fun h => h.2
  · intro h
    refine ⟨?_, h⟩
    apply Classical.byContradiction; intro hc
    rw [List.getElem?_eq_none (by omega)] at h; cases h

/-- a combiner that held a position before a rebuild inside the bank and no longer does was set aside -/
theorem rebuildInfo_retired (hz : Bool) (now : Nat) (t1 : Tree κ) (full : Bool) (q : Nat)
    (hbc : (rebuildInfo hz now t1 full).bankChanged = false) (h1 : combLive t1.combiners q = true)
    (h2 : combLive (rebuildInfo hz now t1 full).tree.combiners q = false) :
    q ∈ (rebuildInfo hz now t1 full).retired := by
  have hcap : (newCapacity hz t1.cap t1.keys.length != t1.cap) = false := hbc
  have hc0 : rebuildComb0 hz t1 = t1.combiners := by unfold rebuildComb0; simp [hcap]
  obtain ⟨hfl, hfq⟩ := phase1_fold_comb hz (newCapacity hz t1.cap t1.keys.length) t1.keys.length
    (rebuildPositions hz t1 full) { comb := rebuildComb0 hz t1 }
  have hcomb : (rebuildInfo hz now t1 full).tree.combiners =
      ((rebuildPositions hz t1 full).foldl (phase1Step hz (newCapacity hz t1.cap t1.keys.length) t1.keys.length)
        { comb := rebuildComb0 hz t1 }).comb := rfl
  have hrt : (rebuildInfo hz now t1 full).retired =
      ((rebuildPositions hz t1 full).foldl (phase1Step hz (newCapacity hz t1.cap t1.keys.length) t1.keys.length)
        { comb := rebuildComb0 hz t1 }).retired := rfl
  rw [combLive_iff] at h1
  have hlt : q < (rebuildComb0 hz t1).length := by
    rw [hc0]
    apply Classical.byContradiction; intro hc
    rw [List.getElem?_eq_none (by omega)] at h1; cases h1
  have hq := hfq q hlt
  have h2' : ¬ (rebuildInfo hz now t1 full).tree.combiners[q]? = some true := by
    intro hc; rw [← combLive_iff, h2] at hc; cases hc
  rw [hcomb] at h2'
  by_cases hmem : q ∈ rebuildPositions hz t1 full
  · rw [hq, if_pos hmem] at h2'
    have hn : neededAt hz (newCapacity hz t1.cap t1.keys.length) t1.keys.length q = false := by
      cases hne : neededAt hz (newCapacity hz t1.cap t1.keys.length) t1.keys.length q with
      | false => rfl
      | true => rw [hne] at h2'; exact absurd rfl h2'
    rw [hrt]
    exact phase1_fold_retired hz _ _ _ _ q hmem (by rw [hc0]; exact h1) hn
  · rw [hq, if_neg hmem] at h2'
    have : (rebuildComb0 hz t1)[q]? = some true := by rw [hc0]; exact h1
    exact absurd this h2'

/-- EVERY COMBINER THAT EXISTED BEFORE THE CYCLE is either set aside by it (retired in phase 1, or left
    behind in the old bank) or still exists at its position in the same bank. -/
theorem plan_retired_or_live (hz : Bool) (told : Tree κ) (i : CycleIn κ α) (hs : Shape hz told) (q : Nat)
    (hl : combLive told.combiners q = true) :
    q ∈ retiredOf told (plan hz told i).rb ∨
      (combLive (plan hz told i).tree.combiners q = true ∧ (plan hz told i).tree.cap = told.cap) := by
  obtain ⟨e1, e2, e3, _, _⟩ := destroyPrev_fields i.now told
  have hs0 : Shape hz ({ destroyPrevBefore i.now told with structLeaves := [] } : Tree κ) := hs.of_eq e1 e2 e3
  have hcases := rebuildCall_cases hz _ hs0 i.available i.collEvent i.removed i.present
  rcases hcall : rebuildCall hz { destroyPrevBefore i.now told with structLeaves := [] } i.available
    i.collEvent i.removed i.present with ⟨t1, call⟩
  rw [hcall] at hcases
  simp only at hcases
  have ht1 : t1.combiners = told.combiners ∧ t1.cap = told.cap := by
    rcases hcases with ⟨_, _, hc, hm⟩ | ⟨_, hc, hm, _⟩ | ⟨_, hinv, _⟩
    · exact ⟨by rw [hm, e3], by rw [hc, e2]⟩
    · exact ⟨by rw [hm, e3], by rw [hc, e2]⟩
    · exact ⟨by rw [hinv.combiners, e3], by rw [hinv.cap, e2]⟩
  cases call with
  | none =>
    rw [plan_none hz told i t1 hcall]
    right
    simp only
    rw [ht1.1, ht1.2]; exact ⟨hl, rfl⟩
  | some full =>
    rw [plan_some hz told i t1 full hcall]
    simp only [retiredOf]
    cases hbc : (rebuildInfo hz i.now t1 full).bankChanged with
    | true =>
      left
      simp only [↓reduceIte]
      rw [mem_livePositions, ← combLive_iff]; exact hl
    | false =>
      simp only [Bool.false_eq_true, ↓reduceIte]
      cases hl' : combLive (rebuildInfo hz i.now t1 full).tree.combiners q with
      | true =>
        right
        refine ⟨rfl, ?_⟩
        have : (rebuildInfo hz i.now t1 full).tree.cap = newCapacity hz t1.cap t1.keys.length := rfl
        rw [this]
        have hcap : (newCapacity hz t1.cap t1.keys.length != t1.cap) = false := hbc
        rw [← ht1.2]; simpa using hcap
      | false =>
        left
        exact rebuildInfo_retired hz i.now t1 full q hbc (by rw [ht1.1]; exact hl) hl'

/-- NO STALE COMBINER SURVIVES.  A combiner that exists after the cycle and was NOT evaluated in it
    existed before at the same position of the same bank, and nothing below it changed: every dense
    leaf of its interval holds the same key as before the cycle, and that key's slot was not modified. -/
theorem plan_unevaluated_unchanged (hz : Bool) (told : Tree κ) (i : CycleIn κ α) (hs : Shape hz told)
    (hev : i.ticked ≠ [] → i.collEvent = true ∧ i.available = true)
    (k d j : Nat) (hk : (plan hz told i).tree.cap = 2 ^ k) (hd : d < k) (hj : j < 2 ^ d)
    (hl : combLive (plan hz told i).tree.combiners (2 ^ d + j - 1) = true)
    (hne : 2 ^ d + j - 1 ∉ (plan hz told i).cands) :
    told.cap = 2 ^ k ∧ combLive told.combiners (2 ^ d + j - 1) = true ∧
    ∀ m, j * 2 ^ (k - d) ≤ m → m < (j + 1) * 2 ^ (k - d) →
      told.keys[m]? = (plan hz told i).tree.keys[m]? ∧
      ∀ key, (plan hz told i).tree.keys[m]? = some key → key ∉ i.ticked := by
  have hshape' := plan_shape hz told i hs
  have hq := pos_lt k d j hd hj
  have hsize : (plan hz told i).tree.combiners.length = 2 ^ k - 1 := by
    rw [hshape'.comb_len, hk, internalCount_pow]
  rcases plan_kinds hz told i hs hev with ⟨hall, _⟩ | ⟨sl, hin, _, _⟩
  · exact absurd (hall _ (by omega) hl) hne
  · have hqP : 2 ^ d + j - 1 ∉ structuralPositions (plan hz told i).tree.cap
        (plan hz told i).tree.combiners.length sl := fun h => hne (hin.cP _ h (by omega) hl)
    refine ⟨by rw [← hin.cap, hk], ?_, ?_⟩
    · rw [combLive_iff] at hl ⊢
      rw [← hin.comb _ hqP]; exact hl
    · intro m hlo hhi
      have hkd : k = d + (k - d) := by omega
      have hanc : 2 ^ d + j - 1 ∈ pathFrom (2 ^ k - 1) (internalCount (2 ^ k) + m) := by
        have := ancestor_mem (2 ^ k - 1) d (k - d) j m (by omega) hj hlo hhi hq
        rw [← hkd] at this
        exact this
      constructor
      · apply Classical.byContradiction
        intro hne'
        apply hqP
        rw [mem_structuralPositions, hk, hsize]
        exact ⟨m, hin.moved m hne', hanc⟩
      · intro key hkey hkt
        apply hne
        apply hin.cT key hkt m (leafOf_getElem hshape'.nodup m key hkey) _ _ hl
        rw [hsize, hk]; exact hanc

end NoStale

/-! ## the published root -/

section Root
variable {κ α : Type} [DecidableEq κ]

theorem slice_root (k : Nat) (vs : List α) (h : vs.length ≤ 2 ^ k) : slice k 0 0 vs = vs := by
  unfold slice
  simp only [Nat.zero_mul, List.drop_zero, Nat.sub_zero]
  exact List.take_of_length_le h

/-- two or more leaves, or no zero: the published root is the fold over all leaves -/
theorem rootVal_inner (f : α → α → α) (hz : Bool) (zero : Option α) (src : κ → Option α) (t : Tree κ)
    (cache : List (Option α)) (hs : Shape hz t) (hvalid : ∀ key ∈ t.keys, (src key).isSome)
    (hg : Good f hz zero src t cache) (hn : ¬ (hz = true ∧ t.keys.length = 1)) (hpos : 0 < t.keys.length) :
    rootVal hz zero src { tree := t, cache := cache } = foldOpt f (t.keys.filterMap src) := by
  unfold rootVal
  simp only
  have hroot : rootAgg hz t.cap t.keys.length t.combiners.length = resolveClosed t.cap t.keys.length 0 := by
    unfold rootAgg
    have h0 : ¬ t.keys.length = 0 := by omega
    cases hz with
    | false => simp [h0]
    | true =>
      have : ¬ t.keys.length = 1 := fun h => hn ⟨rfl, h⟩
      simp [h0, this]
  rw [hroot]
  rcases hs.cap_pow with hc | ⟨k, hc⟩
  · have := hs.live_le; omega
  · have hvl := vals_length src t.keys hvalid
    have hle : (t.keys.filterMap src).length ≤ 2 ^ k := by rw [hvl, ← hc]; exact hs.live_le
    rw [hc, ← hvl]
    have := aggVal_interval f (if hz = true then zero else none) k (leafVal src t.keys) (t.keys.filterMap src)
      cache 0 (leafVal_vals src t.keys hvalid)
      (by
        intro d j hd hj _ hneed
        have hq := pos_lt k d j hd hj
        have hl : combLive t.combiners (2 ^ d + j - 1) = true := by
          rw [shape_live_eq hs k hc _ hq, needed_inner hz k d j _ hd hj hn]
          rw [hvl] at hneed; simpa using hneed
        rw [hg.inner hn k hc _ hq hl, sliceAt_pos k d j hj])
      k 0 0 (by omega) (by simp) (by rw [Nat.zero_mul, hvl]; exact hpos) (by simp)
    simp only [Nat.pow_zero, Nat.add_zero, Nat.sub_self] at this
    rw [this, slice_root k _ hle]

/-- a singleton with a (valid) zero: the published root is `combine(value, zero)` -/
theorem rootVal_single (f : α → α → α) (zero : Option α) (src : κ → Option α) (t : Tree κ)
    (cache : List (Option α)) (hs : Shape true t) (hg : Good f true zero src t cache)
    (key : κ) (v z : α) (hk : t.keys = [key]) (hv : src key = some v) (hzs : zero = some z) :
    rootVal true zero src { tree := t, cache := cache } = some (f v z) := by
  have hn : t.keys.length = 1 := by rw [hk]; rfl
  obtain ⟨e, he, hc, hlive⟩ := shape_single_cap hs hn
  have h2 : 2 ≤ 2 ^ e := by
    have : e = (e - 1) + 1 := by omega
    rw [this, Nat.pow_succ]; have := two_pow_pos' (e - 1); omega
  have hsize : t.combiners.length ≠ 0 := by rw [hs.comb_len, hc, internalCount_pow]; omega
  unfold rootVal
  simp only
  have hroot : rootAgg true t.cap t.keys.length t.combiners.length = .node 0 := by
    unfold rootAgg
    simp [hn, hsize]
  rw [hroot]
  simp only [aggVal]
  rw [hg.single rfl key v z hk hv hzs]
  rfl

/-- no leaf: the zero, or nothing -/
theorem rootVal_empty (hz : Bool) (zero : Option α) (src : κ → Option α) (t : Tree κ) (cache : List (Option α))
    (hk : t.keys = []) :
    rootVal hz zero src { tree := t, cache := cache } = if hz then zero else none := by
  unfold rootVal
  simp [rootAgg, hk, aggVal]

end Root

end HgVerif.ReduceInc
