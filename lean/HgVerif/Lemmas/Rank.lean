import HgVerif.Model.Rank
/-!
Helper lemmas for the rank pass (`Model/Rank.lean`): counting lemmas for `consumersOf`, the effect
of the inner `for consumer : consumers[instance]` loop (`relaxAll`), the loop invariant `Inv` of the
`while` loop and its preservation, exhaustion of the fuel, and a minimal-element lemma for acyclic
relations on finite lists.  Property theorems are in `Props/C01Rank.lean`.
-/
namespace HgVerif.Rank

/-! ### generic list facts -/

theorem mem_of_nodup_bounded_full {l : List Nat} {n : Nat} (hnd : l.Nodup) (hb : ∀ x ∈ l, x < n)
    (hlen : n ≤ l.length) {i : Nat} (hi : i < n) : i ∈ l := by
  apply Classical.byContradiction
  intro hni
  have hsub : l ⊆ (List.range n).erase i := by
    intro x hx
    rw [List.Nodup.mem_erase_iff List.nodup_range]
    exact ⟨fun h => hni (h ▸ hx), List.mem_range.mpr (hb x hx)⟩
  have h1 := List.Nodup.length_le_of_subset hnd hsub
  rw [List.length_erase_of_mem (List.mem_range.mpr hi), List.length_range] at h1
  omega

theorem length_le_of_nodup_bounded {l : List Nat} {n : Nat} (hnd : l.Nodup) (hb : ∀ x ∈ l, x < n) :
    l.length ≤ n := by
  have := List.Nodup.length_le_of_subset hnd (fun x hx => List.mem_range.mpr (hb x hx))
  simpa using this

/-- an acyclic relation has a minimal element in every non-empty finite list -/
theorem exists_minimal {α : Type} (r : α → α → Prop) (hac : ∀ x, ¬ Relation.TransGen r x x) :
    ∀ (k : Nat) (L : List α), L.length ≤ k → L ≠ [] → ∃ m ∈ L, ∀ y ∈ L, ¬ r y m := by
  intro k
  induction k with
  | zero =>
    intro L hL hne
    cases L with
    | nil => exact absurd rfl hne
    | cons a t => simp at hL
  | succ k ih =>
    intro L hL hne
    cases L with
    | nil => exact absurd rfl hne
    | cons x t =>
      apply Classical.byCases (p := ∃ y ∈ x :: t, r y x)
      · rintro ⟨y, hy, hyx⟩
        let pr : α → Bool := fun z => @decide (Relation.TransGen r z x) (Classical.propDecidable _)
        let L' := (x :: t).filter pr
        have hx' : ¬ pr x = true := by
          simp only [pr, decide_eq_true_eq]; exact hac x
        have hlt : L'.length < (x :: t).length :=
          List.length_filter_lt_length_iff_exists.mpr ⟨x, List.mem_cons_self, hx'⟩
        have hy' : y ∈ L' := by
          refine List.mem_filter.mpr ⟨hy, ?_⟩
          simp only [pr, decide_eq_true_eq]; exact .single hyx
        have hne' : L' ≠ [] := List.ne_nil_of_mem hy'
        obtain ⟨m, hm, hmin⟩ := ih L' (by simp at hL hlt; omega) hne'
        have hmx : Relation.TransGen r m x := by
          have := (List.mem_filter.mp hm).2
          simpa [pr] using this
        refine ⟨m, (List.mem_filter.mp hm).1, ?_⟩
        intro z hz hzm
        refine hmin z (List.mem_filter.mpr ⟨hz, ?_⟩) hzm
        simp only [pr, decide_eq_true_eq]
        exact Relation.TransGen.trans (.single hzm) hmx
      · intro hno
        exact ⟨x, List.mem_cons_self, fun y hy hyx => hno ⟨y, hy, hyx⟩⟩

/-! ### consumers -/

theorem count_consumersOf (n : Nat) (P : Nat → List Nat) (p c : Nat) :
    (consumersOf n P p).count c = if c < n then (P c).count p else 0 := by
  unfold consumersOf
  induction n with
  | zero => simp
  | succ n ih =>
    rw [List.range_succ, List.flatMap_append, List.count_append, ih]
    simp only [List.flatMap_cons, List.flatMap_nil, List.append_nil, List.count_replicate, beq_iff_eq]
    by_cases h1 : c < n
    · have : ¬ n = c := by omega
      simp [h1, this]; omega
    · by_cases h2 : n = c
      · subst h2; simp
      · have : ¬ c < n + 1 := by omega
        simp [h1, h2, this]

theorem mem_consumersOf {n : Nat} {P : Nat → List Nat} {p c : Nat} :
    c ∈ consumersOf n P p ↔ c < n ∧ p ∈ P c := by
  rw [← List.count_pos_iff, count_consumersOf]
  by_cases h : c < n
  · simp [h, List.count_pos_iff]
  · simp [h]

/-! ### pending producer occurrences -/

/-- number of producer occurrences of `c` that are not ranked yet -/
def pending (P : Nat → List Nat) (ranked : List Nat) (c : Nat) : Nat :=
  (P c).countP fun p => !ranked.contains p

theorem countP_pending_append (ranked l : List Nat) (x : Nat) (hx : x ∉ ranked) :
    l.countP (fun p => !(ranked ++ [x]).contains p) + l.count x = l.countP (fun p => !ranked.contains p) := by
  induction l with
  | nil => simp
  | cons a t ih =>
    simp only [List.countP_cons, List.count_cons]
    by_cases hax : a = x
    · subst hax
      have h1 : ranked.contains a = false := by
        simpa using hx
      have h2 : (ranked ++ [a]).contains a = true := by simp
      simp only [h1, h2, Bool.not_false, Bool.not_true, beq_self_eq_true, if_true, Bool.false_eq_true,
        if_false]
      omega
    · have h2 : (ranked ++ [x]).contains a = ranked.contains a := by
        simp [hax]
      have h3 : (a == x) = false := by simpa using hax
      simp only [h2, h3, Bool.false_eq_true, if_false]; omega

theorem pending_append (P : Nat → List Nat) (ranked : List Nat) (x c : Nat) (hx : x ∉ ranked) :
    pending P (ranked ++ [x]) c + (P c).count x = pending P ranked c :=
  countP_pending_append ranked (P c) x hx

theorem pending_eq_zero {P : Nat → List Nat} {ranked : List Nat} {c : Nat} :
    pending P ranked c = 0 ↔ ∀ p ∈ P c, p ∈ ranked := by
  unfold pending
  rw [List.countP_eq_zero]
  simp

theorem pending_nil (P : Nat → List Nat) (c : Nat) : pending P [] c = (P c).length := by
  unfold pending
  simp

/-! ### the inner loop -/

section relax
variable (push : Nat → Bool)

theorem relax_ranked (s : St) (c : Nat) : (relax push s c).ranked = s.ranked := by
  unfold relax; simp only
  split
  · split <;> rfl
  · rfl

theorem relax_indeg (s : St) (c j : Nat) :
    (relax push s c).indeg j = if j = c then s.indeg c - 1 else s.indeg j := by
  unfold relax; simp only
  split
  · split <;> rfl
  · rfl

theorem relax_queues (s : St) (c : Nat) :
    ((relax push s c).qp, (relax push s c).q) =
      if s.indeg c - 1 = 0 then (if push c then (s.qp ++ [c], s.q) else (s.qp, s.q ++ [c])) else (s.qp, s.q) := by
  unfold relax; simp only
  by_cases h : s.indeg c - 1 = 0
  · by_cases hp : push c = true <;> simp [h, hp]
  · simp [h]

theorem relaxAll_ranked (cs : List Nat) (s : St) : (relaxAll push s cs).ranked = s.ranked := by
  induction cs generalizing s with
  | nil => rfl
  | cons c t ih => simp only [relaxAll, List.foldl_cons] at ih ⊢; rw [ih, relax_ranked]

theorem relaxAll_indeg (cs : List Nat) (s : St) (j : Nat) :
    (relaxAll push s cs).indeg j = s.indeg j - (cs.count j : Int) := by
  induction cs generalizing s with
  | nil => simp [relaxAll]
  | cons c t ih =>
    simp only [relaxAll, List.foldl_cons] at ih ⊢
    rw [ih, relax_indeg, List.count_cons]
    by_cases h : j = c
    · subst h; simp; omega
    · have : ¬ c = j := fun e => h e.symm
      simp [h, this]

/-- What the inner loop appends to the two queues: exactly the consumers whose counter reaches zero,
    each once, push sources to `qp`, the others to `q`.  Hypothesis: no counter underflows. -/
theorem relaxAll_queues (cs : List Nat) (s : St) (hs : ∀ c ∈ cs, (cs.count c : Int) ≤ s.indeg c) :
    ∃ np nq, (relaxAll push s cs).qp = s.qp ++ np ∧ (relaxAll push s cs).q = s.q ++ nq ∧
      np.Nodup ∧ nq.Nodup ∧ (∀ c ∈ np, push c = true) ∧ (∀ c ∈ nq, push c = false) ∧
      (∀ c, (c ∈ np ∨ c ∈ nq) ↔ (c ∈ cs ∧ s.indeg c = (cs.count c : Int))) := by
  induction cs generalizing s with
  | nil => exact ⟨[], [], by simp [relaxAll]⟩
  | cons c0 t ih =>
    have hq := relax_queues push s c0
    have hs1 : ∀ c ∈ t, (t.count c : Int) ≤ (relax push s c0).indeg c := by
      intro c hc
      have := hs c (List.mem_cons_of_mem _ hc)
      rw [relax_indeg]
      rw [List.count_cons] at this
      by_cases h : c = c0
      · subst h; simp at this ⊢; omega
      · have h' : ¬ c0 = c := fun e => h e.symm
        simp [h, h'] at this ⊢; exact this
    obtain ⟨np, nq, hqp, hqq, hnp, hnq, hpp, hpq, hiff⟩ := ih (relax push s c0) hs1
    have h0 := hs c0 List.mem_cons_self
    rw [List.count_cons] at h0
    simp only [beq_self_eq_true, if_true] at h0
    have hrel : relaxAll push s (c0 :: t) = relaxAll push (relax push s c0) t := by
      simp [relaxAll]
    rw [hrel]
    -- membership for elements different from c0 is inherited
    have hother : ∀ c, c ≠ c0 → ((c ∈ t ∧ (relax push s c0).indeg c = (t.count c : Int)) ↔
        (c ∈ c0 :: t ∧ s.indeg c = ((c0 :: t).count c : Int))) := by
      intro c hc
      have hc' : ¬ c0 = c := fun e => hc e.symm
      rw [relax_indeg, List.count_cons]
      simp [hc, hc']
    by_cases hd : s.indeg c0 - 1 = 0
    · -- c0 reaches zero now; it cannot occur again in t
      have hct : t.count c0 = 0 := by omega
      have hc0t : c0 ∉ t := List.count_eq_zero.mp hct
      have hc0new : ¬ (c0 ∈ np ∨ c0 ∈ nq) := by
        rw [hiff]; exact fun h => hc0t h.1
      have hiff0 : (c0 ∈ c0 :: t ∧ s.indeg c0 = ((c0 :: t).count c0 : Int)) := by
        refine ⟨List.mem_cons_self, ?_⟩
        rw [List.count_cons]; simp [hct]; omega
      by_cases hp : push c0 = true
      · simp only [hd, hp, if_true] at hq
        have hq1 := congrArg Prod.fst hq
        have hq2 := congrArg Prod.snd hq
        simp only at hq1 hq2
        refine ⟨c0 :: np, nq, ?_, ?_, ?_, hnq, ?_, hpq, ?_⟩
        · rw [hqp, hq1]; simp
        · rw [hqq, hq2]
        · exact List.nodup_cons.mpr ⟨fun h => hc0new (Or.inl h), hnp⟩
        · intro c hc
          rcases List.mem_cons.mp hc with rfl | h
          · exact hp
          · exact hpp c h
        · intro c
          by_cases hc : c = c0
          · subst hc; simp [hiff0]
          · rw [← hother c hc, ← hiff]; simp [hc]
      · have hp' : push c0 = false := by simpa using hp
        simp only [hd, hp', if_true] at hq
        have hq1 := congrArg Prod.fst hq
        have hq2 := congrArg Prod.snd hq
        simp only [Bool.false_eq_true, if_false] at hq1 hq2
        refine ⟨np, c0 :: nq, ?_, ?_, hnp, ?_, hpp, ?_, ?_⟩
        · rw [hqp, hq1]
        · rw [hqq, hq2]; simp
        · exact List.nodup_cons.mpr ⟨fun h => hc0new (Or.inr h), hnq⟩
        · intro c hc
          rcases List.mem_cons.mp hc with rfl | h
          · exact hp'
          · exact hpq c h
        · intro c
          by_cases hc : c = c0
          · subst hc; simp [hiff0]
          · rw [← hother c hc, ← hiff]; simp [hc]
    · simp only [hd, if_false] at hq
      have hq1 := congrArg Prod.fst hq
      have hq2 := congrArg Prod.snd hq
      simp only at hq1 hq2
      refine ⟨np, nq, by rw [hqp, hq1], by rw [hqq, hq2], hnp, hnq, hpp, hpq, ?_⟩
      intro c
      by_cases hc : c = c0
      · subst hc
        rw [hiff, relax_indeg, List.count_cons]
        simp only [if_true, beq_self_eq_true, List.mem_cons, true_or, true_and]
        constructor
        · rintro ⟨_, h⟩; omega
        · intro h
          have hne : t.count c ≠ 0 := by omega
          refine ⟨?_, by omega⟩
          exact List.count_pos_iff.mp (Nat.pos_of_ne_zero hne)
      · rw [← hother c hc, ← hiff]

end relax

/-! ### the loop invariant -/

section inv
variable (n : Nat) (P : Nat → List Nat) (push : Nat → Bool)

/-- Invariant of the `while` loop of `build_ranked_graph`. -/
structure Inv (s : St) : Prop where
  rnodup : s.ranked.Nodup
  qnodup : (s.qp ++ s.q).Nodup
  bound : ∀ c, (c ∈ s.ranked ∨ c ∈ s.qp ++ s.q) → c < n
  /-- the counter of every node is its number of un-ranked producer occurrences -/
  indeg : ∀ c, c < n → s.indeg c = (pending P s.ranked c : Int)
  /-- the queues hold exactly the un-ranked nodes whose producers are all ranked -/
  queued : ∀ c, c < n → (c ∈ s.qp ++ s.q ↔ (pending P s.ranked c = 0 ∧ c ∉ s.ranked))
  qpPush : ∀ c ∈ s.qp, push c = true
  qNot : ∀ c ∈ s.q, push c = false
  /-- every ranked node comes after all of its producers -/
  fwd : ∀ c ∈ s.ranked, ∀ p ∈ P c, p ∈ s.ranked ∧ s.ranked.idxOf p < s.ranked.idxOf c
  pfx : s.ranked.Pairwise (fun a b => push b = true → push a = true)
  qpAll : s.qp ≠ [] → ∀ c ∈ s.ranked, push c = true

variable {n P push}

theorem inv_init : Inv n P push (initSt n P push) := by
  refine ⟨List.nodup_nil, ?_, ?_, ?_, ?_, ?_, ?_, ?_, List.Pairwise.nil, ?_⟩
  · simp only [initSt]
    rw [List.nodup_append]
    refine ⟨List.Nodup.sublist List.filter_sublist List.nodup_range,
      List.Nodup.sublist List.filter_sublist List.nodup_range, ?_⟩
    intro a ha b hb hab
    subst hab
    have h1 := (List.mem_filter.mp ha).2
    have h2 := (List.mem_filter.mp hb).2
    simp at h1 h2
    rw [h1.1] at h2; simp at h2
  · intro c hc
    simp only [initSt, List.not_mem_nil, false_or, List.mem_append, List.mem_filter, List.mem_range] at hc
    rcases hc with h | h <;> exact h.1
  · intro c _
    simp [initSt, pending_nil]
  · intro c hc
    simp only [initSt, List.mem_append, List.mem_filter, List.mem_range, pending_nil, List.not_mem_nil,
      not_false_eq_true, and_true]
    cases hp : push c <;> simp [hc]
  · intro c hc
    have := (List.mem_filter.mp hc).2
    simp at this; exact this.1
  · intro c hc
    have := (List.mem_filter.mp hc).2
    simp at this; exact this.1
  · intro c hc; simp [initSt] at hc
  · intro _ c hc; simp [initSt] at hc

/-- one pop: `x` leaves the front of the queues, is appended to `ranked`, its consumers are relaxed -/
theorem inv_pop (_hP : ∀ c p, p ∈ P c → p < n) (hpush : ∀ c, c < n → push c = true → P c = [])
    {s : St} (hI : Inv n P push s) (x : Nat) (qp' q' : List Nat)
    (hsplit : s.qp ++ s.q = x :: (qp' ++ q'))
    (hqp' : ∀ c ∈ qp', push c = true) (hq' : ∀ c ∈ q', push c = false)
    (hpre : (qp' ≠ [] ∨ push x = true) → (∀ c ∈ s.ranked, push c = true) ∧ push x = true) :
    Inv n P push (relaxAll push { s with qp := qp', q := q', ranked := s.ranked ++ [x] } (consumersOf n P x)) := by
  -- facts about x
  have hxq : x ∈ s.qp ++ s.q := by rw [hsplit]; exact List.mem_cons_self
  have hxn : x < n := hI.bound x (Or.inr hxq)
  have hxfacts := (hI.queued x hxn).mp hxq
  have hxr : x ∉ s.ranked := hxfacts.2
  have hnd := hI.qnodup
  rw [hsplit] at hnd
  have hxrest : x ∉ qp' ++ q' := (List.nodup_cons.mp hnd).1
  have hrestnd : (qp' ++ q').Nodup := (List.nodup_cons.mp hnd).2
  have hrest_sub : ∀ c, c ∈ qp' ++ q' → c ∈ s.qp ++ s.q := by
    intro c hc; rw [hsplit]; exact List.mem_cons_of_mem _ hc
  -- the state before relaxing and the consumers list
  generalize hs0 : ({ s with qp := qp', q := q', ranked := s.ranked ++ [x] } : St) = s0
  have hs0r : s0.ranked = s.ranked ++ [x] := by rw [← hs0]
  have hs0qp : s0.qp = qp' := by rw [← hs0]
  have hs0q : s0.q = q' := by rw [← hs0]
  have hs0i : s0.indeg = s.indeg := by rw [← hs0]
  generalize hcs : consumersOf n P x = cs
  have hcount : ∀ c, cs.count c = if c < n then (P c).count x else 0 := by
    intro c; rw [← hcs]; exact count_consumersOf n P x c
  have hmem : ∀ c, c ∈ cs ↔ c < n ∧ x ∈ P c := by
    intro c; rw [← hcs]; exact mem_consumersOf
  have hpa : ∀ c, pending P (s.ranked ++ [x]) c + (P c).count x = pending P s.ranked c :=
    fun c => pending_append P s.ranked x c hxr
  have hunder : ∀ c ∈ cs, (cs.count c : Int) ≤ s0.indeg c := by
    intro c hc
    have hcn := ((hmem c).mp hc).1
    rw [hs0i, hI.indeg c hcn, hcount c]
    have := hpa c
    simp only [hcn, if_true]; omega
  obtain ⟨np, nq, hqp, hqq, hnp, hnq, hpp, hpq, hiff⟩ := relaxAll_queues push cs s0 hunder
  have hrk : (relaxAll push s0 cs).ranked = s.ranked ++ [x] := by rw [relaxAll_ranked, hs0r]
  have hind : ∀ c, c < n → (relaxAll push s0 cs).indeg c = (pending P (s.ranked ++ [x]) c : Int) := by
    intro c hc
    rw [relaxAll_indeg, hs0i, hI.indeg c hc, hcount c]
    have := hpa c
    simp only [hc, if_true]; omega
  -- characterisation of the newly queued nodes
  have hnew : ∀ c, (c ∈ np ∨ c ∈ nq) ↔ (c < n ∧ 0 < (P c).count x ∧ pending P (s.ranked ++ [x]) c = 0) := by
    intro c
    rw [hiff, hmem]
    constructor
    · rintro ⟨⟨hcn, hxc⟩, he⟩
      rw [hs0i, hI.indeg c hcn, hcount c] at he
      simp only [hcn, if_true] at he
      have := hpa c
      exact ⟨hcn, List.count_pos_iff.mpr hxc, by omega⟩
    · rintro ⟨hcn, hpos, hz⟩
      refine ⟨⟨hcn, List.count_pos_iff.mp hpos⟩, ?_⟩
      rw [hs0i, hI.indeg c hcn, hcount c]
      have := hpa c
      simp only [hcn, if_true]; omega
  have hnew_unranked : ∀ c, (c ∈ np ∨ c ∈ nq) → c < n ∧ c ∉ s.ranked ∧ c ≠ x ∧ c ∉ qp' ++ q' := by
    intro c hc
    obtain ⟨hcn, hpos, _⟩ := (hnew c).mp hc
    have hxc : x ∈ P c := List.count_pos_iff.mp hpos
    have hpend : pending P s.ranked c ≠ 0 := by
      intro h0
      exact hxr (pending_eq_zero.mp h0 x hxc)
    refine ⟨hcn, ?_, ?_, ?_⟩
    · intro hcr
      exact hxr (hI.fwd c hcr x hxc).1
    · rintro rfl
      exact hpend hxfacts.1
    · intro hcq
      exact hpend ((hI.queued c hcn).mp (hrest_sub c hcq)).1
  have hnp_nopush : np = [] := by
    cases hnpe : np with
    | nil => rfl
    | cons c t =>
      exfalso
      have hc : c ∈ np := by rw [hnpe]; exact List.mem_cons_self
      obtain ⟨hcn, hpos, _⟩ := (hnew c).mp (Or.inl hc)
      have := hpush c hcn (hpp c hc)
      rw [this] at hpos; simp at hpos
  refine ⟨?_, ?_, ?_, ?_, ?_, ?_, ?_, ?_, ?_, ?_⟩
  · -- ranked stays duplicate-free
    rw [hrk, List.nodup_append]
    refine ⟨hI.rnodup, List.nodup_cons.mpr ⟨List.not_mem_nil, List.nodup_nil⟩, ?_⟩
    intro a ha b hb hab
    rw [List.mem_singleton] at hb
    subst hb; subst hab; exact hxr ha
  · -- queues stay duplicate-free
    rw [hqp, hqq, hs0qp, hs0q, List.nodup_iff_count]
    intro a
    have h1 := List.nodup_iff_count.mp hrestnd a
    have h2 := List.nodup_iff_count.mp hnp a
    have h3 := List.nodup_iff_count.mp hnq a
    simp only [List.count_append] at h1 ⊢
    by_cases ha : a ∈ np ∨ a ∈ nq
    · have hnot := (hnew_unranked a ha).2.2.2
      have h4 : List.count a qp' + List.count a q' = 0 := by
        have := List.count_eq_zero.mpr hnot
        simpa [List.count_append] using this
      rcases ha with ha | ha
      · have : List.count a nq = 0 := by
          apply List.count_eq_zero.mpr
          intro h; have := hpp a ha; rw [hpq a h] at this; exact absurd this (by simp)
        omega
      · have : List.count a np = 0 := by
          apply List.count_eq_zero.mpr
          intro h; have := hpp a h; rw [hpq a ha] at this; exact absurd this (by simp)
        omega
    · have h5 : List.count a np = 0 := List.count_eq_zero.mpr (fun h => ha (Or.inl h))
      have h6 : List.count a nq = 0 := List.count_eq_zero.mpr (fun h => ha (Or.inr h))
      omega
  · -- bounds
    intro c hc
    rw [hrk, hqp, hqq, hs0qp, hs0q] at hc
    simp only [List.mem_append, List.mem_singleton] at hc
    rcases hc with (h | h) | (h | h) | (h | h)
    · exact hI.bound c (Or.inl h)
    · exact h ▸ hxn
    · exact hI.bound c (Or.inr (hrest_sub c (List.mem_append_left _ h)))
    · exact (hnew_unranked c (Or.inl h)).1
    · exact hI.bound c (Or.inr (hrest_sub c (List.mem_append_right _ h)))
    · exact (hnew_unranked c (Or.inr h)).1
  · intro c hc; rw [hrk]; exact hind c hc
  · -- queued ↔ ready
    intro c hc
    rw [hrk, hqp, hqq, hs0qp, hs0q]
    have hpac := hpa c
    constructor
    · intro hmemq
      have hcases : c ∈ qp' ++ q' ∨ (c ∈ np ∨ c ∈ nq) := by
        simp only [List.mem_append] at hmemq ⊢
        rcases hmemq with (h | h) | (h | h)
        · exact Or.inl (Or.inl h)
        · exact Or.inr (Or.inl h)
        · exact Or.inl (Or.inr h)
        · exact Or.inr (Or.inr h)
      rcases hcases with h | h
      · have hold := (hI.queued c hc).mp (hrest_sub c h)
        refine ⟨by omega, ?_⟩
        simp only [List.mem_append, List.mem_singleton, not_or]
        exact ⟨hold.2, fun e => hxrest (e ▸ h)⟩
      · refine ⟨((hnew c).mp h).2.2, ?_⟩
        have := hnew_unranked c h
        simp only [List.mem_append, List.mem_singleton, not_or]
        exact ⟨this.2.1, this.2.2.1⟩
    · rintro ⟨hz, hnr⟩
      simp only [List.mem_append, List.mem_singleton, not_or] at hnr
      by_cases hpos : 0 < (P c).count x
      · have := (hnew c).mpr ⟨hc, hpos, hz⟩
        simp only [List.mem_append]
        rcases this with h | h
        · exact Or.inl (Or.inr h)
        · exact Or.inr (Or.inr h)
      · have hz' : pending P s.ranked c = 0 := by omega
        have hold := (hI.queued c hc).mpr ⟨hz', hnr.1⟩
        rw [hsplit] at hold
        rcases List.mem_cons.mp hold with h | h
        · exact absurd h hnr.2
        · simp only [List.mem_append] at h ⊢
          rcases h with h | h
          · exact Or.inl (Or.inl h)
          · exact Or.inr (Or.inl h)
  · intro c hc
    rw [hqp, hs0qp, hnp_nopush, List.append_nil] at hc
    exact hqp' c hc
  · intro c hc
    rw [hqq, hs0q] at hc
    rcases List.mem_append.mp hc with h | h
    · exact hq' c h
    · exact hpq c h
  · -- producers first
    intro c hc p hp
    rw [hrk] at hc ⊢
    rcases List.mem_append.mp hc with h | h
    · obtain ⟨hpr, hlt⟩ := hI.fwd c h p hp
      refine ⟨List.mem_append_left _ hpr, ?_⟩
      rw [List.idxOf_append, List.idxOf_append]
      simp only [hpr, h, if_true]; exact hlt
    · rw [List.mem_singleton] at h; subst h
      have hpr : p ∈ s.ranked := pending_eq_zero.mp hxfacts.1 p hp
      refine ⟨List.mem_append_left _ hpr, ?_⟩
      rw [List.idxOf_append, List.idxOf_append]
      simp only [hpr, hxr, if_true, if_false]
      have := List.idxOf_lt_length_iff.mpr hpr
      omega
  · -- push sources stay a prefix
    rw [hrk, List.pairwise_append]
    refine ⟨hI.pfx, List.pairwise_singleton _ _, ?_⟩
    intro a ha b hb hpb
    rw [List.mem_singleton] at hb; subst hb
    exact (hpre (Or.inr hpb)).1 a ha
  · intro hne c hc
    rw [hqp, hs0qp, hnp_nopush, List.append_nil] at hne
    have := hpre (Or.inl hne)
    rw [hrk] at hc
    rcases List.mem_append.mp hc with h | h
    · exact this.1 c h
    · rw [List.mem_singleton] at h; subst h; exact this.2

theorem inv_step (hP : ∀ c p, p ∈ P c → p < n) (hpush : ∀ c, c < n → push c = true → P c = [])
    {s s' : St} (hI : Inv n P push s) (hstep : step n P push s = some s') : Inv n P push s' := by
  unfold step at hstep
  cases hqp : s.qp with
  | cons x qp' =>
    simp only [hqp] at hstep
    injection hstep with hstep; subst hstep
    refine inv_pop hP hpush hI x qp' s.q (by rw [hqp]; rfl) ?_ hI.qNot ?_
    · intro c hc; exact hI.qpPush c (by rw [hqp]; exact List.mem_cons_of_mem _ hc)
    · intro _
      exact ⟨hI.qpAll (by rw [hqp]; simp), hI.qpPush x (by rw [hqp]; exact List.mem_cons_self)⟩
  | nil =>
    cases hq : s.q with
    | cons x q' =>
      simp only [hqp, hq] at hstep
      injection hstep with hstep; subst hstep
      have := inv_pop hP hpush hI x [] q' (by rw [hqp, hq]; rfl) (by simp) ?_ ?_
      · exact this
      · intro c hc; exact hI.qNot c (by rw [hq]; exact List.mem_cons_of_mem _ hc)
      · intro h
        rcases h with h | h
        · exact absurd rfl h
        · have := hI.qNot x (by rw [hq]; exact List.mem_cons_self)
          rw [this] at h; exact absurd h (by simp)
    | nil =>
      simp only [hqp, hq] at hstep
      exact absurd hstep (by simp)

theorem step_ranked_length {s s' : St} (hstep : step n P push s = some s') :
    s'.ranked.length = s.ranked.length + 1 := by
  unfold step at hstep
  split at hstep
  · injection hstep with hstep; subst hstep; simp [relaxAll_ranked]
  · injection hstep with hstep; subst hstep; simp [relaxAll_ranked]
  · exact absurd hstep (by simp)

theorem step_none {s : St} (hstep : step n P push s = none) : s.qp = [] ∧ s.q = [] := by
  unfold step at hstep
  split at hstep
  · exact absurd hstep (by simp)
  · exact absurd hstep (by simp)
  · rename_i h1 h2; exact ⟨h1, h2⟩

theorem inv_loop (hP : ∀ c p, p ∈ P c → p < n) (hpush : ∀ c, c < n → push c = true → P c = [])
    (f : Nat) {s : St} (hI : Inv n P push s) : Inv n P push (loop n P push f s) := by
  induction f generalizing s with
  | zero => exact hI
  | succ f ih =>
    unfold loop
    cases hstep : step n P push s with
    | none => exact hI
    | some s' => exact ih (inv_step hP hpush hI hstep)

/-- when every node is ranked, nothing is left in the queues -/
theorem queues_empty_of_full {s : St} (hI : Inv n P push s) (hlen : n ≤ s.ranked.length) :
    s.qp = [] ∧ s.q = [] := by
  have hall : ∀ c, c ∈ s.qp ++ s.q → False := by
    intro c hc
    have hcn := hI.bound c (Or.inr hc)
    have := ((hI.queued c hcn).mp hc).2
    exact this (mem_of_nodup_bounded_full hI.rnodup (fun x hx => hI.bound x (Or.inl hx)) hlen hcn)
  have : s.qp ++ s.q = [] := by
    cases h : s.qp ++ s.q with
    | nil => rfl
    | cons a t => exact absurd (hall a (by rw [h]; exact List.mem_cons_self)) id
  exact List.append_eq_nil_iff.mp this

/-- The fuel is never what stops the loop: it ends with both queues empty, as the `while` does. -/
theorem loop_queues_empty (hP : ∀ c p, p ∈ P c → p < n) (hpush : ∀ c, c < n → push c = true → P c = [])
    (f : Nat) {s : St} (hI : Inv n P push s) (hf : n ≤ s.ranked.length + f) :
    (loop n P push f s).qp = [] ∧ (loop n P push f s).q = [] := by
  induction f generalizing s with
  | zero =>
    simp only [loop]
    exact queues_empty_of_full hI (by simpa using hf)
  | succ f ih =>
    unfold loop
    cases hstep : step n P push s with
    | none => exact step_none hstep
    | some s' =>
      refine ih (inv_step hP hpush hI hstep) ?_
      rw [step_ranked_length hstep]; omega

end inv

/-! ### push-source prefix on lists -/

theorem pushEndAux_of_pairwise (push : Nat → Bool) (l : List Nat)
    (hp : l.Pairwise (fun a b => push b = true → push a = true)) (k : Nat) (seen : Bool)
    (hseen : seen = true → ∀ x ∈ l, push x = false) :
    pushEndAux push l k seen = .ok (k + l.countP push) := by
  induction l generalizing k seen with
  | nil => simp [pushEndAux]
  | cons x t ih =>
    rw [List.pairwise_cons] at hp
    unfold pushEndAux
    by_cases hx : push x = true
    · have hns : seen = false := by
        cases seen with
        | false => rfl
        | true => have := hseen rfl x List.mem_cons_self; rw [this] at hx; exact absurd hx (by simp)
      simp only [hx, if_true, hns, Bool.false_eq_true, if_false, List.countP_cons]
      rw [ih hp.2 (k + 1) false (by simp)]
      congr 1; omega
    · have hx' : push x = false := by simpa using hx
      have hall : ∀ y ∈ t, push y = false := by
        intro y hy
        cases hpy : push y with
        | false => rfl
        | true => exact absurd (hp.1 y hy hpy) hx
      simp only [hx', Bool.false_eq_true, if_false, List.countP_cons]
      rw [ih hp.2 k true (fun _ => hall)]
      simp

theorem prefix_get_of_pairwise (push : Nat → Bool) (l : List Nat)
    (hp : l.Pairwise (fun a b => push b = true → push a = true)) (i : Nat) (h : i < l.length) :
    push l[i] = decide (i < l.countP push) := by
  induction l generalizing i with
  | nil => simp at h
  | cons x t ih =>
    rw [List.pairwise_cons] at hp
    by_cases hx : push x = true
    · cases i with
      | zero => simp [hx]
      | succ i =>
        simp only [List.getElem_cons_succ, List.countP_cons, hx, if_true]
        rw [ih hp.2 i (by simpa using h)]
        simp
    · have hx' : push x = false := by simpa using hx
      have hall : ∀ y ∈ t, push y = false := by
        intro y hy
        cases hpy : push y with
        | false => rfl
        | true => exact absurd (hp.1 y hy hpy) hx
      have hz : t.countP push = 0 := List.countP_eq_zero.mpr (fun y hy => by simp [hall y hy])
      simp only [List.countP_cons, hx', Bool.false_eq_true, if_false, hz]
      cases i with
      | zero => simp [hx']
      | succ i =>
        have hi : i < t.length := by simpa using h
        simp [hall t[i] (List.getElem_mem hi)]

theorem transGen_lt {α : Type} {r : α → α → Prop} (f : α → Nat) (hr : ∀ a b, r a b → f a < f b) {a b : α}
    (h : Relation.TransGen r a b) : f a < f b := by
  induction h with
  | single h => exact hr _ _ h
  | tail _ h ih => exact Nat.lt_trans ih (hr _ _ h)

end HgVerif.Rank
