import HgVerif.Model.FeedbackRef
import HgVerif.Props.C08Shape
/-!
Lemmas for `Props/C08Ref.lean`: association lists read extensionally (`look`), `apply_delta` respects that reading,
replaying an output's own delta / a re-bind difference onto an equivalent value reproduces the output.
-/
namespace HgVerif.FeedbackRef

open HgVerif.FeedbackShape

/-! ## lookups -/

theorem hasKey_eq (p : Pos) (m : List (Pos × Int)) : hasKey p m = (getKey p m).isSome := by
  induction m with
  | nil => rfl
  | cons e r ih =>
    obtain ⟨q, w⟩ := e
    by_cases h : p = q
    · subst h; simp [hasKey, getKey]
    · have h' : (q == p) = false := by simpa using fun hh : q = p => h hh.symm
      simp only [hasKey, List.any_cons, getKey, h, if_false, h', Bool.false_or] at ih ⊢
      exact ih

theorem getKey_eraseKey (p q : Pos) (m : List (Pos × Int)) :
    getKey p (eraseKey q m) = if p = q then none else getKey p m := by
  induction m with
  | nil => simp [eraseKey, getKey]
  | cons e r ih =>
    obtain ⟨a, w⟩ := e
    simp only [eraseKey] at ih
    by_cases ha : a = q
    · subst ha
      simp only [eraseKey, List.filter_cons, bne_self_eq_false, Bool.false_eq_true, if_false, ih, getKey]
      by_cases hp : p = a <;> simp [hp]
    · have : (a != q) = true := by simpa using ha
      simp only [eraseKey, List.filter_cons, this, if_true, getKey, ih]
      by_cases hp : p = a
      · subst hp; simp [ha]
      · simp [hp]

theorem hasKey_setKey (p q : Pos) (x : Int) (m : List (Pos × Int)) :
    hasKey p (setKey q x m) = (decide (p = q) || hasKey p m) := by
  rw [hasKey_eq, hasKey_eq, getKey_setKey]
  by_cases h : p = q <;> simp [h]

theorem hasKey_eraseKey (p q : Pos) (m : List (Pos × Int)) :
    hasKey p (eraseKey q m) = (!decide (p = q) && hasKey p m) := by
  rw [hasKey_eq, hasKey_eq, getKey_eraseKey]
  by_cases h : p = q <;> simp [h]

theorem hasKey_of_mem_keys {p : Pos} {m : List (Pos × Int)} (h : p ∈ keysOf m) : hasKey p m = true := by
  simp only [keysOf, List.mem_map] at h
  obtain ⟨e, he, rfl⟩ := h
  simp only [hasKey, List.any_eq_true]
  exact ⟨e, he, by simp⟩

theorem mem_keys_of_hasKey {p : Pos} {m : List (Pos × Int)} (h : hasKey p m = true) : p ∈ keysOf m := by
  simp only [hasKey, List.any_eq_true] at h
  obtain ⟨e, he, hp⟩ := h
  simp only [keysOf, List.mem_map]
  exact ⟨e, he, by simpa using hp⟩

/-- what a consumer can read of an association list: the value of a position; for a `TSS` only membership -/
def look (k : Kind) (m : List (Pos × Int)) (p : Pos) : Option Int :=
  match k with
  | .set => if hasKey p m then some 0 else none
  | _ => getKey p m

/-- the two lists read the same -/
def LEq (k : Kind) (m m' : List (Pos × Int)) : Prop := ∀ p, look k m p = look k m' p

/-- two output values a consumer cannot tell apart -/
def Equiv (k : Kind) (x y : Val) : Prop := x.valid = y.valid ∧ LEq k x.items y.items

theorem LEq.refl (k : Kind) (m : List (Pos × Int)) : LEq k m m := fun _ => rfl
theorem LEq.symm {k : Kind} {m m' : List (Pos × Int)} (h : LEq k m m') : LEq k m' m := fun p => (h p).symm
theorem LEq.trans {k : Kind} {a b c : List (Pos × Int)} (h : LEq k a b) (h' : LEq k b c) : LEq k a c :=
  fun p => (h p).trans (h' p)
theorem Equiv.refl (k : Kind) (x : Val) : Equiv k x x := ⟨rfl, LEq.refl k _⟩
theorem Equiv.symm {k : Kind} {x y : Val} (h : Equiv k x y) : Equiv k y x := ⟨h.1.symm, h.2.symm⟩
theorem Equiv.trans {k : Kind} {x y z : Val} (h : Equiv k x y) (h' : Equiv k y z) : Equiv k x z :=
  ⟨h.1.trans h'.1, h.2.trans h'.2⟩

theorem LEq.hasKey {k : Kind} {m m' : List (Pos × Int)} (h : LEq k m m') (p : Pos) : hasKey p m = hasKey p m' := by
  have := h p
  cases k
  · simp only [look] at this; rw [hasKey_eq, hasKey_eq, this]
  · simp only [look] at this
    cases h1 : FeedbackShape.hasKey p m <;> cases h2 : FeedbackShape.hasKey p m' <;> simp_all
  · simp only [look] at this; rw [hasKey_eq, hasKey_eq, this]

theorem look_setKey (k : Kind) (p q : Pos) (x : Int) (m : List (Pos × Int)) :
    look k (setKey q x m) p = if p = q then some (if k = .set then 0 else x) else look k m p := by
  cases k
  · simp [look, getKey_setKey]
  · simp only [look, hasKey_setKey]
    by_cases h : p = q <;> simp [h]
  · simp [look, getKey_setKey]

theorem look_eraseKey (k : Kind) (p q : Pos) (m : List (Pos × Int)) :
    look k (eraseKey q m) p = if p = q then none else look k m p := by
  cases k
  · simp [look, getKey_eraseKey]
  · simp only [look, hasKey_eraseKey]
    by_cases h : p = q <;> simp [h]
  · simp [look, getKey_eraseKey]

theorem LEq.setKey {k : Kind} {m m' : List (Pos × Int)} (h : LEq k m m') (q : Pos) (x : Int) :
    LEq k (setKey q x m) (setKey q x m') := by
  intro p; rw [look_setKey, look_setKey, h p]

theorem LEq.eraseKey {k : Kind} {m m' : List (Pos × Int)} (h : LEq k m m') (q : Pos) :
    LEq k (eraseKey q m) (eraseKey q m') := by
  intro p; rw [look_eraseKey, look_eraseKey, h p]

theorem LEq.foldl_set {k : Kind} (f : Pos × Int → Int) (l : List (Pos × Int)) :
    ∀ {m m' : List (Pos × Int)}, LEq k m m' →
      LEq k (l.foldl (fun m e => FeedbackShape.setKey e.1 (f e) m) m) (l.foldl (fun m e => FeedbackShape.setKey e.1 (f e) m) m') := by
  induction l with
  | nil => intro m m' h; exact h
  | cons e r ih => intro m m' h; exact ih (h.setKey e.1 (f e))

theorem LEq.foldl_erase {k : Kind} (l : List Pos) :
    ∀ {m m' : List (Pos × Int)}, LEq k m m' →
      LEq k (l.foldl (fun m p => FeedbackShape.eraseKey p m) m) (l.foldl (fun m p => FeedbackShape.eraseKey p m) m') := by
  induction l with
  | nil => intro m m' h; exact h
  | cons e r ih => intro m m' h; exact ih (h.eraseKey e)

theorem look_foldl_erase (k : Kind) (l : List Pos) :
    ∀ (m : List (Pos × Int)) (p : Pos),
      look k (l.foldl (fun m q => eraseKey q m) m) p = if p ∈ l then none else look k m p := by
  induction l with
  | nil => intro m p; simp
  | cons e r ih =>
    intro m p
    simp only [List.foldl_cons, ih, look_eraseKey, List.mem_cons]
    by_cases h1 : p ∈ r <;> by_cases h2 : p = e <;> simp [h1, h2]

theorem hasKey_foldl_erase (l : List Pos) (m : List (Pos × Int)) (p : Pos) :
    hasKey p (l.foldl (fun m q => eraseKey q m) m) = (!decide (p ∈ l) && hasKey p m) := by
  have := look_foldl_erase .set l m p
  simp only [look] at this
  by_cases h : p ∈ l
  · simp only [h, if_true] at this
    cases h1 : hasKey p (l.foldl (fun m q => eraseKey q m) m) <;> simp_all
  · simp only [h, if_false] at this
    cases h1 : hasKey p (l.foldl (fun m q => eraseKey q m) m) <;> cases h2 : hasKey p m <;> simp_all

/-- a `TSS` add of the elements of `l` -/
theorem hasKey_foldl_set0 (l : List (Pos × Int)) :
    ∀ (m : List (Pos × Int)) (p : Pos),
      hasKey p (l.foldl (fun m e => setKey e.1 0 m) m) = (decide (p ∈ keysOf l) || hasKey p m) := by
  induction l with
  | nil => intro m p; simp [keysOf]
  | cons e r ih =>
    intro m p
    simp only [List.foldl_cons, ih, hasKey_setKey, keysOf, List.map_cons, List.mem_cons]
    by_cases h1 : p = e.1 <;> by_cases h2 : p ∈ List.map (fun x => x.1) r <;> simp [h1, h2]

/-! ## key-sorted lists -/

def Sorted (m : List (Pos × Int)) : Prop := m.Pairwise (fun x y => x.1 < y.1)

theorem mem_setKey {q : Pos} {x : Int} {m : List (Pos × Int)} {e : Pos × Int} (h : e ∈ setKey q x m) :
    e = (q, x) ∨ e ∈ m := by
  induction m with
  | nil => simp [setKey] at h; exact Or.inl h
  | cons c r ih =>
    obtain ⟨a, w⟩ := c
    simp only [setKey] at h
    by_cases h1 : q < a
    · simp only [h1, if_true, List.mem_cons] at h
      rcases h with h | h | h
      · exact Or.inl h
      · exact Or.inr (by simp [h])
      · exact Or.inr (by simp [h])
    · by_cases h2 : q = a
      · subst h2
        simp only [Nat.lt_irrefl, if_false, if_true, List.mem_cons] at h
        rcases h with h | h
        · exact Or.inl h
        · exact Or.inr (by simp [h])
      · simp only [h1, h2, if_false, List.mem_cons] at h
        rcases h with h | h
        · exact Or.inr (by simp [h])
        · rcases ih h with h | h
          · exact Or.inl h
          · exact Or.inr (by simp [h])

theorem Sorted.setKey {m : List (Pos × Int)} (h : Sorted m) (q : Pos) (x : Int) : Sorted (setKey q x m) := by
  induction m with
  | nil => simp [FeedbackShape.setKey, Sorted]
  | cons c r ih =>
    obtain ⟨a, w⟩ := c
    have hr : Sorted r := (List.pairwise_cons.mp h).2
    have ha : ∀ e ∈ r, a < e.1 := (List.pairwise_cons.mp h).1
    simp only [FeedbackShape.setKey]
    by_cases h1 : q < a
    · simp only [h1, if_true]
      refine List.pairwise_cons.mpr ⟨?_, h⟩
      intro e he
      rcases List.mem_cons.mp he with he | he
      · subst he; exact h1
      · exact Nat.lt_trans h1 (ha e he)
    · by_cases h2 : q = a
      · subst h2
        simp only [h1, if_false, if_true]
        exact List.pairwise_cons.mpr ⟨ha, hr⟩
      · simp only [h1, h2, if_false]
        refine List.pairwise_cons.mpr ⟨?_, ih hr⟩
        intro e he
        rcases mem_setKey he with he | he
        · subst he; exact Nat.lt_of_le_of_ne (Nat.le_of_not_lt h1) (fun hh => h2 hh.symm)
        · exact ha e he

theorem Sorted.eraseKey {m : List (Pos × Int)} (h : Sorted m) (q : Pos) : Sorted (eraseKey q m) :=
  List.Pairwise.filter _ h

theorem Sorted.foldl_set (f : Pos × Int → Int) (l : List (Pos × Int)) :
    ∀ {m : List (Pos × Int)}, Sorted m → Sorted (l.foldl (fun m e => FeedbackShape.setKey e.1 (f e) m) m) := by
  induction l with
  | nil => intro m h; exact h
  | cons e r ih => intro m h; exact ih (h.setKey e.1 (f e))

theorem Sorted.foldl_erase (l : List Pos) :
    ∀ {m : List (Pos × Int)}, Sorted m → Sorted (l.foldl (fun m p => FeedbackShape.eraseKey p m) m) := by
  induction l with
  | nil => intro m h; exact h
  | cons e r ih => intro m h; exact ih (h.eraseKey e)

theorem applyCore_sorted (k : Kind) (v : Val) (d : Delta) (h : Sorted v.items) : Sorted (applyCore k v d).1.items := by
  cases k
  · exact Sorted.foldl_set (fun e => e.2) d.mods h
  · exact Sorted.foldl_set (fun _ => 0) _ (Sorted.foldl_erase d.rems h)
  · exact Sorted.foldl_set (fun e => e.2) d.mods (Sorted.foldl_erase d.rems h)

/-- in a key-sorted list the first and the last entry of a position are the same entry -/
theorem lastWrite_eq_getKey {m : List (Pos × Int)} (h : Sorted m) (p : Pos) : lastWrite p m = getKey p m := by
  induction m with
  | nil => rfl
  | cons c r ih =>
    obtain ⟨a, w⟩ := c
    have hr : Sorted r := (List.pairwise_cons.mp h).2
    have ha : ∀ e ∈ r, a < e.1 := (List.pairwise_cons.mp h).1
    simp only [lastWrite, getKey, ih hr]
    by_cases hp : p = a
    · subst hp
      have : getKey p r = none := by
        cases hg : getKey p r with
        | none => rfl
        | some x =>
          have hk : hasKey p r = true := by rw [hasKey_eq, hg]; rfl
          have := mem_keys_of_hasKey hk
          simp only [keysOf, List.mem_map] at this
          obtain ⟨e, he, hpe⟩ := this
          have h3 : p < e.1 := ha e he
          have hpe' : e.1 = p := hpe
          rw [hpe'] at h3
          exact absurd h3 (Nat.lt_irrefl p)
      simp [this]
    · simp only [hp, if_false]
      cases getKey p r <;> rfl

/-! ## `apply_delta` reads its output only through `look` -/

theorem filter_congr' {α : Type} {p q : α → Bool} {l : List α} (h : ∀ x ∈ l, p x = q x) : l.filter p = l.filter q :=
  List.filter_congr h

/-- E1: on two values a consumer cannot tell apart, `applyCore` reports the same delta and yields values a consumer
    cannot tell apart -/
theorem applyCore_congr (k : Kind) {x y : Val} (h : LEq k x.items y.items) (d : Delta) :
    (applyCore k x d).2 = (applyCore k y d).2 ∧ LEq k (applyCore k x d).1.items (applyCore k y d).1.items := by
  have hk : ∀ p, hasKey p x.items = hasKey p y.items := h.hasKey
  have he : LEq k (d.rems.foldl (fun m p => eraseKey p m) x.items) (d.rems.foldl (fun m p => eraseKey p m) y.items) :=
    LEq.foldl_erase d.rems h
  cases k
  · exact ⟨rfl, LEq.foldl_set (fun e => e.2) d.mods h⟩
  · simp only [applyCore]
    have hf : d.mods.filter (fun e => !hasKey e.1 (d.rems.foldl (fun m p => eraseKey p m) x.items)) =
        d.mods.filter (fun e => !hasKey e.1 (d.rems.foldl (fun m p => eraseKey p m) y.items)) :=
      List.filter_congr (fun e _ => by rw [he.hasKey])
    have hr : d.rems.filter (fun p => hasKey p x.items) = d.rems.filter (fun p => hasKey p y.items) :=
      List.filter_congr (fun p _ => hk p)
    rw [hf, hr]
    exact ⟨rfl, LEq.foldl_set (fun _ => 0) _ he⟩
  · simp only [applyCore]
    have hr : d.rems.filter (fun p => hasKey p x.items) = d.rems.filter (fun p => hasKey p y.items) :=
      List.filter_congr (fun p _ => hk p)
    rw [hr]
    exact ⟨rfl, LEq.foldl_set (fun e => e.2) d.mods he⟩

theorem applyCore_valid (k : Kind) (v : Val) (d : Delta) : (applyCore k v d).1.valid = true := by
  cases k <;> rfl

/-- removing the removals that took effect leaves the same readable contents as removing all of them -/
theorem leq_erase_effective (k : Kind) (rs : List Pos) (m : List (Pos × Int)) :
    LEq k ((rs.filter (fun p => hasKey p m)).foldl (fun m p => eraseKey p m) m) (rs.foldl (fun m p => eraseKey p m) m) := by
  intro p
  rw [look_foldl_erase, look_foldl_erase]
  by_cases h1 : p ∈ rs
  · by_cases h2 : hasKey p m = true
    · have : p ∈ rs.filter (fun p => hasKey p m) := List.mem_filter.mpr ⟨h1, h2⟩
      simp [h1, this]
    · have hn : p ∉ rs.filter (fun p => hasKey p m) := fun hh => h2 (List.mem_filter.mp hh).2
      have hl : look k m p = none := by
        have hg : getKey p m = none := by
          cases hg : getKey p m with
          | none => rfl
          | some x => exact absurd (by rw [hasKey_eq, hg]; rfl) h2
        cases k
        · exact hg
        · simp only [look]; simp [h2]
        · exact hg
      simp [h1, hn, hl]
  · have hn : p ∉ rs.filter (fun p => hasKey p m) := fun hh => h1 (List.mem_filter.mp hh).1
    simp [h1, hn]

/-- E2: replaying the delta an output reported onto the value it had reproduces the report and the output -/
theorem applyCore_replay (k : Kind) (v : Val) (ops : Delta) :
    (applyCore k v (applyCore k v ops).2).2 = (applyCore k v ops).2 ∧
    LEq k (applyCore k v (applyCore k v ops).2).1.items (applyCore k v ops).1.items := by
  cases k
  · exact ⟨rfl, LEq.refl _ _⟩
  · -- set
    have he := leq_erase_effective .set ops.rems v.items
    simp only [applyCore]
    have hrem : (ops.rems.filter (fun p => hasKey p v.items)).filter (fun p => hasKey p v.items) =
        ops.rems.filter (fun p => hasKey p v.items) := by
      rw [List.filter_filter]; exact List.filter_congr (fun p _ => by simp)
    rw [hrem]
    have hadd : ((ops.mods.filter (fun e => !hasKey e.1 (ops.rems.foldl (fun m p => eraseKey p m) v.items))).map
          (fun e => (e.1, (0 : Int)))).filter
          (fun e => !hasKey e.1 ((ops.rems.filter (fun p => hasKey p v.items)).foldl (fun m p => eraseKey p m) v.items)) =
        (ops.mods.filter (fun e => !hasKey e.1 (ops.rems.foldl (fun m p => eraseKey p m) v.items))).map
          (fun e => (e.1, (0 : Int))) := by
      apply List.filter_eq_self.mpr
      intro e he'
      obtain ⟨e0, he0, rfl⟩ := List.mem_map.mp he'
      have := (List.mem_filter.mp he0).2
      rw [he.hasKey]; exact this
    rw [hadd]
    refine ⟨by simp [List.map_map, Function.comp_def], ?_⟩
    intro p
    have hkeys : ∀ l : List (Pos × Int), keysOf (l.map (fun e => (e.1, (0 : Int)))) = keysOf l := by
      intro l; simp [keysOf, List.map_map, Function.comp_def]
    simp only [look, hasKey_foldl_set0, he.hasKey p, hkeys]
  · -- dict
    have he := leq_erase_effective .dict ops.rems v.items
    simp only [applyCore]
    have hrem : (ops.rems.filter (fun p => hasKey p v.items)).filter (fun p => hasKey p v.items) =
        ops.rems.filter (fun p => hasKey p v.items) := by
      rw [List.filter_filter]; exact List.filter_congr (fun p _ => by simp)
    rw [hrem]
    exact ⟨rfl, LEq.foldl_set (fun e => e.2) ops.mods he⟩

theorem getKey_none_of_hasKey {p : Pos} {m : List (Pos × Int)} (h : hasKey p m = false) : getKey p m = none := by
  rw [hasKey_eq] at h
  cases hg : getKey p m with
  | none => rfl
  | some x => rw [hg] at h; cases h

theorem mem_keys_iff (p : Pos) (m : List (Pos × Int)) : p ∈ keysOf m ↔ hasKey p m = true :=
  ⟨hasKey_of_mem_keys, mem_keys_of_hasKey⟩

theorem keysOf_map0 (l : List (Pos × Int)) : keysOf (l.map (fun e => (e.1, (0 : Int)))) = keysOf l := by
  simp [keysOf, List.map_map, Function.comp_def]

/-- the removals of a re-bind difference: keys of the old contents that the new target lacks -/
theorem mem_diffRems (o n : Val) (p : Pos) :
    p ∈ (keysOf o.items).filter (fun p => !hasKey p n.items) ↔ hasKey p o.items = true ∧ hasKey p n.items = false := by
  simp only [List.mem_filter, mem_keys_iff, Bool.not_eq_true']

theorem diffRems_effective (o n : Val) :
    ((keysOf o.items).filter (fun p => !hasKey p n.items)).filter (fun p => hasKey p o.items) =
      (keysOf o.items).filter (fun p => !hasKey p n.items) :=
  List.filter_eq_self.mpr (fun p hp => ((mem_diffRems o n p).mp hp).1)

/-- E3: the re-bind difference from `o` to `n`, applied to `o`, is reported unchanged and yields `n` -/
theorem diff_replay (k : Kind) (o n : Val) (hs : Sorted n.items)
    (hc : k = .fix → ∀ p, hasKey p o.items = true → hasKey p n.items = true) :
    (applyCore k o (diff k o n)).2 = diff k o n ∧ LEq k (applyCore k o (diff k o n)).1.items n.items := by
  cases k
  · -- fix
    refine ⟨rfl, ?_⟩
    intro p
    simp only [look, applyCore, diff, getKey_foldl_setKey, lastWrite_eq_getKey hs]
    cases hg : getKey p n.items with
    | some x => rfl
    | none =>
      show getKey p o.items = none
      cases ho : hasKey p o.items with
      | false => exact getKey_none_of_hasKey ho
      | true =>
        have := hc rfl p ho
        rw [hasKey_eq, hg] at this
        cases this
  · -- set
    simp only [applyCore, diff]
    rw [diffRems_effective]
    have hadd : ((n.items.filter (fun e => !hasKey e.1 o.items)).map (fun e => (e.1, (0 : Int)))).filter
          (fun e => !hasKey e.1 (((keysOf o.items).filter (fun p => !hasKey p n.items)).foldl (fun m p => eraseKey p m) o.items)) =
        (n.items.filter (fun e => !hasKey e.1 o.items)).map (fun e => (e.1, (0 : Int))) := by
      apply List.filter_eq_self.mpr
      intro e he
      obtain ⟨e0, he0, rfl⟩ := List.mem_map.mp he
      have h0 : hasKey e0.1 o.items = false := by simpa using (List.mem_filter.mp he0).2
      simp [hasKey_foldl_erase, h0]
    rw [hadd]
    refine ⟨by simp [List.map_map, Function.comp_def], ?_⟩
    intro p
    simp only [look, hasKey_foldl_set0, hasKey_foldl_erase, keysOf_map0]
    have hA : p ∈ keysOf (n.items.filter (fun e => !hasKey e.1 o.items)) ↔
        hasKey p n.items = true ∧ hasKey p o.items = false := by
      constructor
      · intro h
        simp only [keysOf, List.mem_map, List.mem_filter] at h
        obtain ⟨e, ⟨he, hne⟩, rfl⟩ := h
        exact ⟨hasKey_of_mem_keys (List.mem_map.mpr ⟨e, he, rfl⟩), by simpa using hne⟩
      · rintro ⟨h1, h2⟩
        have := mem_keys_of_hasKey h1
        simp only [keysOf, List.mem_map] at this
        obtain ⟨e, he, rfl⟩ := this
        simp only [keysOf, List.mem_map, List.mem_filter]
        exact ⟨e, ⟨he, by simp [h2]⟩, rfl⟩
    have hR := mem_diffRems o n p
    cases h1 : hasKey p n.items <;> cases h2 : hasKey p o.items <;> simp_all
  · -- dict
    simp only [applyCore, diff]
    rw [diffRems_effective]
    refine ⟨rfl, ?_⟩
    intro p
    simp only [look, getKey_foldl_setKey, lastWrite_eq_getKey hs]
    cases hg : getKey p n.items with
    | some x => rfl
    | none =>
      have hl := look_foldl_erase .dict ((keysOf o.items).filter (fun p => !hasKey p n.items)) o.items p
      simp only [look] at hl
      show getKey p _ = none
      rw [hl]
      have hn : hasKey p n.items = false := by rw [hasKey_eq, hg]; rfl
      by_cases ho : hasKey p o.items = true
      · have : p ∈ (keysOf o.items).filter (fun p => !hasKey p n.items) := (mem_diffRems o n p).mpr ⟨ho, hn⟩
        simp [this]
      · have ho' : hasKey p o.items = false := by simpa using ho
        have : p ∉ (keysOf o.items).filter (fun p => !hasKey p n.items) := fun hh => by
          have := ((mem_diffRems o n p).mp hh).1; rw [ho'] at this; cases this
        simp [this, getKey_none_of_hasKey ho']

end HgVerif.FeedbackRef
